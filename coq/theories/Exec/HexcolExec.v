(* Exec/HexcolExec.v — correspondence checker of family `hexcol` (C34): run an edit program on the
   Vec specification (Hexane/ColSpec.v) and compare, after EVERY edit, the status (0 = returned,
   3 = panicked) and the answers of the queries the harness asked the real column.

   One universal value type serves every column type: nullable columns use [VNull], integer columns
   (u32/u64/i64/usize, plain, prefix and delta) [VInt], String / Vec<u8> / RawColumn bytes [VBytes]
   (a raw column is a column of single bytes [VInt]), boolean columns [VBool].  Every answer is
   rendered as a flat [list val] (numbers as [VInt]) so that one equality decides agreement. *)
From AM Require Import Base.Prelude Hexane.ColSpec.
Local Open Scope N_scope.

Inductive val := VNull | VInt (z : Z) | VBytes (b : list N) | VBool (b : bool).

Definition I (n : N) : val := VInt (Z.of_N n).          (* non-negative integer *)
Definition J (n : N) : val := VInt (- Z.of_N n)%Z.      (* negative integer *)

Definition val_eqb (a b : val) : bool :=
  match a, b with
  | VNull, VNull => true
  | VInt x, VInt y => Z.eqb x y
  | VBytes x, VBytes y => list_eqb N.eqb x y
  | VBool x, VBool y => Bool.eqb x y
  | _, _ => false
  end.

(* Ord of &str / &[u8]: bytewise lexicographic *)
Fixpoint bytes_ltb (a b : list N) : bool :=
  match a, b with
  | _, [] => false
  | [], _ :: _ => true
  | x :: a', y :: b' => if x <? y then true else if y <? x then false else bytes_ltb a' b'
  end.

(* Ord of Option<T>: None first *)
Definition val_ltb (a b : val) : bool :=
  match a, b with
  | VNull, VNull => false
  | VNull, _ => true
  | VInt x, VInt y => Z.ltb x y
  | VBytes x, VBytes y => bytes_ltb x y
  | VBool x, VBool y => negb x && y
  | _, _ => false
  end.

(* PrefixValue::accumulate: integers count themselves, true counts 1, null / false / bytes 0 *)
Definition val_wt (v : val) : Z :=
  match v with VInt z => z | VBool true => 1%Z | _ => 0%Z end.

Definition to_optz (v : val) : option Z := match v with VInt z => Some z | _ => None end.
Definition of_optz (o : option Z) : val := match o with Some z => VInt z | None => VNull end.

Definition nn (n : N) : nat := N.to_nat n.
Definition vnat (n : nat) : val := VInt (Z.of_nat n).

Inductive cop :=
| KSeek (to : N) | KSeekSat (to : N) | KAdvance (n : N) | KDelete (n : N) | KInsertRun (v : val) (n : N) | KReplace (v : val).

Definition cop_spec (c : cop) : cur_op (V := val) :=
  match c with
  | KSeek t => CSeek (nn t)
  | KSeekSat t => CSeekSat (nn t)
  | KAdvance n => CAdvance (nn n)
  | KDelete n => CDelete (nn n)
  | KInsertRun v n => CInsertRun v (nn n)
  | KReplace v => CReplace v
  end.

Inductive edit :=
| ESplice (i del : N) (vals : list val)
| EInsert (i : N) (v : val)
| ERemove (i : N)
| ERemoveN (i n : N)
| EPush (v : val)
| ETruncate (n : N)
| EClear
| EExtend (vals : list val)
| ESpliceRuns (i del : N) (rs : list (N * val))
| EPop
| ECursor (at_ : N) (ops : list cop).

Definition apply_edit (e : edit) (l : list val) : res (list val) :=
  match e with
  | ESplice i del vals => splice (nn i) (nn del) vals l
  | EInsert i v => insert (nn i) v l
  | ERemove i => remove (nn i) l
  | ERemoveN i n => remove_n (nn i) (nn n) l
  | EPush v => push v l
  | ETruncate n => truncate (nn n) l
  | EClear => clear l
  | EExtend vals => extend vals l
  | ESpliceRuns i del rs => splice_runs (nn i) (nn del) (map (fun r => (nn (fst r), snd r)) rs) l
  | EPop => pop l
  | ECursor a ops => edit_session val_eqb (nn a) (map cop_spec ops) l
  end.

Inductive query :=
| QVec                                   (* to_vec *)
| QLen                                   (* len *)
| QGet (i : N)                           (* get(i): [] / [v] *)
| QRange (a b : N)                       (* iter_range(a..b).collect() *)
| QNth (a b k : N)                       (* iter_range(a..b).nth(k) *)
| QRuns (a b : N)                        (* iter_range(a..b).runs(): count, value, ... *)
| QFindAll (v : val) (a b : N)           (* repeated scan_to_value over iter_range(a..b) *)
| QScope (v : val) (a b : N)             (* scope_to_value(v, a..b) on a sorted window: start, end *)
| QIsOnly (v : val)
| QPrefix (i : N)                        (* get_prefix *)
| QTotal (i : N)                         (* get_total *)
| QSumRange (a b : N)
| QIdxPrefix (t : Z)                     (* get_index_for_prefix *)
| QIdxTotal (t : Z)                      (* get_index_for_total *)
| QAccGet (i : N)                        (* PrefixColumn::get: [] / value, prefix, total *)
| QAccRange (a b : N)                    (* PrefixColumn::iter_range: value, total, ... *)
| QAccRuns (a b : N)                     (* PrefixIter::next_run: count, value, total, ... *)
| QAdvPrefix (a b : N) (n : Z)           (* iter_range(a..b).advance_prefix(n): [] / pos, delta, value, total *)
| QDeltaRuns (a b : N)                   (* DeltaIter::next_run: prefix, delta / null, count, ... *)
| QFindRange (lo hi : Z)                 (* DeltaColumn::find_by_range(lo..hi) *)
| QFindValue (v : Z)                     (* DeltaColumn::find_by_value *)
| QFindFirst (v : Z)
| QScanRange (a b : N) (lo hi : Z).      (* iter_range(a..b).scan_to_range(lo..=hi): [] / pos *)

Definition optv (o : option val) : list val := match o with Some v => [v] | None => [] end.
Definition optn (o : option nat) : list val := match o with Some n => [vnat n] | None => [] end.

Definition answer (q : query) (l : list val) : list val :=
  match q with
  | QVec => l
  | QLen => [vnat (length l)]
  | QGet i => optv (get (nn i) l)
  | QRange a b => iter_range (nn a) (nn b) l
  | QNth a b k => optv (iter_nth (nn a) (nn b) (nn k) l)
  | QRuns a b => flat_map (fun r => [vnat (fst r); snd r]) (run_iter val_eqb (nn a) (nn b) l)
  | QFindAll v a b => map vnat (find_all val_eqb v (nn a) (nn b) l)
  | QScope v a b => let r := scope_to_value val_eqb val_ltb v (nn a) (nn b) l in [vnat (fst r); vnat (snd r)]
  | QIsOnly v => [VBool (is_only val_eqb v l)]
  | QPrefix i => [VInt (get_prefix val_wt (nn i) l)]
  | QTotal i => [VInt (get_total val_wt (nn i) l)]
  | QSumRange a b => [VInt (sum_range val_wt (nn a) (nn b) l)]
  | QIdxPrefix t => [vnat (index_for_prefix val_wt t l)]
  | QIdxTotal t => [vnat (index_for_total val_wt t l)]
  | QAccGet i => match get_acc val_wt (nn i) l with
                 | Some (v, p, t) => [v; VInt p; VInt t]
                 | None => []
                 end
  | QAccRange a b => flat_map (fun r => [fst r; VInt (snd r)]) (iter_range_acc val_wt (nn a) (nn b) l)
  | QAccRuns a b => flat_map (fun r => [vnat (fst (fst r)); snd (fst r); VInt (snd r)])
                             (run_iter_acc val_eqb val_wt (nn a) (nn b) l)
  | QAdvPrefix a b n => match advance_prefix val_wt (nn a) (nn b) n l with
                        | Some (p, d, v, t) => [vnat p; VInt d; v; VInt t]
                        | None => []
                        end
  | QDeltaRuns a b => flat_map (fun r => [VInt (fst (fst r)); of_optz (snd (fst r)); vnat (snd r)])
                               (delta_run_iter (nn a) (nn b) (map to_optz l))
  | QFindRange lo hi => map vnat (find_by_range lo hi (map to_optz l))
  | QFindValue v => map vnat (find_by_value v (map to_optz l))
  | QFindFirst v => optn (find_first v (map to_optz l))
  | QScanRange a b lo hi => optn (scan_to_range (nn a) (nn b) lo hi (map to_optz l))
  end.

Definition vals_eqb : list val -> list val -> bool := list_eqb val_eqb.

Definition chk_queries (l : list val) (qs : list (query * list val)) : bool :=
  forallb (fun qa => vals_eqb (answer (fst qa) l) (snd qa)) qs.

(* one step: the edit, what the implementation did (0 = returned, 3 = panicked), and the answers
   it gave afterwards.  After a panic the harness rebuilds the column from its mirror, so the
   specification continues from the unchanged list. *)
Definition step := (edit * N * list (query * list val))%type.

Fixpoint chk_steps (l : list val) (steps : list step) : bool :=
  match steps with
  | [] => true
  | (e, st, qs) :: rest =>
      match apply_edit e l with
      | Ok l' => (st =? 0) && chk_queries l' qs && chk_steps l' rest
      | Panic => (st =? 3) && chk_queries l qs && chk_steps l rest
      | Err => false
      end
  end.

(* value domain of a column kind (guards the harness: a program must only use values of its type).
   kinds: 0 unsigned ints, 1 nullable unsigned, 2 signed, 3 nullable signed, 4 bytes/strings,
   5 nullable bytes/strings, 6 bool, 7 raw bytes (ints < 256) *)
Definition val_ok (kind : N) (v : val) : bool :=
  match kind, v with
  | 0, VInt z => (0 <=? z)%Z
  | 1, VInt z => (0 <=? z)%Z
  | 1, VNull => true
  | 2, VInt _ => true
  | 3, VInt _ => true
  | 3, VNull => true
  | 4, VBytes _ => true
  | 5, VBytes _ => true
  | 5, VNull => true
  | 6, VBool _ => true
  | 7, VInt z => ((0 <=? z) && (z <? 256))%Z
  | _, _ => false
  end.

Definition cop_ok (kind : N) (c : cop) : bool :=
  match c with KInsertRun v _ => val_ok kind v | KReplace v => val_ok kind v | _ => true end.

Definition edit_ok (kind : N) (e : edit) : bool :=
  match e with
  | ESplice _ _ vals => forallb (val_ok kind) vals
  | EInsert _ v => val_ok kind v
  | EPush v => val_ok kind v
  | EExtend vals => forallb (val_ok kind) vals
  | ESpliceRuns _ _ rs => forallb (fun r => val_ok kind (snd r)) rs
  | ECursor _ ops => forallb (cop_ok kind) ops
  | _ => true
  end.

Definition chk_col_prog (kind : N) (init : list val) (steps : list step) : bool :=
  forallb (val_ok kind) init
  && forallb (fun s => edit_ok kind (fst (fst s))) steps
  && chk_steps init steps.

(* diagnosis helper (not used by the check): index of the first disagreeing step and query *)
Fixpoint diag_steps (l : list val) (steps : list step) (n : N) : list N :=
  match steps with
  | [] => []
  | (e, st, qs) :: rest =>
      let r := apply_edit e l in
      let l' := match r with Ok l' => l' | _ => l end in
      let want := match r with Ok _ => 0 | _ => 3 end in
      if negb (st =? want) then [n; 999]
      else match find (fun iq => negb (vals_eqb (answer (fst (snd iq)) l') (snd (snd iq))))
                      (combine (map N.of_nat (seq 0 (length qs))) qs) with
           | Some iq => [n; fst iq]
           | None => diag_steps l' rest (n + 1)
           end
  end.
