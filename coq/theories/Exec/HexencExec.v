(* Exec/HexencExec.v — correspondence checkers of the family `hexenc` (C35): each takes
   an input and what hexane did with it and answers whether the model does the same.
   Status codes: 0 = Ok, 2 = Err, 3 = panic.  Loaded columns are compared as run lists
   (count, value) with adjacent equal runs merged on the harness side. *)
From AM Require Import Base.Prelude Base.Leb128 Hexane.Hleb Hexane.Rle Hexane.BoolCol Hexane.Delta.
Local Open Scope N_scope.

Section Chk.
  Variable V : Type.
  Variable veqb : V -> V -> bool.
  Variable enc : V -> bytes.
  Variable dec : bytes -> option (V * bytes).

  Definition run_eqb (a b : N * option V) : bool :=
    (fst a =? fst b) && option_eqb veqb (snd a) (snd b).
  Definition runs_eqb : list (N * option V) -> list (N * option V) -> bool := list_eqb run_eqb.

  (* a column built from [vals] saved to [wire]: same bytes; the model loader reads the
     wire back as the runs of [vals] *)
  Definition chk_save (nullable : bool) (vals : list (option V)) (wire : bytes) : bool :=
    bytes_eqb (rle_save V veqb enc vals) wire
    && res_eqb runs_eqb (rle_load V veqb dec nullable wire) (Ok (group V veqb vals)).

  (* arbitrary bytes: accept / reject / panic, and the runs when accepted *)
  Definition chk_load (nullable : bool) (b : bytes) (st : N) (runs : list (N * option V)) : bool :=
    match rle_load V veqb dec nullable b with
    | Ok rs => (st =? 0) && runs_eqb rs runs
    | Err => st =? 2
    | Panic => st =? 3
    end.

  (* bytes [b] that load, saved again by the implementation to [wire2]: the model reads
     both as the same column; when [b] is the model writer's (canonical) spelling of that
     column the implementation gives back [b] itself *)
  Definition chk_resave (nullable : bool) (b wire2 : bytes) : bool :=
    match rle_load V veqb dec nullable b with
    | Ok rs => res_eqb runs_eqb (rle_load V veqb dec nullable wire2) (Ok rs)
               && (if bytes_eqb (rle_save_runs V enc rs) b then bytes_eqb wire2 b else true)
    | _ => false
    end.
End Chk.

Definition chk_save_u64 := chk_save N N.eqb u64_enc u64_dec.
Definition chk_load_u64 := chk_load N N.eqb u64_dec.
Definition chk_resave_u64 := chk_resave N N.eqb u64_enc u64_dec.
Definition chk_save_i64 := chk_save Z Z.eqb i64_enc i64_dec.
Definition chk_load_i64 := chk_load Z Z.eqb i64_dec.
Definition chk_resave_i64 := chk_resave Z Z.eqb i64_enc i64_dec.
Definition chk_save_str := chk_save bytes bytes_eqb str_enc str_dec.
Definition chk_load_str := chk_load bytes bytes_eqb str_dec.
Definition chk_resave_str := chk_resave bytes bytes_eqb str_enc str_dec.
Definition chk_save_blob := chk_save bytes bytes_eqb blob_enc blob_dec.
Definition chk_load_blob := chk_load bytes bytes_eqb blob_dec.
Definition chk_resave_blob := chk_resave bytes bytes_eqb blob_enc blob_dec.

(* bool *)
Definition brun_eqb (a b : N * bool) : bool := (fst a =? fst b) && Bool.eqb (snd a) (snd b).
Definition bruns_eqb : list (N * bool) -> list (N * bool) -> bool := list_eqb brun_eqb.

Definition chk_save_bool (vals : list bool) (wire : bytes) : bool :=
  bytes_eqb (bool_save vals) wire && res_eqb bruns_eqb (bool_load wire) (Ok (bgroup vals)).
Definition chk_load_bool (b : bytes) (st : N) (runs : list (N * bool)) : bool :=
  match bool_load b with
  | Ok rs => (st =? 0) && bruns_eqb rs runs
  | Err => st =? 2
  | Panic => st =? 3
  end.
Definition chk_resave_bool (b wire2 : bytes) : bool :=
  match bool_load b with
  | Ok rs => res_eqb bruns_eqb (bool_load wire2) (Ok rs)
             && (if bytes_eqb (bool_save_runs rs) b then bytes_eqb wire2 b else true)
  | _ => false
  end.

(* delta: [lo],[hi] the domain of the element type; values are realized values *)
Definition zruns_eqb := runs_eqb Z Z.eqb.
Definition ozlist_eqb : list (option Z) -> list (option Z) -> bool := list_eqb (option_eqb Z.eqb).

Definition chk_save_delta (nullable : bool) (lo hi : Z) (vals : list (option Z)) (wire : bytes) : bool :=
  bytes_eqb (delta_save vals) wire
  && res_eqb ozlist_eqb (delta_load_vals nullable lo hi wire) (Ok vals).
(* [runs]: the implementation's delta runs (count, delta) *)
Definition chk_load_delta (nullable : bool) (lo hi : Z) (b : bytes) (st : N) (runs : list (N * option Z)) : bool :=
  match delta_load nullable lo hi b with
  | Ok rs => (st =? 0) && zruns_eqb rs runs
  | Err => st =? 2
  | Panic => st =? 3
  end.
Definition chk_resave_delta (nullable : bool) (lo hi : Z) (b wire2 : bytes) : bool :=
  match delta_load nullable lo hi b with
  | Ok rs => res_eqb zruns_eqb (delta_load nullable lo hi wire2) (Ok rs)
             && (if bytes_eqb (rle_save_runs Z i64_enc rs) b then bytes_eqb wire2 b else true)
  | _ => false
  end.

(* the two varint readers on their own *)
Definition chk_hleb_u (b : bytes) (st : N) (v : N) (consumed : N) : bool :=
  match hleb_u b with
  | Some (n, r) => (st =? 0) && (n =? v) && (N.of_nat (length b - length r) =? consumed)
  | None => st =? 2
  end.
Definition chk_hleb_s (b : bytes) (st : N) (v : Z) (consumed : N) : bool :=
  match hleb_s b with
  | Some (n, r) => (st =? 0) && (n =? v)%Z && (N.of_nat (length b - length r) =? consumed)
  | None => st =? 2
  end.
