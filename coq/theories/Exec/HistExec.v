(* Exec/HistExec.v — correspondence checkers for histories: deliver changes to
   the model document exactly as they were delivered to the implementation
   and compare status, heads, missing dependencies and the full observation. *)
From AM Require Import Base.Prelude Base.Order Crdt.Types Crdt.Interp Crdt.Doc Crdt.Commit.
Local Open Scope N_scope.

Definition nth_change (u : list change) (i : N) : list change :=
  match nth_error u (N.to_nat i) with Some c => [c] | None => [] end.

(* one delivery: indexes into the universe, the implementation's status (0 ok, 2 error),
   heads, get_missing_deps([]) and optionally the observation afterwards *)
Definition delivery := (list N * N * list N * list N * option obs)%type.

Definition obs_of_doc (d : doc) : obs := observe (all_ops (applied d)).

Definition chk_state (d : doc) (hs ms : list N) (o : option obs) : bool :=
  nlist_eqb (heads_of (applied d)) hs
  && nlist_eqb (missing_deps d []) ms
  && match o with None => true | Some ob => obs_eqb (obs_of_doc d) ob end.

Fixpoint chk_deliveries (u : list change) (d : doc) (steps : list delivery) : bool :=
  match steps with
  | [] => true
  | (idx, st, hs, ms, o) :: rest =>
    let cs := flat_map (nth_change u) idx in
    match receive d cs with
    | Ok d' => (st =? 0) && chk_state d' hs ms o && chk_deliveries u d' rest
    | Err => let d' := receive_err_state d cs in
             (st =? 2) && chk_state d' hs ms o && chk_deliveries u d' rest
    | Panic => false
    end
  end.

Definition chk_run (u : list change) (steps : list delivery) : bool :=
  chk_deliveries u empty_doc steps.

(* diagnosis helper (not used by the check): which component differs first *)
Fixpoint diag_deliveries (u : list change) (d : doc) (steps : list delivery) (n : N) : list N :=
  match steps with
  | [] => []
  | (idx, st, hs, ms, o) :: rest =>
    let cs := flat_map (nth_change u) idx in
    let (d', want) := match receive d cs with
                      | Ok d' => (d', 0)
                      | _ => (receive_err_state d cs, 2)
                      end in
    if negb (st =? want) then [n; 1]
    else if negb (nlist_eqb (heads_of (applied d')) hs) then [n; 2]
    else if negb (nlist_eqb (missing_deps d' []) ms) then [n; 3]
    else if negb (match o with None => true | Some ob => obs_eqb (obs_of_doc d') ob end) then [n; 4]
    else diag_deliveries u d' rest (n + 1)
  end.

(* historical read: observation at heads [hs] of a document holding [u] (in order) *)
Definition obs_at (appl : list change) (hs : list N) : obs :=
  let k := clock_of (ancestors appl hs) in
  observe (filter (fun o => covered k (op_id o)) (all_ops appl)).

Definition chk_obs_at (u : list change) (hs : list N) (o : obs) : bool :=
  obs_eqb (obs_at u hs) o.

(* a local commit on a document holding [appl] (topological order) and the held changes [q]:
   the implementation's get_missing_deps([]) afterwards, and the (actor, seq) of the change it made *)
Definition chk_commit_prune (appl q : list change) (a : actor) (newhash : N) (seq : N) (missing_after : list N) : bool :=
  let m := mkM (mkDoc appl q) (heads_of appl) in
  match m_commit m (mkReq a None [] true newhash) with
  | Ok (m', Some c) =>
      (ch_seq c =? seq) && nlist_eqb (ch_actor c) a
      && nlist_eqb (missing_deps (m_doc m') []) missing_after
  | _ => false
  end.
