(* Exec/IdsExec.v — correspondence checkers of the "ids" family (C19): each takes an input and
   what the implementation did with it and answers whether the model does the same.
   Status codes as in BloomExec.v: 0 = Ok, 2 = error returned, 3 = panic. *)
From AM Require Import Base.Prelude Base.Leb128 Gen.Consts Codec.Bloom Codec.Hex Codec.ExId
  Codec.CursorCodec Codec.SyncCodec.
Local Open Scope N_scope.

(* compact byte-string literals for the case files: [hb len 0xHEX] is the big-endian base-256
   expansion of the number, padded with leading zero bytes to len bytes (one numeral is far
   cheaper to read than a list of them); linear in the number of bits *)
Fixpoint pbytes (p : positive) (w cur : N) (k : nat) : bytes :=
  match p with
  | xH => [cur + w]
  | xO q => match k with
            | 7%nat => cur :: pbytes q 1 0 0
            | _ => pbytes q (2 * w) cur (S k)
            end
  | xI q => match k with
            | 7%nat => (cur + w) :: pbytes q 1 0 0
            | _ => pbytes q (2 * w) (cur + w) (S k)
            end
  end.
Definition hb (len : N) (n : N) : bytes :=
  let l := match n with 0 => [] | Npos p => pbytes p 1 0 0 end in
  rev (l ++ repeat 0 (N.to_nat len - length l)).

Definition st_is {A} (r : res A) (st : N) (ok : A -> bool) : bool :=
  match r with
  | Ok a => (st =? 0) && ok a
  | Err => st =? 2
  | Panic => st =? 3
  end.

Definition hashes_eqb : list bytes -> list bytes -> bool := list_eqb bytes_eqb.

(* ---- object ids ---- *)
Definition chk_exid_enc (e : exid) (wire : bytes) (s : str) : bool :=
  bytes_eqb (exid_to_bytes e) wire && str_eqb (exid_to_str e) s.

Definition chk_exid_dec (bs : bytes) (st : N) (e : exid) : bool :=
  st_is (exid_of_bytes bs) st (fun e' => exid_same e' e).

Definition chk_import (t : table) (s : str) (st : N) (e : exid) : bool :=
  st_is (import_obj t s) st (fun e' => exid_same e' e).

(* resolution of an id in a replica with actor table t: the implementation resolved it (st = 0)
   to the object whose native id in that replica has actor index idx *)
Definition chk_resolve (t : table) (e : exid) (st : N) (idx : N) : bool :=
  st_is (exid_to_opid t e) st
        (fun o => match e with
                  | ERoot => (fst o =? 0) && (snd o =? 0)
                  | EId c _ _ => (fst o =? c) && (snd o =? idx)
                  end).

(* ---- cursors ---- *)
Definition chk_cursor_enc (c : cursor) (wire : bytes) (s : str) : bool :=
  bytes_eqb (cursor_to_bytes c) wire && str_eqb (cursor_to_str c) s.

Definition chk_cursor_dec (bs : bytes) (st : N) (c : cursor) : bool :=
  st_is (cursor_of_bytes bs) st (fun c' => cursor_eqb c' c).

Definition chk_cursor_str (s : str) (st : N) (c : cursor) : bool :=
  st_is (cursor_of_str s) st (fun c' => cursor_eqb c' c).

(* a cursor of an element that the replica (table t) holds: get_cursor_position succeeded or not *)
Definition chk_cursor_resolve (t : table) (c : cursor) (impl_ok : bool) : bool :=
  match c with
  | COp ctr a _ =>
    match cursor_to_opid t ctr a with
    | Ok _ => impl_ok
    | Err => negb impl_ok
    | Panic => false
    end
  | _ => impl_ok
  end.

(* ---- actor ids and change hashes as text ---- *)
Definition chk_actor_hex (a : bytes) (s : str) : bool := str_eqb (actor_to_str a) s.
Definition chk_actor_parse (s : str) (st : N) (a : bytes) : bool :=
  st_is (actor_of_str s) st (fun a' => bytes_eqb a' a).
Definition chk_hash_hex (h : bytes) (s : str) : bool := str_eqb (hash_to_str h) s.
Definition chk_hash_parse (s : str) (st : N) (h : bytes) : bool :=
  st_is (hash_of_str s) st (fun h' => bytes_eqb h' h).

(* ---- sync state ---- *)
Definition b2n (b : bool) : N := if b then 1 else 0.
Definition optlen {A} (o : option (list A)) : N :=
  match o with None => 0 | Some l => 1 + lenN l end.

(* the non-persisted fields, flattened (the harness computes the same list from the Rust value) *)
Definition state_rest (s : state) : list N :=
  [lenN (s_last_sent_heads s); optlen (s_their_heads s); optlen (s_their_need s);
   optlen (s_their_have s); lenN (s_sent_hashes s); b2n (s_in_flight s); b2n (s_have_responded s);
   optlen (s_their_capabilities s); b2n (s_read_only s); b2n (s_peer_read_only s);
   b2n (s_needs_reset s)].

Definition chk_state_enc (shared : list bytes) (st : N) (wire : bytes) : bool :=
  st_is (state_encode (state_persisted shared)) st (fun w => bytes_eqb w wire).

Definition chk_state_dec (bs : bytes) (st : N) (shared : list bytes) (rest : list N) : bool :=
  st_is (state_decode bs) st
        (fun s => hashes_eqb (s_shared_heads s) shared && list_eqb N.eqb (state_rest s) rest).

(* ---- sync messages ---- *)
Definition filter_eqb (a b : filter) : bool :=
  (f_entries a =? f_entries b) && (f_bpe a =? f_bpe b) && (f_probes a =? f_probes b)
  && bytes_eqb (f_bits a) (f_bits b).
Definition have_eqb (a b : have) : bool :=
  hashes_eqb (h_last_sync a) (h_last_sync b) && filter_eqb (h_bloom a) (h_bloom b).
Definition version_eqb (a b : version) : bool :=
  match a, b with V1, V1 => true | V2, V2 => true | _, _ => false end.
Definition message_eqb (a b : message) : bool :=
  hashes_eqb (m_heads a) (m_heads b) && hashes_eqb (m_need a) (m_need b)
  && list_eqb have_eqb (m_have a) (m_have b) && hashes_eqb (m_changes a) (m_changes b)
  && option_eqb N.eqb (m_flags a) (m_flags b) && version_eqb (m_version a) (m_version b).

Definition chk_msg_enc (m : message) (st : N) (wire : bytes) : bool :=
  st_is (message_encode m) st (fun w => bytes_eqb w wire).

Definition chk_msg_dec (bs : bytes) (st : N) (m : message) : bool :=
  st_is (message_decode bs) st (fun m' => message_eqb m' m).

Definition cap_code (c : capability) : N :=
  match c with CapMessageV1 => 1 | CapMessageV2 => 2 | CapSyncReset => 3 end.

(* capabilities stored by receive_sync_message for a message with these flags, starting from None *)
Definition chk_caps (flags : option N) (caps : option (list N)) : bool :=
  option_eqb (list_eqb N.eqb) (option_map (map cap_code) (capabilities_after None flags)) caps.

Definition dummy_msg : message := mkMsg [] [] [] [] None V1.
