(* Exec/MarksExec.v — correspondence checkers for rich-text marks (family "marks", C25).
   A history's changes are written once ([u], hashes replaced by small numbers, topological order);
   a view is a subset of them (what one replica holds) read at the current state or at heads.
   The model's readers (Crdt/Marks.v) over the ops of the text object in that view must return
   exactly what the implementation's marks() / marks_at, get_marks(i) for every i, and spans()
   returned; one transaction of mark / unmark / splice_text calls replayed by the model must produce,
   op for op, the change the implementation committed. *)
From AM Require Import Base.Prelude Base.Order Crdt.Types Crdt.Interp Crdt.Doc Crdt.Local Crdt.Marks Exec.EditExec.
Local Open Scope N_scope.

Definition pick (u : list change) (idx : list N) : list change :=
  filter (fun c => memb N.eqb (ch_hash c) idx) u.

(* operations visible to a read at heads [hs] ([] = the current state) *)
Definition ops_at (cs : list change) (hs : list N) : list op :=
  match hs with
  | [] => all_ops cs
  | _ => let k := clock_of (ancestors cs hs) in filter (fun o => covered k (op_id o)) (all_ops cs)
  end.

Definition view_items (e : enc) (u : list change) (idx hs : list N) (obj : opid) : list item :=
  text_view e (ops_at (pick u idx) hs) obj.

Definition mark_eqb (a b : mark) : bool :=
  match a, b with
  | (s1, e1, n1, v1), (s2, e2, n2, v2) => (s1 =? s2) && (e1 =? e2) && nlist_eqb n1 n2 && scalar_eqb v1 v2
  end.

Definition chk_marks (its : list item) (impl : list mark) : bool := list_eqb mark_eqb (marks its) impl.

(* impl = get_marks(i) for i = 0 .. length impl - 1 (the harness goes two past the last element) *)
Definition chk_get_marks (its : list item) (impl : list markset) : bool :=
  list_eqb markset_eqb (map (get_marks its) (seq 0 (length impl))) impl.

Definition span_eqb (a b : span) : bool := nlist_eqb (fst a) (fst b) && markset_eqb (snd a) (snd b).
Definition chk_spans (its : list item) (impl : list span) : bool := list_eqb span_eqb (spans its) impl.

(* ---- one transaction ---- *)
Definition xmode (n : N) : expand_mode :=
  if n =? 0 then XNone else if n =? 1 then XBefore else if n =? 2 then XAfter else XBoth.

Definition mcall_exp := (mcall * N)%type.       (* call, status code as in EditExec.status_code *)

Fixpoint chk_mcalls (e : enc) (t : tx) (obj : opid) (cs : list mcall_exp) : option tx :=
  match cs with
  | [] => Some t
  | (c, st) :: rest =>
    match mstep e t obj c with
    | EOk (t', s) => if status_code s =? st then chk_mcalls e t' obj rest else None
    | _ => None
    end
  end.

Definition chk_marks_tx (e : enc) (base : list change) (a : actor) (obj : opid) (cs : list mcall_exp)
                        (committed : list op) : bool :=
  let t0 := begin_tx (all_ops base) a in
  wf_tx_b t0 &&
  match chk_mcalls e t0 obj cs with
  | Some t => list_eqb op_eqb (tx_pending t) committed
  | None => false
  end.

(* diagnosis (not used by the check) *)
Fixpoint diag_mcalls (e : enc) (t : tx) (obj : opid) (cs : list mcall_exp) (n : N) : list N + tx :=
  match cs with
  | [] => inr t
  | (c, st) :: rest =>
    match mstep e t obj c with
    | EOk (t', s) => if status_code s =? st then diag_mcalls e t' obj rest (n + 1) else inl [n; 1; status_code s]
    | _ => inl [n; 4]
    end
  end.

Definition diag_marks_tx (e : enc) (base : list change) (a : actor) (obj : opid) (cs : list mcall_exp)
                         (committed : list op) : list N * list op :=
  let t0 := begin_tx (all_ops base) a in
  if negb (wf_tx_b t0) then ([3000], []) else
  match diag_mcalls e t0 obj cs 0 with
  | inl d => (d, [])
  | inr t => (first_diff (tx_pending t) committed 0, tx_pending t)
  end.
