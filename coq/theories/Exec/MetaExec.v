(* Exec/MetaExec.v — correspondence checkers of family "meta" (C04, C10): the metadata of every
   change a replica created against [commit_meta] on the changes it had applied at that moment,
   the heads after every step against [heads_of] and against the incrementally maintained heads,
   and get_changes(have) against the specification (non-ancestors) and against the mirror of the
   sequence-clock computation the code performs. *)
From AM Require Import Base.Prelude Base.Order Crdt.Types Crdt.Doc Crdt.Commit.
Local Open Scope N_scope.

(* changes are transported without their operations: only the number of ops matters here *)
Definition nop : op := mkOp (0, []) (0, []) (KMap []) false ADel [].
Definition mc (h : N) (a : actor) (s st : N) (deps : list N) (nops : N) : change :=
  mkChange h a s st deps (repeat nop (N.to_nat nops)).

Definition sel (u : list change) (idx : list N) : list change :=
  flat_map (fun i => match nth_error u (N.to_nat i) with Some c => [c] | None => [] end) idx.

Definition opt_nlist_eqb (a b : option (list N)) : bool := option_eqb nlist_eqb a b.

(* [idx]: the changes the replica had applied when the transaction started, in its application
   order; [a]: the document's actor; [iso]: isolation heads; [ci]: the change it created *)
Definition chk_commit (u : list change) (idx : list N) (a : actor) (iso : option (list N)) (ci : N) : bool :=
  let appl := sel u idx in
  match nth_error u (N.to_nat ci) with
  | None => false
  | Some c =>
    match commit_meta appl (heads_of appl) a iso with
    | Ok m => nlist_eqb (cm_actor m) (ch_actor c) && (cm_seq m =? ch_seq c)
              && (cm_start m =? ch_start c) && nlist_eqb (cm_deps m) (ch_deps c)
    | _ => false
    end
  end.

(* which component differs (diagnosis only) *)
Definition diag_commit (u : list change) (idx : list N) (a : actor) (iso : option (list N)) (ci : N) :=
  let appl := sel u idx in
  (commit_meta appl (heads_of appl) a iso, nth_error u (N.to_nat ci)).

Definition chk_heads (u : list change) (idx : list N) (hs : list N) : bool :=
  let appl := sel u idx in
  nlist_eqb (heads_of appl) hs && nlist_eqb (sortN (fold_left update_heads appl [])) hs.

Definition set_eqb (a b : list N) : bool := nlist_eqb (sortN (dedupN a)) (sortN (dedupN b)).

(* every change after those of its dependencies that are in the list at all *)
Fixpoint after_deps_b (seen rest : list change) : bool :=
  match rest with
  | [] => true
  | c :: t =>
    forallb (fun h => has_hash seen h || negb (has_hash t h)) (ch_deps c)
    && negb (has_hash seen (ch_hash c))
    && after_deps_b (seen ++ [c]) t
  end.

(* the specification: exactly the non-ancestors of [have], each once, after its dependencies *)
Definition chk_get_changes (u : list change) (idx have res : list N) : bool :=
  let appl := sel u idx in
  let r := sel u res in
  (length r =? length res)%nat
  && nlist_eqb (sortN (hashes r)) (sortN (hashes (get_changes appl have)))
  && after_deps_b [] r.

(* the mirror of what the code computes *)
Definition chk_get_changes_impl (u : list change) (idx have res : list N) : bool :=
  let appl := sel u idx in
  let r := sel u res in
  (length r =? length res)%nat
  && nlist_eqb (sortN (hashes r)) (sortN (hashes (get_changes_impl appl have))).

(* each actor's changes form a chain under the ancestor relation (decidable form used to
   classify a disagreement between the two checks above) *)
Definition chain_ok_b (appl : list change) : bool :=
  forallb (fun c2 =>
    let anc := ancestors appl [ch_hash c2] in
    forallb (fun c1 =>
      if same_actor (ch_actor c1) (ch_actor c2) then
        if ch_seq c1 <? ch_seq c2 then has_hash anc (ch_hash c1) else true
      else true) appl) appl.
