(* Exec/PatchExec.v — correspondence checkers for patches (C08, C09): the implementation's own
   patches, rendered as model [patch]es, are applied by the proved applier of Crdt/Patch.v to the
   view the implementation showed before; the result must be the view it shows after. *)
From AM Require Import Base.Prelude Base.Order Crdt.Types Crdt.Interp Crdt.Local Crdt.Patch.
Local Open Scope N_scope.

Definition chk_apply (e : enc) (v1 : view) (ps : list patch) (v2 : view) : bool :=
  wf_viewb v1 && wf_viewb v2 &&
  match apply_patches e ps v1 with
  | Some v => view_eqb v v2
  | None => false
  end.

(* per-object diffs: any two nodes of the same kind and id *)
Definition chk_apply_node (e : enc) (v1 : view) (ps : list patch) (v2 : view) : bool :=
  wf_node v1 && wf_node v2 && same_shell v1 v2 &&
  match apply_patches e ps v1 with
  | Some v => view_eqb v v2
  | None => false
  end.

(* a chain of batches (C09): the view is carried only by the applier; after batch i it must equal
   the i-th recorded view *)
Fixpoint chk_chain (e : enc) (v : view) (steps : list (list patch * view)) : bool :=
  match steps with
  | [] => true
  | (ps, want) :: rest =>
    match apply_patches e ps v with
    | Some v' => view_eqb v' want && wf_viewb want && chk_chain e v' rest
    | None => false
    end
  end.

(* diagnosis helpers (not used by the check) *)
Fixpoint first_failing (e : enc) (ps : list patch) (v : view) (n : N) : option (N * view) :=
  match ps with
  | [] => None
  | p :: rest => match apply_patch e v p with
                 | Some v' => first_failing e rest v' (n + 1)
                 | None => Some (n, v)
                 end
  end.
