(* Exec/ReconExec.v — correspondence checkers of the family "recon"
   (C40 string migration, C27 reconciliation / bulk construction, C32 serde export, C33 CLI JSON). *)
From AM Require Import Base.Prelude Base.Order Crdt.Types Crdt.Interp Crdt.Local Crdt.Migrate Exec.EditExec.
Local Open Scope N_scope.

(* ---- C40: one saved document loaded with StringMigration::ConvertToText.
   changes: what the plain load holds; a: the actor of the loaded document; added: the ops of the change
   the migrating load appended ([] when it appended none); after: the full observation of the migrated
   document.  The model must produce the same ops, op for op, and the same observation. *)
Definition chk_migrate (e : enc) (changes : list change) (a : actor) (added : list op) (after : obs) : bool :=
  let ops := all_ops changes in
  wf_tx_b (begin_tx ops a) &&
  match migrate e ops a with
  | EOk new => list_eqb op_eqb new added && obs_eqb (observe_n e (ops ++ new)) after
  | _ => false
  end.

(* diagnosis (not used by the check) *)
Definition diag_migrate (e : enc) (changes : list change) (a : actor) (added : list op) (after : obs)
  : list N * list op :=
  let ops := all_ops changes in
  if negb (wf_tx_b (begin_tx ops a)) then ([3000], []) else
  match migrate e ops a with
  | EOk new => match first_diff new added 0 with
               | [] => if obs_eqb (observe_n e (ops ++ new)) after then ([], []) else ([2000], [])
               | d => (d, new)
               end
  | EErr _ => ([4000], [])
  | EPanic => ([4001], [])
  end.
