(* Exec/ReconExec.v — correspondence checkers of the family "recon"
   (C40 string migration, C27 reconciliation / bulk construction, C32 serde export, C33 CLI JSON). *)
From AM Require Import Base.Prelude Base.Order Crdt.Types Crdt.Interp Crdt.Local Crdt.Migrate Crdt.Update Crdt.Render Exec.EditExec.
Local Open Scope N_scope.

(* ---- C40: one saved document loaded with StringMigration::ConvertToText.
   changes: what the plain load holds; a: the actor of the loaded document; added: the ops of the change
   the migrating load appended ([] when it appended none); after: the full observation of the migrated
   document.  The model must produce the same ops, op for op, and the same observation. *)
Definition chk_migrate (e : enc) (changes : list change) (a : actor) (added : list op) (after : obs) : bool :=
  let ops := all_ops changes in
  wf_tx_b (begin_tx ops a) &&
  match migrate e ops a with
  | EOk new => list_eqb op_eqb new added && obs_eqb (observe_n e (ops ++ new)) after
  | _ => false
  end.

(* diagnosis (not used by the check) *)
Definition diag_migrate (e : enc) (changes : list change) (a : actor) (added : list op) (after : obs)
  : list N * list op :=
  let ops := all_ops changes in
  if negb (wf_tx_b (begin_tx ops a)) then ([3000], []) else
  match migrate e ops a with
  | EOk new => match first_diff new added 0 with
               | [] => if obs_eqb (observe_n e (ops ++ new)) after then ([], []) else ([2000], [])
               | d => (d, new)
               end
  | EErr _ => ([4000], [])
  | EPanic => ([4001], [])
  end.

(* ---- C27: update_text.  old / new: the text before and after, cut into the units of the recovered script
   (one unit per text element); script: the edit script recovered from the ops of the committed change
   (runs of kept / deleted / inserted elements, in op order); after: what text() returned.  The script must
   tile old and new, the hook arithmetic of the model must turn old into new, and new must be what the
   implementation shows. *)
Definition chk_script (e : enc) (old new : list grapheme) (s : list hook) (after : list N) : bool :=
  wf_script old new s &&
  match apply_script e old new s with
  | Ok t => nlist_eqb t (concat new) && nlist_eqb t after
  | _ => false
  end.

(* ---- C32: the tree the length-enforcing serializer received for AutoSerde::from(&doc), against the model's
   rendering of the CRDT reading of the document's ops.  The implementation's tree carries, for every container,
   the length it announced (None for sequences) — compared too.  Text objects: the model's observation keeps
   zero-width elements (they contribute nothing to the string). *)
Fixpoint jt_eqb (a b : jt) : bool :=
  match a, b with
  | JNull, JNull => true
  | JBool x, JBool y => Bool.eqb x y
  | JI64 x, JI64 y => Z.eqb x y
  | JU64 x, JU64 y => N.eqb x y
  | JF64 x, JF64 y => N.eqb x y
  | JStr x, JStr y => nlist_eqb x y
  | JUnknown t x, JUnknown u y => N.eqb t u && nlist_eqb x y
  | JSeq p x, JSeq q y =>
    match p, q with None, None => true | Some m, Some n => (m =? n)%nat | _, _ => false end &&
    (fix go (x y : list jt) : bool :=
       match x, y with [], [] => true | u :: x', v :: y' => jt_eqb u v && go x' y' | _, _ => false end) x y
  | JMap p x, JMap q y =>
    match p, q with None, None => true | Some m, Some n => (m =? n)%nat | _, _ => false end &&
    (fix go (x y : list (list N * jt)) : bool :=
       match x, y with [], [] => true | u :: x', v :: y' => nlist_eqb (fst u) (fst v) && jt_eqb (snd u) (snd v) && go x' y' | _, _ => false end) x y
  | _, _ => false
  end.

Definition chk_render (changes : list change) (got : jt) : bool :=
  let ob := observe (all_ops changes) in
  match export_root ob with
  | Some t => ann_ok t && ann_ok got && jt_eqb t got
  | None => false
  end.
