(* Exec/ReconExec.v — correspondence checkers of the family "recon"
   (C40 string migration, C27 reconciliation / bulk construction, C32 serde export, C33 CLI JSON). *)
From AM Require Import Base.Prelude Base.Order Crdt.Types Crdt.Interp Crdt.Local Crdt.Migrate Crdt.Update Exec.EditExec.
Local Open Scope N_scope.

(* ---- C40: one saved document loaded with StringMigration::ConvertToText.
   changes: what the plain load holds; a: the actor of the loaded document; added: the ops of the change
   the migrating load appended ([] when it appended none); after: the full observation of the migrated
   document.  The model must produce the same ops, op for op, and the same observation. *)
Definition chk_migrate (e : enc) (changes : list change) (a : actor) (added : list op) (after : obs) : bool :=
  let ops := all_ops changes in
  wf_tx_b (begin_tx ops a) &&
  match migrate e ops a with
  | EOk new => list_eqb op_eqb new added && obs_eqb (observe_n e (ops ++ new)) after
  | _ => false
  end.

(* diagnosis (not used by the check) *)
Definition diag_migrate (e : enc) (changes : list change) (a : actor) (added : list op) (after : obs)
  : list N * list op :=
  let ops := all_ops changes in
  if negb (wf_tx_b (begin_tx ops a)) then ([3000], []) else
  match migrate e ops a with
  | EOk new => match first_diff new added 0 with
               | [] => if obs_eqb (observe_n e (ops ++ new)) after then ([], []) else ([2000], [])
               | d => (d, new)
               end
  | EErr _ => ([4000], [])
  | EPanic => ([4001], [])
  end.

(* ---- C27: update_text.  old / new: the text before and after, cut into the units of the recovered script
   (one unit per text element); script: the edit script recovered from the ops of the committed change
   (runs of kept / deleted / inserted elements, in op order); after: what text() returned.  The script must
   tile old and new, the hook arithmetic of the model must turn old into new, and new must be what the
   implementation shows. *)
Definition chk_script (e : enc) (old new : list grapheme) (s : list hook) (after : list N) : bool :=
  wf_script old new s &&
  match apply_script e old new s with
  | Ok t => nlist_eqb t (concat new) && nlist_eqb t after
  | _ => false
  end.
