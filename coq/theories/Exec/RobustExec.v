(* Exec/RobustExec.v — checkers of the harness family `robust` (malformed input to every public
   decoding entry point).  Each takes an input and what the implementation did with it and
   answers whether the model does the same. *)
From AM Require Import Base.Prelude Base.Utf8Spec.
From AM Require Hexane.Rle Store.ChangeChunk.
Local Open Scope N_scope.

(* UTF-8: [impl_ok] = `std::str::from_utf8(l).is_ok()` (or: the implementation handed out [l] as a
   string).  Both validators of the model give the same verdict, and the independent decoder
   of Base/Utf8Spec.v decodes exactly when they accept, to scalar values that re-encode to [l]
   (C39 proves the model side of this for all [l]; here it is evaluated against the
   implementation's verdict). *)
Definition chk_utf8 (l : bytes) (impl_ok : bool) : bool :=
  Bool.eqb (Rle.utf8_valid l) impl_ok
  && Bool.eqb (ChangeChunk.utf8_valid l) impl_ok
  && match utf8_decode l with
     | Some cps => impl_ok && forallb is_scalar cps && bytes_eqb (utf8_encode_all cps) l
     | None => negb impl_ok
     end.
