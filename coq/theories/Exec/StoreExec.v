(* Exec/StoreExec.v — correspondence checkers for the storage model. *)
From AM Require Import Base.Prelude Base.Leb128 Gen.Consts Store.Chunk.
Local Open Scope N_scope.

(* chunk boundaries of a file, read by the model's header parser *)
Fixpoint bounds (fuel : nat) (bs : bytes) (pos : N) : list N :=
  match bs with
  | [] => []
  | _ =>
    match fuel with
    | O => []
    | S f =>
      match parse_header bs with
      | Ok (h, rest) =>
        let p := pos + (lenN bs - lenN rest) in p :: bounds f rest p
      | _ => []
      end
    end
  end.

Definition nlist_eqb : list N -> list N -> bool := list_eqb N.eqb.

(* [ks]: the cut points at which the implementation's strict load succeeded *)
Definition chk_boundaries (file : bytes) (ks : list N) : bool :=
  nlist_eqb (0 :: bounds (length file) file 0) ks.
