(* Exec/SyncExec.v — correspondence checker for sync sessions (C20, C21, C22).

   A session is a script over N peers: every generate / receive / local commit / connection drop /
   state replacement / read-only switch the harness performed on the implementation, with what the
   implementation produced (message fields, every field of sync::State, heads and missing
   dependencies of the document).  The checker runs the same script through Sync/Proto.v, with the
   Bloom filter instantiated by the bit-exact model of Codec/Bloom.v, carrying the MODEL's own
   messages through the channels, and compares after every step. *)
From AM Require Import Base.Prelude Base.Order Gen.Consts Codec.Bloom Crdt.Types Crdt.Doc Sync.Proto.
Local Open Scope N_scope.

(* a change hash as the 32 bytes the implementation hashes into the filter (big-endian) *)
Fixpoint le_bytes (n : nat) (x : N) : bytes :=
  match n with O => [] | S k => N.land x 255 :: le_bytes k (N.shiftr x 8) end.
Definition hash_bytes (h : N) : bytes := rev (le_bytes 32 h).

Definition bmake (hs : list N) : filter :=
  match from_hashes (map hash_bytes hs) with Ok f => f | _ => default_filter end.
Definition bquery (f : filter) (h : N) : bool :=
  match contains f (hash_bytes h) with Ok b => b | _ => false end.

Definition gen := @generate_sync_message filter bmake bquery.
Definition rcv := @receive_sync_message filter.
Definition sstate := sync_state filter.
Definition msg := message filter.

(* ---- what the harness observed ---- *)
Definition have_obs := (list N * bytes)%type.                 (* last_sync, filter wire bytes *)
Record msg_obs := mkMO {
  mo_heads : list N; mo_need : list N; mo_have : list have_obs;
  mo_changes : option (list N);      (* None: empty chunk list; Some: sorted hashes of the carried changes *)
  mo_flags : option N }.
Record ss_obs := mkSO {
  so_shared : list N; so_last_sent : list N;
  so_their_heads : option (list N); so_their_need : option (list N);
  so_their_have : option (list have_obs); so_sent : list N;
  so_in_flight : bool; so_responded : bool; so_caps : option (list N);
  so_ro : bool; so_pro : bool; so_reset : bool }.

Definition have_eqb (h : have filter) (o : have_obs) : bool :=
  nlist_eqb (hv_last_sync h) (fst o) && bytes_eqb (to_bytes (hv_bloom h)) (snd o).
Fixpoint list_eqb2 {A C} (f : A -> C -> bool) (a : list A) (b : list C) : bool :=
  match a, b with
  | [], [] => true
  | x :: a', y :: b' => f x y && list_eqb2 f a' b'
  | _, _ => false
  end.
Definition opt_eqb2 {A C} (f : A -> C -> bool) (a : option A) (b : option C) : bool :=
  match a, b with Some x, Some y => f x y | None, None => true | _, _ => false end.

Definition msg_eqb (m : msg) (o : msg_obs) : bool :=
  nlist_eqb (m_heads m) (mo_heads o) && nlist_eqb (m_need m) (mo_need o)
  && list_eqb2 have_eqb (m_have m) (mo_have o)
  && opt_eqb2 (fun cs hs => nlist_eqb (sortN (hashes cs)) hs) (m_changes m) (mo_changes o)
  && option_eqb N.eqb (m_flags m) (mo_flags o).

Definition ss_eqb (s : sstate) (o : ss_obs) : bool :=
  nlist_eqb (shared_heads s) (so_shared o) && nlist_eqb (last_sent_heads s) (so_last_sent o)
  && option_eqb nlist_eqb (their_heads s) (so_their_heads o)
  && option_eqb nlist_eqb (their_need s) (so_their_need o)
  && opt_eqb2 (list_eqb2 have_eqb) (their_have s) (so_their_have o)
  && nlist_eqb (sent_hashes s) (so_sent o)
  && Bool.eqb (in_flight s) (so_in_flight o) && Bool.eqb (have_responded s) (so_responded o)
  && option_eqb nlist_eqb (option_map (map cap_code) (their_caps s)) (so_caps o)
  && Bool.eqb (read_only s) (so_ro o) && Bool.eqb (peer_read_only s) (so_pro o)
  && Bool.eqb (needs_reset s) (so_reset o).

(* which component differs first (diagnosis only) *)
Definition ss_diag (s : sstate) (o : ss_obs) : N :=
  if negb (nlist_eqb (shared_heads s) (so_shared o)) then 1
  else if negb (nlist_eqb (last_sent_heads s) (so_last_sent o)) then 2
  else if negb (option_eqb nlist_eqb (their_heads s) (so_their_heads o)) then 3
  else if negb (option_eqb nlist_eqb (their_need s) (so_their_need o)) then 4
  else if negb (opt_eqb2 (list_eqb2 have_eqb) (their_have s) (so_their_have o)) then 5
  else if negb (nlist_eqb (sent_hashes s) (so_sent o)) then 6
  else if negb (Bool.eqb (in_flight s) (so_in_flight o)) then 7
  else if negb (Bool.eqb (have_responded s) (so_responded o)) then 8
  else if negb (option_eqb nlist_eqb (option_map (map cap_code) (their_caps s)) (so_caps o)) then 9
  else if negb (Bool.eqb (read_only s) (so_ro o)) then 10
  else if negb (Bool.eqb (peer_read_only s) (so_pro o)) then 11
  else if negb (Bool.eqb (needs_reset s) (so_reset o)) then 12 else 0.
Definition msg_diag (m : msg) (o : msg_obs) : N :=
  if negb (nlist_eqb (m_heads m) (mo_heads o)) then 21
  else if negb (nlist_eqb (m_need m) (mo_need o)) then 22
  else if negb (list_eqb2 have_eqb (m_have m) (mo_have o)) then 23
  else if negb (opt_eqb2 (fun cs hs => nlist_eqb (sortN (hashes cs)) hs) (m_changes m) (mo_changes o)) then 24
  else if negb (option_eqb N.eqb (m_flags m) (mo_flags o)) then 25 else 0.

(* ---- the script ---- *)
Inductive step :=
| SGen (p q : N) (out : option msg_obs) (st : ss_obs)            (* p generates for q *)
| SRecv (p q : N) (status : N) (st : ss_obs) (hs ms : list N)    (* q takes the oldest message of p->q *)
| SLocal (p : N) (idx : list N) (hs : list N)                    (* p commits universe change(s) idx *)
| SDrop (p q : N)                                                (* both channels between p and q lose everything *)
| SNewState (p q : N) (mode : N) (st : ss_obs)                   (* p's state for q: 0 new, 1 decode(encode), 2 new_read_only *)
| SSetRO (p q : N) (ro : bool) (st : ss_obs)                     (* p's state for q: set_read_only *)
| SLoseDoc (p : N).                                              (* p restarts with an empty document (data loss) *)

Definition link := (N * N)%type.
Definition link_eqb (a b : link) : bool := (fst a =? fst b) && (snd a =? snd b).

Fixpoint aget {V} (k : link) (l : list (link * V)) (dflt : V) : V :=
  match l with [] => dflt | (k', v) :: t => if link_eqb k k' then v else aget k t dflt end.
Fixpoint aset {V} (k : link) (v : V) (l : list (link * V)) : list (link * V) :=
  match l with
  | [] => [(k, v)]
  | (k', v') :: t => if link_eqb k k' then (k, v) :: t else (k', v') :: aset k v t
  end.

Record world := mkW {
  w_docs : list doc;
  w_states : list (link * sstate);
  w_chans : list (link * list msg) }.

Definition doc_of (w : world) (p : N) : doc := nth (N.to_nat p) (w_docs w) empty_doc.
Fixpoint set_nth {A} (n : nat) (x : A) (l : list A) : list A :=
  match l, n with
  | [], _ => []
  | _ :: t, O => x :: t
  | y :: t, S k => y :: set_nth k x t
  end.
Definition set_doc (w : world) (p : N) (d : doc) : world :=
  mkW (set_nth (N.to_nat p) d (w_docs w)) (w_states w) (w_chans w).
Definition state_of (w : world) (p q : N) : sstate := aget (p, q) (w_states w) fresh_state.
Definition set_state (w : world) (p q : N) (s : sstate) : world :=
  mkW (w_docs w) (aset (p, q) s (w_states w)) (w_chans w).
Definition chan_of (w : world) (p q : N) : list msg := aget (p, q) (w_chans w) [].
Definition set_chan (w : world) (p q : N) (c : list msg) : world :=
  mkW (w_docs w) (w_states w) (aset (p, q) c (w_chans w)).

Definition nth_change (u : list change) (i : N) : list change :=
  match nth_error u (N.to_nat i) with Some c => [c] | None => [] end.

(* one step: the new world and a diagnosis code (0 = agrees); None = stop checking (implementation error
   mirrored by the model) *)
Definition do_step (u : list change) (w : world) (s : step) : option world * N :=
  match s with
  | SGen p q out st =>
    let (s', om) := gen (doc_of w p) (state_of w p q) in
    let w1 := set_state w p q s' in
    let w2 := match om with Some m => set_chan w1 p q (chan_of w1 p q ++ [m]) | None => w1 end in
    let dm := match om, out with
              | Some m, Some o => msg_diag m o
              | None, None => 0
              | _, _ => 20 end in
    (Some w2, if dm =? 0 then ss_diag s' st else dm)
  | SRecv p q status st hs ms =>
    match chan_of w p q with
    | [] => (None, 30)
    | m :: rest =>
      let w1 := set_chan w p q rest in
      match rcv (doc_of w q) (state_of w q p) m with
      | Ok (d', s') =>
        let w2 := set_state (set_doc w1 q d') q p s' in
        (Some w2,
         if negb (status =? 0) then 31
         else if negb (nlist_eqb (heads_of (applied d')) hs) then 32
         else if negb (nlist_eqb (missing_deps d' []) ms) then 33
         else ss_diag s' st)
      | Err => (None, if status =? 2 then 0 else 34)
      | Panic => (None, 35)
      end
    end
  | SLocal p idx hs =>
    match Doc.receive (doc_of w p) (flat_map (nth_change u) idx) with
    | Ok d' => (Some (set_doc w p d'), if nlist_eqb (heads_of (applied d')) hs then 0 else 40)
    | _ => (None, 41)
    end
  | SDrop p q => (Some (set_chan (set_chan w p q []) q p []), 0)
  | SNewState p q mode st =>
    let s' := if mode =? 0 then fresh_state
              else if mode =? 1 then persist (state_of w p q)
              else fresh_read_only in
    (Some (set_state w p q s'), ss_diag s' st)
  | SSetRO p q ro st =>
    let s' := set_read_only (state_of w p q) ro in
    (Some (set_state w p q s'), ss_diag s' st)
  | SLoseDoc p => (Some (set_doc w p empty_doc), 0)
  end.

(* first disagreement: (step number, code); (0,0) = none *)
Fixpoint run_steps (u : list change) (w : world) (ss : list step) (n : N) : N * N :=
  match ss with
  | [] => (0, 0)
  | s :: rest =>
    let r := do_step u w s in
    if negb (snd r =? 0) then (n, snd r)
    else match fst r with
         | Some w' => run_steps u w' rest (n + 1)
         | None => (0, 0)
         end
  end.

(* the universe as the harness prints it: one hash literal per change, dependencies as indexes *)
Definition hash_at (hh : list N) (i : N) : N := nth (N.to_nat i) hh i.
Fixpoint mk_universe_aux (hh all : list N) (meta : list (actor * N * N * list N)) : list change :=
  match hh, meta with
  | h :: hh', (a, sq, st, deps) :: meta' =>
    mkChange h a sq st (map (hash_at all) deps) [] :: mk_universe_aux hh' all meta'
  | _, _ => []
  end.
Definition mk_universe (hh : list N) (meta : list (actor * N * N * list N)) : list change :=
  mk_universe_aux hh hh meta.

(* initial documents: for each peer the universe indexes it starts with (applied), then the
   indexes it holds as orphans (delivered afterwards in one batch) *)
Definition init_doc (u : list change) (ini : list N * list N) : doc :=
  let d1 := match Doc.receive empty_doc (flat_map (nth_change u) (fst ini)) with Ok d => d | _ => empty_doc end in
  match Doc.receive d1 (flat_map (nth_change u) (snd ini)) with Ok d => d | _ => d1 end.

Definition init_world (u : list change) (inis : list (list N * list N)) : world :=
  mkW (map (init_doc u) inis) [] [].

Definition diag_sync (u : list change) (inis : list (list N * list N)) (ss : list step) : N * N :=
  run_steps u (init_world u inis) ss 1.

Definition chk_sync (u : list change) (inis : list (list N * list N)) (ss : list step) : bool :=
  let r := diag_sync u inis ss in (fst r =? 0) && (snd r =? 0).
