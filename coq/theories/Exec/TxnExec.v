(* Exec/TxnExec.v — correspondence checkers of the family "txn" (C28, C29, C30).
   A case hands the model what the implementation was given (the applied changes with their
   dependency structure, the actor table, the document's actor, isolation heads, the editing
   calls) and what it answered (status / pending-op count / observation after every call, the
   observation after rollback, the committed change, the observations after commit and after
   integrate; for C30 whether an id resolved and to which object type). *)
From AM Require Import Base.Prelude Base.Order Codec.Bloom Codec.ExId Crdt.Types Crdt.Interp Crdt.Doc
  Crdt.Local Crdt.Commit Crdt.Txn Crdt.Resolve Exec.EditExec.
Local Open Scope N_scope.

Definition mk_tdoc (changes : list change) (table : list actor) (a : actor) : tdoc :=
  mkT (mkM (mkDoc changes []) (heads_of changes)) table a.

Definition view_n (e : enc) (o : otx) : obs := map (norm_obj e) (txn_view o).
Definition aview_n (e : enc) (d : adoc) : obs := map (norm_obj e) (a_view d).

Fixpoint chk_tcalls (e : enc) (o : otx) (cs : list call_exp) : option otx :=
  match cs with
  | [] => Some o
  | (c, st, np, ob) :: rest =>
    match txn_call e o c with
    | EOk (o', s) =>
      if (status_code s =? st) && (N.of_nat (length (tx_pending (ot_tx o'))) =? np)
         && match ob with None => true | Some x => obs_eqb (view_n e o') x end
      then chk_tcalls e o' rest else None
    | _ => None
    end
  end.

Definition table_eqb : list actor -> list actor -> bool := list_eqb nlist_eqb.

(* every (actor, index) pair read off an id the implementation returned agrees with the table *)
Definition chk_hints (table : list actor) (pairs : list (actor * N)) : bool :=
  forallb (fun p => option_eqb nlist_eqb (nth_error table (N.to_nat (snd p))) (Some (fst p))) pairs.

(* C28: open (plain or isolated), run the calls, roll back.  [after]: what the implementation
   shows after the rollback (through the isolation, if isolated); [pairs]: actor-index hints of
   the ids it returns afterwards. *)
Definition chk_rollback (e : enc) (changes : list change) (table : list actor) (a : actor)
                        (iso : option (list N)) (stays_isolated : bool)
                        (cs : list call_exp) (after : obs) (pairs : list (actor * N)) : bool :=
  let d := mk_tdoc changes table a in
  match txn_open d iso with
  | Ok o =>
    wf_tx_b (ot_tx o) &&
    match chk_tcalls e o cs with
    | Some o' =>
      let d' := txn_rollback o' in
      obs_eqb (aview_n e (mkA d' (if stays_isolated then iso else None))) after
      && table_eqb (t_table d') table && chk_hints (t_table d') pairs
      && nlist_eqb (m_get_heads (t_m d')) (heads_of changes)
    | None => false
    end
  | _ => false
  end.

(* C29: a transaction opened at [hs]; the implementation's change: actor, seq, start_op, deps, ops *)
Definition chk_iso (e : enc) (changes : list change) (table : list actor) (a : actor) (hs : list N)
                   (cs : list call_exp) (iactor : actor) (iseq istart : N) (ideps : list N) (iops : list op)
                   (hash : N) (after_iso after_full : obs) : bool :=
  let d := mk_tdoc changes table a in
  match txn_open d (Some hs) with
  | Ok o =>
    let m := ot_meta o in
    wf_tx_b (ot_tx o)
    && nlist_eqb (cm_actor m) iactor && (cm_seq m =? iseq) && (cm_start m =? istart) && nlist_eqb (cm_deps m) ideps
    && match chk_tcalls e o cs with
       | Some o' =>
         list_eqb op_eqb (tx_pending (ot_tx o')) iops
         && match txn_commit o' hash with
            | (d', Some c) =>
              obs_eqb (aview_n e (mkA d' (Some [ch_hash c]))) after_iso
              && obs_eqb (aview_n e (a_integrate (mkA d' (Some [ch_hash c])))) after_full
            | (d', None) =>
              match iops with
              | [] => obs_eqb (aview_n e (mkA d' (Some hs))) after_iso
                      && obs_eqb (aview_n e (a_integrate (mkA d' (Some hs)))) after_full
              | _ => false
              end
            end
       | None => false
       end
  | _ => false
  end.

(* a transaction at [hs] whose calls produced no op: nothing is committed *)
Definition chk_iso_nochange (e : enc) (changes : list change) (table : list actor) (a : actor) (hs : list N)
                            (cs : list call_exp) (after_iso after_full : obs) : bool :=
  let d := mk_tdoc changes table a in
  match txn_open d (Some hs) with
  | Ok o =>
    wf_tx_b (ot_tx o)
    && match chk_tcalls e o cs with
       | Some o' =>
         match txn_commit o' 0 with
         | (d', None) => obs_eqb (aview_n e (mkA d' (Some hs))) after_iso
                         && obs_eqb (aview_n e (a_integrate (mkA d' (Some hs)))) after_full
                         && table_eqb (t_table d') table
         | _ => false
         end
       | None => false
       end
  | _ => false
  end.

(* C30: does the id resolve in a replica with this actor table and these ops, and to what *)
Definition chk_resolve (table : list bytes) (ops : list op) (c : N) (a : bytes) (h : N) (expect : option objtype) : bool :=
  match resolve_obj table ops (EId c a h), expect with
  | Ok (id, ty), Some ty' => objtype_eqb ty ty' && opid_eqb id (c, a)
  | Err, None => true
  | _, _ => false
  end.

(* diagnosis (not used by the checks) *)
Fixpoint diag_tcalls (e : enc) (o : otx) (cs : list call_exp) (n : N) : list N + otx :=
  match cs with
  | [] => inr o
  | (c, st, np, ob) :: rest =>
    match txn_call e o c with
    | EOk (o', s) =>
      if negb (status_code s =? st) then inl [n; 1; status_code s]
      else if negb (N.of_nat (length (tx_pending (ot_tx o'))) =? np) then inl [n; 2]
      else if negb (match ob with None => true | Some x => obs_eqb (view_n e o') x end) then inl [n; 3]
      else diag_tcalls e o' rest (n + 1)
    | _ => inl [n; 4]
    end
  end.

Definition diag_iso (e : enc) (changes : list change) (table : list actor) (a : actor) (hs : list N)
                   (cs : list call_exp) (iactor : actor) (iseq istart : N) (ideps : list N) (iops : list op)
                   (hash : N) (after_iso after_full : obs) : list N * list op :=
  let d := mk_tdoc changes table a in
  match txn_open d (Some hs) with
  | Ok o =>
    let m := ot_meta o in
    if negb (wf_tx_b (ot_tx o)) then ([2], [])
    else if negb (nlist_eqb (cm_actor m) iactor) then ([3; 1], [])
    else if negb (cm_seq m =? iseq) then ([3; 2], [])
    else if negb (cm_start m =? istart) then ([3; 3], [])
    else if negb (nlist_eqb (cm_deps m) ideps) then ([3; 4], [])
    else match diag_tcalls e o cs 0 with
         | inl l => (4 :: l, [])
         | inr o' =>
           match first_diff (tx_pending (ot_tx o')) iops 0 with
           | [] => match txn_commit o' hash with
                   | (d', Some c) =>
                     if negb (obs_eqb (aview_n e (mkA d' (Some [ch_hash c]))) after_iso) then ([6], [])
                     else if negb (obs_eqb (aview_n e (a_integrate (mkA d' (Some [ch_hash c])))) after_full) then ([7], [])
                     else ([], [])
                   | _ => ([8], [])
                   end
           | l => (5 :: l, tx_pending (ot_tx o'))
           end
         end
  | _ => ([1], [])
  end.

Definition diag_iso_nochange (e : enc) (changes : list change) (table : list actor) (a : actor) (hs : list N)
                            (cs : list call_exp) (after_iso after_full : obs) : list N :=
  let d := mk_tdoc changes table a in
  match txn_open d (Some hs) with
  | Ok o =>
    if negb (wf_tx_b (ot_tx o)) then [2]
    else match diag_tcalls e o cs 0 with
         | inl l => 4 :: l
         | inr o' =>
           match txn_commit o' 0 with
           | (d', None) =>
             if negb (obs_eqb (aview_n e (mkA d' (Some hs))) after_iso) then [6]
             else if negb (obs_eqb (aview_n e (a_integrate (mkA d' (Some hs)))) after_full) then [7]
             else if negb (table_eqb (t_table d') table) then [9] else []
           | _ => [8]
           end
         end
  | _ => [1]
  end.

Definition diag_rollback (e : enc) (changes : list change) (table : list actor) (a : actor)
                        (iso : option (list N)) (stays_isolated : bool)
                        (cs : list call_exp) (after : obs) (pairs : list (actor * N)) : list N :=
  let d := mk_tdoc changes table a in
  match txn_open d iso with
  | Ok o =>
    if negb (wf_tx_b (ot_tx o)) then [2]
    else match diag_tcalls e o cs 0 with
         | inl l => 4 :: l
         | inr o' =>
           let d' := txn_rollback o' in
           if negb (obs_eqb (aview_n e (mkA d' (if stays_isolated then iso else None))) after) then [6]
           else if negb (table_eqb (t_table d') table) then [7]
           else if negb (chk_hints (t_table d') pairs) then [8]
           else if negb (nlist_eqb (m_get_heads (t_m d')) (heads_of changes)) then [9] else []
         end
  | _ => [1]
  end.
