(* Hexane/BoolCol.v — boolean columns (`Column::<bool>`).

   Mirrors rust/hexane/src/bool.rs:
     BoolLoadIter::finalize (the path taken by Column::load: read_count, the two
       zero-count rules, `slab_items += count`, cut every `target_segments` runs)
                                                    -> [bool_raw], [bcount], [bool_load]
     column.rs ColumnLoadIter::finalize_with: total_len = sum of slab lens -> [bfinish]
     BoolEncoder / splice: `save` is the alternating run-length list of the values,
       first run = false (count 0 when the column starts with true) -> [bool_save]
   Wire format: uleb counts of alternating runs false, true, false, ...; only the first
   count may be 0; a trailing 0 is rejected.
   Untrusted counts (as of /repo a623e02f7): `slab_items.checked_add(count)` and the checked
   fold of the slab lengths are BadFormat errors; no partial operation is left. *)
From AM Require Import Base.Prelude Base.Leb128 Hexane.Hleb.
Local Open Scope N_scope.

(* ((DEFAULT_MAX_SEG / 2) & !1).max(2) *)
Definition bool_target : N := 32.

Inductive bterm := BEnd | BErr.

(* the read / validate half of the loop; [first] = `run_index == 0` *)
Fixpoint bool_raw (fuel : nat) (first : bool) (b : bytes) : list N * bterm :=
  match fuel with
  | O => ([], BErr)
  | S f =>
    match b with
    | [] => ([], BEnd)
    | _ =>
      match hleb_u b with
      | None => ([], BErr)
      | Some (c, r) =>
        if (c =? 0) && negb first then ([], BErr)
        else if (c =? 0) && (match r with [] => true | _ => false end) then ([], BErr)
        else let (cs, t) := bool_raw f false r in (c :: cs, t)
      end
    end
  end.

(* (slab_items, slab_segs, lens of finished slabs) *)
Definition bst : Type := (N * N * list N)%type.

Definition bcount1 (st : bst) (c : N) : res bst :=
  let '(items, segs, done) := st in
  let items' := items + c in
  if pow64 <=? items' then Err
  else if bool_target <=? segs + 1 then Ok (0, 0, items' :: done)
  else Ok (items', segs + 1, done).

Fixpoint bcount (st : bst) (cs : list N) : res bst :=
  match cs with
  | [] => Ok st
  | c :: t => let* st' := bcount1 st c in bcount st' t
  end.

Definition bsum (l : list N) : N := fold_right N.add 0 l.

(* runs of a count list: alternating values from [v], zero counts dropped *)
Fixpoint bruns (v : bool) (cs : list N) : list (N * bool) :=
  match cs with
  | [] => []
  | c :: t => if c =? 0 then bruns (negb v) t else (c, v) :: bruns (negb v) t
  end.

Definition bfinish (st : bst) (cs : list N) : res (list (N * bool)) :=
  let '(items, segs, done) := st in
  let lens := if 0 <? segs then items :: done else done in
  if pow64 <=? bsum lens then Err else Ok (bruns false cs).

Definition bool_load_counts (p : list N * bterm) : res (list (N * bool)) :=
  let (cs, t) := p in
  let* st := bcount (0, 0, []) cs in
  match t with
  | BEnd => bfinish st cs
  | BErr => Err
  end.

(* Column::<bool>::load, as the run list of the loaded column *)
Definition bool_load (b : bytes) : res (list (N * bool)) :=
  bool_load_counts (bool_raw (S (length b)) true b).

Fixpoint bexpand (rs : list (N * bool)) : list bool :=
  match rs with
  | [] => []
  | (n, x) :: t => repeat x (N.to_nat n) ++ bexpand t
  end.

Definition bool_load_vals (b : bytes) : res (list bool) :=
  let* rs := bool_load b in Ok (bexpand rs).

(* maximal runs *)
Fixpoint bgroup (l : list bool) : list (N * bool) :=
  match l with
  | [] => []
  | x :: t =>
    match bgroup t with
    | (n, y) :: r => if Bool.eqb x y then (n + 1, y) :: r else (1, x) :: (n, y) :: r
    | [] => [(1, x)]
    end
  end.

Definition bcounts_of_runs (rs : list (N * bool)) : list N :=
  match rs with
  | (_, true) :: _ => 0 :: map fst rs
  | _ => map fst rs
  end.

Definition bool_save_runs (rs : list (N * bool)) : bytes := flat_map hleb_uenc (bcounts_of_runs rs).

(* Column::<bool>::save of a column holding [l] *)
Definition bool_save (l : list bool) : bytes := bool_save_runs (bgroup l).
