(* Hexane/BoolColProofs.v — proofs about the boolean column model (Hexane/BoolCol.v). *)
From AM Require Import Base.Prelude Base.Leb128 Hexane.Hleb Hexane.HlebProofs Hexane.BoolCol.
Local Open Scope N_scope.

Lemma bpow64_val : pow64 = 18446744073709551616. Proof. reflexivity. Qed.
Lemma btarget_val : bool_target = 32. Proof. reflexivity. Qed.
Local Opaque pow64 bool_target.

Definition bwrite (cs : list N) : bytes := flat_map hleb_uenc cs.

(* count lists the loader accepts *)
Fixpoint bw (first : bool) (cs : list N) : Prop :=
  match cs with
  | [] => True
  | c :: t => c < pow64 /\ (c = 0 -> first = true /\ t <> []) /\ bw false t
  end.

Lemma bwrite_nonempty cs : cs <> [] -> bwrite cs <> [].
Proof.
  destruct cs as [|c t]; [congruence|]. intros _ H. cbn [bwrite flat_map] in H.
  apply app_eq_nil in H. destruct H as [H _]. revert H. apply hleb_uenc_nonempty.
Qed.

Lemma bwrite_length cs : (length cs <= length (bwrite cs))%nat.
Proof.
  induction cs as [|c t IH]; cbn [bwrite flat_map length]; [lia|]. fold (bwrite t).
  rewrite app_length. pose proof (hleb_uenc_nonempty c). destruct (hleb_uenc c); [congruence|cbn [length]; lia].
Qed.

Lemma braw_step f first b : b <> [] ->
  bool_raw (S f) first b =
    match hleb_u b with
    | None => ([], BErr)
    | Some (c, r) =>
      if (c =? 0) && negb first then ([], BErr)
      else if (c =? 0) && (match r with [] => true | _ => false end) then ([], BErr)
      else let (cs, t) := bool_raw f false r in (c :: cs, t)
    end.
Proof. destruct b; [congruence|reflexivity]. Qed.

Lemma braw_write : forall cs fuel first,
  bw first cs -> (length cs < fuel)%nat -> bool_raw fuel first (bwrite cs) = (cs, BEnd).
Proof.
  induction cs as [|c t IH]; intros fuel first Hw Hf.
  - destruct fuel; [cbn in Hf; lia|reflexivity].
  - destruct fuel as [|fuel]; [cbn in Hf; lia|]. cbn [length] in Hf.
    cbn [bw] in Hw. destruct Hw as (Hc & Hz & Ht).
    rewrite braw_step by (apply bwrite_nonempty; discriminate).
    cbn [bwrite flat_map]. fold (bwrite t). rewrite hleb_u_roundtrip by exact Hc.
    destruct (c =? 0) eqn:E.
    + apply N.eqb_eq in E. destruct (Hz E) as [-> Hne]. cbn [negb andb].
      pose proof (bwrite_nonempty t Hne) as Hb.
      assert ((match bwrite t with [] => true | _ => false end) = false) as ->
        by (destruct (bwrite t); [congruence|reflexivity]).
      rewrite IH by (auto; lia). reflexivity.
    + cbn [andb]. rewrite IH by (auto; lia). reflexivity.
Qed.

Lemma braw_nonempty : forall fuel first b cs, b <> [] -> bool_raw fuel first b = (cs, BEnd) -> cs <> [].
Proof.
  intros fuel first b cs Hb H. destruct fuel; [cbn in H; inversion H|].
  rewrite braw_step in H by exact Hb.
  destruct (hleb_u b) as [[c r]|]; [|inversion H].
  destruct ((c =? 0) && negb first); [inversion H|].
  destruct ((c =? 0) && match r with [] => true | _ => false end); [inversion H|].
  destruct (bool_raw fuel false r). inversion H. discriminate.
Qed.

Lemma braw_bw : forall fuel first b cs,
  wf_bytes b -> bool_raw fuel first b = (cs, BEnd) -> bw first cs.
Proof.
  induction fuel as [|fuel IH]; intros first b cs Hwf H; [cbn in H; inversion H|].
  destruct b as [|b0 bt]; [cbn in H; inversion H; exact I|].
  rewrite braw_step in H by discriminate.
  destruct (hleb_u (b0 :: bt)) as [[c r]|] eqn:Eu; [|inversion H].
  pose proof (hleb_u_range _ _ _ Hwf Eu) as Hc. pose proof (hleb_u_wf_rest _ _ _ Hwf Eu) as Hr.
  destruct ((c =? 0) && negb first) eqn:E1; [inversion H|].
  destruct ((c =? 0) && match r with [] => true | _ => false end) eqn:E2; [inversion H|].
  destruct (bool_raw fuel false r) as [cs' t] eqn:Ep. inversion H; subst.
  cbn [bw]. split; [exact Hc|]. split; [|eapply IH; eauto].
  intros ->. change (0 =? 0) with true in *. cbn [andb] in *. split.
  - destruct first; [reflexivity|discriminate].
  - destruct r; [discriminate|]. eapply braw_nonempty; [|exact Ep]. discriminate.
Qed.

(* counting *)
Lemma bcount1_inv items segs done c st' :
  bcount1 (items, segs, done) c = Ok st' ->
  exists items' segs' done', st' = (items', segs', done') /\
    items' + bsum done' = items + bsum done + c /\ items' <= items + c /\
    (segs' = 0 -> items' = 0) /\ items + c < pow64.
Proof.
  unfold bcount1. destruct (pow64 <=? items + c) eqn:E; [discriminate|].
  destruct (bool_target <=? segs + 1) eqn:E2; intros H; inversion H; subst;
    do 3 eexists; (split; [reflexivity|]); unfold bsum; cbn [fold_right]; repeat split; lia.
Qed.

Lemma bcount_spec : forall cs items segs done,
  (segs = 0 -> items = 0) ->
  match bcount (items, segs, done) cs with
  | Ok (items', segs', done') =>
      items' + bsum done' = items + bsum done + bsum cs /\ (segs' = 0 -> items' = 0)
  | Err => pow64 <= items + bsum cs
  | Panic => False
  end.
Proof.
  induction cs as [|c t IH]; intros items segs done Hz.
  - cbn [bcount]. unfold bsum. cbn [fold_right]. split; [lia|exact Hz].
  - cbn [bcount]. change (bsum (c :: t)) with (c + bsum t).
    destruct (bcount1 (items, segs, done) c) as [st1| |] eqn:E1; cbn [bind].
    + apply bcount1_inv in E1. destruct E1 as (i1 & s1 & d1 & -> & P1 & P2 & P3 & P4).
      specialize (IH i1 s1 d1 P3).
      destruct (bcount (i1, s1, d1) t) as [[[i2 s2] d2]| |]; [|lia|exact IH].
      destruct IH as [Q1 Q2]. split; [lia|exact Q2].
    + unfold bcount1 in E1. destruct (pow64 <=? items + c) eqn:E; [lia|].
      destruct (bool_target <=? segs + 1); discriminate.
    + unfold bcount1 in E1. destruct (pow64 <=? items + c); [discriminate|].
      destruct (bool_target <=? segs + 1); discriminate.
Qed.

Lemma bcount_ok cs : bsum cs < pow64 ->
  exists st, bcount (0, 0, []) cs = Ok st /\ bfinish st cs = Ok (bruns false cs).
Proof.
  intros Hs. pose proof (bcount_spec cs 0 0 [] (fun _ => eq_refl)) as H.
  destruct (bcount (0, 0, []) cs) as [[[i s] d]| |]; [|lia|contradiction].
  destruct H as [Q1 Q2]. eexists. split; [reflexivity|]. unfold bfinish.
  unfold bsum at 2 in Q1. cbn [fold_right] in Q1.
  destruct (0 <? s) eqn:E.
  - unfold bsum. cbn [fold_right]. fold (bsum d). assert ((pow64 <=? i + bsum d) = false) as -> by lia. reflexivity.
  - assert (i = 0) by (apply Q2; lia). assert ((pow64 <=? bsum d) = false) as -> by lia. reflexivity.
Qed.

(* alternating run lists *)
Fixpoint balt (v : bool) (rs : list (N * bool)) : Prop :=
  match rs with
  | [] => True
  | (n, x) :: t => 1 <= n /\ x = v /\ balt (negb v) t
  end.

Lemma bruns_counts : forall rs v, balt v rs -> bruns v (map fst rs) = rs.
Proof.
  induction rs as [|[n x] t IH]; intros v H; [reflexivity|]. cbn [balt] in H. destruct H as (Hn & -> & Ht).
  cbn [map fst bruns]. assert ((n =? 0) = false) as -> by lia. rewrite IH by exact Ht. reflexivity.
Qed.

Lemma bgroup_alt l : match bgroup l with [] => True | (_, x) :: _ => balt x (bgroup l) end.
Proof.
  induction l as [|x t IH]; [exact I|]. cbn [bgroup].
  destruct (bgroup t) as [|[n y] r].
  - cbn. repeat split; auto. lia.
  - cbn [balt] in IH. destruct IH as (Hn & _ & Hr).
    destruct (Bool.eqb x y) eqn:E.
    + cbn [balt]. repeat split; auto. lia.
    + cbn [balt]. repeat split; auto; try lia.
      * destruct x, y; cbn in E; try discriminate; reflexivity.
      * destruct x, y; cbn in E; try discriminate; exact Hr.
Qed.

Lemma bexpand_bgroup l : bexpand (bgroup l) = l.
Proof.
  induction l as [|x t IH]; [reflexivity|]. cbn [bgroup].
  destruct (bgroup t) as [|[n y] r] eqn:E.
  - cbn in IH. subst t. reflexivity.
  - destruct (Bool.eqb x y) eqn:Eo.
    + apply Bool.eqb_prop in Eo. subst y. cbn [bexpand] in *.
      replace (N.to_nat (n + 1)) with (S (N.to_nat n)) by lia. cbn [repeat app]. rewrite IH. reflexivity.
    + cbn [bexpand] in *. change (N.to_nat 1) with 1%nat. cbn [repeat app]. rewrite IH. reflexivity.
Qed.

Lemma bgroup_repeat x : forall k l' g,
  (match g with (_, y) :: _ => y = negb x | [] => True end) -> bgroup l' = g ->
  bgroup (repeat x (S k) ++ l') = (N.of_nat (S k), x) :: g.
Proof.
  induction k as [|k IH]; intros l' g Hg E.
  - cbn [repeat app bgroup]. rewrite E. destruct g as [|[m y] r]; [reflexivity|]. subst y.
    destruct x; reflexivity.
  - change (repeat x (S (S k)) ++ l') with (x :: (repeat x (S k) ++ l')). cbn [bgroup].
    rewrite (IH l' g Hg E). rewrite Bool.eqb_reflx. f_equal. f_equal. lia.
Qed.

Lemma bgroup_bexpand : forall rs v, balt v rs -> bgroup (bexpand rs) = rs.
Proof.
  induction rs as [|[n x] t IH]; intros v H; [reflexivity|]. cbn [balt] in H. destruct H as (Hn & -> & Ht).
  cbn [bexpand]. destruct (N.to_nat n) as [|k] eqn:Ek; [lia|].
  rewrite (bgroup_repeat v k (bexpand t) t).
  - f_equal. f_equal. lia.
  - destruct t as [|[m y] r]; [exact I|]. cbn [balt] in Ht. tauto.
  - eapply IH; eauto.
Qed.

Lemma bsum_bgroup l : bsum (map fst (bgroup l)) = N.of_nat (length l).
Proof.
  induction l as [|x t IH]; [reflexivity|]. cbn [bgroup length].
  destruct (bgroup t) as [|[n y] r]; unfold bsum in *; cbn [map fst fold_right] in *; [lia|].
  destruct (Bool.eqb x y); cbn [map fst fold_right]; lia.
Qed.

Lemma bw_counts : forall rs v first, balt v rs -> bsum (map fst rs) < pow64 -> bw first (map fst rs).
Proof.
  induction rs as [|[n x] t IH]; intros v first H Hs; [exact I|]. cbn [balt] in H. destruct H as (Hn & _ & Ht).
  unfold bsum in Hs. cbn [map fst fold_right] in Hs. fold (bsum (map fst t)) in Hs.
  cbn [map fst bw]. split; [lia|]. split; [lia|]. eapply IH; eauto. lia.
Qed.

Lemma bsum_counts rs : bsum (bcounts_of_runs rs) = bsum (map fst rs).
Proof.
  unfold bcounts_of_runs. destruct rs as [|[n [|]] t]; try reflexivity; unfold bsum; cbn [fold_right]; lia.
Qed.

(* loading the counts the writer wrote *)
Lemma bool_load_runs rs v :
  balt v rs -> bsum (map fst rs) < pow64 -> bool_load (bool_save_runs rs) = Ok rs.
Proof.
  intros Ha Hs. unfold bool_load, bool_save_runs. fold (bwrite (bcounts_of_runs rs)).
  assert (Hbw : bw true (bcounts_of_runs rs)).
  { unfold bcounts_of_runs. destruct rs as [|[n [|]] t].
    - exact I.
    - cbn [bw]. rewrite bpow64_val. split; [lia|]. split; [intros _; split; [reflexivity|discriminate]|].
      eapply bw_counts; eauto.
    - eapply bw_counts; eauto. }
  rewrite braw_write; [|exact Hbw|pose proof (bwrite_length (bcounts_of_runs rs)); lia].
  unfold bool_load_counts.
  destruct (bcount_ok (bcounts_of_runs rs)) as (st & E1 & E2); [rewrite bsum_counts; exact Hs|].
  rewrite E1. cbn [bind]. rewrite E2. f_equal.
  unfold bcounts_of_runs. destruct rs as [|[n x] t]; [reflexivity|].
  cbn [balt] in Ha. destruct Ha as (Hn & -> & Ht).
  destruct v.
  - cbn [bruns]. change (0 =? 0) with true. cbn iota. apply (bruns_counts ((n, true) :: t) true). cbn [balt]. auto.
  - apply (bruns_counts ((n, false) :: t) false). cbn [balt]. auto.
Qed.

(* T1: save then load *)
Theorem bool_load_save l : N.of_nat (length l) < pow64 -> bool_load (bool_save l) = Ok (bgroup l).
Proof.
  intros Hl. unfold bool_save. pose proof (bgroup_alt l) as Ha.
  destruct (bgroup l) as [|[n x] r] eqn:E.
  - vm_compute. reflexivity.
  - rewrite <- E in *. apply (bool_load_runs (bgroup l) x); [exact Ha|].
    rewrite bsum_bgroup. exact Hl.
Qed.

Theorem bool_load_vals_save l : N.of_nat (length l) < pow64 -> bool_load_vals (bool_save l) = Ok l.
Proof.
  intros H. unfold bool_load_vals. rewrite bool_load_save by exact H. cbn [bind]. rewrite bexpand_bgroup. reflexivity.
Qed.

(* what loads is canonical *)
Lemma bruns_alt : forall t v, bw false t -> balt v (bruns v t) /\ map fst (bruns v t) = t.
Proof.
  induction t as [|c t IH]; intros v H; [split; [exact I|reflexivity]|].
  cbn [bw] in H. destruct H as (Hc & Hz & Ht).
  assert (c <> 0) by (intros ->; destruct (Hz eq_refl); discriminate).
  cbn [bruns]. assert ((c =? 0) = false) as -> by lia.
  destruct (IH (negb v) Ht) as [A B]. cbn [balt map fst]. rewrite B. repeat split; auto. lia.
Qed.

Theorem bool_load_canonical b rs :
  wf_bytes b -> bool_load b = Ok rs ->
  bool_raw (S (length b)) true b = (bcounts_of_runs rs, BEnd) /\
  (exists v, balt v rs) /\ bsum (map fst rs) < pow64.
Proof.
  intros Hwf. unfold bool_load, bool_load_counts.
  destruct (bool_raw (S (length b)) true b) as [cs t] eqn:Ep.
  pose proof (bcount_spec cs 0 0 [] (fun _ => eq_refl)) as Hc.
  destruct (bcount (0, 0, []) cs) as [[[i s] d]| |] eqn:Ec; cbn [bind]; try discriminate.
  destruct t; try discriminate. unfold bfinish.
  destruct Hc as [Q1 Q2]. unfold bsum at 2 in Q1. cbn [fold_right] in Q1.
  assert (Hsum : forall X, (if pow64 <=? bsum (if 0 <? s then i :: d else d) then Err else Ok X) = Ok rs ->
                 X = rs /\ bsum cs < pow64).
  { intros X. destruct (0 <? s) eqn:E.
    - unfold bsum at 1. cbn [fold_right]. fold (bsum d).
      destruct (pow64 <=? i + bsum d) eqn:E2; [discriminate|]. intros HX; inversion HX. split; [reflexivity|lia].
    - assert (i = 0) by (apply Q2; lia).
      destruct (pow64 <=? bsum d) eqn:E2; [discriminate|]. intros HX; inversion HX. split; [reflexivity|lia]. }
  intros Hfin. apply Hsum in Hfin. destruct Hfin as [<- Hs].
  pose proof (braw_bw _ _ _ _ Hwf Ep) as Hbw.
  destruct cs as [|c t].
  - split; [reflexivity|]. split; [exists false; exact I|]. unfold bsum. cbn. rewrite bpow64_val. lia.
  - cbn [bw] in Hbw. destruct Hbw as (Hc & Hz & Ht).
    destruct (c =? 0) eqn:E0.
    + apply N.eqb_eq in E0. subst c. destruct (Hz eq_refl) as [_ Hne].
      cbn [bruns]. change (0 =? 0) with true. cbn iota. cbn [negb].
      destruct (bruns_alt t true Ht) as [A B].
      destruct t as [|c1 t1]; [congruence|].
      cbn [bw] in Ht. destruct Ht as (Hc1 & Hz1 & Ht1).
      assert (c1 <> 0) by (intros ->; destruct (Hz1 eq_refl); discriminate).
      cbn [bruns] in *. assert ((c1 =? 0) = false) as E1 by lia. rewrite E1 in *.
      split; [|split].
      * unfold bcounts_of_runs. cbn [map fst] in B |- *. rewrite B. reflexivity.
      * exists true. exact A.
      * rewrite B. unfold bsum in *. cbn [fold_right] in *. lia.
    + cbn [bruns]. rewrite E0.
      assert (Hall : bw false (c :: t)).
      { cbn [bw]. split; [exact Hc|]. split; [intros ->; discriminate|exact Ht]. }
      destruct (bruns_alt (c :: t) false Hall) as [A B]. cbn [bruns] in A, B. rewrite E0 in A, B.
      split; [|split].
      * unfold bcounts_of_runs. rewrite B. reflexivity.
      * exists false. exact A.
      * rewrite B. exact Hs.
Qed.

(* T3: a column that loads saves back to bytes that load to the same column *)
Theorem bool_resave b rs :
  wf_bytes b -> bool_load b = Ok rs -> bool_load (bool_save (bexpand rs)) = Ok rs.
Proof.
  intros Hwf H. destruct (bool_load_canonical b rs Hwf H) as (_ & [v Ha] & Hs).
  unfold bool_save. rewrite (bgroup_bexpand rs v Ha). eapply bool_load_runs; eauto.
Qed.

Theorem bool_load_group b rs : wf_bytes b -> bool_load b = Ok rs -> bgroup (bexpand rs) = rs.
Proof.
  intros Hwf H. destruct (bool_load_canonical b rs Hwf H) as (_ & [v Ha] & _). eapply bgroup_bexpand; eauto.
Qed.

(* T4: never panics *)
Theorem bool_load_no_panic b : bool_load b <> Panic.
Proof.
  unfold bool_load, bool_load_counts.
  destruct (bool_raw (S (length b)) true b) as [cs t].
  pose proof (bcount_spec cs 0 0 [] (fun _ => eq_refl)) as Hc.
  destruct (bcount (0, 0, []) cs) as [[[i s] d]| |]; cbn [bind]; [|discriminate|contradiction].
  destruct t; [|discriminate]. unfold bfinish. destruct (pow64 <=? _); discriminate.
Qed.
