(* Hexane/ColSpec.v — the executable Vec SPECIFICATION of hexane columns (C34, level: spec-level).

   What is modelled: the observable contract of the public column API of /repo/rust/hexane
   (column.rs `Column<T>`, prefix.rs `PrefixColumn<T>`, delta/mod.rs + delta/indexed.rs
   `DeltaColumn<T>`, raw.rs `RawColumn`, edit.rs `Edit` cursor), with a column being a plain
   list of values (`list V`; a nullable column is a list over a value type that has a null).
   What is NOT modelled: slabs, run-length bytes, the B-tree (btree.rs) and the byte splices
   (rle/splice.rs, bool.rs) — they are tied to this specification by the differential harness
   (harness/src/fam_hexcol.rs), not line by line.

   The argument conventions and the out-of-range behaviour mirror the Rust bodies:
     Column::splice_inner   assert!(index + del <= total_len)           -> Panic
     Column::insert         = splice_inner(index, 0, [v])
     Column::remove         if index < total_len { splice_inner(index, 1, []) }   (else no-op)
     Column::remove_n       if n > 0 { splice_inner(index, n, []) }               (n = 0: no-op)
     Column::push           splice_inner(len, 0, [v])
     Column::clear          if len > 0 { splice_inner(0, len, []) }
     Column::truncate       if len < total_len { splice_inner(len, total_len - len, []) }
     Extend::extend         splice_inner(len, 0, vals)
     Column::splice_runs    splice_inner(index, del, runs)   (a run of count 0 inserts nothing)
     Column::get            iter().nth(index)                                      (None past the end)
     Column::iter_range     start = min(range.start, len); end = max(min(range.end, len), start)
     Iter::next_run         maximal runs of equal values, clipped to the window
     Iter::scan_to_value    next position holding the value inside the window
     Column::scope_to_value sub-range of a SORTED window holding the value / empty range at the insertion point
     PrefixColumn::get_prefix(i)  sum of items 0..min(i,len);  get_total(i) = get_prefix(i+1)
     PrefixColumn::sum_range      0 when start >= end or the column is empty, else prefix(end) - prefix(start)
     PrefixColumn::get_index_for_prefix(t)  0 when t <= 0; else the first i in 1..=len with prefix(i) >= t; len+1 when t exceeds the total
     PrefixColumn::get_index_for_total(t)   get_index_for_prefix(t).saturating_sub(1)
     PrefixIter::advance_prefix(n)          lands on index_for_total(total_here + n + 1) if it is inside the window
     Edit (cursor)          edit_at: assert!(at <= len); seek: assert!(to >= orig), clamped at the end
                            (DeltaEdit::seek is to.saturating_sub(pos): a backwards seek is a no-op, [CSeekSat]);
                            delete: clamped to what is left; insert_run(v, n); replace; finish
     DeltaColumn            the same vector contract over realized values; stored deltas are
                            [deltas_from]; DeltaIter::next_run reports runs of equal stored deltas with the
                            running value before the run; find_by_range(lo..hi) lists the indexes whose
                            value v satisfies lo <= v < hi (nulls never match)
     RawColumn              splice_slice: Err / panic when index + del > len (same [splice] over bytes)
   No proofs in this file. *)
From AM Require Import Base.Prelude.

Section Col.
  Context {V : Type}.
  Variable veqb : V -> V -> bool.     (* T::eq *)
  Variable vltb : V -> V -> bool.     (* Ord on T::Get, for scope_to_value *)
  Variable wt : V -> Z.               (* PrefixValue::accumulate: the item's contribution *)

  (* ---------------------------------------------------------------- edits *)
  Definition splice (i del : nat) (vals : list V) (l : list V) : res (list V) :=
    if (i + del <=? length l)%nat
    then Ok (firstn i l ++ vals ++ skipn (i + del) l)
    else Panic.

  Definition insert (i : nat) (v : V) (l : list V) : res (list V) := splice i 0 [v] l.

  Definition remove (i : nat) (l : list V) : res (list V) :=
    if (i <? length l)%nat then splice i 1 [] l else Ok l.

  Definition remove_n (i n : nat) (l : list V) : res (list V) :=
    if (0 <? n)%nat then splice i n [] l else Ok l.

  Definition push (v : V) (l : list V) : res (list V) := splice (length l) 0 [v] l.

  Definition clear (l : list V) : res (list V) :=
    if (0 <? length l)%nat then splice 0 (length l) [] l else Ok l.

  Definition truncate (n : nat) (l : list V) : res (list V) :=
    if (n <? length l)%nat then splice n (length l - n) [] l else Ok l.

  Definition extend (vals : list V) (l : list V) : res (list V) := splice (length l) 0 vals l.

  Definition expand_runs (rs : list (nat * V)) : list V :=
    flat_map (fun r => repeat (snd r) (fst r)) rs.

  Definition splice_runs (i del : nat) (rs : list (nat * V)) (l : list V) : res (list V) :=
    splice i del (expand_runs rs) l.

  (* DeltaColumn::pop *)
  Definition pop (l : list V) : res (list V) :=
    if (0 <? length l)%nat then remove (length l - 1) l else Ok l.

  (* ---------------------------------------------------------------- edit cursor (edit.rs) *)
  (* [c_done]: what the cursor has written so far; [c_rest]: original items still ahead;
     [c_orig]: position in ORIGINAL coordinates (what seek takes). *)
  Record cursor := { c_done : list V; c_rest : list V; c_orig : nat }.

  Inductive cur_op :=
  | CSeek (to : nat)
  | CSeekSat (to : nat)            (* DeltaEdit::seek: to.saturating_sub(pos) — never panics *)
  | CAdvance (n : nat)
  | CDelete (n : nat)
  | CInsertRun (v : V) (n : nat)
  | CReplace (v : V).              (* replace(|_| v) *)

  Definition edit_at (at_ : nat) (l : list V) : res cursor :=
    if (at_ <=? length l)%nat
    then Ok {| c_done := firstn at_ l; c_rest := skipn at_ l; c_orig := at_ |}
    else Panic.

  Definition cur_advance (n : nat) (c : cursor) : cursor :=
    let k := Nat.min n (length (c_rest c)) in
    {| c_done := c_done c ++ firstn k (c_rest c); c_rest := skipn k (c_rest c); c_orig := c_orig c + k |}.

  Definition cur_delete (n : nat) (c : cursor) : cursor :=
    let k := Nat.min n (length (c_rest c)) in
    {| c_done := c_done c; c_rest := skipn k (c_rest c); c_orig := c_orig c + k |}.

  Definition cur_insert_run (v : V) (n : nat) (c : cursor) : cursor :=
    {| c_done := c_done c ++ repeat v n; c_rest := c_rest c; c_orig := c_orig c |}.

  Definition cur_step (op : cur_op) (c : cursor) : res cursor :=
    match op with
    | CSeek to => if (c_orig c <=? to)%nat then Ok (cur_advance (to - c_orig c) c) else Panic
    | CSeekSat to => Ok (cur_advance (to - c_orig c) c)
    | CAdvance n => Ok (cur_advance n c)
    | CDelete n => Ok (cur_delete n c)
    | CInsertRun v n => Ok (cur_insert_run v n c)
    | CReplace v =>
        match c_rest c with
        | [] => Ok c                                   (* peek = None: nothing happens *)
        | x :: _ => if veqb x v then Ok (cur_advance 1 c)
                    else Ok (cur_insert_run v 1 (cur_delete 1 c))
        end
    end.

  Fixpoint cur_run (ops : list cur_op) (c : cursor) : res cursor :=
    match ops with
    | [] => Ok c
    | op :: r => let* c' := cur_step op c in cur_run r c'
    end.

  Definition cur_finish (c : cursor) : list V := c_done c ++ c_rest c.

  Definition edit_session (at_ : nat) (ops : list cur_op) (l : list V) : res (list V) :=
    let* c := edit_at at_ l in
    let* c' := cur_run ops c in
    Ok (cur_finish c').

  (* ---------------------------------------------------------------- plain queries *)
  Definition get (i : nat) (l : list V) : option V := nth_error l i.

  Definition win_start (a : nat) (l : list V) : nat := Nat.min a (length l).
  Definition win_end (a b : nat) (l : list V) : nat := Nat.max (Nat.min b (length l)) (win_start a l).

  Definition iter_range (a b : nat) (l : list V) : list V :=
    firstn (win_end a b l - win_start a l) (skipn (win_start a l) l).

  (* iter_range(a..b).nth(k) *)
  Definition iter_nth (a b k : nat) (l : list V) : option V := nth_error (iter_range a b l) k.

  (* maximal runs of equal values *)
  Fixpoint runs (l : list V) : list (nat * V) :=
    match l with
    | [] => []
    | x :: t =>
        match runs t with
        | (c, y) :: r => if veqb x y then (S c, y) :: r else (1%nat, x) :: (c, y) :: r
        | [] => [(1%nat, x)]
        end
    end.

  Definition run_iter (a b : nat) (l : list V) : list (nat * V) := runs (iter_range a b l).

  (* positions holding [v], numbered from [i] *)
  Fixpoint find_from (v : V) (i : nat) (l : list V) : list nat :=
    match l with
    | [] => []
    | x :: t => if veqb x v then i :: find_from v (S i) t else find_from v (S i) t
    end.

  (* repeated Iter::scan_to_value over iter_range(a..b) *)
  Definition find_all (v : V) (a b : nat) (l : list V) : list nat :=
    find_from v (win_start a l) (iter_range a b l).

  Definition scan_to_value (v : V) (a b : nat) (l : list V) : option nat :=
    hd_error (find_all v a b l).

  (* Column::scope_to_value on a sorted window *)
  Definition scope_to_value (v : V) (a b : nat) (l : list V) : nat * nat :=
    let w := iter_range a b l in
    let lt := length (filter (fun x => vltb x v) w) in
    let eq := length (filter (fun x => veqb x v) w) in
    (win_start a l + lt, win_start a l + lt + eq)%nat.

  Definition is_only (v : V) (l : list V) : bool := forallb (fun x => veqb x v) l.

  (* ---------------------------------------------------------------- accumulators (prefix.rs) *)
  Definition sum (l : list V) : Z := fold_right (fun x acc => (wt x + acc)%Z) 0%Z l.

  (* get_prefix(i): exclusive prefix, clamped at the end (firstn clamps) *)
  Definition get_prefix (i : nat) (l : list V) : Z := sum (firstn i l).
  Definition get_total (i : nat) (l : list V) : Z := get_prefix (S i) l.

  Definition sum_range (a b : nat) (l : list V) : Z :=
    if (b <=? a)%nat || (length l =? 0)%nat then 0%Z
    else (get_prefix b l - get_prefix a l)%Z.

  (* find_slab_at_prefix + find_prefix_in_slab, flattened: walk until the running sum reaches t *)
  Fixpoint ifp_go (t acc : Z) (i : nat) (l : list V) : nat :=
    match l with
    | [] => S i
    | x :: r => let acc' := (acc + wt x)%Z in
                if (t <=? acc')%Z then S i else ifp_go t acc' (S i) r
    end.

  Definition index_for_prefix (t : Z) (l : list V) : nat :=
    if (t <=? 0)%Z then 0%nat else ifp_go t 0%Z 0%nat l.

  Definition index_for_total (t : Z) (l : list V) : nat := Nat.pred (index_for_prefix t l).

  (* PrefixIter over iter_range(a..b): each item with its inclusive total *)
  Fixpoint with_acc (acc : Z) (l : list V) : list (V * Z) :=
    match l with
    | [] => []
    | x :: t => let acc' := (acc + wt x)%Z in (x, acc') :: with_acc acc' t
    end.

  Definition iter_range_acc (a b : nat) (l : list V) : list (V * Z) :=
    with_acc (get_prefix (win_start a l) l) (iter_range a b l).

  (* PrefixColumn::get(i): value, prefix(), total() *)
  Definition get_acc (i : nat) (l : list V) : option (V * Z * Z) :=
    match nth_error l i with
    | Some x => Some (x, get_prefix i l, get_total i l)
    | None => None
    end.

  (* PrefixIter::next_run: the run with the total through its end *)
  Fixpoint runs_acc (acc : Z) (rs : list (nat * V)) : list (nat * V * Z) :=
    match rs with
    | [] => []
    | (c, v) :: r => let acc' := (acc + Z.of_nat c * wt v)%Z in (c, v, acc') :: runs_acc acc' r
    end.

  Definition run_iter_acc (a b : nat) (l : list V) : list (nat * V * Z) :=
    runs_acc (get_prefix (win_start a l) l) (run_iter a b l).

  (* iter_range(a..b).advance_prefix(n): (pos, delta, value, total) *)
  Definition advance_prefix (a b : nat) (n : Z) (l : list V) : option (nat * Z * V * Z) :=
    let s := win_start a l in
    let e := win_end a b l in
    let here := get_prefix s l in
    let tp := index_for_total (here + n + 1)%Z l in
    if (tp <? s)%nat || (e <=? tp)%nat then None
    else match nth_error l tp with
         | Some x => Some (tp, (get_prefix tp l - here)%Z, x, get_total tp l)
         | None => None
         end.
End Col.

(* -------------------------------------------------------------------- delta columns *)
(* A delta column over realized values [list (option Z)] ([None] = null).  Stored deltas: a non-null
   item stores its difference to the previous NON-NULL item (0 before the first); nulls store nothing. *)
Fixpoint deltas_from (prev : Z) (l : list (option Z)) : list (option Z) :=
  match l with
  | [] => []
  | None :: t => None :: deltas_from prev t
  | Some v :: t => Some (v - prev)%Z :: deltas_from v t
  end.

(* DeltaIter::next: running += d; realized = running *)
Fixpoint realize_from (running : Z) (d : list (option Z)) : list (option Z) :=
  match d with
  | [] => []
  | None :: t => None :: realize_from running t
  | Some x :: t => Some (running + x)%Z :: realize_from (running + x)%Z t
  end.

(* the running value after a prefix of the column: last non-null value, 0 if none *)
Fixpoint running_after (prev : Z) (l : list (option Z)) : Z :=
  match l with
  | [] => prev
  | None :: t => running_after prev t
  | Some v :: t => running_after v t
  end.

Definition optz_eqb (a b : option Z) : bool := option_eqb Z.eqb a b.

(* DeltaRun { prefix, delta, count } *)
Fixpoint delta_runs_from (running : Z) (rs : list (nat * option Z)) : list (Z * option Z * nat) :=
  match rs with
  | [] => []
  | (c, None) :: r => (running, None, c) :: delta_runs_from running r
  | (c, Some d) :: r => (running, Some d, c) :: delta_runs_from (running + Z.of_nat c * d)%Z r
  end.

Definition delta_run_iter (a b : nat) (l : list (option Z)) : list (Z * option Z * nat) :=
  let s := win_start a l in
  let d := deltas_from 0%Z l in
  delta_runs_from (running_after 0%Z (firstn s l))
                  (runs optz_eqb (firstn (win_end a b l - s) (skipn s d))).

(* find_by_range(lo..hi): indexes holding a value in [lo, hi), ascending, numbered from i *)
Fixpoint find_range_from (lo hi : Z) (i : nat) (l : list (option Z)) : list nat :=
  match l with
  | [] => []
  | Some v :: t => if ((lo <=? v) && (v <? hi))%Z then i :: find_range_from lo hi (S i) t
                   else find_range_from lo hi (S i) t
  | None :: t => find_range_from lo hi (S i) t
  end.

Definition find_by_range (lo hi : Z) (l : list (option Z)) : list nat := find_range_from lo hi 0 l.
Definition find_by_value (v : Z) (l : list (option Z)) : list nat := find_by_range v (v + 1)%Z l.
Definition find_first (v : Z) (l : list (option Z)) : option nat := hd_error (find_by_value v l).

(* iter_range(a..b).scan_to_range(lo..=hi): first hit inside the window, with its value *)
Definition scan_to_range (a b : nat) (lo hi : Z) (l : list (option Z)) : option nat :=
  hd_error (find_range_from lo (hi + 1)%Z (win_start a l) (iter_range a b l)).
