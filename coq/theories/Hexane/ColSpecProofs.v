(* Hexane/ColSpecProofs.v — the algebra of the Vec specification of hexane columns (C34).
   All statements are unbounded (any list, any index). *)
From AM Require Import Base.Prelude Hexane.ColSpec.
From Coq Require Import Sorted.

(* list facts missing from the 8.16 standard library *)
Lemma nth_error_firstn {A} n (l : list A) k :
  nth_error (firstn n l) k = if k <? n then nth_error l k else None.
Proof.
  revert l k. induction n as [|n IH]; intros l k.
  - cbn [firstn]. destruct k; reflexivity.
  - destruct l as [|x t]; [cbn [firstn]; destruct k; cbn [nth_error]; destruct (_ <? _); reflexivity|].
    destruct k as [|k]; [reflexivity|]. cbn [firstn nth_error]. rewrite IH. reflexivity.
Qed.

Lemma nth_error_skipn {A} n (l : list A) k : nth_error (skipn n l) k = nth_error l (n + k).
Proof.
  revert l. induction n as [|n IH]; intros l; [reflexivity|].
  destruct l as [|x t]; [destruct k; reflexivity|]. cbn [skipn Nat.add nth_error]. apply IH.
Qed.

Lemma skipn_skipn {A} x y (l : list A) : skipn x (skipn y l) = skipn (x + y) l.
Proof.
  revert l. induction y as [|y IH]; intros l; [rewrite Nat.add_0_r; reflexivity|].
  destruct l as [|a t]; [rewrite !skipn_nil; reflexivity|].
  rewrite Nat.add_succ_r. cbn [skipn]. apply IH.
Qed.

Lemma firstn_add {A} a b (l : list A) : firstn (a + b) l = firstn a l ++ firstn b (skipn a l).
Proof.
  revert l. induction a as [|a IH]; intros l; [reflexivity|].
  destruct l as [|x t]; [rewrite !firstn_nil; reflexivity|]. cbn [Nat.add firstn skipn app]. rewrite IH. reflexivity.
Qed.

Lemma In_firstn {A} n (l : list A) x : In x (firstn n l) -> In x l.
Proof. intros H. rewrite <- (firstn_skipn n l). apply in_or_app. left. exact H. Qed.

Lemma In_skipn {A} n (l : list A) x : In x (skipn n l) -> In x l.
Proof. intros H. rewrite <- (firstn_skipn n l). apply in_or_app. right. exact H. Qed.

Lemma nth_error_ext_eq {A} (l1 l2 : list A) :
  (forall k, nth_error l1 k = nth_error l2 k) -> l1 = l2.
Proof.
  revert l2. induction l1 as [|x t IH]; intros [|y u] H.
  - reflexivity.
  - specialize (H 0). discriminate.
  - specialize (H 0). discriminate.
  - pose proof (H 0) as H0. cbn in H0. inversion H0; subst. f_equal. apply IH.
    intros k. exact (H (S k)).
Qed.

(* Each group of lemmas lives in a section that declares only what the group needs, so that no
   lemma is generalised over an equality test or a weight function it does not use. *)
Section Edits.
  Context {V : Type}.

  (* ------------------------------------------------------------------ splice *)
  Lemma splice_ok i del vals (l r : list V) :
    splice i del vals l = Ok r <->
    (i + del <= length l /\ r = firstn i l ++ vals ++ skipn (i + del) l).
  Proof.
    unfold splice. destruct (i + del <=? length l) eqn:E.
    - apply Nat.leb_le in E. split.
      + intros H; inversion H; auto.
      + intros [_ ->]; reflexivity.
    - apply Nat.leb_gt in E. split; [discriminate|]. intros [H _]; lia.
  Qed.

  Lemma splice_panic i del vals (l : list V) :
    splice i del vals l = Panic <-> length l < i + del.
  Proof.
    unfold splice. destruct (i + del <=? length l) eqn:E.
    - apply Nat.leb_le in E. split; [discriminate|lia].
    - apply Nat.leb_gt in E. split; auto.
  Qed.

  Lemma splice_not_err i del vals (l : list V) : splice i del vals l <> Err.
  Proof. unfold splice. destruct (i + del <=? length l); discriminate. Qed.

  Lemma splice_length i del vals (l r : list V) :
    splice i del vals l = Ok r -> length r + del = length l + length vals.
  Proof.
    intros H. apply splice_ok in H. destruct H as [Hle ->].
    rewrite !app_length, firstn_length, skipn_length. lia.
  Qed.

  (* pointwise: before the splice point the old items, then the new ones, then the old ones shifted *)
  Lemma splice_nth i del vals (l r : list V) k :
    splice i del vals l = Ok r ->
    nth_error r k =
      if k <? i then nth_error l k
      else if k <? i + length vals then nth_error vals (k - i)
      else nth_error l (k - length vals + del).
  Proof.
    intros H. apply splice_ok in H. destruct H as [Hle ->].
    assert (Hf : length (firstn i l) = i) by (rewrite firstn_length; lia).
    destruct (k <? i) eqn:E1.
    - apply Nat.ltb_lt in E1. rewrite nth_error_app1 by lia.
      rewrite nth_error_firstn. destruct (k <? i) eqn:E; [reflexivity|]. apply Nat.ltb_ge in E. lia.
    - apply Nat.ltb_ge in E1. rewrite nth_error_app2 by lia. rewrite Hf.
      destruct (k <? i + length vals) eqn:E2.
      + apply Nat.ltb_lt in E2. rewrite nth_error_app1 by lia. reflexivity.
      + apply Nat.ltb_ge in E2. rewrite nth_error_app2 by lia.
        rewrite nth_error_skipn. f_equal. lia.
  Qed.

  (* ------------------------------------------------------------------ the named edits are splices *)
  Lemma insert_spec i v (l : list V) :
    insert i v l = if i <=? length l then Ok (firstn i l ++ v :: skipn i l) else Panic.
  Proof. unfold insert, splice. rewrite Nat.add_0_r. reflexivity. Qed.

  Lemma remove_spec i (l : list V) : remove i l = Ok (firstn i l ++ skipn (S i) l).
  Proof.
    unfold remove, splice. destruct (i <? length l) eqn:E.
    - apply Nat.ltb_lt in E. replace (i + 1 <=? length l) with true by (symmetry; apply Nat.leb_le; lia).
      rewrite Nat.add_1_r. reflexivity.
    - apply Nat.ltb_ge in E. rewrite firstn_all2 by lia. rewrite skipn_all2 by lia.
      rewrite app_nil_r. reflexivity.
  Qed.

  Lemma remove_n_spec i n (l : list V) :
    remove_n i n l =
      if i + n <=? length l then Ok (firstn i l ++ skipn (i + n) l)
      else if n =? 0 then Ok l else Panic.
  Proof.
    unfold remove_n, splice. destruct n as [|n].
    - cbn [Nat.ltb Nat.leb]. rewrite Nat.add_0_r. destruct (i <=? length l) eqn:E.
      + rewrite firstn_skipn. reflexivity.
      + reflexivity.
    - replace (0 <? S n) with true by reflexivity.
      destruct (i + S n <=? length l); reflexivity.
  Qed.

  Lemma push_spec v (l : list V) : push v l = Ok (l ++ [v]).
  Proof.
    unfold push, splice. rewrite Nat.add_0_r, Nat.leb_refl.
    rewrite firstn_all, skipn_all. reflexivity.
  Qed.

  Lemma extend_spec vals (l : list V) : extend vals l = Ok (l ++ vals).
  Proof.
    unfold extend, splice. rewrite Nat.add_0_r, Nat.leb_refl.
    rewrite firstn_all, skipn_all, app_nil_r. reflexivity.
  Qed.

  Lemma clear_spec (l : list V) : clear l = Ok [].
  Proof.
    unfold clear, splice. destruct l as [|x l]; [reflexivity|].
    replace (0 <? length (x :: l)) with true by reflexivity.
    cbn [Nat.add]. rewrite Nat.leb_refl. rewrite skipn_all. reflexivity.
  Qed.

  Lemma truncate_spec n (l : list V) : truncate n l = Ok (firstn n l).
  Proof.
    unfold truncate, splice. destruct (n <? length l) eqn:E.
    - apply Nat.ltb_lt in E.
      replace (n + (length l - n)) with (length l) by lia.
      rewrite Nat.leb_refl, skipn_all, app_nil_r. reflexivity.
    - apply Nat.ltb_ge in E. rewrite firstn_all2 by lia. reflexivity.
  Qed.

  Lemma pop_spec (l : list V) : pop l = Ok (removelast l).
  Proof.
    unfold pop. destruct (0 <? length l) eqn:E.
    - apply Nat.ltb_lt in E. rewrite remove_spec.
      replace (S (length l - 1)) with (length l) by lia.
      rewrite skipn_all, app_nil_r. f_equal.
      rewrite removelast_firstn_len. f_equal. lia.
    - apply Nat.ltb_ge in E. destruct l; [reflexivity|cbn in E; lia].
  Qed.

  Lemma splice_runs_spec i del rs (l : list V) :
    splice_runs i del rs l = splice i del (expand_runs rs) l.
  Proof. reflexivity. Qed.

  (* a splice is a deletion followed by an insertion at the same place *)
  Lemma splice_decompose i del vals (l : list V) :
    i + del <= length l ->
    splice i del vals l = (let* l1 := remove_n i del l in splice i 0 vals l1).
  Proof.
    intros Hle. rewrite remove_n_spec.
    replace (i + del <=? length l) with true by (symmetry; apply Nat.leb_le; lia).
    cbn [bind]. unfold splice.
    replace (i + del <=? length l) with true by (symmetry; apply Nat.leb_le; lia).
    assert (Hf : length (firstn i l) = i) by (rewrite firstn_length; lia).
    rewrite Nat.add_0_r, app_length, Hf.
    replace (i <=? i + length (skipn (i + del) l)) with true by (symmetry; apply Nat.leb_le; lia).
    f_equal. rewrite firstn_app, Hf, Nat.sub_diag. cbn [firstn]. rewrite app_nil_r.
    rewrite (firstn_all2 (firstn i l)) by (rewrite Hf; lia).
    rewrite skipn_app, Hf, Nat.sub_diag. cbn [skipn].
    rewrite (skipn_all2 (firstn i l)) by (rewrite Hf; lia). reflexivity.
  Qed.

  (* two splices at far-apart places commute (with the later position shifted) *)
  Lemma splice_total i del vals (l : list V) :
    i + del <= length l -> exists r, splice i del vals l = Ok r.
  Proof. intros H. eexists. apply splice_ok. split; [exact H|reflexivity]. Qed.

  Lemma splice_splice_commute i1 d1 v1 i2 d2 v2 (l : list V) :
    i1 + d1 <= i2 -> i2 + d2 <= length l ->
    (let* l' := splice i2 d2 v2 l in splice i1 d1 v1 l') =
    (let* l' := splice i1 d1 v1 l in splice (i2 + length v1 - d1) d2 v2 l').
  Proof.
    intros H1 H2.
    destruct (splice_total i2 d2 v2 l H2) as [la Ea].
    destruct (splice_total i1 d1 v1 l ltac:(lia)) as [lb Eb].
    rewrite Ea, Eb. cbn [bind].
    pose proof (splice_length _ _ _ _ _ Ea) as La.
    pose proof (splice_length _ _ _ _ _ Eb) as Lb.
    destruct (splice_total i1 d1 v1 la ltac:(lia)) as [ra Era].
    destruct (splice_total (i2 + length v1 - d1) d2 v2 lb ltac:(lia)) as [rb Erb].
    rewrite Era, Erb. f_equal. apply nth_error_ext_eq. intros k.
    rewrite (splice_nth _ _ _ _ _ k Era), (splice_nth _ _ _ _ _ k Erb).
    rewrite (splice_nth _ _ _ _ _ k Ea), (splice_nth _ _ _ _ _ k Eb).
    rewrite (splice_nth _ _ _ _ _ (k - length v1 + d1) Ea).
    rewrite (splice_nth _ _ _ _ _ (k - length v2 + d2) Eb).
    repeat match goal with
           | |- context [?a <? ?b] => destruct (Nat.ltb_spec a b)
           end; try lia; try reflexivity; f_equal; lia.
  Qed.

End Edits.

Section Cursor.
  Context {V : Type}.
  Variable veqb : V -> V -> bool.

  (* ------------------------------------------------------------------ cursor *)
  Lemma cur_insert_runs_fold (rs : list (nat * V)) c :
    cur_run veqb (map (fun r => CInsertRun (snd r) (fst r)) rs) c =
    Ok {| c_done := c_done c ++ expand_runs rs; c_rest := c_rest c; c_orig := c_orig c |}.
  Proof.
    revert c. induction rs as [|[n v] rs IH]; intros c; cbn [map cur_run].
    - unfold expand_runs. cbn. rewrite app_nil_r. destruct c; reflexivity.
    - cbn [cur_step bind fst snd]. rewrite IH. unfold cur_insert_run. cbn [c_done c_rest c_orig].
      unfold expand_runs. cbn [flat_map fst snd]. rewrite app_assoc. reflexivity.
  Qed.

  (* Column::splice_inner is literally: edit_at(index); delete(del); insert_run for each run; finish *)
  Lemma cursor_session_is_splice i del rs l :
    i + del <= length l ->
    edit_session veqb i (CDelete del :: map (fun r => CInsertRun (snd r) (fst r)) rs) l =
    splice_runs i del rs l.
  Proof.
    intros Hle. unfold edit_session, edit_at, splice_runs, splice.
    replace (i <=? length l) with true by (symmetry; apply Nat.leb_le; lia).
    replace (i + del <=? length l) with true by (symmetry; apply Nat.leb_le; lia).
    cbn [bind cur_run cur_step]. rewrite cur_insert_runs_fold. cbn [bind].
    unfold cur_finish, cur_delete. cbn [c_done c_rest c_orig].
    rewrite skipn_length. replace (Nat.min del (length l - i)) with del by lia.
    rewrite skipn_skipn, (Nat.add_comm del i), <- app_assoc. reflexivity.
  Qed.

  (* whatever the operations, a cursor never loses or reorders the items it did not delete:
     what it has written so far followed by what is still ahead is a list, and the items ahead
     are always a suffix of the original column *)
  Lemma cur_step_suffix op c c' l :
    cur_step veqb op c = Ok c' ->
    c_rest c = skipn (c_orig c) l -> c_orig c <= length l ->
    c_rest c' = skipn (c_orig c') l /\ c_orig c' <= length l.
  Proof.
    intros H Hr Hle.
    assert (Hlen : length (c_rest c) = length l - c_orig c) by (rewrite Hr, skipn_length; reflexivity).
    assert (Adv : forall n, c_rest (cur_advance n c) = skipn (c_orig (cur_advance n c)) l /\
                            c_orig (cur_advance n c) <= length l).
    { intros n. unfold cur_advance. cbn [c_rest c_orig]. rewrite Hr at 2. rewrite skipn_skipn.
      split; [f_equal; lia|]. rewrite Hlen. lia. }
    assert (Del : forall n, c_rest (cur_delete n c) = skipn (c_orig (cur_delete n c)) l /\
                            c_orig (cur_delete n c) <= length l).
    { intros n. unfold cur_delete. cbn [c_rest c_orig]. rewrite Hr at 2. rewrite skipn_skipn.
      split; [f_equal; lia|]. rewrite Hlen. lia. }
    destruct op as [to|to|n|n|v n|v]; cbn [cur_step] in H.
    - destruct (c_orig c <=? to); [|discriminate]. inversion H; subst. apply Adv.
    - inversion H; subst. apply Adv.
    - inversion H; subst. apply Adv.
    - inversion H; subst. apply Del.
    - inversion H; subst. unfold cur_insert_run. cbn [c_rest c_orig]. auto.
    - destruct (c_rest c) as [|x t] eqn:Ec.
      + inversion H; subst. rewrite Ec. auto.
      + destruct (veqb x v).
        * inversion H; subst. apply Adv.
        * inversion H; subst. unfold cur_insert_run. cbn [c_rest c_orig]. apply Del.
  Qed.

End Cursor.

Section Windows.
  Context {V : Type}.

  (* ------------------------------------------------------------------ windows and indexed access *)
  Lemma win_bounds a b (l : list V) :
    win_start a l <= win_end a b l /\ win_end a b l <= length l.
  Proof. unfold win_end, win_start. lia. Qed.

  Lemma iter_range_length a b (l : list V) :
    length (iter_range a b l) = win_end a b l - win_start a l.
  Proof.
    unfold iter_range. rewrite firstn_length, skipn_length.
    pose proof (win_bounds a b l). lia.
  Qed.

  Lemma iter_range_nth a b (l : list V) k :
    nth_error (iter_range a b l) k =
      if k <? win_end a b l - win_start a l then nth_error l (win_start a l + k) else None.
  Proof.
    unfold iter_range. rewrite nth_error_firstn.
    destruct (k <? win_end a b l - win_start a l); [|reflexivity].
    apply nth_error_skipn.
  Qed.

  Lemma iter_range_inrange a b (l : list V) :
    a <= b -> b <= length l -> iter_range a b l = firstn (b - a) (skipn a l).
  Proof.
    intros H1 H2. unfold iter_range, win_end, win_start.
    replace (Nat.min a (length l)) with a by lia.
    replace (Nat.max (Nat.min b (length l)) a) with b by lia. reflexivity.
  Qed.

  Lemma iter_range_all (l : list V) : iter_range 0 (length l) l = l.
  Proof.
    rewrite iter_range_inrange by lia. cbn [skipn]. rewrite Nat.sub_0_r. apply firstn_all.
  Qed.

  Lemma get_iter_nth a b k (l : list V) :
    k < win_end a b l - win_start a l -> iter_nth a b k l = get (win_start a l + k) l.
  Proof.
    intros H. unfold iter_nth, get. rewrite iter_range_nth.
    replace (k <? win_end a b l - win_start a l) with true by (symmetry; apply Nat.ltb_lt; lia).
    reflexivity.
  Qed.

End Windows.

Section Eq.
  Context {V : Type}.
  Variable veqb : V -> V -> bool.
  Hypothesis veqb_eq : forall x y, veqb x y = true <-> x = y.

  (* ------------------------------------------------------------------ runs *)
  Lemma runs_expand (l : list V) : expand_runs (runs veqb l) = l.
  Proof.
    induction l as [|x t IH]; [reflexivity|]. cbn [runs].
    destruct (runs veqb t) as [|[c y] r] eqn:E.
    - destruct t as [|z t']; [reflexivity|].
      exfalso. cbn [runs] in E. destruct (runs veqb t') as [|[c' y'] r']; [discriminate|].
      destruct (veqb z y'); discriminate.
    - destruct (veqb x y) eqn:Exy.
      + apply veqb_eq in Exy. subst y. unfold expand_runs in *. cbn [flat_map fst snd repeat] in *.
        cbn [app]. f_equal. exact IH.
      + unfold expand_runs in *. cbn [flat_map fst snd repeat app] in *. f_equal. exact IH.
  Qed.

  Fixpoint adj_diff (rs : list (nat * V)) : Prop :=
    match rs with
    | r1 :: ((r2 :: _) as t) => snd r1 <> snd r2 /\ adj_diff t
    | _ => True
    end.

  Lemma runs_pos (l : list V) : Forall (fun r => 0 < fst r) (runs veqb l).
  Proof.
    induction l as [|x t IH]; [constructor|]. cbn [runs].
    destruct (runs veqb t) as [|[c y] r]; [repeat constructor|].
    inversion IH as [|? ? Hc Hr]; subst. cbn [fst] in Hc. destruct (veqb x y).
    - constructor; [cbn; lia|exact Hr].
    - constructor; [cbn; lia|]. constructor; [cbn; lia|exact Hr].
  Qed.

  Lemma runs_adj_diff (l : list V) : adj_diff (runs veqb l).
  Proof.
    induction l as [|x t IH]; [exact I|]. cbn [runs].
    destruct (runs veqb t) as [|[c y] r]; [exact I|].
    destruct (veqb x y) eqn:Exy.
    - destruct r; [exact I|]. cbn [adj_diff snd] in *. exact IH.
    - cbn [adj_diff snd]. split; [|exact IH].
      intros ->. assert (veqb y y = true) by (apply veqb_eq; reflexivity). congruence.
  Qed.

  (* canonical: the only run list with positive counts and different neighbours that expands to l *)
  Lemma runs_unique (rs : list (nat * V)) :
    Forall (fun r => 0 < fst r) rs -> adj_diff rs -> runs veqb (expand_runs rs) = rs.
  Proof.
    induction rs as [|[c v] rs IH]; intros Hpos Hadj; [reflexivity|].
    inversion Hpos as [|? ? Hc Hpos']; subst. cbn [fst] in Hc.
    assert (Hadj' : adj_diff rs) by (destruct rs; [exact I|apply Hadj]).
    specialize (IH Hpos' Hadj').
    unfold expand_runs in *. cbn [flat_map fst snd].
    destruct c as [|c]; [lia|]. clear Hc.
    assert (Hne : match rs with r2 :: _ => v <> snd r2 | [] => True end)
      by (destruct rs as [|r2 ?]; [exact I|apply Hadj]).
    clear Hpos Hadj Hpos' Hadj'.
    induction c as [|c IHc].
    - cbn [repeat app runs]. rewrite IH. destruct rs as [|[c2 v2] rs']; [reflexivity|].
      destruct (veqb v v2) eqn:E; [|reflexivity].
      apply veqb_eq in E. cbn in Hne. congruence.
    - change (repeat v (S (S c))) with (v :: repeat v (S c)). cbn [app runs].
      rewrite IHc.
      replace (veqb v v) with true by (symmetry; apply veqb_eq; reflexivity). reflexivity.
  Qed.

  Lemma run_iter_expand a b (l : list V) : expand_runs (run_iter veqb a b l) = iter_range a b l.
  Proof. apply runs_expand. Qed.

  (* ------------------------------------------------------------------ find by value *)
  Lemma find_from_spec v i (l : list V) k :
    In k (find_from veqb v i l) <-> i <= k /\ nth_error l (k - i) = Some v.
  Proof.
    revert i. induction l as [|x t IH]; intros i; cbn [find_from].
    - split; [contradiction|]. intros [_ H]. destruct (k - i); discriminate.
    - destruct (veqb x v) eqn:E.
      + apply veqb_eq in E. subst x. cbn [In]. rewrite IH. split.
        * intros [<-|[H1 H2]].
          -- rewrite Nat.sub_diag. cbn. auto.
          -- split; [lia|]. replace (k - i) with (S (k - S i)) by lia. exact H2.
        * intros [H1 H2]. destruct (Nat.eq_dec i k) as [->|Hne]; [left; reflexivity|right].
          split; [lia|]. replace (k - i) with (S (k - S i)) in H2 by lia. exact H2.
      + rewrite IH. split.
        * intros [H1 H2]. split; [lia|]. replace (k - i) with (S (k - S i)) by lia. exact H2.
        * intros [H1 H2]. destruct (Nat.eq_dec i k) as [->|Hne].
          -- rewrite Nat.sub_diag in H2. cbn in H2. inversion H2; subst.
             assert (veqb v v = true) by (apply veqb_eq; reflexivity). congruence.
          -- split; [lia|]. replace (k - i) with (S (k - S i)) in H2 by lia. exact H2.
  Qed.

  Lemma find_from_sorted v i (l : list V) : StronglySorted lt (find_from veqb v i l).
  Proof.
    revert i. induction l as [|x t IH]; intros i; cbn [find_from]; [constructor|].
    destruct (veqb x v); [|apply IH].
    constructor; [apply IH|]. apply Forall_forall. intros k Hk.
    apply find_from_spec in Hk. lia.
  Qed.

  (* find_all returns exactly the indexes of the window holding v, ascending *)
  Lemma find_all_spec v a b (l : list V) k :
    In k (find_all veqb v a b l) <->
    win_start a l <= k < win_end a b l /\ nth_error l k = Some v.
  Proof.
    unfold find_all. rewrite find_from_spec, iter_range_nth.
    pose proof (win_bounds a b l) as [Hb1 Hb2].
    destruct (k - win_start a l <? win_end a b l - win_start a l) eqn:E.
    - apply Nat.ltb_lt in E. split.
      + intros [H1 H2]. replace (win_start a l + (k - win_start a l)) with k in H2 by lia.
        split; [lia|exact H2].
      + intros [H1 H2]. split; [lia|].
        replace (win_start a l + (k - win_start a l)) with k by lia. exact H2.
    - apply Nat.ltb_ge in E. split; [intros [_ H]; discriminate|]. intros [H1 H2]. lia.
  Qed.

  Lemma find_all_sorted v a b (l : list V) : StronglySorted lt (find_all veqb v a b l).
  Proof. apply find_from_sorted. Qed.

  Lemma scan_to_value_first v a b (l : list V) k :
    scan_to_value veqb v a b l = Some k ->
    win_start a l <= k < win_end a b l /\ nth_error l k = Some v /\
    forall j, win_start a l <= j < k -> nth_error l j <> Some v.
  Proof.
    unfold scan_to_value. intros H.
    destruct (find_all veqb v a b l) as [|k0 r] eqn:E; [discriminate|]. cbn in H. inversion H; subst k0.
    assert (Hin : In k (find_all veqb v a b l)) by (rewrite E; left; reflexivity).
    apply find_all_spec in Hin. destruct Hin as [Hr Hv]. split; [exact Hr|]. split; [exact Hv|].
    intros j Hj Hjv.
    assert (Hin : In j (find_all veqb v a b l)) by (apply find_all_spec; split; [lia|exact Hjv]).
    pose proof (find_all_sorted v a b l) as Hs. rewrite E in Hs, Hin.
    inversion Hs as [|? ? _ Hall]; subst. destruct Hin as [->|Hin]; [lia|].
    rewrite Forall_forall in Hall. specialize (Hall j Hin). lia.
  Qed.

  Lemma scan_to_value_none v a b (l : list V) :
    scan_to_value veqb v a b l = None ->
    forall j, win_start a l <= j < win_end a b l -> nth_error l j <> Some v.
  Proof.
    unfold scan_to_value. intros H j Hj Hv.
    assert (Hin : In j (find_all veqb v a b l)) by (apply find_all_spec; auto).
    destruct (find_all veqb v a b l); [contradiction|discriminate].
  Qed.

End Eq.

Section Acc.
  Context {V : Type}.
  Variable wt : V -> Z.

  (* ------------------------------------------------------------------ prefix sums *)
  Lemma sum_app (l1 l2 : list V) : sum wt (l1 ++ l2) = (sum wt l1 + sum wt l2)%Z.
  Proof. induction l1 as [|x t IH]; cbn; [reflexivity|]. unfold sum in *. cbn. rewrite IH. lia. Qed.

  Lemma prefix_0 (l : list V) : get_prefix wt 0 l = 0%Z.
  Proof. reflexivity. Qed.

  Lemma prefix_S i (l : list V) x :
    nth_error l i = Some x -> get_prefix wt (S i) l = (get_prefix wt i l + wt x)%Z.
  Proof.
    revert l. induction i as [|i IH]; intros [|y t] H; try discriminate.
    - cbn in H. inversion H; subst. unfold get_prefix, sum. cbn. lia.
    - cbn [nth_error] in H. specialize (IH t H). unfold get_prefix, sum in *.
      cbn [firstn fold_right] in *. rewrite IH. lia.
  Qed.

  Lemma prefix_clamp i (l : list V) : length l <= i -> get_prefix wt i l = sum wt l.
  Proof. intros H. unfold get_prefix. rewrite firstn_all2 by lia. reflexivity. Qed.

  Lemma prefix_app i (l1 l2 : list V) :
    get_prefix wt (length l1 + i) (l1 ++ l2) = (sum wt l1 + get_prefix wt i l2)%Z.
  Proof.
    unfold get_prefix. rewrite firstn_app.
    rewrite firstn_all2 by lia. replace (length l1 + i - length l1) with i by lia. apply sum_app.
  Qed.

  Lemma prefix_split i j (l : list V) :
    i <= j -> get_prefix wt j l = (get_prefix wt i l + sum wt (firstn (j - i) (skipn i l)))%Z.
  Proof.
    intros H. unfold get_prefix. rewrite <- sum_app. f_equal.
    replace j with (i + (j - i)) at 1 by lia. rewrite firstn_add. reflexivity.
  Qed.

  Lemma sum_nonneg (l : list V) : (forall x, In x l -> (0 <= wt x)%Z) -> (0 <= sum wt l)%Z.
  Proof.
    induction l as [|x t IH]; intros H; unfold sum in *; cbn; [lia|].
    assert (0 <= wt x)%Z by (apply H; left; reflexivity).
    assert (0 <= fold_right (fun x acc => wt x + acc) 0 t)%Z by (apply IH; intros; apply H; right; auto). lia.
  Qed.

  (* unsigned columns: prefix sums never decrease *)
  Lemma prefix_mono i j (l : list V) :
    (forall x, In x l -> (0 <= wt x)%Z) -> i <= j -> (get_prefix wt i l <= get_prefix wt j l)%Z.
  Proof.
    intros Hnn Hij. rewrite (prefix_split i j l Hij).
    assert (0 <= sum wt (firstn (j - i) (skipn i l)))%Z; [|lia].
    apply sum_nonneg. intros x Hx. apply Hnn.
    apply In_firstn in Hx. eapply In_skipn; eauto.
  Qed.

  Lemma sum_range_spec a b (l : list V) :
    a <= b -> sum_range wt a b l = sum wt (iter_range a b l).
  Proof.
    intros Hab. unfold sum_range.
    destruct (b <=? a) eqn:E1; cbn [orb].
    - apply Nat.leb_le in E1. assert (a = b) by lia. subst b.
      unfold iter_range, win_end, win_start.
      replace (Nat.max (Nat.min a (length l)) (Nat.min a (length l)) - Nat.min a (length l)) with 0 by lia.
      reflexivity.
    - apply Nat.leb_gt in E1. destruct (length l =? 0) eqn:E2.
      + apply Nat.eqb_eq in E2. destruct l; [unfold iter_range; rewrite skipn_nil, firstn_nil; reflexivity|discriminate].
      + unfold iter_range, win_end, win_start.
        replace (Nat.max (Nat.min b (length l)) (Nat.min a (length l))) with (Nat.min b (length l)) by lia.
        assert (Hc : forall n, get_prefix wt n l = get_prefix wt (Nat.min n (length l)) l).
        { intros n. destruct (Nat.le_gt_cases n (length l)).
          - replace (Nat.min n (length l)) with n by lia. reflexivity.
          - rewrite !prefix_clamp by lia. reflexivity. }
        rewrite (Hc a), (Hc b).
        rewrite (prefix_split (Nat.min a (length l)) (Nat.min b (length l)) l) by lia. lia.
  Qed.

  (* ------------------------------------------------------------------ index-for-total lookups *)
  (* [ifp_go] scans for the first position whose running sum reaches t *)
  Lemma ifp_go_spec t acc i (l : list V) :
    let k := ifp_go wt t acc i l in
    i < k /\ k <= S (i + length l) /\
    (forall j, j < k - S i -> (acc + get_prefix wt (S j) l < t)%Z) /\
    (k <= i + length l -> (t <= acc + get_prefix wt (k - i) l)%Z).
  Proof.
    revert acc i. induction l as [|x r IH]; intros acc i; cbn [ifp_go length]; cbn zeta.
    - split; [lia|]. split; [lia|]. split; [intros j Hj; lia|intros Hk; lia].
    - destruct (t <=? acc + wt x)%Z eqn:E.
      + apply Z.leb_le in E. split; [lia|]. split; [lia|]. split; [intros j Hj; lia|].
        intros _. replace (S i - i) with 1 by lia. unfold get_prefix, sum. cbn [firstn fold_right]. lia.
      + apply Z.leb_gt in E. specialize (IH (acc + wt x)%Z (S i)). cbn zeta in IH.
        set (k := ifp_go wt t (acc + wt x) (S i) r) in *.
        destruct IH as (H1 & H2 & H3 & H4).
        split; [lia|]. split; [lia|]. split.
        * intros j Hj. destruct j as [|j].
          -- unfold get_prefix, sum. cbn [firstn fold_right]. lia.
          -- assert (Hj' : j < k - S (S i)) by lia. specialize (H3 j Hj').
             unfold get_prefix, sum in *. cbn [firstn fold_right] in *. lia.
        * intros Hk. assert (Hk' : k <= S i + length r) by lia. specialize (H4 Hk').
          replace (k - i) with (S (k - S i)) by lia.
          unfold get_prefix, sum in *. cbn [firstn fold_right] in *. lia.
  Qed.

  (* get_index_for_prefix(t), t > 0: the FIRST k >= 1 with prefix(k) >= t; len+1 if there is none *)
  Lemma index_for_prefix_spec t (l : list V) :
    (0 < t)%Z ->
    let k := index_for_prefix wt t l in
    1 <= k <= S (length l) /\
    (forall j, 1 <= j < k -> (get_prefix wt j l < t)%Z) /\
    (k <= length l -> (t <= get_prefix wt k l)%Z).
  Proof.
    intros Ht. unfold index_for_prefix.
    replace (t <=? 0)%Z with false by (symmetry; apply Z.leb_gt; lia).
    pose proof (ifp_go_spec t 0%Z 0 l) as H. cbn zeta in *.
    destruct H as (H1 & H2 & H3 & H4). repeat split; try lia.
    - intros j Hj. destruct j as [|j]; [lia|].
      assert (Hj' : j < ifp_go wt t 0 0 l - 1) by lia. specialize (H3 j Hj'). lia.
    - intros Hk. rewrite Nat.sub_0_r in H4. specialize (H4 ltac:(lia)). lia.
  Qed.

  Lemma index_for_prefix_nonpos t (l : list V) : (t <= 0)%Z -> index_for_prefix wt t l = 0.
  Proof. intros H. unfold index_for_prefix. replace (t <=? 0)%Z with true by (symmetry; apply Z.leb_le; lia). reflexivity. Qed.

  (* on unsigned columns it is the LEAST such index *)
  Lemma index_for_prefix_least t (l : list V) j :
    (forall x, In x l -> (0 <= wt x)%Z) -> (0 < t)%Z ->
    1 <= j -> (t <= get_prefix wt j l)%Z -> index_for_prefix wt t l <= j.
  Proof.
    intros Hnn Ht Hj Hge.
    destruct (index_for_prefix_spec t l Ht) as (H1 & H2 & H3).
    destruct (Nat.le_gt_cases (index_for_prefix wt t l) j) as [|Hgt]; [assumption|].
    specialize (H2 j ltac:(lia)). lia.
  Qed.

  (* the item owning unit t: prefix(i) < t <= total(i)  ==>  get_index_for_total(t) = i *)
  Lemma index_for_total_owner t (l : list V) i :
    (forall x, In x l -> (0 <= wt x)%Z) ->
    i < length l -> (get_prefix wt i l < t)%Z -> (t <= get_total wt i l)%Z ->
    index_for_total wt t l = i.
  Proof.
    intros Hnn Hi Hlo Hhi. unfold index_for_total, get_total in *.
    assert (Ht : (0 < t)%Z).
    { assert (0 <= get_prefix wt i l)%Z; [|lia].
      rewrite <- (prefix_0 l). apply prefix_mono; [assumption|lia]. }
    destruct (index_for_prefix_spec t l Ht) as (H1 & H2 & H3).
    assert (Hle : index_for_prefix wt t l <= S i) by (apply index_for_prefix_least; auto; lia).
    assert (Hge : S i <= index_for_prefix wt t l).
    { destruct (Nat.le_gt_cases (S i) (index_for_prefix wt t l)) as [|Hlt]; [assumption|].
      specialize (H3 ltac:(lia)).
      assert (get_prefix wt (index_for_prefix wt t l) l <= get_prefix wt i l)%Z
        by (apply prefix_mono; [assumption|lia]). lia. }
    lia.
  Qed.

  (* inverse of the prefix sum on strictly positive columns *)
  Lemma index_for_total_inverse (l : list V) i :
    (forall x, In x l -> (0 < wt x)%Z) -> i < length l ->
    index_for_total wt (get_total wt i l) l = i /\
    index_for_prefix wt (get_prefix wt (S i) l) l = S i.
  Proof.
    intros Hpos Hi.
    assert (Hnn : forall x, In x l -> (0 <= wt x)%Z) by (intros x Hx; specialize (Hpos x Hx); lia).
    destruct (nth_error l i) as [x|] eqn:Ex; [|apply nth_error_None in Ex; lia].
    assert (Hx : (0 < wt x)%Z) by (apply Hpos; eapply nth_error_In; eauto).
    assert (Hown : index_for_total wt (get_total wt i l) l = i).
    { apply index_for_total_owner; auto; unfold get_total; rewrite (prefix_S i l x Ex); lia. }
    split; [exact Hown|].
    unfold index_for_total, get_total in Hown.
    assert (Ht : (0 < get_prefix wt (S i) l)%Z).
    { rewrite (prefix_S i l x Ex).
      assert (0 <= get_prefix wt i l)%Z; [|lia].
      rewrite <- (prefix_0 l). apply prefix_mono; [assumption|lia]. }
    destruct (index_for_prefix_spec _ l Ht) as (H1 & _). lia.
  Qed.

  (* total beyond the grand total: len + 1 / len *)
  Lemma index_for_prefix_beyond t (l : list V) :
    (forall x, In x l -> (0 <= wt x)%Z) -> (sum wt l < t)%Z -> (0 < t)%Z ->
    index_for_prefix wt t l = S (length l).
  Proof.
    intros Hnn Hbig Ht. destruct (index_for_prefix_spec t l Ht) as (H1 & H2 & H3).
    destruct (Nat.le_gt_cases (index_for_prefix wt t l) (length l)) as [Hle|]; [|lia].
    specialize (H3 Hle).
    assert (get_prefix wt (index_for_prefix wt t l) l <= get_prefix wt (length l) l)%Z
      by (apply prefix_mono; auto).
    rewrite (prefix_clamp (length l) l) in H by lia. lia.
  Qed.

  (* with_acc: the running totals are the prefix sums *)
  Lemma with_acc_nth acc (l : list V) k x :
    nth_error l k = Some x ->
    nth_error (with_acc wt acc l) k = Some (x, (acc + get_prefix wt (S k) l)%Z).
  Proof.
    revert acc k. induction l as [|y t IH]; intros acc k H; [destruct k; discriminate|].
    destruct k as [|k]; cbn [nth_error with_acc] in *.
    - inversion H; subst. unfold get_prefix, sum. cbn. f_equal. f_equal. lia.
    - rewrite (IH _ _ H). f_equal. f_equal. unfold get_prefix, sum. cbn [firstn fold_right]. lia.
  Qed.

  Lemma with_acc_values acc (l : list V) : map fst (with_acc wt acc l) = l.
  Proof. revert acc. induction l as [|y t IH]; intros acc; cbn; [reflexivity|]. rewrite IH. reflexivity. Qed.

  (* advance_prefix(n) lands on the item containing unit n+1 past the window start *)
  Lemma advance_prefix_spec a b n (l : list V) p d x tot :
    (forall y, In y l -> (0 <= wt y)%Z) -> (0 <= n)%Z ->
    advance_prefix wt a b n l = Some (p, d, x, tot) ->
    win_start a l <= p < win_end a b l /\ nth_error l p = Some x /\
    d = (get_prefix wt p l - get_prefix wt (win_start a l) l)%Z /\ tot = get_total wt p l /\
    (get_prefix wt p l <= get_prefix wt (win_start a l) l + n < get_total wt p l)%Z.
  Proof.
    intros Hnn Hn. unfold advance_prefix.
    set (s := win_start a l). set (e := win_end a b l). set (here := get_prefix wt s l).
    set (tp := index_for_total wt (here + n + 1) l).
    destruct ((tp <? s) || (e <=? tp)) eqn:E; [discriminate|].
    apply orb_false_iff in E. destruct E as [E1 E2].
    apply Nat.ltb_ge in E1. apply Nat.leb_gt in E2.
    destruct (nth_error l tp) as [y|] eqn:Ey; [|discriminate].
    intros H. inversion H; subst p d x tot. clear H.
    split; [lia|]. split; [exact Ey|]. split; [reflexivity|]. split; [reflexivity|].
    assert (Hh : (0 <= here)%Z).
    { unfold here. rewrite <- (prefix_0 l). apply prefix_mono; [assumption|lia]. }
    assert (Ht : (0 < here + n + 1)%Z) by lia.
    destruct (index_for_prefix_spec (here + n + 1)%Z l Ht) as (H1 & H2 & H3).
    unfold tp, index_for_total in *.
    set (k := index_for_prefix wt (here + n + 1) l) in *.
    assert (Hk : k <= length l).
    { assert (Nat.pred k < length l) by (apply nth_error_Some; congruence). lia. }
    specialize (H3 Hk). unfold get_total.
    replace (S (Nat.pred k)) with k by lia.
    split; [|lia].
    destruct (Nat.eq_dec k 1) as [->|Hk1].
    - cbn [Nat.pred]. rewrite prefix_0. lia.
    - specialize (H2 (Nat.pred k) ltac:(lia)). lia.
  Qed.
End Acc.

(* ---------------------------------------------------------------------- boolean columns: acc = number of trues *)
Definition bool_wt (b : bool) : Z := if b then 1%Z else 0%Z.

Lemma bool_prefix_counts i (l : list bool) :
  get_prefix bool_wt i l = Z.of_nat (count_occ bool_dec (firstn i l) true).
Proof.
  unfold get_prefix, sum. induction (firstn i l) as [|x t IH]; [reflexivity|].
  cbn [fold_right count_occ]. rewrite IH. destruct x; cbn [bool_wt].
  - destruct (bool_dec true true); [lia|congruence].
  - destruct (bool_dec false true); [discriminate|lia].
Qed.

(* ---------------------------------------------------------------------- delta columns *)
(* what DeltaIter presents is the running sum of what is stored *)
Lemma realize_deltas p (l : list (option Z)) : realize_from p (deltas_from p l) = l.
Proof.
  revert p. induction l as [|[v|] t IH]; intros p; cbn [deltas_from realize_from]; [reflexivity| |].
  - replace (p + (v - p))%Z with v by lia. rewrite IH. reflexivity.
  - rewrite IH. reflexivity.
Qed.

(* and the stored deltas are determined by the presented values *)
Lemma deltas_realize p (d : list (option Z)) : deltas_from p (realize_from p d) = d.
Proof.
  revert p. induction d as [|[x|] t IH]; intros p; cbn [deltas_from realize_from]; [reflexivity| |].
  - replace (p + x - p)%Z with x by lia. rewrite IH. reflexivity.
  - rewrite IH. reflexivity.
Qed.

Lemma deltas_length p l : length (deltas_from p l) = length l.
Proof. revert p. induction l as [|[v|] t IH]; intros p; cbn; auto. Qed.

(* nulls are stored as nulls: the null positions of storage and presentation coincide *)
Lemma deltas_null p l k : nth_error (deltas_from p l) k = Some None <-> nth_error l k = Some None.
Proof.
  revert p k. induction l as [|[v|] t IH]; intros p k; destruct k as [|k]; cbn [deltas_from nth_error];
    try (split; discriminate); try apply IH.
  split; auto.
Qed.

(* the running value the spec hands to a DeltaRun is the last non-null value before it *)
Lemma running_after_app p l1 l2 : running_after p (l1 ++ l2) = running_after (running_after p l1) l2.
Proof. revert p. induction l1 as [|[v|] t IH]; intros p; cbn; auto. Qed.

(* expanding the DeltaRuns of the whole column and realizing them gives the column back *)
Fixpoint expand_delta_runs (rs : list (Z * option Z * nat)) : list (option Z) :=
  match rs with
  | [] => []
  | (_, d, c) :: r => repeat d c ++ expand_delta_runs r
  end.

Lemma delta_runs_from_expand running rs :
  expand_delta_runs (delta_runs_from running rs) = expand_runs rs.
Proof.
  revert running. induction rs as [|[c [d|]] r IH]; intros running; cbn [delta_runs_from expand_delta_runs];
    [reflexivity| |]; unfold expand_runs in *; cbn [flat_map fst snd]; rewrite IH; reflexivity.
Qed.

Lemma optz_eqb_eq x y : optz_eqb x y = true <-> x = y.
Proof.
  destruct x as [x|], y as [y|]; cbn; try (split; [discriminate|discriminate]); [|tauto].
  rewrite Z.eqb_eq. split; [intros ->; reflexivity|intros H; inversion H; reflexivity].
Qed.

Lemma delta_run_iter_all (l : list (option Z)) :
  realize_from 0 (expand_delta_runs (delta_run_iter 0 (length l) l)) = l.
Proof.
  unfold delta_run_iter, win_end, win_start. cbn [Nat.min firstn skipn running_after].
  rewrite Nat.min_id, Nat.max_0_r, Nat.sub_0_r.
  rewrite delta_runs_from_expand.
  rewrite (runs_expand optz_eqb optz_eqb_eq).
  rewrite <- (deltas_length 0 l) at 1. rewrite firstn_all. apply realize_deltas.
Qed.

(* each DeltaRun's prefix is the realized running value before it *)
Lemma delta_runs_prefix running rs :
  forall pre p d c post, delta_runs_from running rs = pre ++ (p, d, c) :: post ->
  p = running_after running (realize_from running (expand_delta_runs pre)).
Proof.
  revert running. induction rs as [|[c0 [d0|]] r IH]; intros running pre p d c post H;
    cbn [delta_runs_from] in H.
  - destruct pre; discriminate.
  - destruct pre as [|x pre]; cbn [app] in H; inversion H; subst; [reflexivity|].
    cbn [expand_delta_runs].
    specialize (IH _ _ _ _ _ _ H2). rewrite IH. clear.
    assert (G : forall n run tail,
      running_after run (realize_from run (repeat (Some d0) n ++ tail)) =
      running_after (run + Z.of_nat n * d0)%Z (realize_from (run + Z.of_nat n * d0)%Z tail)).
    { induction n as [|n IHn]; intros run tail.
      - cbn [repeat app]. replace (run + Z.of_nat 0 * d0)%Z with run by lia. reflexivity.
      - cbn [repeat app realize_from running_after]. rewrite IHn. f_equal; [lia|f_equal; lia]. }
    symmetry. apply G.
  - destruct pre as [|x pre]; cbn [app] in H; inversion H; subst; [reflexivity|].
    cbn [expand_delta_runs].
    specialize (IH _ _ _ _ _ _ H2). rewrite IH. clear.
    induction c0 as [|n IHn]; [reflexivity|]. cbn [repeat app realize_from running_after]. exact IHn.
Qed.

(* find_by_range: exactly the indexes whose value lies in [lo, hi), ascending; nulls never match *)
Lemma find_range_from_spec lo hi i (l : list (option Z)) k :
  In k (find_range_from lo hi i l) <->
  i <= k /\ exists v, nth_error l (k - i) = Some (Some v) /\ (lo <= v < hi)%Z.
Proof.
  revert i. induction l as [|[x|] t IH]; intros i; cbn [find_range_from].
  - split; [contradiction|]. intros [_ [v [H _]]]. destruct (k - i); discriminate.
  - destruct ((lo <=? x) && (x <? hi))%Z eqn:E.
    + apply andb_true_iff in E. destruct E as [E1 E2]. apply Z.leb_le in E1. apply Z.ltb_lt in E2.
      cbn [In]. rewrite IH. split.
      * intros [<-|[H1 [v [H2 H3]]]].
        -- split; [lia|]. exists x. rewrite Nat.sub_diag. cbn. split; [reflexivity|lia].
        -- split; [lia|]. exists v. replace (k - i) with (S (k - S i)) by lia. auto.
      * intros [H1 [v [H2 H3]]]. destruct (Nat.eq_dec i k) as [->|Hne]; [left; reflexivity|right].
        split; [lia|]. exists v. replace (k - i) with (S (k - S i)) in H2 by lia. auto.
    + rewrite IH. split.
      * intros [H1 [v [H2 H3]]]. split; [lia|]. exists v. replace (k - i) with (S (k - S i)) by lia. auto.
      * intros [H1 [v [H2 H3]]]. destruct (Nat.eq_dec i k) as [->|Hne].
        -- rewrite Nat.sub_diag in H2. cbn in H2. inversion H2; subst.
           apply andb_false_iff in E. destruct E as [E|E]; [apply Z.leb_gt in E|apply Z.ltb_ge in E]; lia.
        -- split; [lia|]. exists v. replace (k - i) with (S (k - S i)) in H2 by lia. auto.
  - rewrite IH. split.
    + intros [H1 [v [H2 H3]]]. split; [lia|]. exists v. replace (k - i) with (S (k - S i)) by lia. auto.
    + intros [H1 [v [H2 H3]]]. destruct (Nat.eq_dec i k) as [->|Hne].
      * rewrite Nat.sub_diag in H2. cbn in H2. discriminate.
      * split; [lia|]. exists v. replace (k - i) with (S (k - S i)) in H2 by lia. auto.
Qed.

Lemma find_range_from_sorted lo hi i l : StronglySorted lt (find_range_from lo hi i l).
Proof.
  revert i. induction l as [|[x|] t IH]; intros i; cbn [find_range_from]; [constructor| |apply IH].
  destruct ((lo <=? x) && (x <? hi))%Z; [|apply IH].
  constructor; [apply IH|]. apply Forall_forall. intros k Hk. apply find_range_from_spec in Hk. lia.
Qed.

Lemma find_by_range_spec lo hi (l : list (option Z)) k :
  In k (find_by_range lo hi l) <-> exists v, nth_error l k = Some (Some v) /\ (lo <= v < hi)%Z.
Proof.
  unfold find_by_range. rewrite find_range_from_spec. rewrite Nat.sub_0_r.
  split; [intros [_ H]; exact H|intros H; split; [lia|exact H]].
Qed.

Lemma find_by_value_spec v (l : list (option Z)) k :
  In k (find_by_value v l) <-> nth_error l k = Some (Some v).
Proof.
  unfold find_by_value. rewrite find_by_range_spec. split.
  - intros [x [H1 H2]]. replace x with v in H1 by lia. exact H1.
  - intros H. exists v. split; [exact H|lia].
Qed.

Lemma find_first_spec v (l : list (option Z)) k :
  find_first v l = Some k ->
  nth_error l k = Some (Some v) /\ forall j, j < k -> nth_error l j <> Some (Some v).
Proof.
  unfold find_first. intros H.
  destruct (find_by_value v l) as [|k0 r] eqn:E; [discriminate|]. cbn in H. inversion H; subst k0.
  assert (Hin : In k (find_by_value v l)) by (rewrite E; left; reflexivity).
  split; [apply find_by_value_spec; exact Hin|].
  intros j Hj Hv. apply find_by_value_spec in Hv.
  pose proof (find_range_from_sorted v (v + 1) 0 l) as Hs.
  unfold find_by_value, find_by_range in *. rewrite E in Hs, Hv.
  inversion Hs as [|? ? _ Hall]; subst. destruct Hv as [->|Hv]; [lia|].
  rewrite Forall_forall in Hall. specialize (Hall j Hv). lia.
Qed.

(* ---------------------------------------------------------------------- scope_to_value on sorted windows *)
Section Scope.
  Context {V : Type}.
  Variable veqb vltb : V -> V -> bool.
  Hypothesis veqb_eq : forall x y, veqb x y = true <-> x = y.
  Hypothesis ltb_irrefl : forall x, vltb x x = false.
  Hypothesis ltb_trans : forall x y z, vltb x y = true -> vltb y z = true -> vltb x z = true.
  Hypothesis ltb_total : forall x y, vltb x y = false -> vltb y x = false -> x = y.

  (* non-decreasing *)
  Definition sorted_asc (w : list V) : Prop := StronglySorted (fun x y => vltb y x = false) w.

  Let nlt (v : V) (w : list V) := length (filter (fun x => vltb x v) w).
  Let neq (v : V) (w : list V) := length (filter (fun x => veqb x v) w).

  Lemma nlt_zero v (t : list V) : Forall (fun y => vltb y v = false) t -> nlt v t = 0.
  Proof.
    unfold nlt. induction 1 as [|y t Hy _ IH]; [reflexivity|]. cbn [filter]. rewrite Hy. exact IH.
  Qed.

  Lemma neq_zero v (t : list V) : Forall (fun y => y <> v) t -> neq v t = 0.
  Proof.
    unfold neq. induction 1 as [|y t Hy _ IH]; [reflexivity|]. cbn [filter].
    destruct (veqb y v) eqn:E; [apply veqb_eq in E; contradiction|exact IH].
  Qed.

  Lemma nlt_neq_le v (w : list V) : nlt v w + neq v w <= length w.
  Proof.
    unfold nlt, neq. induction w as [|x t IH]; [cbn; lia|]. cbn [filter length].
    destruct (vltb x v) eqn:E1; destruct (veqb x v) eqn:E2; cbn [length]; try lia.
    apply veqb_eq in E2. subst. rewrite ltb_irrefl in E1. discriminate.
  Qed.

  Lemma scope_sorted_aux v (w : list V) :
    sorted_asc w -> forall k x, nth_error w k = Some x ->
    (x = v <-> nlt v w <= k < nlt v w + neq v w).
  Proof.
    induction 1 as [|x0 t Hs IH Hall]; intros k x Hk; [destruct k; discriminate|].
    unfold nlt, neq in *. cbn [filter].
    destruct (vltb x0 v) eqn:Elt.
    - (* x0 < v *)
      assert (Hne : veqb x0 v = false).
      { destruct (veqb x0 v) eqn:E; [|reflexivity]. apply veqb_eq in E. subst. rewrite ltb_irrefl in Elt. discriminate. }
      rewrite Hne. cbn [length]. destruct k as [|k]; cbn [nth_error] in Hk.
      + inversion Hk; subst. split; [|lia]. intros ->. rewrite ltb_irrefl in Elt. discriminate.
      + specialize (IH k x Hk). split; [intros Hx; apply IH in Hx; lia|intros Hx; apply IH; lia].
    - destruct (veqb x0 v) eqn:Eeq.
      + (* x0 = v: nothing smaller follows *)
        apply veqb_eq in Eeq. subst x0.
        assert (Hz : length (filter (fun y => vltb y v) t) = 0) by (apply (nlt_zero v t Hall)).
        rewrite Hz in *. cbn [length]. destruct k as [|k]; cbn [nth_error] in Hk.
        * inversion Hk; subst. split; [lia|reflexivity].
        * specialize (IH k x Hk). split; [intros Hx; apply IH in Hx; lia|intros Hx; apply IH; lia].
      + (* v < x0: everything that follows is larger than v *)
        assert (Hgt : vltb v x0 = true).
        { destruct (vltb v x0) eqn:E; [reflexivity|].
          pose proof (ltb_total _ _ Elt E) as ->.
          assert (veqb v v = true) by (apply veqb_eq; reflexivity). congruence. }
        assert (Hall1 : Forall (fun y => vltb y v = false) t).
        { eapply Forall_impl; [|exact Hall]. intros y Hy. cbn beta in Hy.
          destruct (vltb y v) eqn:E; [|reflexivity].
          rewrite (ltb_trans _ _ _ E Hgt) in Hy. discriminate. }
        assert (Hall2 : Forall (fun y => y <> v) t).
        { eapply Forall_impl; [|exact Hall]. intros y Hy ->. cbn beta in Hy. congruence. }
        pose proof (nlt_zero v t Hall1) as Hz1. pose proof (neq_zero v t Hall2) as Hz2.
        unfold nlt, neq in Hz1, Hz2. rewrite Hz1, Hz2. cbn [length].
        split; [|lia]. intros ->. destruct k as [|k]; cbn [nth_error] in Hk.
        * inversion Hk; subst. rewrite ltb_irrefl in Hgt. discriminate.
        * apply nth_error_In in Hk. rewrite Forall_forall in Hall2. exfalso. exact (Hall2 v Hk eq_refl).
  Qed.

  (* Column::scope_to_value: inside a sorted window, the returned range is exactly where v is *)
  Lemma scope_to_value_spec v a b (l : list V) :
    sorted_asc (iter_range a b l) ->
    let r := scope_to_value veqb vltb v a b l in
    win_start a l <= fst r <= snd r /\ snd r <= win_end a b l /\
    forall k, win_start a l <= k < win_end a b l ->
              (nth_error l k = Some v <-> fst r <= k < snd r).
  Proof.
    intros Hs. unfold scope_to_value. cbn zeta. cbn [fst snd].
    set (w := iter_range a b l) in *.
    set (nl := length (filter (fun x => vltb x v) w)).
    set (ne := length (filter (fun x => veqb x v) w)).
    pose proof (win_bounds a b l) as [Hb1 Hb2].
    assert (Hlen : length w = win_end a b l - win_start a l) by apply iter_range_length.
    assert (Hsum : nl + ne <= length w) by apply nlt_neq_le.
    split; [lia|]. split; [lia|]. intros k Hk.
    assert (Hnth : nth_error w (k - win_start a l) = nth_error l k).
    { unfold w. rewrite iter_range_nth.
      replace (k - win_start a l <? win_end a b l - win_start a l) with true
        by (symmetry; apply Nat.ltb_lt; lia).
      f_equal. lia. }
    destruct (nth_error l k) as [x|] eqn:Ex.
    - pose proof (scope_sorted_aux v w Hs (k - win_start a l) x Hnth) as H.
      change (nlt v w) with nl in H. change (neq v w) with ne in H. split.
      + intros Hx. inversion Hx; subst x. destruct H as [H _]. specialize (H eq_refl). lia.
      + intros Hr. f_equal. apply H. lia.
    - apply nth_error_None in Ex. lia.
  Qed.
End Scope.

(* ---------------------------------------------------------------------- the statements pinned in Props/C34.v *)
Lemma c34_splice_spec : forall (V : Type) (i del : nat) (vals l r : list V),
  splice i del vals l = Ok r <->
  (i + del <= length l /\ r = firstn i l ++ vals ++ skipn (i + del) l).
Proof. intros V. exact splice_ok. Qed.

Lemma c34_splice_panic : forall (V : Type) (i del : nat) (vals l : list V),
  (splice i del vals l = Panic <-> length l < i + del) /\ splice i del vals l <> Err.
Proof. intros. split; [apply splice_panic|apply splice_not_err]. Qed.

Lemma c34_splice_length : forall (V : Type) (i del : nat) (vals l r : list V),
  splice i del vals l = Ok r -> length r + del = length l + length vals.
Proof. intros V. exact splice_length. Qed.

Lemma c34_splice_get : forall (V : Type) (i del : nat) (vals l r : list V) (k : nat),
  splice i del vals l = Ok r ->
  get k r =
    if k <? i then get k l
    else if k <? i + length vals then get (k - i) vals
    else get (k - length vals + del) l.
Proof. intros V i del vals l r k. exact (splice_nth i del vals l r k). Qed.

Lemma c34_named_edits : forall (V : Type) (l : list V),
  (forall i v, insert i v l = if i <=? length l then Ok (firstn i l ++ v :: skipn i l) else Panic) /\
  (forall i, remove i l = Ok (firstn i l ++ skipn (S i) l)) /\
  (forall i n, remove_n i n l =
     if i + n <=? length l then Ok (firstn i l ++ skipn (i + n) l)
     else if n =? 0 then Ok l else Panic) /\
  (forall v, push v l = Ok (l ++ [v])) /\
  (forall n, truncate n l = Ok (firstn n l)) /\
  clear l = Ok [] /\
  (forall vals, extend vals l = Ok (l ++ vals)) /\
  pop l = Ok (removelast l) /\
  (forall i del rs, splice_runs i del rs l = splice i del (expand_runs rs) l).
Proof.
  intros V l.
  split; [intros; apply insert_spec|]. split; [intros; apply remove_spec|].
  split; [intros; apply remove_n_spec|]. split; [intros; apply push_spec|].
  split; [intros; apply truncate_spec|]. split; [apply clear_spec|].
  split; [intros; apply extend_spec|]. split; [apply pop_spec|intros; apply splice_runs_spec].
Qed.

Lemma c34_splice_decompose : forall (V : Type) (i del : nat) (vals l : list V),
  i + del <= length l ->
  splice i del vals l = (let* l1 := remove_n i del l in splice i 0 vals l1).
Proof. intros V. exact splice_decompose. Qed.

Lemma c34_splice_commute : forall (V : Type) (i1 d1 : nat) (v1 : list V) (i2 d2 : nat) (v2 l : list V),
  i1 + d1 <= i2 -> i2 + d2 <= length l ->
  (let* l' := splice i2 d2 v2 l in splice i1 d1 v1 l') =
  (let* l' := splice i1 d1 v1 l in splice (i2 + length v1 - d1) d2 v2 l').
Proof. intros V. exact splice_splice_commute. Qed.

Lemma c34_cursor_is_splice : forall (V : Type) (veqb : V -> V -> bool) (i del : nat)
    (rs : list (nat * V)) (l : list V),
  i + del <= length l ->
  edit_session veqb i (CDelete del :: map (fun r => CInsertRun (snd r) (fst r)) rs) l =
  splice_runs i del rs l.
Proof. intros V veqb. exact (cursor_session_is_splice veqb). Qed.

Lemma c34_cursor_keeps_suffix : forall (V : Type) (veqb : V -> V -> bool) (op : cur_op)
    (c c' : cursor) (l : list V),
  cur_step veqb op c = Ok c' ->
  c_rest c = skipn (c_orig c) l -> c_orig c <= length l ->
  c_rest c' = skipn (c_orig c') l /\ c_orig c' <= length l.
Proof. intros V veqb. exact (cur_step_suffix veqb). Qed.

Lemma c34_iter_range_spec : forall (V : Type) (a b : nat) (l : list V) (k : nat),
  win_start a l <= win_end a b l <= length l /\
  length (iter_range a b l) = win_end a b l - win_start a l /\
  nth_error (iter_range a b l) k =
    (if k <? win_end a b l - win_start a l then get (win_start a l + k) l else None) /\
  iter_range 0 (length l) l = l.
Proof.
  intros V a b l k. split; [apply win_bounds|]. split; [apply iter_range_length|].
  split; [apply iter_range_nth|apply iter_range_all].
Qed.

Lemma c34_runs_concat : forall (V : Type) (veqb : V -> V -> bool),
  (forall x y, veqb x y = true <-> x = y) ->
  forall (a b : nat) (l : list V),
  expand_runs (run_iter veqb a b l) = iter_range a b l /\
  Forall (fun r => 0 < fst r) (run_iter veqb a b l) /\
  adj_diff (run_iter veqb a b l).
Proof.
  intros V veqb H a b l. split; [apply (run_iter_expand veqb H)|].
  split; [apply (runs_pos veqb H)|apply (runs_adj_diff veqb H)].
Qed.

Lemma c34_runs_canonical : forall (V : Type) (veqb : V -> V -> bool),
  (forall x y, veqb x y = true <-> x = y) ->
  forall rs : list (nat * V),
  Forall (fun r => 0 < fst r) rs -> adj_diff rs -> runs veqb (expand_runs rs) = rs.
Proof. intros V veqb H. exact (runs_unique veqb H). Qed.

Lemma c34_find_by_value_spec : forall (V : Type) (veqb : V -> V -> bool),
  (forall x y, veqb x y = true <-> x = y) ->
  forall (v : V) (a b : nat) (l : list V),
  (forall k, In k (find_all veqb v a b l) <->
             win_start a l <= k < win_end a b l /\ get k l = Some v) /\
  StronglySorted lt (find_all veqb v a b l).
Proof.
  intros V veqb H v a b l. split; [intros k; apply (find_all_spec veqb H)|apply (find_all_sorted veqb H)].
Qed.

Lemma c34_scan_to_value_first : forall (V : Type) (veqb : V -> V -> bool),
  (forall x y, veqb x y = true <-> x = y) ->
  forall (v : V) (a b : nat) (l : list V),
  match scan_to_value veqb v a b l with
  | Some k => win_start a l <= k < win_end a b l /\ get k l = Some v /\
              forall j, win_start a l <= j < k -> get j l <> Some v
  | None => forall j, win_start a l <= j < win_end a b l -> get j l <> Some v
  end.
Proof.
  intros V veqb H v a b l. destruct (scan_to_value veqb v a b l) as [k|] eqn:E.
  - apply (scan_to_value_first veqb H). exact E.
  - apply (scan_to_value_none veqb H). exact E.
Qed.

Lemma c34_prefix_sum_app : forall (V : Type) (wt : V -> Z) (l1 l2 : list V) (i : nat),
  get_prefix wt (length l1 + i) (l1 ++ l2) = (sum wt l1 + get_prefix wt i l2)%Z.
Proof. intros V wt l1 l2 i. apply prefix_app. Qed.

Lemma c34_prefix_sum_step : forall (V : Type) (wt : V -> Z) (l : list V) (i : nat) (x : V),
  get_prefix wt 0 l = 0%Z /\
  (get i l = Some x -> get_prefix wt (S i) l = (get_prefix wt i l + wt x)%Z) /\
  (length l <= i -> get_prefix wt i l = sum wt l).
Proof.
  intros V wt l i x. split; [reflexivity|]. split; [apply prefix_S|apply prefix_clamp].
Qed.

Lemma c34_prefix_sum_monotone : forall (V : Type) (wt : V -> Z) (l : list V) (i j : nat),
  (forall x, In x l -> (0 <= wt x)%Z) -> i <= j -> (get_prefix wt i l <= get_prefix wt j l)%Z.
Proof. intros V wt l i j. apply prefix_mono. Qed.

Lemma c34_sum_range_spec : forall (V : Type) (wt : V -> Z) (a b : nat) (l : list V),
  a <= b -> sum_range wt a b l = sum wt (iter_range a b l).
Proof. intros V wt. exact (sum_range_spec wt). Qed.

Lemma c34_index_for_prefix_spec : forall (V : Type) (wt : V -> Z) (t : Z) (l : list V),
  ((t <= 0)%Z -> index_for_prefix wt t l = 0) /\
  ((0 < t)%Z ->
     1 <= index_for_prefix wt t l <= S (length l) /\
     (forall j, 1 <= j < index_for_prefix wt t l -> (get_prefix wt j l < t)%Z) /\
     (index_for_prefix wt t l <= length l -> (t <= get_prefix wt (index_for_prefix wt t l) l)%Z) /\
     ((forall x, In x l -> (0 <= wt x)%Z) ->
        (forall j, 1 <= j -> (t <= get_prefix wt j l)%Z -> index_for_prefix wt t l <= j) /\
        ((sum wt l < t)%Z -> index_for_prefix wt t l = S (length l)))).
Proof.
  intros V wt t l. split; [apply index_for_prefix_nonpos|]. intros Ht.
  destruct (index_for_prefix_spec wt t l Ht) as (H1 & H2 & H3).
  split; [exact H1|]. split; [exact H2|]. split; [exact H3|]. intros Hnn. split.
  - intros j Hj Hge. apply index_for_prefix_least; auto.
  - intros Hbig. apply index_for_prefix_beyond; auto.
Qed.

Lemma c34_index_for_total_inverse : forall (V : Type) (wt : V -> Z) (l : list V) (i : nat),
  i < length l ->
  ((forall x, In x l -> (0 <= wt x)%Z) ->
     forall t, (get_prefix wt i l < t)%Z -> (t <= get_total wt i l)%Z -> index_for_total wt t l = i) /\
  ((forall x, In x l -> (0 < wt x)%Z) ->
     index_for_total wt (get_total wt i l) l = i /\
     index_for_prefix wt (get_prefix wt (S i) l) l = S i).
Proof.
  intros V wt l i Hi. split.
  - intros Hnn t H1 H2. apply index_for_total_owner; auto.
  - intros Hpos. apply index_for_total_inverse; auto.
Qed.

Lemma c34_with_acc_spec : forall (V : Type) (wt : V -> Z) (acc : Z) (l : list V) (k : nat) (x : V),
  map fst (with_acc wt acc l) = l /\
  (get k l = Some x -> nth_error (with_acc wt acc l) k = Some (x, (acc + get_prefix wt (S k) l)%Z)).
Proof. intros V wt acc l k x. split; [apply with_acc_values|apply with_acc_nth]. Qed.

Lemma c34_advance_prefix_spec : forall (V : Type) (wt : V -> Z) (a b : nat) (n : Z) (l : list V)
    (p : nat) (d : Z) (x : V) (tot : Z),
  (forall y, In y l -> (0 <= wt y)%Z) -> (0 <= n)%Z ->
  advance_prefix wt a b n l = Some (p, d, x, tot) ->
  win_start a l <= p < win_end a b l /\ get p l = Some x /\
  d = (get_prefix wt p l - get_prefix wt (win_start a l) l)%Z /\ tot = get_total wt p l /\
  (get_prefix wt p l <= get_prefix wt (win_start a l) l + n < get_total wt p l)%Z.
Proof. intros V wt. exact (advance_prefix_spec wt). Qed.

Lemma c34_bool_acc_counts : forall (i : nat) (l : list bool),
  get_prefix bool_wt i l = Z.of_nat (count_occ bool_dec (firstn i l) true).
Proof. exact bool_prefix_counts. Qed.

Lemma c34_delta_presentation : forall (p : Z) (l : list (option Z)),
  realize_from p (deltas_from p l) = l /\
  deltas_from p (realize_from p l) = l /\
  length (deltas_from p l) = length l /\
  (forall k, nth_error (deltas_from p l) k = Some None <-> nth_error l k = Some None).
Proof.
  intros p l. split; [apply realize_deltas|]. split; [apply deltas_realize|].
  split; [apply deltas_length|intros k; apply deltas_null].
Qed.

Lemma c34_delta_runs_concat : forall l : list (option Z),
  realize_from 0 (expand_delta_runs (delta_run_iter 0 (length l) l)) = l.
Proof. exact delta_run_iter_all. Qed.

Lemma c34_delta_runs_prefix : forall (running : Z) (rs : list (nat * option Z))
    (pre : list (Z * option Z * nat)) (p : Z) (d : option Z) (c : nat) (post : list (Z * option Z * nat)),
  delta_runs_from running rs = pre ++ (p, d, c) :: post ->
  p = running_after running (realize_from running (expand_delta_runs pre)).
Proof. exact delta_runs_prefix. Qed.

Lemma c34_delta_find_spec : forall (lo hi v : Z) (l : list (option Z)) (k : nat),
  (In k (find_by_range lo hi l) <-> exists x, nth_error l k = Some (Some x) /\ (lo <= x < hi)%Z) /\
  StronglySorted lt (find_by_range lo hi l) /\
  (In k (find_by_value v l) <-> nth_error l k = Some (Some v)) /\
  (find_first v l = Some k ->
     nth_error l k = Some (Some v) /\ forall j, j < k -> nth_error l j <> Some (Some v)).
Proof.
  intros lo hi v l k. split; [apply find_by_range_spec|]. split; [apply find_range_from_sorted|].
  split; [apply find_by_value_spec|apply find_first_spec].
Qed.

Lemma c34_scope_to_value_spec : forall (V : Type) (veqb vltb : V -> V -> bool),
  (forall x y, veqb x y = true <-> x = y) ->
  (forall x, vltb x x = false) ->
  (forall x y z, vltb x y = true -> vltb y z = true -> vltb x z = true) ->
  (forall x y, vltb x y = false -> vltb y x = false -> x = y) ->
  forall (v : V) (a b : nat) (l : list V),
  sorted_asc vltb (iter_range a b l) ->
  win_start a l <= fst (scope_to_value veqb vltb v a b l) <= snd (scope_to_value veqb vltb v a b l) /\
  snd (scope_to_value veqb vltb v a b l) <= win_end a b l /\
  forall k, win_start a l <= k < win_end a b l ->
            (get k l = Some v <-> fst (scope_to_value veqb vltb v a b l) <= k < snd (scope_to_value veqb vltb v a b l)).
Proof.
  intros V veqb vltb H1 H2 H3 H4 v a b l Hs.
  exact (scope_to_value_spec veqb vltb H1 H2 H3 H4 v a b l Hs).
Qed.
