(* Hexane/Delta.v — delta columns (`DeltaColumn::<T>`): an RLE column of i64 deltas.

   Mirrors rust/hexane/src:
     delta/mod.rs   DeltaColumn::load_with (domain check over the per-slab aggregates),
                    from_values / deltas_from, DeltaIter::next (running sum)
     delta/indexed.rs IndexedDeltaWeightFn::accumulate_run (checked i64 arithmetic)
     column.rs      ColumnLoadIter::{try_next_run, attribute, finalize_with} with
                    WF::ACCUMULATES = true: every run goes through accumulate_run right
                    after the RLE loader has validated and counted its segment
   The inner column is `Column<i64>` (non-nullable T) or `Column<Option<i64>>`; [lo],[hi]
   are T::MIN_I64 / T::MAX_I64 (i64: the whole range; u64: 0 .. i64::MAX).
   Events per segment, in Rust order: parse, validate, count (saturating), accumulate
   (Err on i64 overflow and, as of /repo 1187ab90a, on `w.len.checked_add(count)`;
   `cur_emitted` in ColumnLoadIter::attribute saturates like the slab length).  At the end:
   flush, checked sum of slab lens (Err), domain check per slab (Err).  No partial operation
   is left: the loader returns Ok or Err. *)
From AM Require Import Base.Prelude Base.Leb128 Hexane.Hleb Hexane.Rle.
Local Open Scope N_scope.

(* SlabAgg: len, total, min_offset, max_offset *)
Record agg := mk_agg { a_len : N; a_total : Z; a_min : Z; a_max : Z }.
Definition agg0 : agg := mk_agg 0 0 0 0.

(* IndexedDeltaWeightFn::accumulate_run; Err = "delta running sum overflows i64" or
   `w.len.checked_add(count)` = None *)
Definition accumulate (w : agg) (count : N) (x : option Z) : res agg :=
  match x with
  | None =>
      if pow64 <=? a_len w + count then Err
      else if a_len w =? 0 then Ok (mk_agg (a_len w + count) (a_total w) 0 0)
      else Ok (mk_agg (a_len w + count) (a_total w)
                      (Z.min (a_min w) (a_total w)) (Z.max (a_max w) (a_total w)))
  | Some v =>
      if pow63 <=? count then Err                       (* i64::try_from(count) *)
      else
        let stp := (v * Z.of_N count)%Z in
        if negb (in_i64b stp) then Err
        else
          let first := (a_total w + v)%Z in
          let last := (a_total w + stp)%Z in
          if negb (in_i64b first) || negb (in_i64b last) then Err
          else
            let lo := Z.min first last in
            let hi := Z.max first last in
            if pow64 <=? a_len w + count then Err
            else if a_len w =? 0 then Ok (mk_agg (a_len w + count) last lo hi)
            else Ok (mk_agg (a_len w + count) last (Z.min (a_min w) lo) (Z.max (a_max w) hi))
  end.

Section Delta.
  Variable nullable : bool.
  Variable lo hi : Z.

  (* loader state: RLE state, current weight, finished weights (newest first) *)
  Definition dst : Type := (cst Z * agg * list agg)%type.

  Definition dstep (st : dst) (s : rseg Z) : res dst :=
    let '(c, w, ws) := st in
    let* c' := step Z Z.eqb nullable c s in
    match s with
    | RHead _ => Ok (c', w, ws)
    | RLit v | RRun _ v =>
        let* w' := accumulate w (seg_items Z s) (Some v) in
        if c_segs Z c' =? 0 then Ok (c', agg0, w' :: ws) else Ok (c', w', ws)
    | RNull n =>
        let* w' := accumulate w n None in
        if c_segs Z c' =? 0 then Ok (c', agg0, w' :: ws) else Ok (c', w', ws)
    end.

  Fixpoint dcheck (st : dst) (ss : list (rseg Z)) : res dst :=
    match ss with
    | [] => Ok st
    | s :: t => let* st' := dstep st s in dcheck st' t
    end.

  (* the closure passed to finalize_with, over the weights oldest first *)
  Fixpoint domain_ok (running : Z) (ws : list agg) : bool :=
    match ws with
    | [] => true
    | w :: t =>
      if a_len w =? 0 then domain_ok running t
      else if ((running + a_min w <? lo) || (hi <? running + a_max w))%Z then false
      else domain_ok (running + a_total w)%Z t
    end.

  Definition dfinish (st : dst) : res (list (N * option Z)) :=
    let '(c, w, ws) := st in
    let* rs := finish Z c in
    let ws' := if 0 <? c_segs Z c then w :: ws else ws in
    if domain_ok 0 (rev ws') then Ok rs else Err.

  Definition delta_load_segs (p : list (rseg Z) * term) : res (list (N * option Z)) :=
    let (ss, t) := p in
    let* st := dcheck (cst_init Z, agg0, []) ss in
    match t with
    | TEnd => dfinish st
    | TErr => Err
    end.

  (* DeltaColumn::<T>::load: the run list of the stored deltas *)
  Definition delta_load (b : bytes) : res (list (N * option Z)) :=
    delta_load_segs (raw_parse Z i64_dec (S (length b)) 0 b).
End Delta.

(* DeltaIter: realized values are running sums of the non-null deltas *)
Fixpoint realize (running : Z) (ds : list (option Z)) : list (option Z) :=
  match ds with
  | [] => []
  | None :: t => None :: realize running t
  | Some d :: t => Some (running + d)%Z :: realize (running + d)%Z t
  end.

(* deltas_from *)
Fixpoint deltas (prev : Z) (vs : list (option Z)) : list (option Z) :=
  match vs with
  | [] => []
  | None :: t => None :: deltas prev t
  | Some r :: t => Some (r - prev)%Z :: deltas r t
  end.

Definition delta_load_vals (nullable : bool) (lo hi : Z) (b : bytes) : res (list (option Z)) :=
  let* rs := delta_load nullable lo hi b in Ok (realize 0 (expand Z rs)).

(* DeltaColumn::save of a column holding the realized values [vs] *)
Definition delta_save (vs : list (option Z)) : bytes := i64_save (deltas 0 vs).
