(* Hexane/DeltaAccept.v — the delta loader accepts the writer's own output.

   For every value list whose values lie in a window [wlo, whi] that contains 0, is no wider
   than 2^63 - 1 and sits inside the element type's domain [lo, hi] (for u64 / Option<u64>
   columns: every list the type can hold, window [0, i64::MAX]),
       delta_load (delta_save vs) = Ok (group (deltas 0 vs))   and the realized values are vs.
   Method: the aggregate pass of the loader only looks at the run list and at the position
   of the slab cuts (every 32 value-bearing segments), so it is fused out of the segment
   loop ([aggs], [dcheck_fuse]); over the run list the invariant is that slab-relative
   offsets are differences of two realized values (or 0) inside the window. *)
From AM Require Import Base.Prelude Base.Leb128 Hexane.Hleb Hexane.HlebProofs Hexane.Rle Hexane.RleProofs
  Hexane.Delta Hexane.DeltaProofs.
Local Open Scope N_scope.
Local Arguments Z.mul : simpl never.
Local Arguments Z.add : simpl never.
Local Arguments Z.sub : simpl never.
Local Arguments Z.opp : simpl never.
Local Arguments Z.ltb : simpl never.
Local Arguments Z.leb : simpl never.
Local Arguments Z.min : simpl never.
Local Arguments Z.max : simpl never.
Local Arguments Z.of_N : simpl never.

(* the aggregate pass over a run list; [k] = segments in the current slab *)
Fixpoint aggs (k : N) (w : agg) (ws : list agg) (rs : list (N * option Z)) : res (agg * list agg) :=
  match rs with
  | [] => Ok (w, ws)
  | (n, x) :: t =>
    let* w' := accumulate w n x in
    if k + 1 =? rle_target then aggs 0 agg0 (w' :: ws) t else aggs (k + 1) w' ws t
  end.

Lemma count_seg_segs st p l n x st' :
  count_seg Z st p l n x = Ok st' ->
  c_segs Z st' = if c_segs Z st + 1 =? rle_target then 0 else c_segs Z st + 1.
Proof.
  unfold count_seg. destruct (c_segs Z st + 1 =? rle_target); intros H; inversion H; reflexivity.
Qed.

Lemma dstep_value nullable c w ws s c1 n x w1 :
  step Z Z.eqb nullable c s = Ok c1 ->
  (match s with RHead _ => False | RLit v => n = 1 /\ x = Some v | RRun m v => n = m /\ x = Some v | RNull m => n = m /\ x = None end) ->
  c_segs Z c1 = (if c_segs Z c + 1 =? rle_target then 0 else c_segs Z c + 1) ->
  accumulate w n x = Ok w1 ->
  dstep nullable (c, w, ws) s =
    if c_segs Z c + 1 =? rle_target then Ok (c1, agg0, w1 :: ws) else Ok (c1, w1, ws).
Proof.
  intros Hs Hk Hsegs Ha. unfold dstep. rewrite Hs. cbn [bind].
  destruct s as [m|v|m v|m]; [contradiction| | |]; destruct Hk as [-> ->]; cbn [seg_items];
    rewrite Ha; cbn [bind]; rewrite Hsegs;
    (destruct (c_segs Z c + 1 =? rle_target) eqn:E; [reflexivity|]);
    (assert ((c_segs Z c + 1 =? 0) = false) as -> by lia); reflexivity.
Qed.

Lemma dcheck_fuse nullable : forall ss c w ws c' w' ws',
  check Z Z.eqb nullable c ss = Ok c' ->
  aggs (c_segs Z c) w ws (runs_of Z ss) = Ok (w', ws') ->
  dcheck nullable (c, w, ws) ss = Ok (c', w', ws').
Proof.
  induction ss as [|s t IH]; intros c w ws c' w' ws' Hc Ha.
  - cbn in Hc, Ha. inversion Hc; inversion Ha; subst. reflexivity.
  - apply check_cons in Hc. destruct Hc as (c1 & Hs & Hc). cbn [dcheck].
    pose proof (step_inv Z Z.eqb nullable c s c1 Hs) as [_ Hst].
    destruct s as [m|v|m v|m]; cbn [runs_of] in Ha.
    + unfold dstep. rewrite Hs. cbn [bind]. apply IH; [exact Hc|]. subst c1. cbn [c_segs]. exact Ha.
    + cbn [aggs] in Ha. destruct (accumulate w 1 (Some v)) as [w1| |] eqn:Eacc; cbn [bind] in Ha; try discriminate.
      pose proof (count_seg_segs _ _ _ _ _ _ Hst) as Hk.
      rewrite (dstep_value nullable c w ws (RLit v) c1 1 (Some v) w1 Hs (conj eq_refl eq_refl) Hk Eacc).
      destruct (c_segs Z c + 1 =? rle_target); cbn [bind]; apply IH; auto; rewrite Hk; exact Ha.
    + cbn [aggs] in Ha. destruct (accumulate w m (Some v)) as [w1| |] eqn:Eacc; cbn [bind] in Ha; try discriminate.
      pose proof (count_seg_segs _ _ _ _ _ _ Hst) as Hk.
      rewrite (dstep_value nullable c w ws (RRun m v) c1 m (Some v) w1 Hs (conj eq_refl eq_refl) Hk Eacc).
      destruct (c_segs Z c + 1 =? rle_target); cbn [bind]; apply IH; auto; rewrite Hk; exact Ha.
    + cbn [aggs] in Ha. destruct (accumulate w m None) as [w1| |] eqn:Eacc; cbn [bind] in Ha; try discriminate.
      pose proof (count_seg_segs _ _ _ _ _ _ Hst) as Hk.
      rewrite (dstep_value nullable c w ws (RNull m) c1 m None w1 Hs (conj eq_refl eq_refl) Hk Eacc).
      destruct (c_segs Z c + 1 =? rle_target); cbn [bind]; apply IH; auto; rewrite Hk; exact Ha.
Qed.

Lemma runs_of_segs_aux : forall rs inlit, runs_of Z (segs_aux Z inlit rs) = rs.
Proof.
  induction rs as [|[n [v|]] t IH]; intros inlit; [reflexivity| |].
  - cbn [segs_aux]. destruct (n =? 1) eqn:E.
    + apply N.eqb_eq in E. subst n. destruct inlit; cbn [app runs_of]; rewrite IH; reflexivity.
    + cbn [runs_of]. rewrite IH. reflexivity.
  - cbn [segs_aux runs_of]. rewrite IH. reflexivity.
Qed.

(* ---- the domain check, oldest slab first ---- *)
Section Accept.
  Variable nullable : bool.
  Variable lo hi wlo whi : Z.
  Hypothesis Hlo : (lo <= wlo)%Z.
  Hypothesis Hhi : (whi <= hi)%Z.
  Hypothesis Hwmin : (i64_min <= wlo)%Z.
  Hypothesis Hwmax : (whi <= i64_max)%Z.
  Hypothesis Hzero : (wlo <= 0 <= whi)%Z.
  Hypothesis Hwidth : (whi - wlo <= i64_max)%Z.

  Definition win (x : Z) : Prop := (wlo <= x <= whi)%Z.

  Fixpoint dsum (r : Z) (l : list agg) : Z :=
    match l with
    | [] => r
    | w :: t => if a_len w =? 0 then dsum r t else dsum (r + a_total w)%Z t
    end.

  Definition okw (r : Z) (w : agg) : bool :=
    if a_len w =? 0 then true else negb ((r + a_min w <? lo) || (hi <? r + a_max w))%Z.

  Lemma domain_ok_snoc : forall l r w,
    domain_ok lo hi r (l ++ [w]) = domain_ok lo hi r l && okw (dsum r l) w.
  Proof.
    induction l as [|a l IH]; intros r w; cbn [app domain_ok dsum].
    - unfold okw. destruct (a_len w =? 0); [reflexivity|].
      destruct ((r + a_min w <? lo) || (hi <? r + a_max w))%Z; reflexivity.
    - destruct (a_len a =? 0); [apply IH|].
      destruct ((r + a_min a <? lo) || (hi <? r + a_max a))%Z; [reflexivity|apply IH].
  Qed.

  Lemma dsum_snoc : forall l r w,
    dsum r (l ++ [w]) = if a_len w =? 0 then dsum r l else (dsum r l + a_total w)%Z.
  Proof.
    induction l as [|a l IH]; intros r w; cbn [app dsum]; [reflexivity|].
    destruct (a_len a =? 0); apply IH.
  Qed.

  (* R0: realized value at the start of the current slab; R: current realized value *)
  Definition inv (R0 R : Z) (w : agg) (ws : list agg) : Prop :=
    win R0 /\ win R /\ a_total w = (R - R0)%Z /\
    (a_len w <> 0 -> win (R0 + a_min w) /\ win (R0 + a_max w)) /\
    domain_ok lo hi 0 (rev ws) = true /\ dsum 0 (rev ws) = R0.

  Definition good (R0 R' : Z) (w1 : agg) : Prop :=
    a_total w1 = (R' - R0)%Z /\ a_len w1 <> 0 /\ win (R0 + a_min w1) /\ win (R0 + a_max w1).

  Lemma inv_next R0 R R' w w1 ws :
    inv R0 R w ws -> good R0 R' w1 -> win R' ->
    inv R0 R' w1 ws /\ inv R' R' agg0 (w1 :: ws).
  Proof.
    intros (I1 & I2 & I3 & I4 & I5 & I6) (G1 & G2 & G3 & G4) HR'. unfold win in *. split.
    - repeat split; auto; lia.
    - unfold inv, win. cbn [agg0 a_total a_len a_min a_max rev].
      rewrite domain_ok_snoc, dsum_snoc, I5, I6. unfold okw.
      assert ((a_len w1 =? 0) = false) as -> by lia. cbn [andb].
      repeat split; lia.
  Qed.

  Fixpoint rv_ok (R : Z) (rs : list (N * option Z)) : Prop :=
    match rs with
    | [] => True
    | (n, None) :: t => 1 <= n /\ rv_ok R t
    | (n, Some v) :: t =>
        1 <= n /\ n < pow63 /\ win (R + v) /\ win (R + Z.of_N n * v) /\ rv_ok (R + Z.of_N n * v)%Z t
    end.

  Lemma in_i64b_win_diff a b : win a -> win b -> in_i64b (a - b) = true.
  Proof.
    unfold win, in_i64b. intros Ha Hb. rewrite i64_min_val, i64_max_val in *.
    apply andb_true_iff. split; lia.
  Qed.

  Lemma accumulate_some R0 R w ws n v :
    inv R0 R w ws -> 1 <= n -> n < pow63 -> win (R + v) -> win (R + Z.of_N n * v) ->
    a_len w + n < pow64 ->
    exists w1, accumulate w n (Some v) = Ok w1 /\ a_len w1 = a_len w + n /\
               good R0 (R + Z.of_N n * v) w1.
  Proof.
    intros (I1 & I2 & I3 & I4 & I5 & I6) Hn1 Hn2 Hv Hnv Hlen. unfold accumulate.
    assert ((pow63 <=? n) = false) as -> by lia.
    replace (v * Z.of_N n)%Z with (Z.of_N n * v)%Z by lia.
    set (p := (Z.of_N n * v)%Z) in *.
    assert (in_i64b p = true) as ->.
    { replace p with ((R + p) - R)%Z by lia. apply in_i64b_win_diff; assumption. }
    rewrite I3.
    assert (in_i64b (R - R0 + v) = true) as ->.
    { replace (R - R0 + v)%Z with ((R + v) - R0)%Z by lia. apply in_i64b_win_diff; assumption. }
    assert (in_i64b (R - R0 + p) = true) as ->.
    { replace (R - R0 + p)%Z with ((R + p) - R0)%Z by lia. apply in_i64b_win_diff; assumption. }
    cbn [negb orb].
    assert ((pow64 <=? a_len w + n) = false) as -> by lia.
    unfold win in *.
    destruct (a_len w =? 0) eqn:E0; eexists; (split; [reflexivity|]); cbn [a_len a_total a_min a_max];
      (split; [reflexivity|]); unfold good, win; cbn [a_len a_total a_min a_max].
    - repeat split; lia.
    - assert (a_len w <> 0) as Hne by lia. destruct (I4 Hne) as [[? ?] [? ?]]. repeat split; lia.
  Qed.

  Lemma accumulate_none R0 R w ws n :
    inv R0 R w ws -> 1 <= n -> a_len w + n < pow64 ->
    exists w1, accumulate w n None = Ok w1 /\ a_len w1 = a_len w + n /\ good R0 R w1.
  Proof.
    intros (I1 & I2 & I3 & I4 & I5 & I6) Hn1 Hlen. unfold accumulate.
    assert ((pow64 <=? a_len w + n) = false) as -> by lia.
    unfold win in *.
    destruct (a_len w =? 0) eqn:E0; eexists; (split; [reflexivity|]); cbn [a_len a_total a_min a_max];
      (split; [reflexivity|]); unfold good, win; cbn [a_len a_total a_min a_max].
    - repeat split; lia.
    - assert (a_len w <> 0) as Hne by lia. destruct (I4 Hne) as [[? ?] [? ?]]. repeat split; lia.
  Qed.

  Lemma aggs_ok : forall rs k w ws R0 R,
    inv R0 R w ws -> rv_ok R rs -> a_len w + total Z rs < pow64 ->
    exists w' ws' R0' R', aggs k w ws rs = Ok (w', ws') /\ inv R0' R' w' ws'.
  Proof.
    induction rs as [|[n [v|]] t IH]; intros k w ws R0 R Hinv Hrv Hlen.
    - exists w, ws, R0, R. split; [reflexivity|exact Hinv].
    - cbn [rv_ok] in Hrv. destruct Hrv as (Hn1 & Hn2 & Hv & Hnv & Hrv). cbn [total] in Hlen.
      destruct (accumulate_some R0 R w ws n v Hinv Hn1 Hn2 Hv Hnv ltac:(lia)) as (w1 & Ea & El & Hg).
      destruct (inv_next R0 R _ w w1 ws Hinv Hg Hnv) as [Ia Ib].
      cbn [aggs]. rewrite Ea. cbn [bind].
      destruct (k + 1 =? rle_target).
      + apply (IH 0 agg0 (w1 :: ws) _ _ Ib Hrv). cbn [agg0 a_len]. lia.
      + apply (IH (k + 1) w1 ws _ _ Ia Hrv). lia.
    - cbn [rv_ok] in Hrv. destruct Hrv as (Hn1 & Hrv). cbn [total] in Hlen.
      destruct (accumulate_none R0 R w ws n Hinv Hn1 ltac:(lia)) as (w1 & Ea & El & Hg).
      assert (HR : win R) by (destruct Hinv as (_ & H & _); exact H).
      destruct (inv_next R0 R R w w1 ws Hinv Hg HR) as [Ia Ib].
      cbn [aggs]. rewrite Ea. cbn [bind].
      destruct (k + 1 =? rle_target).
      + apply (IH 0 agg0 (w1 :: ws) _ _ Ib Hrv). cbn [agg0 a_len]. lia.
      + apply (IH (k + 1) w1 ws _ _ Ia Hrv). lia.
  Qed.

  Lemma inv_init : inv 0 0 agg0 [].
  Proof. unfold inv, win. cbn. repeat split; try lia; intros H; congruence. Qed.

  Lemma inv_domain R0 R w ws (b : bool) :
    inv R0 R w ws -> domain_ok lo hi 0 (rev (if b then w :: ws else ws)) = true.
  Proof.
    intros (I1 & I2 & I3 & I4 & I5 & I6). destruct b; [|exact I5].
    cbn [rev]. rewrite domain_ok_snoc, I5, I6. unfold okw.
    destruct (a_len w =? 0) eqn:E; [reflexivity|].
    assert (a_len w <> 0) as Hne by lia. destruct (I4 Hne) as [[? ?] [? ?]].
    assert (((R0 + a_min w <? lo) || (hi <? R0 + a_max w))%Z = false) as -> by lia. reflexivity.
  Qed.

  (* ---- realized values of a run list ---- *)
  Definition winopt (x : option Z) : Prop := match x with Some v => win v | None => True end.

  Lemma realize_repeat_some (P : option Z -> Prop) v : forall k R l,
    Forall P (realize R (repeat (Some v) (S k) ++ l)) ->
    P (Some (R + v)%Z) /\ P (Some (R + Z.of_nat (S k) * v)%Z) /\
    Forall P (realize (R + Z.of_nat (S k) * v)%Z l).
  Proof.
    induction k as [|k IH]; intros R l H.
    - cbn [repeat app realize] in H. inversion H; subst.
      replace (R + Z.of_nat 1 * v)%Z with (R + v)%Z by lia. auto.
    - change (repeat (Some v) (S (S k)) ++ l) with (Some v :: (repeat (Some v) (S k) ++ l)) in H.
      cbn [realize] in H. inversion H as [|? ? H1 H2]; subst.
      destruct (IH _ _ H2) as (_ & A & B).
      replace (R + Z.of_nat (S (S k)) * v)%Z with (R + v + Z.of_nat (S k) * v)%Z
        by (rewrite (Nat2Z.inj_succ (S k)); ring).
      auto.
  Qed.

  Lemma realize_repeat_none (P : option Z -> Prop) : forall k R l,
    Forall P (realize R (repeat None k ++ l)) -> Forall P (realize R l).
  Proof.
    induction k as [|k IH]; intros R l H; [exact H|].
    cbn [repeat app realize] in H. inversion H; subst. apply IH. assumption.
  Qed.

  Lemma rv_of_realize : forall rs R pv,
    canon Z nullable pv rs -> total Z rs < pow63 ->
    Forall winopt (realize R (expand Z rs)) -> rv_ok R rs.
  Proof.
    induction rs as [|[n [v|]] t IH]; intros R pv Hc Ht H; [exact I| |].
    - cbn [canon] in Hc. destruct Hc as (Hn & _ & _ & Hc). cbn [total] in Ht. cbn [expand] in H.
      destruct (N.to_nat n) as [|k] eqn:Ek; [lia|].
      apply realize_repeat_some in H. destruct H as (A & B & C).
      assert (Z.of_nat (S k) = Z.of_N n) as Ez by lia. rewrite Ez in B, C.
      cbn [rv_ok]. repeat split; try lia; try exact A; try exact B.
      + apply A.
      + apply A.
      + apply B.
      + apply B.
      + eapply IH; eauto. lia.
    - cbn [canon] in Hc. destruct Hc as (Hn & _ & _ & Hc). cbn [total] in Ht. cbn [expand] in H.
      apply realize_repeat_none in H. cbn [rv_ok]. split; [exact Hn|]. eapply IH; eauto. lia.
  Qed.

  Lemma deltas_wf : forall vs r, win r -> Forall winopt vs ->
    Forall (fun x => match x with Some d => wf_i64 d | None => True end) (deltas r vs).
  Proof.
    induction vs as [|[v|] t IH]; intros r Hr H; cbn [deltas]; [constructor| |];
      inversion H as [|? ? Hv Ht]; subst.
    - constructor; [|apply IH; assumption]. unfold wf_i64, in_i64. cbn [winopt] in Hv. unfold win in *.
      rewrite i64_min_val, i64_max_val in *. lia.
    - constructor; [exact I|apply IH; assumption].
  Qed.

  Lemma deltas_null : forall vs r, Forall (fun x => x = None -> nullable = true) vs ->
    Forall (nullok Z nullable) (deltas r vs).
  Proof.
    induction vs as [|[v|] t IH]; intros r H; cbn [deltas]; [constructor| |];
      inversion H as [|? ? Hv Ht]; subst; constructor; auto.
    unfold nullok. discriminate.
  Qed.

  Lemma deltas_length : forall vs r, length (deltas r vs) = length vs.
  Proof. induction vs as [|[v|] t IH]; intros r; cbn [deltas length]; auto. Qed.

  Definition delta_dom (vs : list (option Z)) : Prop :=
    Forall winopt vs /\ Forall (fun x => x = None -> nullable = true) vs /\ N.of_nat (length vs) < pow63.

  (* the delta loader accepts the writer's output and holds the same values *)
  Theorem delta_load_save vs :
    delta_dom vs -> delta_load nullable lo hi (delta_save vs) = Ok (group Z Z.eqb (deltas 0 vs)).
  Proof.
    intros (Hw & Hn & Hl).
    set (ds := deltas 0 vs). set (rs := group Z Z.eqb ds).
    assert (Hz : win 0) by (unfold win; lia).
    assert (Hcanon : canon Z nullable None rs).
    { apply (canon_group Z Z.eqb nullable Z_eqb_spec); [apply deltas_null; exact Hn|].
      destruct ds; [exact I|discriminate]. }
    assert (Htot : total Z rs < pow63).
    { unfold rs. rewrite total_group. unfold ds. rewrite deltas_length. exact Hl. }
    assert (Hrun : Forall (run_ok Z wf_i64) rs).
    { apply run_ok_group. apply deltas_wf; assumption. }
    assert (Hrv : rv_ok 0 rs).
    { apply (rv_of_realize rs 0 None Hcanon Htot). unfold rs.
      rewrite (expand_group Z Z.eqb Z_eqb_spec). unfold ds. rewrite realize_deltas. exact Hw. }
    unfold delta_save, i64_save, rle_save, rle_save_runs, delta_load. fold ds. fold rs.
    rewrite (parse_write Z Z.eqb i64_enc i64_dec wf_i64 Z_eqb_spec i64_dec_enc i64_enc_nonempty i64_dec_wf).
    2:{ exact (segs_framed Z Z.eqb i64_enc i64_dec nullable wf_i64 Z_eqb_spec i64_dec_enc i64_enc_nonempty i64_dec_wf rs false Hrun Htot). }
    2:{ pose proof (write_segs_length Z i64_enc i64_dec wf_i64 i64_dec_enc i64_enc_nonempty i64_dec_wf (segs_aux Z false rs)). lia. }
    unfold delta_load_segs.
    destruct (check_canon Z Z.eqb i64_enc i64_dec nullable wf_i64 Z_eqb_spec i64_dec_enc i64_enc_nonempty i64_dec_wf
                rs (cst_init Z) None false Hcanon (st_ok_init Z)) as (c' & Q1 & Q2 & Q3 & Q4).
    { cbn. rewrite pow63_val in Htot. rewrite u64_max_val. lia. }
    { reflexivity. }
    destruct (aggs_ok rs 0 agg0 [] 0 0 inv_init Hrv) as (w' & ws' & R0' & R' & Ea & Hinv).
    { cbn [agg0 a_len]. rewrite pow63_val in Htot. rewrite pow64_val. lia. }
    rewrite (dcheck_fuse nullable (segs_aux Z false rs) (cst_init Z) agg0 [] c' w' ws' Q1).
    2:{ rewrite runs_of_segs_aux. exact Ea. }
    cbn [bind]. unfold dfinish.
    rewrite (finish_ok Z c' Q4).
    2:{ rewrite Q3. cbn. rewrite pow63_val in Htot. rewrite u64_max_val. lia. }
    cbn [bind]. rewrite (inv_domain R0' R' w' ws' (0 <? c_segs Z c') Hinv).
    rewrite Q2. cbn [cst_init c_out]. rewrite app_nil_r, rev_involutive. reflexivity.
  Qed.

  Theorem delta_load_vals_save vs :
    delta_dom vs -> delta_load_vals nullable lo hi (delta_save vs) = Ok vs.
  Proof.
    intros H. unfold delta_load_vals. rewrite delta_load_save by exact H. cbn [bind].
    rewrite (expand_group Z Z.eqb Z_eqb_spec). rewrite realize_deltas. reflexivity.
  Qed.
End Accept.
