(* Hexane/DeltaProofs.v — proofs about the delta column model (Hexane/Delta.v).

   The delta loader is the i64 RLE loader plus the aggregate / domain checks, so it accepts
   a subset of what the RLE loader accepts, with the same runs; everything proved for RLE
   columns (canonical form, re-save) transfers.  NOT proved here: that the domain check
   accepts the writer's own output for every in-domain value list (the per-slab aggregate
   arithmetic); that half of the round trip is checked differentially. *)
From AM Require Import Base.Prelude Base.Leb128 Hexane.Hleb Hexane.HlebProofs Hexane.Rle Hexane.RleProofs Hexane.Delta.
Local Open Scope N_scope.

Lemma realize_deltas : forall vs r, realize r (deltas r vs) = vs.
Proof.
  induction vs as [|[v|] t IH]; intros r; cbn [deltas realize]; [reflexivity| |].
  - replace (r + (v - r))%Z with v by lia. rewrite IH. reflexivity.
  - rewrite IH. reflexivity.
Qed.

Lemma deltas_realize : forall ds r, deltas r (realize r ds) = ds.
Proof.
  induction ds as [|[d|] t IH]; intros r; cbn [deltas realize]; [reflexivity| |].
  - replace (r + d - r)%Z with d by lia. rewrite IH. reflexivity.
  - rewrite IH. reflexivity.
Qed.

Section DeltaP.
  Variable nullable : bool.
  Variable lo hi : Z.

  Lemma dcheck_check : forall ss c w ws,
    match dcheck nullable (c, w, ws) ss with
    | Ok (c', _, _) => check Z Z.eqb nullable c ss = Ok c'
    | Panic => check Z Z.eqb nullable c ss = Panic
    | Err => True
    end.
  Proof.
    induction ss as [|s t IH]; intros c w ws; [reflexivity|].
    cbn [dcheck check]. unfold dstep.
    destruct (step Z Z.eqb nullable c s) as [c1| |]; cbn [bind]; auto.
    destruct s as [n|v|n v|n].
    - cbn [bind]. apply IH.
    - destruct (accumulate w (seg_items Z (RLit v)) (Some v)) as [w'|]; cbn [bind]; auto.
      destruct (c_segs Z c1 =? 0); cbn [bind]; apply IH.
    - destruct (accumulate w (seg_items Z (RRun n v)) (Some v)) as [w'|]; cbn [bind]; auto.
      destruct (c_segs Z c1 =? 0); cbn [bind]; apply IH.
    - destruct (accumulate w n None) as [w'|]; cbn [bind]; auto.
      destruct (c_segs Z c1 =? 0); cbn [bind]; apply IH.
  Qed.

  (* whatever the delta loader accepts, the i64 RLE loader accepts, with the same runs *)
  Theorem delta_load_rle b rs : delta_load nullable lo hi b = Ok rs -> i64_load nullable b = Ok rs.
  Proof.
    unfold delta_load, i64_load, rle_load, delta_load_segs, rle_load_segs.
    destruct (raw_parse Z i64_dec (S (length b)) 0 b) as [ss t].
    pose proof (dcheck_check ss (cst_init Z) agg0 []) as H.
    destruct (dcheck nullable (cst_init Z, agg0, []) ss) as [[[c w] ws]| |]; cbn [bind]; try discriminate.
    rewrite H. cbn [bind]. destruct t; try discriminate.
    unfold dfinish. destruct (finish Z c) as [rs'| |]; cbn [bind]; try discriminate.
    destruct (domain_ok lo hi 0 _); [auto|discriminate].
  Qed.

  Theorem delta_load_panic_rle b : delta_load nullable lo hi b = Panic -> i64_load nullable b = Panic.
  Proof.
    unfold delta_load, i64_load, rle_load, delta_load_segs, rle_load_segs.
    destruct (raw_parse Z i64_dec (S (length b)) 0 b) as [ss t].
    pose proof (dcheck_check ss (cst_init Z) agg0 []) as H.
    destruct (dcheck nullable (cst_init Z, agg0, []) ss) as [[[c w] ws]| |]; cbn [bind]; try discriminate.
    - rewrite H. cbn [bind]. destruct t; try discriminate; auto.
      unfold dfinish. destruct (finish Z c) as [rs'| |]; cbn [bind]; try discriminate; auto.
      destruct (domain_ok lo hi 0 _); discriminate.
    - rewrite H. auto.
  Qed.

  (* a delta column that loads saves back to bytes that load to the same delta column *)
  Theorem delta_resave b rs :
    wf_bytes b -> delta_load nullable lo hi b = Ok rs ->
    delta_load nullable lo hi (delta_save (realize 0 (expand Z rs))) = Ok rs.
  Proof.
    intros Hwf H. pose proof (delta_load_rle b rs H) as Hr.
    destruct (rle_load_canonical Z Z.eqb i64_enc i64_dec nullable wf_i64
                Z_eqb_spec i64_dec_enc i64_enc_nonempty i64_dec_wf b rs Hwf Hr) as (Ep & Hf & C).
    unfold delta_save. rewrite deltas_realize. unfold i64_save, rle_save.
    rewrite (group_expand Z Z.eqb nullable Z_eqb_spec rs None C).
    unfold delta_load in *. unfold rle_save_runs.
    rewrite (parse_write Z Z.eqb i64_enc i64_dec wf_i64 Z_eqb_spec i64_dec_enc i64_enc_nonempty i64_dec_wf _ _ _ Hf).
    - rewrite Ep in H. exact H.
    - pose proof (write_segs_length Z i64_enc i64_dec wf_i64 i64_dec_enc i64_enc_nonempty i64_dec_wf (segs_aux Z false rs)). lia.
  Qed.

  (* the saved form of a value list, if the loader accepts it, holds exactly those values *)
  Theorem delta_load_save_partial vs rs :
    wf_vals Z nullable wf_i64 (deltas 0 vs) ->
    delta_load nullable lo hi (delta_save vs) = Ok rs ->
    rs = group Z Z.eqb (deltas 0 vs) /\ realize 0 (expand Z rs) = vs.
  Proof.
    intros Hwf H. apply delta_load_rle in H. unfold delta_save, i64_save, i64_load in H.
    rewrite (rle_load_save Z Z.eqb i64_enc i64_dec nullable wf_i64
               Z_eqb_spec i64_dec_enc i64_enc_nonempty i64_dec_wf _ Hwf) in H.
    inversion H; subst. split; [reflexivity|].
    rewrite (expand_group Z Z.eqb Z_eqb_spec). apply realize_deltas.
  Qed.
End DeltaP.
