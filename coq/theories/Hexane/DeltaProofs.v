(* Hexane/DeltaProofs.v — proofs about the delta column model (Hexane/Delta.v).

   The delta loader is the i64 RLE loader plus the aggregate / domain checks, so it accepts
   a subset of what the RLE loader accepts, with the same runs; everything proved for RLE
   columns (canonical form, re-save) transfers.  NOT proved here: that the domain check
   accepts the writer's own output for every in-domain value list (the per-slab aggregate
   arithmetic); that half of the round trip is checked differentially. *)
From AM Require Import Base.Prelude Base.Leb128 Hexane.Hleb Hexane.HlebProofs Hexane.Rle Hexane.RleProofs Hexane.Delta.
Local Open Scope N_scope.

Lemma realize_deltas : forall vs r, realize r (deltas r vs) = vs.
Proof.
  induction vs as [|[v|] t IH]; intros r; cbn [deltas realize]; [reflexivity| |].
  - replace (r + (v - r))%Z with v by lia. rewrite IH. reflexivity.
  - rewrite IH. reflexivity.
Qed.

Lemma deltas_realize : forall ds r, deltas r (realize r ds) = ds.
Proof.
  induction ds as [|[d|] t IH]; intros r; cbn [deltas realize]; [reflexivity| |].
  - replace (r + d - r)%Z with d by lia. rewrite IH. reflexivity.
  - rewrite IH. reflexivity.
Qed.

Lemma accumulate_len w n x w' : accumulate w n x = Ok w' -> a_len w' = a_len w + n.
Proof.
  unfold accumulate. destruct x as [v|].
  - destruct (pow63 <=? n); [discriminate|]. destruct (negb (in_i64b (v * Z.of_N n))); [discriminate|].
    destruct (negb (in_i64b (a_total w + v)) || negb (in_i64b (a_total w + v * Z.of_N n))); [discriminate|].
    destruct (pow64 <=? a_len w + n); [discriminate|].
    destruct (a_len w =? 0); intros H; inversion H; reflexivity.
  - destruct (pow64 <=? a_len w + n); [discriminate|].
    destruct (a_len w =? 0); intros H; inversion H; reflexivity.
Qed.

Lemma accumulate_no_panic w n x : accumulate w n x <> Panic.
Proof.
  unfold accumulate. destruct x as [v|].
  - destruct (pow63 <=? n); [discriminate|]. destruct (negb (in_i64b (v * Z.of_N n))); [discriminate|].
    destruct (negb (in_i64b (a_total w + v)) || negb (in_i64b (a_total w + v * Z.of_N n))); [discriminate|].
    destruct (pow64 <=? a_len w + n); [discriminate|]. destruct (a_len w =? 0); discriminate.
  - destruct (pow64 <=? a_len w + n); [discriminate|]. destruct (a_len w =? 0); discriminate.
Qed.

Section DeltaP.
  Variable nullable : bool.
  Variable lo hi : Z.

  Lemma dstep_cases c w ws s :
    match dstep nullable (c, w, ws) s with
    | Ok (c', _, _) => step Z Z.eqb nullable c s = Ok c'
    | Err => True
    | Panic => False
    end.
  Proof.
    unfold dstep.
    destruct (step_cases Z Z.eqb nullable c s) as [-> | [c1 ->]]; cbn [bind]; [exact I|].
    destruct s as [n|v|n v|n]; cbn [seg_items].
    - reflexivity.
    - pose proof (accumulate_no_panic w 1 (Some v)) as Hn.
      destruct (accumulate w 1 (Some v)) as [w'| |]; cbn [bind]; [|exact I|congruence].
      destruct (c_segs Z c1 =? 0); reflexivity.
    - pose proof (accumulate_no_panic w n (Some v)) as Hn.
      destruct (accumulate w n (Some v)) as [w'| |]; cbn [bind]; [|exact I|congruence].
      destruct (c_segs Z c1 =? 0); reflexivity.
    - pose proof (accumulate_no_panic w n None) as Hn.
      destruct (accumulate w n None) as [w'| |]; cbn [bind]; [|exact I|congruence].
      destruct (c_segs Z c1 =? 0); reflexivity.
  Qed.

  Lemma dcheck_check : forall ss c w ws,
    match dcheck nullable (c, w, ws) ss with
    | Ok (c', _, _) => check Z Z.eqb nullable c ss = Ok c'
    | Err => True
    | Panic => False
    end.
  Proof.
    induction ss as [|s t IH]; intros c w ws; [reflexivity|].
    cbn [dcheck check].
    pose proof (dstep_cases c w ws s) as Hs.
    destruct (dstep nullable (c, w, ws) s) as [[[c1 w1] ws1]| |]; cbn [bind]; [|exact I|exact Hs].
    rewrite Hs. cbn [bind]. apply IH.
  Qed.

  (* whatever the delta loader accepts, the i64 RLE loader accepts, with the same runs *)
  Theorem delta_load_rle b rs : delta_load nullable lo hi b = Ok rs -> i64_load nullable b = Ok rs.
  Proof.
    unfold delta_load, i64_load, rle_load, delta_load_segs, rle_load_segs.
    destruct (raw_parse Z i64_dec (S (length b)) 0 b) as [ss t].
    pose proof (dcheck_check ss (cst_init Z) agg0 []) as H.
    destruct (dcheck nullable (cst_init Z, agg0, []) ss) as [[[c w] ws]| |]; cbn [bind]; try discriminate.
    rewrite H. cbn [bind]. destruct t; try discriminate.
    unfold dfinish. destruct (finish Z c) as [rs'| |]; cbn [bind]; try discriminate.
    destruct (domain_ok lo hi 0 _); [auto|discriminate].
  Qed.

  Theorem delta_load_no_panic b : delta_load nullable lo hi b <> Panic.
  Proof.
    unfold delta_load, delta_load_segs.
    destruct (raw_parse Z i64_dec (S (length b)) 0 b) as [ss t].
    pose proof (dcheck_check ss (cst_init Z) agg0 []) as H.
    destruct (dcheck nullable (cst_init Z, agg0, []) ss) as [[[c w] ws]| |]; cbn [bind]; [|discriminate|contradiction].
    destruct t; [|discriminate]. unfold dfinish, finish.
    destruct (u64_max <=? _); cbn [bind]; [discriminate|]. destruct (domain_ok lo hi 0 _); discriminate.
  Qed.

  (* a delta column that loads saves back to bytes that load to the same delta column *)
  Theorem delta_resave b rs :
    wf_bytes b -> delta_load nullable lo hi b = Ok rs ->
    delta_load nullable lo hi (delta_save (realize 0 (expand Z rs))) = Ok rs.
  Proof.
    intros Hwf H. pose proof (delta_load_rle b rs H) as Hr.
    destruct (rle_load_canonical Z Z.eqb i64_enc i64_dec nullable wf_i64
                Z_eqb_spec i64_dec_enc i64_enc_nonempty i64_dec_wf b rs Hwf Hr) as (Ep & Hf & C).
    unfold delta_save. rewrite deltas_realize. unfold i64_save, rle_save.
    rewrite (group_expand Z Z.eqb nullable Z_eqb_spec rs None C).
    unfold delta_load in *. unfold rle_save_runs.
    rewrite (parse_write Z Z.eqb i64_enc i64_dec wf_i64 Z_eqb_spec i64_dec_enc i64_enc_nonempty i64_dec_wf _ _ _ Hf).
    - rewrite Ep in H. exact H.
    - pose proof (write_segs_length Z i64_enc i64_dec wf_i64 i64_dec_enc i64_enc_nonempty i64_dec_wf (segs_aux Z false rs)). lia.
  Qed.

  (* the saved form of a value list, if the loader accepts it, holds exactly those values *)
  Theorem delta_load_save_partial vs rs :
    wf_vals Z nullable wf_i64 (deltas 0 vs) ->
    delta_load nullable lo hi (delta_save vs) = Ok rs ->
    rs = group Z Z.eqb (deltas 0 vs) /\ realize 0 (expand Z rs) = vs.
  Proof.
    intros Hwf H. apply delta_load_rle in H. unfold delta_save, i64_save, i64_load in H.
    rewrite (rle_load_save Z Z.eqb i64_enc i64_dec nullable wf_i64
               Z_eqb_spec i64_dec_enc i64_enc_nonempty i64_dec_wf _ Hwf) in H.
    inversion H; subst. split; [reflexivity|].
    rewrite (expand_group Z Z.eqb Z_eqb_spec). apply realize_deltas.
  Qed.
End DeltaP.
