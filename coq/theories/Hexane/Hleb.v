(* Hexane/Hleb.v — the variable-length integers of hexane's default codec.

   rust/hexane/src/codec.rs, `impl Codec for Leb128`:
     encode_unsigned / encode_signed   — hexane's own writers (minimal encodings)
     try_read_unsigned / try_read_signed (and the read_ twins) — the `leb128` crate,
       (crate leb128, version 0.2.7, src/lib.rs: read::unsigned and read::signed).
   The crate's readers differ from automerge's own storage/parse/leb128.rs
   (Base/Leb128.v): they accept over-long encodings ([0x80,0x00] reads as 0); the
   only rejected shapes are end of input and a tenth byte other than 0/1 (unsigned)
   resp. 0x00/0x7f (signed).  The loop with (result, shift) accumulators is written
   as the equivalent head recursion; [f] is the number of bytes still allowed (10 at
   entry), so [f = 1] is `shift == 63`.  Readers return [None] for the crate's
   [Err] (they never panic: the shifts are below 64 and `low << 63` only drops bits). *)
From AM Require Import Base.Prelude Base.Leb128.
Local Open Scope N_scope.

(* leb128::read::unsigned *)
Fixpoint hudec (f : nat) (l : bytes) : option (N * bytes) :=
  match f with
  | O => None
  | S f' =>
    match l with
    | [] => None
    | b :: t =>
      if Nat.eqb f' 0 then
        (if (b =? 0) || (b =? 1) then Some (b, t) else None)
      else if b <? 128 then Some (b, t)
      else match hudec f' t with
           | Some (v, r) => Some (b - 128 + 128 * v, r)
           | None => None
           end
    end
  end.

Definition hleb_u (l : bytes) : option (N * bytes) := hudec 10 l.

(* leb128::read::signed.  A final byte below the tenth sign-extends from its bit 6;
   the tenth byte is 0x00 (adds nothing, no sign extension: shift = 70 >= 64) or
   0x7f (sets bit 63, i.e. subtracts 2^63 = adds -1 * 128^9). *)
Fixpoint hsdec (f : nat) (l : bytes) : option (Z * bytes) :=
  match f with
  | O => None
  | S f' =>
    match l with
    | [] => None
    | b :: t =>
      if Nat.eqb f' 0 then
        (if b =? 0 then Some (0%Z, t) else if b =? 127 then Some ((-1)%Z, t) else None)
      else if b <? 128 then
        Some (if b <? 64 then Z.of_N b else (Z.of_N b - 128)%Z, t)
      else match hsdec f' t with
           | Some (v, r) => Some ((Z.of_N (b - 128) + 128 * v)%Z, r)
           | None => None
           end
    end
  end.

Definition hleb_s (l : bytes) : option (Z * bytes) := hsdec 10 l.

(* Leb128::encode_unsigned is Base.Leb128.uleb_enc (same loop as the crate's writer). *)
Definition hleb_uenc (n : N) : bytes := uleb_enc n.

(* Leb128::encode_signed: byte = val & 0x7f; val >>= 7 (arithmetic);
   more = !((val == 0 && byte & 0x40 == 0) || (val == -1 && byte & 0x40 != 0)) *)
Fixpoint senc (f : nat) (z : Z) : bytes :=
  match f with
  | O => []
  | S f' =>
    let byte := (z mod 128)%Z in
    let v := (z / 128)%Z in
    if ((v =? 0)%Z && (byte <? 64)%Z) || ((v =? -1)%Z && (64 <=? byte)%Z)
    then [Z.to_N byte]
    else Z.to_N (byte + 128) :: senc f' v
  end.

Definition hleb_senc (z : Z) : bytes := senc 10 z.

Definition i64_min : Z := (-9223372036854775808)%Z.
Definition i64_max : Z := 9223372036854775807%Z.
Definition pow63 : N := 9223372036854775808.
Definition in_i64 (z : Z) : Prop := (i64_min <= z <= i64_max)%Z.
Definition in_i64b (z : Z) : bool := ((i64_min <=? z) && (z <=? i64_max))%Z.
