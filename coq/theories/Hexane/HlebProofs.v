(* Hexane/HlebProofs.v — round trips and ranges of hexane's varints. *)
From AM Require Import Base.Prelude Base.Leb128 Hexane.Hleb.
Local Open Scope N_scope.
Ltac Zify.zify_post_hook ::= Z.div_mod_to_equations.
Local Arguments Z.mul : simpl never.
Local Arguments Z.add : simpl never.
Local Arguments Z.sub : simpl never.
Local Arguments Z.opp : simpl never.
Local Arguments Z.div : simpl never.
Local Arguments Z.modulo : simpl never.

Lemma hudec_uenc f : forall n rest,
  n < lim f -> hudec f (uenc f n ++ rest) = Some (n, rest).
Proof.
  induction f as [|f IH]; intros n rest Hn; [cbn in Hn; lia|].
  cbn [hudec uenc].
  destruct (n <? 128) eqn:E.
  - cbn [app]. destruct (Nat.eqb f 0) eqn:Ef.
    + apply Nat.eqb_eq in Ef. subst f. cbn in Hn.
      assert (((n =? 0) || (n =? 1)) = true) as -> by lia. reflexivity.
    + rewrite E. reflexivity.
  - cbn [app]. destruct (Nat.eqb f 0) eqn:Ef.
    + apply Nat.eqb_eq in Ef. subst f. cbn in Hn. lia.
    + apply Nat.eqb_neq in Ef.
      assert ((n mod 128 + 128 <? 128) = false) as -> by lia.
      rewrite lim_S in Hn by lia.
      rewrite IH by lia. f_equal. f_equal. lia.
Qed.

Theorem hleb_u_roundtrip n rest : n < pow64 -> hleb_u (hleb_uenc n ++ rest) = Some (n, rest).
Proof. intros H. apply hudec_uenc. rewrite lim_10. exact H. Qed.

Lemma lim_pos f : (1 <= f)%nat -> 2 <= lim f.
Proof.
  induction f as [|f IH]; [lia|]. intros _. destruct f; [cbn; lia|].
  rewrite lim_S by lia. specialize (IH ltac:(lia)). lia.
Qed.

Lemma hudec_range f : forall l n rest, wf_bytes l -> hudec f l = Some (n, rest) -> n < lim f.
Proof.
  induction f as [|f IH]; intros l n rest Hwf H; [discriminate|].
  cbn [hudec] in H. destruct l as [|b t]; [discriminate|].
  inversion Hwf as [|? ? Hb Ht]; subst. unfold wf_byte in Hb.
  destruct (Nat.eqb f 0) eqn:Ef.
  - apply Nat.eqb_eq in Ef; subst f.
    destruct ((b =? 0) || (b =? 1)) eqn:E; [|discriminate]. inversion H; subst. cbn. lia.
  - apply Nat.eqb_neq in Ef. rewrite lim_S by lia. pose proof (lim_pos f ltac:(lia)).
    destruct (b <? 128) eqn:E.
    + inversion H; subst. lia.
    + destruct (hudec f t) as [[v r]|] eqn:Ed; [|discriminate].
      inversion H; subst. apply IH in Ed; [|exact Ht]. lia.
Qed.

Lemma hleb_u_range l n rest : wf_bytes l -> hleb_u l = Some (n, rest) -> n < pow64.
Proof. intros Hwf H. apply hudec_range in H; [|exact Hwf]. rewrite lim_10 in H. exact H. Qed.

(* the rest is a proper suffix *)
Lemma hudec_rest f : forall l n rest,
  hudec f l = Some (n, rest) -> exists pre, l = pre ++ rest /\ (1 <= length pre)%nat.
Proof.
  induction f as [|f IH]; intros l n rest H; [discriminate|].
  cbn [hudec] in H. destruct l as [|b t]; [discriminate|].
  destruct (Nat.eqb f 0).
  - destruct ((b =? 0) || (b =? 1)); [|discriminate]. inversion H; subst.
    exists [n]. cbn. split; [reflexivity|lia].
  - destruct (b <? 128).
    + inversion H; subst. exists [n]. cbn. split; [reflexivity|lia].
    + destruct (hudec f t) as [[v r]|] eqn:Ed; [|discriminate]. inversion H; subst.
      apply IH in Ed. destruct Ed as (pre & -> & Hl). exists (b :: pre). cbn. split; [reflexivity|lia].
Qed.

Lemma hleb_u_wf_rest l n rest : wf_bytes l -> hleb_u l = Some (n, rest) -> wf_bytes rest.
Proof.
  intros Hwf H. apply hudec_rest in H. destruct H as (pre & -> & _).
  apply wf_bytes_app in Hwf. tauto.
Qed.

(* signed *)
Fixpoint slim (f : nat) : Z :=
  match f with
  | O => 0%Z
  | S O => 1%Z
  | S f' => (128 * slim f')%Z
  end.

Lemma slim_S f : (1 <= f)%nat -> slim (S f) = (128 * slim f)%Z.
Proof. destruct f; [lia|reflexivity]. Qed.

Lemma slim_10 : slim 10 = 9223372036854775808%Z. Proof. reflexivity. Qed.

Lemma slim_pos f : (1 <= f)%nat -> (1 <= slim f)%Z.
Proof.
  induction f as [|f IH]; [lia|]. intros _. destruct f; [cbn; lia|].
  rewrite slim_S by lia. specialize (IH ltac:(lia)). lia.
Qed.

Lemma hsdec_senc f : forall z rest,
  (- slim f <= z < slim f)%Z -> hsdec f (senc f z ++ rest) = Some (z, rest).
Proof.
  induction f as [|f IH]; intros z rest Hz; [cbn in Hz; lia|].
  cbn [hsdec senc].
  destruct (Nat.eqb f 0) eqn:Ef.
  - apply Nat.eqb_eq in Ef. subst f. cbn in Hz.
    assert (z = 0 \/ z = -1)%Z as [-> | ->] by lia; reflexivity.
  - assert (f <> 0)%nat as Hf by (apply Nat.eqb_neq; exact Ef). rewrite slim_S in Hz by lia.
    destruct ((((z / 128 =? 0)%Z && (z mod 128 <? 64)%Z) || ((z / 128 =? -1)%Z && (64 <=? z mod 128)%Z))) eqn:E.
    + cbn [app].
      assert (Z.to_N (z mod 128) <? 128 = true) as -> by lia.
      f_equal. f_equal.
      destruct (Z.to_N (z mod 128) <? 64) eqn:E2; lia.
    + cbn [app].
      assert (Z.to_N (z mod 128 + 128) <? 128 = false) as -> by lia.
      rewrite IH by lia. f_equal. f_equal. lia.
Qed.

Theorem hleb_s_roundtrip z rest : in_i64 z -> hleb_s (hleb_senc z ++ rest) = Some (z, rest).
Proof.
  intros H. apply hsdec_senc. rewrite slim_10. unfold in_i64, i64_min, i64_max in H. lia.
Qed.

Lemma hsdec_range f : forall l z rest, wf_bytes l -> hsdec f l = Some (z, rest) ->
  (- slim f <= z < slim f)%Z.
Proof.
  induction f as [|f IH]; intros l z rest Hwf H; [discriminate|].
  cbn [hsdec] in H. destruct l as [|b t]; [discriminate|].
  inversion Hwf as [|? ? Hb Ht]; subst. unfold wf_byte in Hb.
  destruct (Nat.eqb f 0) eqn:Ef.
  - apply Nat.eqb_eq in Ef; subst f. cbn.
    destruct (b =? 0); [inversion H; lia|]. destruct (b =? 127); [inversion H; lia|discriminate].
  - apply Nat.eqb_neq in Ef. rewrite slim_S by lia. pose proof (slim_pos f ltac:(lia)).
    destruct (b <? 128) eqn:E.
    + inversion H; subst. destruct (b <? 64) eqn:E2; apply N.ltb_lt in E || apply N.ltb_ge in E; apply N.ltb_lt in E2 || apply N.ltb_ge in E2; lia.
    + destruct (hsdec f t) as [[v r]|] eqn:Ed; [|discriminate].
      injection H as <- <-. apply IH in Ed; [|exact Ht]. lia.
Qed.

Lemma hleb_s_range l z rest : wf_bytes l -> hleb_s l = Some (z, rest) -> in_i64 z.
Proof.
  intros Hwf H. apply hsdec_range in H; [|exact Hwf]. rewrite slim_10 in H.
  unfold in_i64, i64_min, i64_max. lia.
Qed.

Lemma hsdec_rest f : forall l n rest,
  hsdec f l = Some (n, rest) -> exists pre, l = pre ++ rest /\ (1 <= length pre)%nat.
Proof.
  induction f as [|f IH]; intros l n rest H; [discriminate|].
  cbn [hsdec] in H. destruct l as [|b t]; [discriminate|].
  destruct (Nat.eqb f 0).
  - destruct (b =? 0); [inversion H; subst; exists [b]; cbn; split; [reflexivity|lia]|].
    destruct (b =? 127); [inversion H; subst; exists [b]; cbn; split; [reflexivity|lia]|discriminate].
  - destruct (b <? 128).
    + inversion H; subst. exists [b]. cbn. split; [reflexivity|lia].
    + destruct (hsdec f t) as [[v r]|] eqn:Ed; [|discriminate]. inversion H; subst.
      apply IH in Ed. destruct Ed as (pre & -> & Hl). exists (b :: pre). cbn. split; [reflexivity|lia].
Qed.

Lemma hleb_s_wf_rest l n rest : wf_bytes l -> hleb_s l = Some (n, rest) -> wf_bytes rest.
Proof.
  intros Hwf H. apply hsdec_rest in H. destruct H as (pre & -> & _).
  apply wf_bytes_app in Hwf. tauto.
Qed.

Lemma senc_nonempty f z : (1 <= f)%nat -> senc f z <> [].
Proof.
  destruct f; [lia|]. intros _. cbn [senc].
  destruct (((z / 128 =? 0)%Z && (z mod 128 <? 64)%Z) || ((z / 128 =? -1)%Z && (64 <=? z mod 128)%Z)); discriminate.
Qed.

Lemma hleb_senc_nonempty z : hleb_senc z <> [].
Proof. apply senc_nonempty. lia. Qed.

Lemma uenc_nonempty f n : (1 <= f)%nat -> uenc f n <> [].
Proof. destruct f; [lia|]. intros _. cbn [uenc]. destruct (n <? 128); discriminate. Qed.

Lemma hleb_uenc_nonempty n : hleb_uenc n <> [].
Proof. apply uenc_nonempty. lia. Qed.

Lemma senc_wf f z : wf_bytes (senc f z).
Proof.
  revert z; induction f as [|f IH]; intros z; cbn [senc]; [constructor|].
  destruct (((z / 128 =? 0)%Z && (z mod 128 <? 64)%Z) || ((z / 128 =? -1)%Z && (64 <=? z mod 128)%Z)).
  - constructor; [unfold wf_byte; lia|constructor].
  - constructor; [unfold wf_byte; lia|apply IH].
Qed.
