(* Hexane/Rle.v — the run-length column encoding of hexane: writer, and the
   validating loader behind `Column::<T>::load`.

   Mirrors (rust/hexane/src):
     rle/decoder.rs  RleDecoder::try_next_segment          -> [raw_parse]
                     RleSegment::validate_after            -> [validate]
     rle/load.rs     RleLoadIter::finalize / CutState::track / cut_slab (item and
                     segment counters only; the byte copies into slabs are not
                     modelled)                             -> [step], [finish]
     column.rs       ColumnLoadIter::finalize_with (LenWeight): total_len = sum of slab
                     lens                                  -> [finish]
     lib.rs          RleValue::{try_unpack, pack} for u64 / i64 / String / Vec<u8> and
                     the Option<T> blanket impl            -> instances at the end
     rle/state.rs + encoder.rs + splice.rs: `save` of a column is the canonical run
                     list of its values (maximal runs; repeat runs for >= 2 equal
                     values, literal runs for stretches of singletons, null runs)
                                                           -> [group], [segs_aux], [rle_save]
   Wire format:  repeat run  sleb(count > 0) value
                 literal run sleb(-n) v0 .. v(n-1)
                 null run    sleb(0) uleb(count)

   Untrusted counts (as of /repo a623e02f7): a literal header n = i64::MIN is BadFormat
   (`n.checked_neg()`); `slab.len` saturates at usize::MAX in CutState::track; finalize
   folds the slab lengths with checked_add and rejects a total that overflows or equals
   usize::MAX (so a saturated slab is rejected), and ColumnLoadIter::finalize_with sums
   them checked once more.  No partial operation is left on this path: the loader returns
   Ok or Err.
   Not modelled: `tail.bytes` (u32 byte counters of the last segment: inputs below 4 GiB).

   The loader is factored as  parse all segments (stopping at the first undecodable one)
   then  fold validation + counting over them  then  the end-of-input status.  This is the
   Rust order of events: for every segment  parse, validate, count;  so the first failing
   event decides, and the factored form returns exactly that event (the order matters for
   the delta loader, Hexane/Delta.v, which still has a partial operation).

   A column value is represented by its run list [(count, Some v | None)] because counts
   up to 2^64 - 1 can be declared in a dozen bytes; [expand] gives the value list. *)
From AM Require Import Base.Prelude Base.Leb128 Hexane.Hleb.
Local Open Scope N_scope.

(* DEFAULT_MAX_SEG / 2 : the loader cuts a slab every 32 segments *)
Definition rle_target : N := 32.

Section Rle.
  Variable V : Type.
  Variable veqb : V -> V -> bool.
  Variable enc : V -> bytes.                         (* RleValue::pack *)
  Variable dec : bytes -> option (V * bytes).        (* RleValue::try_unpack; None = Err *)
  Variable nullable : bool.                          (* RleValue::NULLABLE *)

  Inductive rseg :=
  | RHead (n : N)            (* RleSegment::LitHead { count } *)
  | RLit (v : V)             (* RleSegment::Lit *)
  | RRun (n : N) (v : V)     (* RleSegment::Run *)
  | RNull (n : N).           (* RleSegment::Null *)

  Inductive term := TEnd | TErr.

  (* RleDecoder::try_next_segment, iterated; [lit] = `remaining` while the state is
     Literal (0 otherwise).  One unit of fuel per segment; every segment consumes at
     least one byte, so [S (length b)] is never exhausted (RleProofs). *)
  Fixpoint raw_parse (fuel : nat) (lit : N) (b : bytes) : list rseg * term :=
    match fuel with
    | O => ([], TErr)
    | S fuel' =>
      if 0 <? lit then
        match dec b with
        | None => ([], TErr)
        | Some (v, r) => let (ss, t) := raw_parse fuel' (lit - 1) r in (RLit v :: ss, t)
        end
      else
        match b with
        | [] => ([], TEnd)
        | _ =>
          match hleb_s b with
          | None => ([], TErr)
          | Some (n, r) =>
            if (0 <? n)%Z then
              match dec r with
              | None => ([], TErr)
              | Some (v, r') => let (ss, t) := raw_parse fuel' 0 r' in (RRun (Z.to_N n) v :: ss, t)
              end
            else if (n <? 0)%Z then
              if (n =? i64_min)%Z then ([], TErr)          (* checked_neg *)
              else let (ss, t) := raw_parse fuel' (Z.to_N (- n)) r in (RHead (Z.to_N (- n)) :: ss, t)
            else
              match hleb_u r with
              | None => ([], TErr)
              | Some (c, r') => let (ss, t) := raw_parse fuel' 0 r' in (RNull c :: ss, t)
              end
          end
        end
    end.

  (* `prev`: the last value-bearing segment *)
  Inductive pseg := PNone | PRun (v : V) | PLit (v : V) | PNull.

  Record cst := mk_cst {
    c_prev : pseg;
    c_plit : option V;                 (* prev_lit *)
    c_len : N;                         (* cut.slab.len *)
    c_segs : N;                        (* cut.slab.segments *)
    c_done : list N;                   (* lens of the slabs already cut, newest first *)
    c_out : list (N * option V)        (* runs seen, newest first *)
  }.

  Definition cst_init : cst := mk_cst PNone None 0 0 [] [].

  Definition differs (p : pseg) (v : V) : bool :=
    match p with
    | PRun x | PLit x => negb (veqb x v)
    | _ => true
    end.

  (* RleSegment::validate_after *)
  Definition validate (st : cst) (s : rseg) : bool :=
    match s with
    | RHead n =>
        negb (n =? 0) && match c_prev st with PLit _ => false | _ => true end
    | RLit v =>
        match c_plit st with
        | Some p => negb (veqb p v)
        | None => differs (c_prev st) v
        end
    | RRun n v => (2 <=? n) && differs (c_prev st) v
    | RNull n =>
        negb (n =? 0) && match c_prev st with PNull => false | _ => true end && nullable
    end.

  (* CutState::track for a value-bearing segment, then the cut test *)
  Definition count_seg (st : cst) (prev : pseg) (plit : option V) (n : N) (x : option V) : res cst :=
    let len := N.min (c_len st + n) u64_max in          (* saturating_add *)
    let segs := c_segs st + 1 in
    if segs =? rle_target
    then Ok (mk_cst prev plit 0 0 (len :: c_done st) ((n, x) :: c_out st))
    else Ok (mk_cst prev plit len segs (c_done st) ((n, x) :: c_out st)).

  (* one iteration of the `while let Some(segment)` loop of RleLoadIter::finalize.
     (After a LitHead the cut test `segments == target` cannot fire: segments < target
     holds after every iteration.) *)
  Definition step (st : cst) (s : rseg) : res cst :=
    if negb (validate st s) then Err
    else match s with
         | RHead _ => Ok (mk_cst (c_prev st) None (c_len st) (c_segs st) (c_done st) (c_out st))
         | RLit v => count_seg st (PLit v) (Some v) 1 (Some v)
         | RRun n v => count_seg st (PRun v) (c_plit st) n (Some v)
         | RNull n => count_seg st PNull (c_plit st) n None
         end.

  Fixpoint check (st : cst) (ss : list rseg) : res cst :=
    match ss with
    | [] => Ok st
    | s :: t => let* st' := step st s in check st' t
    end.

  Definition sumN (l : list N) : N := fold_right N.add 0 l.

  (* flush the last slab; the checked fold over the slab lens fails when a partial total
     overflows or equals usize::MAX: the partial totals grow, so that is  total >= 2^64 - 1 *)
  Definition finish (st : cst) : res (list (N * option V)) :=
    let lens := if 0 <? c_segs st then c_len st :: c_done st else c_done st in
    if u64_max <=? sumN lens then Err else Ok (rev (c_out st)).

  Definition rle_load_segs (p : list rseg * term) : res (list (N * option V)) :=
    let (ss, t) := p in
    let* st := check cst_init ss in
    match t with
    | TEnd => finish st
    | TErr => Err
    end.

  (* Column::<T>::load, as the run list of the loaded column *)
  Definition rle_load (b : bytes) : res (list (N * option V)) :=
    rle_load_segs (raw_parse (S (length b)) 0 b).

  (* ---- values <-> runs ---- *)
  Definition oeqb : option V -> option V -> bool := option_eqb veqb.

  Fixpoint expand (rs : list (N * option V)) : list (option V) :=
    match rs with
    | [] => []
    | (n, x) :: t => repeat x (N.to_nat n) ++ expand t
    end.

  (* maximal runs of equal values *)
  Fixpoint group (l : list (option V)) : list (N * option V) :=
    match l with
    | [] => []
    | x :: t =>
      match group t with
      | (n, y) :: r => if oeqb x y then (n + 1, y) :: r else (1, x) :: (n, y) :: r
      | [] => [(1, x)]
      end
    end.

  Definition rle_load_vals (b : bytes) : res (list (option V)) :=
    let* rs := rle_load b in Ok (expand rs).

  (* ---- writer ---- *)
  (* number of leading single-value runs: the length of the literal run starting here *)
  Fixpoint lit_len (rs : list (N * option V)) : N :=
    match rs with
    | (n, Some _) :: t => if n =? 1 then 1 + lit_len t else 0
    | _ => 0
    end.

  (* the segments of a run list; [inlit]: the previous run was a single value (its
     literal run is still open) *)
  Fixpoint segs_aux (inlit : bool) (rs : list (N * option V)) : list rseg :=
    match rs with
    | [] => []
    | (n, None) :: t => RNull n :: segs_aux false t
    | (n, Some v) :: t =>
      if n =? 1 then
        (if inlit then [] else [RHead (lit_len rs)]) ++ RLit v :: segs_aux true t
      else RRun n v :: segs_aux false t
    end.

  Definition seg_bytes (s : rseg) : bytes :=
    match s with
    | RHead n => hleb_senc (- Z.of_N n)
    | RLit v => enc v
    | RRun n v => hleb_senc (Z.of_N n) ++ enc v
    | RNull n => 0 :: hleb_uenc n
    end.

  Definition write_segs (ss : list rseg) : bytes := flat_map seg_bytes ss.

  Definition rle_save_runs (rs : list (N * option V)) : bytes := write_segs (segs_aux false rs).

  (* Column::<T>::save of a column holding the values [l] *)
  Definition rle_save (l : list (option V)) : bytes := rle_save_runs (group l).

  Definition seg_items (s : rseg) : N :=
    match s with RHead _ => 0 | RLit _ => 1 | RRun n _ => n | RNull n => n end.
End Rle.

Arguments RHead {V}. Arguments RLit {V}. Arguments RRun {V}. Arguments RNull {V}.

(* ---- value codecs (lib.rs) ---- *)

(* u64: Leb128::try_read_unsigned / encode_unsigned *)
Definition u64_enc (n : N) : bytes := hleb_uenc n.
Definition u64_dec (l : bytes) : option (N * bytes) := hleb_u l.

(* i64 *)
Definition i64_enc (z : Z) : bytes := hleb_senc z.
Definition i64_dec (l : bytes) : option (Z * bytes) := hleb_s l.

(* Vec<u8>: length prefix + bytes; `rest.len() < len` is BadFormat *)
Definition blob_enc (s : bytes) : bytes := hleb_uenc (N.of_nat (length s)) ++ s.
Definition blob_dec (l : bytes) : option (bytes * bytes) :=
  match hleb_u l with
  | None => None
  | Some (n, r) =>
    if N.of_nat (length r) <? n then None
    else take_n (N.to_nat n) r
  end.

(* std::str::from_utf8: well-formed UTF-8 (Unicode table 3-7) *)
Definition cont (b : N) : bool := (128 <=? b) && (b <=? 191).
Fixpoint utf8_valid (l : bytes) : bool :=
  match l with
  | [] => true
  | b0 :: t =>
    if b0 <? 128 then utf8_valid t
    else if (194 <=? b0) && (b0 <=? 223) then
      match t with b1 :: t1 => cont b1 && utf8_valid t1 | _ => false end
    else if b0 =? 224 then
      match t with b1 :: b2 :: t2 => (160 <=? b1) && (b1 <=? 191) && cont b2 && utf8_valid t2 | _ => false end
    else if ((225 <=? b0) && (b0 <=? 236)) || (b0 =? 238) || (b0 =? 239) then
      match t with b1 :: b2 :: t2 => cont b1 && cont b2 && utf8_valid t2 | _ => false end
    else if b0 =? 237 then
      match t with b1 :: b2 :: t2 => (128 <=? b1) && (b1 <=? 159) && cont b2 && utf8_valid t2 | _ => false end
    else if b0 =? 240 then
      match t with b1 :: b2 :: b3 :: t3 => (144 <=? b1) && (b1 <=? 191) && cont b2 && cont b3 && utf8_valid t3 | _ => false end
    else if (241 <=? b0) && (b0 <=? 243) then
      match t with b1 :: b2 :: b3 :: t3 => cont b1 && cont b2 && cont b3 && utf8_valid t3 | _ => false end
    else if b0 =? 244 then
      match t with b1 :: b2 :: b3 :: t3 => (128 <=? b1) && (b1 <=? 143) && cont b2 && cont b3 && utf8_valid t3 | _ => false end
    else false
  end.

(* String: as Vec<u8>, then from_utf8 (InvalidUtf8) *)
Definition str_enc (s : bytes) : bytes := blob_enc s.
Definition str_dec (l : bytes) : option (bytes * bytes) :=
  match blob_dec l with
  | Some (s, r) => if utf8_valid s then Some (s, r) else None
  | None => None
  end.

(* the column types of the property *)
Definition u64_load (nullable : bool) := rle_load N N.eqb u64_dec nullable.
Definition u64_save := rle_save N N.eqb u64_enc.
Definition i64_load (nullable : bool) := rle_load Z Z.eqb i64_dec nullable.
Definition i64_save := rle_save Z Z.eqb i64_enc.
Definition str_load (nullable : bool) := rle_load bytes bytes_eqb str_dec nullable.
Definition str_save := rle_save bytes bytes_eqb str_enc.
Definition blob_load (nullable : bool) := rle_load bytes bytes_eqb blob_dec nullable.
Definition blob_save := rle_save bytes bytes_eqb blob_enc.
