(* Hexane/RleProofs.v — proofs about the RLE column model (Hexane/Rle.v), over an abstract
   value codec; the instantiation lemmas for u64 / i64 / String / Vec<u8> are at the end. *)
From AM Require Import Base.Prelude Base.Leb128 Hexane.Hleb Hexane.HlebProofs Hexane.Rle.
Local Open Scope N_scope.
Local Arguments Z.mul : simpl never.
Local Arguments Z.add : simpl never.
Local Arguments Z.sub : simpl never.
Local Arguments Z.opp : simpl never.
Local Arguments Z.ltb : simpl never.
Local Arguments Z.eqb : simpl never.
Local Arguments Z.to_N : simpl never.
Local Arguments Z.of_N : simpl never.

Lemma pow63_val : pow63 = 9223372036854775808. Proof. reflexivity. Qed.
Lemma pow64_val : pow64 = 18446744073709551616. Proof. reflexivity. Qed.
Lemma i64_min_val : i64_min = (-9223372036854775808)%Z. Proof. reflexivity. Qed.
Lemma i64_max_val : i64_max = 9223372036854775807%Z. Proof. reflexivity. Qed.
Lemma rle_target_val : rle_target = 32. Proof. reflexivity. Qed.
Lemma u64_max_val : u64_max = 18446744073709551615. Proof. reflexivity. Qed.
Global Opaque pow63 pow64 i64_min i64_max rle_target u64_max.

Lemma hleb_s_zero r : hleb_s (0 :: r) = Some (0%Z, r).
Proof. reflexivity. Qed.

Local Arguments PNone {V}.
Local Arguments PRun {V}.
Local Arguments PLit {V}.
Local Arguments PNull {V}.

Section RleP.
  Variable V : Type.
  Variable veqb : V -> V -> bool.
  Variable enc : V -> bytes.
  Variable dec : bytes -> option (V * bytes).
  Variable nullable : bool.

  Notation rseg := (rseg V).
  Notation raw_parse := (raw_parse V dec).
  Notation check := (check V veqb nullable).
  Notation step := (step V veqb nullable).
  Notation validate := (validate V veqb nullable).
  Notation count_seg := (count_seg V).
  Notation finish := (finish V).
  Notation cst := (cst V).
  Notation segs_aux := (segs_aux V).
  Notation lit_len := (lit_len V).
  Notation write_segs := (write_segs V enc).
  Notation seg_bytes := (seg_bytes V enc).
  Notation group := (group V veqb).
  Notation expand := (expand V).
  Notation oeqb := (oeqb V veqb).
  Notation rle_load := (rle_load V veqb dec nullable).
  Notation rle_load_segs := (rle_load_segs V veqb nullable).
  Notation rle_save := (rle_save V veqb enc).
  Notation rle_save_runs := (rle_save_runs V enc).
  Notation sumN := Rle.sumN.

  (* ---- lemmas that need no codec law ---- *)
  Lemma count_seg_inv st prev plit n x st' :
    count_seg st prev plit n x = Ok st' ->
    c_prev V st' = prev /\ c_plit V st' = plit /\ c_out V st' = (n, x) :: c_out V st /\
    (c_segs V st' = 0 -> c_len V st' = 0).
  Proof.
    unfold Rle.count_seg.
    destruct (c_segs V st + 1 =? rle_target) eqn:E2; intros H; inversion H; subst; cbn;
      repeat split; lia.
  Qed.

  Lemma count_seg_full st prev plit n x st' :
    c_len V st + n < u64_max ->
    count_seg st prev plit n x = Ok st' ->
    c_prev V st' = prev /\ c_plit V st' = plit /\ c_out V st' = (n, x) :: c_out V st /\
    c_len V st' + sumN (c_done V st') = c_len V st + sumN (c_done V st) + n /\
    c_len V st' <= c_len V st + n /\ (c_segs V st' = 0 -> c_len V st' = 0) /\
    c_len V st + n < u64_max.
  Proof.
    intros Hb. unfold Rle.count_seg.
    replace (N.min (c_len V st + n) u64_max) with (c_len V st + n) by lia.
    destruct (c_segs V st + 1 =? rle_target) eqn:E2; intros H; inversion H; subst; cbn;
      unfold Rle.sumN; cbn [fold_right]; repeat split; try lia.
  Qed.

  Lemma count_seg_ok st prev plit n x : exists st', count_seg st prev plit n x = Ok st'.
  Proof.
    unfold Rle.count_seg. destruct (c_segs V st + 1 =? rle_target); eexists; reflexivity.
  Qed.

  Lemma finish_ok st :
    (c_segs V st = 0 -> c_len V st = 0) -> c_len V st + sumN (c_done V st) < u64_max ->
    finish st = Ok (rev (c_out V st)).
  Proof.
    intros Hz Hs. unfold Rle.finish.
    destruct (0 <? c_segs V st) eqn:E.
    - cbn [Rle.sumN fold_right]. fold (sumN (c_done V st)).
      assert ((u64_max <=? c_len V st + sumN (c_done V st)) = false) as -> by lia. reflexivity.
    - assert (c_len V st = 0) by (apply Hz; lia).
      assert ((u64_max <=? sumN (c_done V st)) = false) as -> by lia. reflexivity.
  Qed.






  Fixpoint total (rs : list (N * option V)) : N :=
    match rs with [] => 0 | (n, _) :: t => n + total t end.

  Fixpoint runs_of (ss : list rseg) : list (N * option V) :=
    match ss with
    | [] => []
    | RHead _ :: t => runs_of t
    | RLit v :: t => (1, Some v) :: runs_of t
    | RRun n v :: t => (n, Some v) :: runs_of t
    | RNull n :: t => (n, None) :: runs_of t
    end.

  Lemma step_inv st s st' : step st s = Ok st' ->
    validate st s = true /\
    match s with
    | RHead _ => st' = mk_cst V (c_prev V st) None (c_len V st) (c_segs V st) (c_done V st) (c_out V st)
    | RLit v => count_seg st (PLit v) (Some v) 1 (Some v) = Ok st'
    | RRun n v => count_seg st (PRun v) (c_plit V st) n (Some v) = Ok st'
    | RNull n => count_seg st PNull (c_plit V st) n None = Ok st'
    end.
  Proof.
    unfold Rle.step. destruct (validate st s); cbn [negb]; [|discriminate].
    destruct s; intros H; split; auto. inversion H; reflexivity.
  Qed.

  Lemma check_cons st s t st' : check st (s :: t) = Ok st' ->
    exists st1, step st s = Ok st1 /\ check st1 t = Ok st'.
  Proof.
    cbn [Rle.check]. destruct (step st s) as [st1| |]; cbn [bind]; try discriminate.
    intros H. exists st1. auto.
  Qed.

  Lemma check_out : forall ss st st', check st ss = Ok st' ->
    c_out V st' = rev (runs_of ss) ++ c_out V st /\
    ((c_segs V st = 0 -> c_len V st = 0) -> (c_segs V st' = 0 -> c_len V st' = 0)).
  Proof.
    induction ss as [|s t IH]; intros st st' H.
    - cbn in H. inversion H; subst. cbn. split; auto.
    - apply check_cons in H. destruct H as (st1 & Hs & Hc).
      apply step_inv in Hs. destruct Hs as [_ Hs].
      apply IH in Hc. destruct Hc as (Q1 & Q3).
      destruct s as [n|v|n v|n]; cbn [runs_of].
      + subst st1. cbn in Q1, Q3 |- *. auto.
      + apply count_seg_inv in Hs. destruct Hs as (P1 & P2 & P3 & P6).
        rewrite Q1, P3. cbn [rev]. rewrite <- app_assoc. split; auto.
      + apply count_seg_inv in Hs. destruct Hs as (P1 & P2 & P3 & P6).
        rewrite Q1, P3. cbn [rev]. rewrite <- app_assoc. split; auto.
      + apply count_seg_inv in Hs. destruct Hs as (P1 & P2 & P3 & P6).
        rewrite Q1, P3. cbn [rev]. rewrite <- app_assoc. split; auto.
  Qed.


  Lemma finish_inv st rs : finish st = Ok rs -> rs = rev (c_out V st).
  Proof.
    unfold Rle.finish. destruct (u64_max <=? _); [discriminate|]. intros H; inversion H; reflexivity.
  Qed.





  Lemma step_cases st s : step st s = Err \/ exists st1, step st s = Ok st1.
  Proof.
    unfold Rle.step. destruct (negb (validate st s)); [auto|]. right.
    destruct s; [eexists; reflexivity|apply count_seg_ok..].
  Qed.

  Lemma check_no_panic : forall ss st, check st ss <> Panic.
  Proof.
    induction ss as [|s t IH]; intros st; [discriminate|]. cbn [Rle.check].
    destruct (step_cases st s) as [-> | [st1 ->]]; cbn [bind]; [discriminate|apply IH].
  Qed.

  Theorem rle_load_no_panic b : rle_load b <> Panic.
  Proof.
    unfold Rle.rle_load, Rle.rle_load_segs.
    destruct (Rle.raw_parse V dec (S (length b)) 0 b) as [ss t].
    pose proof (check_no_panic ss (cst_init V)) as H.
    destruct (check (cst_init V) ss) as [st| |]; cbn [bind]; [|discriminate|congruence].
    destruct t; [|discriminate]. unfold Rle.finish. destruct (u64_max <=? _); discriminate.
  Qed.

  (* ---- the codec laws ---- *)
  Variable wfv : V -> Prop.
  Hypothesis veqb_spec : forall a b, veqb a b = true <-> a = b.
  Hypothesis dec_enc : forall v r, wfv v -> dec (enc v ++ r) = Some (v, r).
  Hypothesis enc_nonempty : forall v, enc v <> [].
  Hypothesis dec_wf : forall b v r, wf_bytes b -> dec b = Some (v, r) -> wfv v /\ wf_bytes r.

  Lemma veqb_refl v : veqb v v = true.
  Proof. apply veqb_spec. reflexivity. Qed.
  Lemma veqb_neq a b : veqb a b = false <-> a <> b.
  Proof.
    split.
    - intros H E. apply veqb_spec in E. congruence.
    - intros H. destruct (veqb a b) eqn:E; [apply veqb_spec in E; contradiction|reflexivity].
  Qed.
  Lemma oeqb_spec a b : oeqb a b = true <-> a = b.
  Proof.
    destruct a, b; cbn; try (split; [discriminate|discriminate]).
    - rewrite veqb_spec. split; [intros ->; reflexivity|intros H; inversion H; reflexivity].
    - tauto.
  Qed.

  (* ---- framing: what a complete parse looks like ---- *)
  Fixpoint framed (lit : N) (ss : list rseg) : Prop :=
    match ss with
    | [] => lit = 0
    | RLit v :: t => 0 < lit /\ wfv v /\ framed (lit - 1) t
    | RHead n :: t => lit = 0 /\ 0 < n < pow63 /\ framed n t
    | RRun n v :: t => lit = 0 /\ 0 < n < pow63 /\ wfv v /\ framed 0 t
    | RNull n :: t => lit = 0 /\ n < pow64 /\ framed 0 t
    end.

  Lemma seg_bytes_nonempty s : seg_bytes s <> [].
  Proof.
    destruct s; cbn [Rle.seg_bytes].
    - apply hleb_senc_nonempty.
    - apply enc_nonempty.
    - intros H. apply app_eq_nil in H. destruct H as [H _]. revert H. apply hleb_senc_nonempty.
    - discriminate.
  Qed.

  Lemma write_segs_length ss : (length ss <= length (write_segs ss))%nat.
  Proof.
    induction ss as [|s t IH]; cbn [Rle.write_segs flat_map length]; [lia|].
    fold (write_segs t). rewrite app_length.
    pose proof (seg_bytes_nonempty s). destruct (seg_bytes s); [congruence|cbn [length]; lia].
  Qed.

  Lemma raw_parse_header fuel b :
    b <> [] ->
    Rle.raw_parse V dec (S fuel) 0 b =
      match hleb_s b with
      | None => ([], TErr)
      | Some (n, r) =>
        if (0 <? n)%Z then
          match dec r with
          | None => ([], TErr)
          | Some (v, r') => let (ss, t) := raw_parse fuel 0 r' in (RRun (Z.to_N n) v :: ss, t)
          end
        else if (n <? 0)%Z then
          if (n =? i64_min)%Z then ([], TErr)
          else let (ss, t) := raw_parse fuel (Z.to_N (- n)) r in (RHead (Z.to_N (- n)) :: ss, t)
        else
          match hleb_u r with
          | None => ([], TErr)
          | Some (c, r') => let (ss, t) := raw_parse fuel 0 r' in (RNull c :: ss, t)
          end
      end.
  Proof. intros H. destruct b; [congruence|]. reflexivity. Qed.

  (* A: parsing what the writer wrote *)
  Lemma parse_write : forall ss fuel lit,
    framed lit ss -> (length ss < fuel)%nat -> raw_parse fuel lit (write_segs ss) = (ss, TEnd).
  Proof.
    induction ss as [|s t IH]; intros fuel lit Hf Hfuel.
    - cbn in Hf. subst lit. destruct fuel; [cbn in Hfuel; lia|]. reflexivity.
    - destruct fuel as [|fuel]; [cbn in Hfuel; lia|]. cbn [length] in Hfuel.
      cbn [Rle.write_segs flat_map]. fold (write_segs t).
      destruct s as [n|v|n v|n]; cbn [framed] in Hf.
      + destruct Hf as (-> & Hn & Hf).
        rewrite raw_parse_header.
        2:{ cbn [Rle.seg_bytes]. intros H. apply app_eq_nil in H. destruct H as [H _]. revert H. apply hleb_senc_nonempty. }
        cbn [Rle.seg_bytes]. rewrite hleb_s_roundtrip.
        2:{ unfold in_i64. rewrite i64_min_val, i64_max_val. rewrite pow63_val in Hn. lia. }
        rewrite pow63_val in Hn.
        assert ((0 <? - Z.of_N n)%Z = false) as -> by lia.
        assert ((- Z.of_N n <? 0)%Z = true) as -> by lia.
        assert ((- Z.of_N n =? i64_min)%Z = false) as -> by (rewrite i64_min_val; lia).
        assert (Z.to_N (- - Z.of_N n) = n) as -> by lia.
        rewrite IH by (auto; lia). reflexivity.
      + destruct Hf as (Hl & Hv & Hf). cbn [Rle.raw_parse].
        assert ((0 <? lit) = true) as -> by lia.
        cbn [Rle.seg_bytes]. rewrite dec_enc by exact Hv.
        rewrite IH by (auto; lia). reflexivity.
      + destruct Hf as (-> & Hn & Hv & Hf).
        rewrite raw_parse_header.
        2:{ cbn [Rle.seg_bytes]. intros H. apply app_eq_nil in H. destruct H as [H _].
            apply app_eq_nil in H. destruct H as [H _]. revert H. apply hleb_senc_nonempty. }
        cbn [Rle.seg_bytes]. rewrite <- app_assoc. rewrite hleb_s_roundtrip.
        2:{ unfold in_i64. rewrite i64_min_val, i64_max_val. rewrite pow63_val in Hn. lia. }
        assert ((0 <? Z.of_N n)%Z = true) as -> by lia.
        rewrite dec_enc by exact Hv.
        assert (Z.to_N (Z.of_N n) = n) as -> by lia.
        rewrite IH by (auto; lia). reflexivity.
      + destruct Hf as (-> & Hn & Hf).
        rewrite raw_parse_header by (cbn [Rle.seg_bytes]; discriminate).
        cbn [Rle.seg_bytes app]. rewrite hleb_s_zero.
        assert ((0 <? 0)%Z = false) as -> by reflexivity.
        assert ((0 <? 0)%Z = false) as E0 by reflexivity.
        change ((0 <? 0)%Z) with false. cbn iota.
        rewrite hleb_u_roundtrip by exact Hn.
        rewrite IH by (auto; lia). reflexivity.
  Qed.

  (* A': a complete parse of well-formed bytes is framed *)
  Lemma parse_framed : forall fuel lit b ss,
    wf_bytes b -> raw_parse fuel lit b = (ss, TEnd) -> framed lit ss.
  Proof.
    induction fuel as [|fuel IH]; intros lit b ss Hwf H; [cbn in H; inversion H|].
    cbn [Rle.raw_parse] in H.
    destruct (0 <? lit) eqn:El.
    - destruct (dec b) as [[v r]|] eqn:Ed; [|inversion H].
      destruct (raw_parse fuel (lit - 1) r) as [ss' t] eqn:Ep. inversion H; subst.
      destruct (dec_wf _ _ _ Hwf Ed) as [Hv Hr].
      cbn [framed]. split; [lia|]. split; [exact Hv|]. eapply IH; eauto.
    - assert (lit = 0) by lia. subst lit.
      destruct b as [|b0 bt]; [inversion H; subst; reflexivity|].
      remember (b0 :: bt) as b.
      destruct (hleb_s b) as [[n r]|] eqn:Es; [|inversion H].
      pose proof (hleb_s_range _ _ _ Hwf Es) as Hrange.
      pose proof (hleb_s_wf_rest _ _ _ Hwf Es) as Hr.
      unfold in_i64 in Hrange. rewrite i64_min_val, i64_max_val in Hrange.
      destruct (0 <? n)%Z eqn:E1.
      + destruct (dec r) as [[v r']|] eqn:Ed; [|inversion H].
        destruct (raw_parse fuel 0 r') as [ss' t] eqn:Ep. inversion H; subst ss t.
        destruct (dec_wf _ _ _ Hr Ed) as [Hv Hr'].
        cbn [framed]. rewrite pow63_val. repeat split; try lia; auto. eapply IH; eauto.
      + destruct (n <? 0)%Z eqn:E2.
        * destruct (n =? i64_min)%Z eqn:E3; [inversion H|]. rewrite i64_min_val in E3.
          destruct (raw_parse fuel (Z.to_N (- n)) r) as [ss' t] eqn:Ep. inversion H; subst ss t.
          cbn [framed]. rewrite pow63_val. repeat split; try lia. eapply IH; eauto.
        * destruct (hleb_u r) as [[c r']|] eqn:Eu; [|inversion H].
          destruct (raw_parse fuel 0 r') as [ss' t] eqn:Ep. inversion H; subst ss t.
          cbn [framed]. split; [reflexivity|]. split; [eapply hleb_u_range; eauto|].
          eapply IH; [|eauto]. eapply hleb_u_wf_rest; eauto.
  Qed.

  (* ---- counting ---- *)





  (* ---- canonical run lists ---- *)
  Definition lastv (p : pseg V) : option (option V) :=
    match p with
    | PNone => None
    | PRun v | PLit v => Some (Some v)
    | PNull => Some None
    end.

  Fixpoint canon (pv : option (option V)) (rs : list (N * option V)) : Prop :=
    match rs with
    | [] => True
    | (n, x) :: t => 1 <= n /\ pv <> Some x /\ (x = None -> nullable = true) /\ canon (Some x) t
    end.


  Definition st_ok (st : cst) (pv : option (option V)) (inlit : bool) : Prop :=
    lastv (c_prev V st) = pv /\
    (if inlit then exists v, c_prev V st = PLit v /\ c_plit V st = Some v
     else forall v, c_prev V st <> PLit v).

  Lemma differs_of st v : lastv (c_prev V st) <> Some (Some v) -> differs V veqb (c_prev V st) v = true.
  Proof.
    unfold Rle.differs. destruct (c_prev V st) as [|x|x|]; cbn [lastv]; intros H; try reflexivity;
      (destruct (veqb x v) eqn:E; [apply veqb_spec in E; subst; congruence|reflexivity]).
  Qed.

  Lemma differs_inv p v : differs V veqb p v = true -> lastv p <> Some (Some v).
  Proof.
    unfold Rle.differs. destruct p as [|x|x|]; cbn [lastv]; intros H; try discriminate;
      (intros E; inversion E; subst; rewrite veqb_refl in H; discriminate).
  Qed.

  (* C: the canonical segments of a canonical run list pass the loader's checks *)
  Lemma check_canon : forall rs st pv inlit,
    canon pv rs -> st_ok st pv inlit -> c_len V st + total rs < u64_max ->
    (c_segs V st = 0 -> c_len V st = 0) ->
    exists st', check st (segs_aux inlit rs) = Ok st' /\
      c_out V st' = rev rs ++ c_out V st /\
      c_len V st' + sumN (c_done V st') = c_len V st + sumN (c_done V st) + total rs /\
      (c_segs V st' = 0 -> c_len V st' = 0).
  Proof.
    induction rs as [|[n x] t IH]; intros st pv inlit Hc Hok Hlen Hz.
    - exists st. cbn. repeat split; auto; lia.
    - cbn [canon] in Hc. destruct Hc as (Hn & Hpv & Hnull & Hc). cbn [total] in Hlen.
      destruct Hok as [Hlast Hin].
      destruct x as [v|].
      + cbn [Rle.segs_aux]. destruct (n =? 1) eqn:En.
        * apply N.eqb_eq in En. subst n.
          (* the literal value itself, from a state with plit as after head / previous lit *)
          assert (Hlit : forall st0, lastv (c_prev V st0) = pv ->
                    (match c_plit V st0 with Some p => c_prev V st0 = PLit p | None => True end) ->
                    c_len V st0 = c_len V st -> c_done V st0 = c_done V st -> c_out V st0 = c_out V st ->
                    c_segs V st0 = c_segs V st ->
                    exists st', check st0 (RLit v :: segs_aux true t) = Ok st' /\
                      c_out V st' = rev ((1, Some v) :: t) ++ c_out V st /\
                      c_len V st' + sumN (c_done V st') = c_len V st + sumN (c_done V st) + (1 + total t) /\
                      (c_segs V st' = 0 -> c_len V st' = 0)).
          { intros st0 Hl0 Hp0 E1 E2 E3 E4. cbn [Rle.check]. unfold Rle.step at 1. unfold Rle.validate.
            assert (Hval : (match c_plit V st0 with Some p => negb (veqb p v) | None => differs V veqb (c_prev V st0) v end) = true).
            { destruct (c_plit V st0) as [p|] eqn:Ep.
              - rewrite Hp0 in Hl0. cbn [lastv] in Hl0.
                destruct (veqb p v) eqn:E; [apply veqb_spec in E; subst; congruence|reflexivity].
              - apply differs_of. congruence. }
            rewrite Hval. cbn [negb].
            destruct (count_seg_ok st0 (PLit v) (Some v) 1 (Some v)) as [st1 Hs1].
            rewrite Hs1. cbn [bind].
            pose proof Hs1 as Hs1'. apply count_seg_full in Hs1'; [|lia]. destruct Hs1' as (P1 & P2 & P3 & P4 & P5 & P6 & P7).
            destruct (IH st1 (Some (Some v)) true Hc) as (st' & Q1 & Q2 & Q3 & Q4).
            { split; [rewrite P1; reflexivity|]. exists v. auto. }
            { lia. }
            { exact P6. }
            exists st'. split; [exact Q1|]. split.
            - rewrite Q2, P3, E3. cbn [rev]. rewrite <- app_assoc. reflexivity.
            - split; [rewrite Q3, P4, E1, E2; lia|exact Q4]. }
          destruct inlit.
          -- destruct Hin as (p & Hp1 & Hp2). cbn [app].
             apply (Hlit st); auto. rewrite Hp2. exact Hp1.
          -- cbn [app Rle.check]. unfold Rle.step at 1. unfold Rle.validate.
             assert ((1 + lit_len t =? 0) = false) as E0 by lia.
             cbn [Rle.lit_len]. assert ((1 =? 1) = true) as -> by reflexivity. rewrite E0. cbn [negb andb].
             assert ((match c_prev V st with PLit _ => false | _ => true end) = true) as ->.
             { destruct (c_prev V st) as [|?|p|]; auto. exfalso. eapply Hin; eauto. }
             cbn [negb bind].
             apply Hlit; cbn; auto.
        * apply N.eqb_neq in En. cbn [Rle.check]. unfold Rle.step at 1. unfold Rle.validate.
          assert ((2 <=? n) = true) as -> by lia.
          rewrite differs_of by (rewrite Hlast; exact Hpv). cbn [andb negb].
          destruct (count_seg_ok st (PRun v) (c_plit V st) n (Some v)) as [st1 Hs1].
          rewrite Hs1. cbn [bind].
          pose proof Hs1 as Hs1'. apply count_seg_full in Hs1'; [|lia]. destruct Hs1' as (P1 & P2 & P3 & P4 & P5 & P6 & P7).
          destruct (IH st1 (Some (Some v)) false Hc) as (st' & Q1 & Q2 & Q3 & Q4).
          { split; [rewrite P1; reflexivity|]. intros w. rewrite P1. discriminate. }
          { lia. }
          { exact P6. }
          exists st'. split; [exact Q1|]. split.
          -- rewrite Q2, P3. cbn [rev]. rewrite <- app_assoc. reflexivity.
          -- split; [rewrite Q3, P4; cbn [total]; lia|exact Q4].
      + cbn [Rle.segs_aux Rle.check]. unfold Rle.step at 1. unfold Rle.validate.
        assert ((n =? 0) = false) as -> by lia.
        assert ((match c_prev V st with PNull => false | _ => true end) = true) as ->.
        { destruct (c_prev V st); auto; cbn in Hlast; congruence. }
        replace (negb (negb false && true && nullable)) with false by (rewrite (Hnull eq_refl); reflexivity).
        destruct (count_seg_ok st PNull (c_plit V st) n None) as [st1 Hs1].
        rewrite Hs1. cbn [bind].
        pose proof Hs1 as Hs1'. apply count_seg_full in Hs1'; [|lia]. destruct Hs1' as (P1 & P2 & P3 & P4 & P5 & P6 & P7).
        destruct (IH st1 (Some None) false Hc) as (st' & Q1 & Q2 & Q3 & Q4).
        { split; [rewrite P1; reflexivity|]. intros w. rewrite P1. discriminate. }
        { lia. }
        { exact P6. }
        exists st'. split; [exact Q1|]. split.
        * rewrite Q2, P3. cbn [rev]. rewrite <- app_assoc. reflexivity.
        * split; [rewrite Q3, P4; cbn [total]; lia|exact Q4].
  Qed.

  (* ---- D: whatever passes the loader's checks is canonical ---- *)




  Definition st_inv (st : cst) (lit : N) (pv : option (option V)) : Prop :=
    lastv (c_prev V st) = pv /\
    (0 < lit -> match c_plit V st with
                | Some v => c_prev V st = PLit v
                | None => forall v, c_prev V st <> PLit v
                end).

  Lemma after_lit : forall t st st' v,
    framed 0 t -> check st t = Ok st' -> c_prev V st = PLit v ->
    lit_len (runs_of t) = 0 /\ segs_aux true (runs_of t) = segs_aux false (runs_of t).
  Proof.
    intros t st st' v Hf Hc Hp. destruct t as [|s t']; [cbn; auto|].
    apply check_cons in Hc. destruct Hc as (st1 & Hs & _). apply step_inv in Hs. destruct Hs as [Hv _].
    destruct s as [n|w|n w|n]; cbn [framed] in Hf.
    - unfold Rle.validate in Hv. rewrite Hp in Hv. rewrite andb_false_r in Hv. discriminate.
    - lia.
    - unfold Rle.validate in Hv. apply andb_true_iff in Hv. destruct Hv as [Hn _].
      cbn [runs_of Rle.lit_len Rle.segs_aux]. assert ((n =? 1) = false) as -> by lia. auto.
    - cbn. auto.
  Qed.

  Lemma check_canonical : forall ss st lit st' pv,
    framed lit ss -> check st ss = Ok st' -> st_inv st lit pv ->
    ss = segs_aux (0 <? lit) (runs_of ss) /\
    (0 < lit -> lit_len (runs_of ss) = lit) /\
    canon pv (runs_of ss).
  Proof.
    induction ss as [|s t IH]; intros st lit st' pv Hf Hc Hinv.
    - cbn in Hf. subst lit. cbn. repeat split; auto; lia.
    - apply check_cons in Hc. destruct Hc as (st1 & Hs & Hc).
      apply step_inv in Hs. destruct Hs as [Hv Hs].
      destruct Hinv as [Hlast Hplit].
      destruct s as [n|v|n v|n]; cbn [framed] in Hf.
      + destruct Hf as (-> & Hn & Hf). unfold Rle.validate in Hv.
        apply andb_true_iff in Hv. destruct Hv as [_ Hv].
        assert (Hinv1 : st_inv st1 n pv).
        { subst st1. split; cbn; [exact Hlast|]. intros _ w E. rewrite E in Hv. discriminate. }
        destruct (IH st1 n st' pv Hf Hc Hinv1) as (E1 & L & C).
        assert ((0 <? n) = true) as E0 by lia. rewrite E0 in E1.
        cbn [runs_of]. split; [|split; [lia|exact C]].
        destruct t as [|s' t']; [cbn in Hf; lia|].
        destruct s' as [k|w|k w|k]; cbn [framed] in Hf; try lia.
        cbn [runs_of] in *. specialize (L ltac:(lia)).
        change (0 <? 0) with false.
        cbn [Rle.segs_aux] in E1 |- *. change (1 =? 1) with true in E1 |- *. cbn iota in E1 |- *.
        cbn [app] in E1 |- *. rewrite L. injection E1 as E1'. f_equal. f_equal. exact E1'.
      + destruct Hf as (Hl & Hw & Hf).
        pose proof (count_seg_inv _ _ _ _ _ _ Hs) as (P1 & P2 & _).
        assert (Hinv1 : st_inv st1 (lit - 1) (Some (Some v))).
        { split; [rewrite P1; reflexivity|]. intros _. rewrite P2. exact P1. }
        destruct (IH st1 (lit - 1) st' _ Hf Hc Hinv1) as (E1 & L & C).
        cbn [runs_of]. assert ((0 <? lit) = true) as -> by lia.
        assert (Hpv : pv <> Some (Some v)).
        { unfold Rle.validate in Hv. specialize (Hplit Hl).
          destruct (c_plit V st) as [p|].
          - rewrite Hplit in Hlast. cbn in Hlast. subst pv. intros E. inversion E; subst.
            rewrite veqb_refl in Hv. discriminate.
          - rewrite <- Hlast. apply differs_inv. exact Hv. }
        destruct (0 <? lit - 1) eqn:El.
        * specialize (L ltac:(lia)). split; [|split].
          -- cbn [Rle.segs_aux]. change (1 =? 1) with true. cbn iota. cbn [app]. rewrite <- E1. reflexivity.
          -- intros _. cbn [Rle.lit_len]. change (1 =? 1) with true. cbn iota. lia.
          -- cbn [canon]. repeat split; auto; [lia|discriminate].
        * assert (lit - 1 = 0) as Hz by lia. rewrite Hz in Hf.
          destruct (after_lit t st1 st' v Hf Hc P1) as [L0 Eseg].
          split; [|split].
          -- cbn [Rle.segs_aux]. change (1 =? 1) with true. cbn iota. cbn [app]. rewrite Eseg, <- E1. reflexivity.
          -- intros _. cbn [Rle.lit_len]. change (1 =? 1) with true. cbn iota. lia.
          -- cbn [canon]. repeat split; auto; [lia|discriminate].
      + destruct Hf as (-> & Hn & Hw & Hf).
        pose proof (count_seg_inv _ _ _ _ _ _ Hs) as (P1 & P2 & _).
        assert (Hinv1 : st_inv st1 0 (Some (Some v))).
        { split; [rewrite P1; reflexivity|]. lia. }
        destruct (IH st1 0 st' _ Hf Hc Hinv1) as (E1 & L & C).
        unfold Rle.validate in Hv. apply andb_true_iff in Hv. destruct Hv as [Hn2 Hd].
        cbn [runs_of]. change (0 <? 0) with false in *. split; [|split; [lia|]].
        * cbn [Rle.segs_aux]. assert ((n =? 1) = false) as -> by lia. rewrite <- E1. reflexivity.
        * cbn [canon]. repeat split; auto; [lia| |discriminate].
          rewrite <- Hlast. apply differs_inv. exact Hd.
      + destruct Hf as (-> & Hn & Hf).
        pose proof (count_seg_inv _ _ _ _ _ _ Hs) as (P1 & P2 & _).
        assert (Hinv1 : st_inv st1 0 (Some None)).
        { split; [rewrite P1; reflexivity|]. lia. }
        destruct (IH st1 0 st' _ Hf Hc Hinv1) as (E1 & L & C).
        unfold Rle.validate in Hv. apply andb_true_iff in Hv. destruct Hv as [Hv Hnl].
        apply andb_true_iff in Hv. destruct Hv as [Hn0 Hp].
        cbn [runs_of]. change (0 <? 0) with false in *. split; [|split; [lia|]].
        * cbn [Rle.segs_aux]. rewrite <- E1. reflexivity.
        * cbn [canon]. repeat split; auto; [lia|].
          rewrite <- Hlast. destruct (c_prev V st); cbn; congruence.
  Qed.

  (* ---- values <-> runs ---- *)
  Lemma expand_group l : expand (group l) = l.
  Proof.
    induction l as [|x t IH]; [reflexivity|]. cbn [Rle.group].
    destruct (group t) as [|[n y] r] eqn:E.
    - cbn in IH. subst t. reflexivity.
    - destruct (oeqb x y) eqn:Eo.
      + apply oeqb_spec in Eo. subst y. cbn [Rle.expand] in *.
        replace (N.to_nat (n + 1)) with (S (N.to_nat n)) by lia. cbn [repeat app]. rewrite IH. reflexivity.
      + cbn [Rle.expand] in *. change (N.to_nat 1) with 1%nat. cbn [repeat app]. rewrite IH. reflexivity.
  Qed.

  Definition nullok (x : option V) : Prop := x = None -> nullable = true.

  Lemma group_head x t : exists n r, group (x :: t) = (n, x) :: r.
  Proof.
    cbn [Rle.group]. destruct (group t) as [|[n y] r]; [eauto|].
    destruct (oeqb x y) eqn:E; [apply oeqb_spec in E; subst; eauto|eauto].
  Qed.

  Lemma canon_group : forall l pv, Forall nullok l ->
    (match l with [] => True | x :: _ => pv <> Some x end) -> canon pv (group l).
  Proof.
    induction l as [|x t IH]; intros pv Hn Hpv; [exact I|].
    inversion Hn as [|? ? Hx Ht]; subst.
    cbn [Rle.group]. destruct (group t) as [|[n y] r] eqn:E.
    - cbn. repeat split; auto. lia.
    - assert (Hc : canon None ((n, y) :: r)).
      { apply IH; [exact Ht|]. destruct t; [exact I|discriminate]. }
      cbn [canon] in Hc. destruct Hc as (H1 & _ & H3 & H4).
      destruct (oeqb x y) eqn:Eo.
      + apply oeqb_spec in Eo. subst y. cbn [canon]. repeat split; auto. lia.
      + cbn [canon]. repeat split; auto; try lia.
        intros Ee. inversion Ee; subst. assert (oeqb y y = true) by (apply oeqb_spec; reflexivity). congruence.
  Qed.

  Lemma group_repeat x : forall k l' g,
    (match g with (_, y) :: _ => x <> y | [] => True end) -> group l' = g ->
    group (repeat x (S k) ++ l') = (N.of_nat (S k), x) :: g.
  Proof.
    induction k as [|k IH]; intros l' g Hg E.
    - cbn [repeat app Rle.group]. rewrite E. destruct g as [|[m y] r]; [reflexivity|].
      destruct (oeqb x y) eqn:Eo; [apply oeqb_spec in Eo; contradiction|reflexivity].
    - change (repeat x (S (S k)) ++ l') with (x :: (repeat x (S k) ++ l')). cbn [Rle.group].
      rewrite (IH l' g Hg E). assert (oeqb x x = true) as -> by (apply oeqb_spec; reflexivity).
      f_equal. f_equal. lia.
  Qed.

  Lemma group_expand : forall rs pv, canon pv rs -> group (expand rs) = rs.
  Proof.
    induction rs as [|[n x] t IH]; intros pv Hc; [reflexivity|].
    cbn [canon] in Hc. destruct Hc as (H1 & _ & _ & H4). cbn [Rle.expand].
    destruct (N.to_nat n) as [|k] eqn:Ek; [lia|].
    rewrite (group_repeat x k (expand t) t).
    - f_equal. f_equal. lia.
    - destruct t as [|[m y] r]; [exact I|]. cbn [canon] in H4. destruct H4 as (_ & H & _). congruence.
    - eapply IH; eauto.
  Qed.

  Lemma total_group l : total (group l) = N.of_nat (length l).
  Proof.
    induction l as [|x t IH]; [reflexivity|]. cbn [Rle.group length].
    destruct (group t) as [|[n y] r]; cbn [total] in *; [lia|].
    destruct (oeqb x y); cbn [total]; lia.
  Qed.

  Lemma lit_len_le rs : lit_len rs <= total rs.
  Proof.
    induction rs as [|[n [v|]] t IH]; cbn [Rle.lit_len total]; try lia.
    destruct (n =? 1) eqn:E; lia.
  Qed.

  (* B: the writer's segments are framed *)
  Definition run_ok (r : N * option V) : Prop :=
    1 <= fst r /\ match snd r with Some v => wfv v | None => True end.

  Lemma segs_framed : forall (rs : list (N * option V)) (inlit : bool), Forall run_ok rs -> total rs < pow63 ->
    framed (if inlit then lit_len rs else 0) (segs_aux inlit rs).
  Proof.
    induction rs as [|[n x] t IH]; intros inlit Hok Ht.
    - destruct inlit; reflexivity.
    - inversion Hok as [|? ? [Hn Hv] Hok']; subst. cbn [fst snd] in *. cbn [total] in Ht.
      pose proof (lit_len_le t) as Hll. rewrite pow63_val in *.
      destruct x as [v|].
      + cbn [Rle.segs_aux Rle.lit_len]. destruct (n =? 1) eqn:En.
        * assert (Hl : framed (1 + lit_len t) (RLit v :: segs_aux true t)).
          { cbn [framed]. split; [lia|]. split; [exact Hv|].
            replace (1 + lit_len t - 1) with (lit_len t) by lia.
            apply (IH true); [exact Hok'|lia]. }
          destruct inlit; cbn [app]; [exact Hl|].
          cbn [framed]. split; [reflexivity|]. rewrite pow63_val. split; [lia|]. exact Hl.
        * cbn [framed]. rewrite pow63_val. split; [destruct inlit; reflexivity|]. split; [lia|]. split; [exact Hv|].
          apply (IH false); [exact Hok'|lia].
      + cbn [Rle.segs_aux Rle.lit_len framed]. rewrite pow64_val.
        split; [destruct inlit; reflexivity|]. split; [lia|].
        apply (IH false); [exact Hok'|lia].
  Qed.

  Lemma run_ok_group l :
    Forall (fun x => match x with Some v => wfv v | None => True end) l -> Forall run_ok (group l).
  Proof.
    induction l as [|x t IH]; intros H; [constructor|]. inversion H as [|? ? Hx Ht]; subst.
    specialize (IH Ht). cbn [Rle.group]. destruct (group t) as [|[n y] r].
    - constructor; [|constructor]. split; cbn; [lia|exact Hx].
    - inversion IH as [|? ? [Hn Hy] Hr]; subst. cbn [fst snd] in *.
      destruct (oeqb x y).
      + constructor; [|exact Hr]. split; cbn; [lia|exact Hy].
      + constructor; [split; cbn; [lia|exact Hx]|]. constructor; [split; cbn; [lia|exact Hy]|exact Hr].
  Qed.




  Definition wf_vals (l : list (option V)) : Prop :=
    Forall (fun x => match x with Some v => wfv v | None => nullable = true end) l /\
    N.of_nat (length l) < pow63.

  Lemma st_ok_init : st_ok (cst_init V) None false.
  Proof. split; [reflexivity|]. intros v. discriminate. Qed.

  (* loading the runs the writer wrote *)
  Lemma load_save_runs rs :
    Forall run_ok rs -> canon None rs -> total rs < pow63 ->
    rle_load (rle_save_runs rs) = Ok rs.
  Proof.
    intros Hok Hc Ht. unfold Rle.rle_load, Rle.rle_save_runs.
    rewrite parse_write.
    - unfold Rle.rle_load_segs.
      destruct (check_canon rs (cst_init V) None false Hc st_ok_init) as (st' & Q1 & Q2 & Q3 & Q4).
      { cbn. rewrite pow63_val in Ht. rewrite u64_max_val. lia. }
      { reflexivity. }
      rewrite Q1. cbn [bind]. rewrite finish_ok.
      + rewrite Q2. cbn [Rle.cst_init Rle.c_out]. rewrite app_nil_r, rev_involutive. reflexivity.
      + exact Q4.
      + rewrite Q3. cbn. rewrite pow63_val in Ht. rewrite u64_max_val. lia.
    - apply (segs_framed rs false Hok Ht).
    - pose proof (write_segs_length (segs_aux false rs)). lia.
  Qed.

  (* T1: save then load gives the column back *)
  Theorem rle_load_save l : wf_vals l -> rle_load (rle_save l) = Ok (group l).
  Proof.
    intros [Hv Hl]. unfold Rle.rle_save. apply load_save_runs.
    - apply run_ok_group. eapply Forall_impl; [|exact Hv]. intros [v|]; auto.
    - apply canon_group; [|destruct l; [exact I|discriminate]].
      eapply Forall_impl; [|exact Hv]. intros [v|] H; unfold nullok; [discriminate|auto].
    - rewrite total_group. exact Hl.
  Qed.

  Theorem rle_load_vals_save l : wf_vals l -> Rle.rle_load_vals V veqb dec nullable (rle_save l) = Ok l.
  Proof.
    intros H. unfold Rle.rle_load_vals. rewrite rle_load_save by exact H. cbn [bind].
    rewrite expand_group. reflexivity.
  Qed.

  (* T2: whatever loads is, at run level, the canonical encoding of its values *)
  Theorem rle_load_canonical b rs :
    wf_bytes b -> rle_load b = Ok rs ->
    Rle.raw_parse V dec (S (length b)) 0 b = (segs_aux false rs, TEnd) /\
    framed 0 (segs_aux false rs) /\ canon None rs.
  Proof.
    intros Hwf. unfold Rle.rle_load, Rle.rle_load_segs.
    destruct (Rle.raw_parse V dec (S (length b)) 0 b) as [ss t] eqn:Ep.
    destruct (check (cst_init V) ss) as [st| |] eqn:Ec; cbn [bind]; try discriminate.
    destruct t; try discriminate. intros Hfin.
    apply finish_inv in Hfin.
    pose proof (parse_framed _ _ _ _ Hwf Ep) as Hf.
    destruct (check_out _ _ _ Ec) as (Q1 & _).
    rewrite Q1 in Hfin. cbn [Rle.cst_init Rle.c_out] in Hfin. rewrite app_nil_r, rev_involutive in Hfin.
    destruct (check_canonical ss (cst_init V) 0 st None Hf Ec) as (E1 & _ & C).
    { split; [reflexivity|]. lia. }
    change (0 <? 0) with false in E1. subst rs. rewrite <- E1. auto.
  Qed.

  Theorem rle_load_group b rs : wf_bytes b -> rle_load b = Ok rs -> group (expand rs) = rs.
  Proof.
    intros Hwf H. destruct (rle_load_canonical b rs Hwf H) as (_ & _ & C). eapply group_expand; eauto.
  Qed.

  (* T3: a column that loads saves back to bytes that load to the same column *)
  Theorem rle_resave b rs :
    wf_bytes b -> rle_load b = Ok rs -> rle_load (rle_save (expand rs)) = Ok rs.
  Proof.
    intros Hwf H. destruct (rle_load_canonical b rs Hwf H) as (Ep & Hf & C).
    unfold Rle.rle_save. rewrite (group_expand rs None C).
    unfold Rle.rle_load in *. unfold Rle.rle_save_runs.
    rewrite parse_write; [rewrite Ep in H; exact H|exact Hf|].
    pose proof (write_segs_length (segs_aux false rs)). lia.
  Qed.

  (* T4: the only panics *)



End RleP.

(* ---- the value codecs of lib.rs satisfy the codec laws ---- *)
Definition wf_u64 (n : N) : Prop := n < pow64.
Definition wf_i64 (z : Z) : Prop := in_i64 z.
Definition wf_blob (s : bytes) : Prop := wf_bytes s /\ N.of_nat (length s) < pow64.
Definition wf_str (s : bytes) : Prop := wf_blob s /\ utf8_valid s = true.

Lemma u64_dec_enc v r : wf_u64 v -> u64_dec (u64_enc v ++ r) = Some (v, r).
Proof. apply hleb_u_roundtrip. Qed.
Lemma u64_enc_nonempty v : u64_enc v <> [].
Proof. apply hleb_uenc_nonempty. Qed.
Lemma u64_dec_wf b v r : wf_bytes b -> u64_dec b = Some (v, r) -> wf_u64 v /\ wf_bytes r.
Proof. intros Hwf H. split; [eapply hleb_u_range; eauto|eapply hleb_u_wf_rest; eauto]. Qed.

Lemma i64_dec_enc v r : wf_i64 v -> i64_dec (i64_enc v ++ r) = Some (v, r).
Proof. apply hleb_s_roundtrip. Qed.
Lemma i64_enc_nonempty v : i64_enc v <> [].
Proof. apply hleb_senc_nonempty. Qed.
Lemma i64_dec_wf b v r : wf_bytes b -> i64_dec b = Some (v, r) -> wf_i64 v /\ wf_bytes r.
Proof. intros Hwf H. split; [eapply hleb_s_range; eauto|eapply hleb_s_wf_rest; eauto]. Qed.

Lemma blob_dec_enc v r : wf_blob v -> blob_dec (blob_enc v ++ r) = Some (v, r).
Proof.
  intros [Hwf Hl]. unfold blob_dec, blob_enc. rewrite <- app_assoc.
  rewrite hleb_u_roundtrip by exact Hl.
  assert ((N.of_nat (length (v ++ r)) <? N.of_nat (length v)) = false) as ->.
  { rewrite app_length. lia. }
  rewrite Nat2N.id. apply take_n_app.
Qed.
Lemma blob_enc_nonempty v : blob_enc v <> [].
Proof.
  unfold blob_enc. intros H. apply app_eq_nil in H. destruct H as [H _]. revert H. apply hleb_uenc_nonempty.
Qed.
Lemma blob_dec_wf b v r : wf_bytes b -> blob_dec b = Some (v, r) -> wf_blob v /\ wf_bytes r.
Proof.
  intros Hwf H. unfold blob_dec in H.
  destruct (hleb_u b) as [[n r0]|] eqn:Eu; [|discriminate].
  pose proof (hleb_u_range _ _ _ Hwf Eu) as Hn. pose proof (hleb_u_wf_rest _ _ _ Hwf Eu) as Hr0.
  destruct (N.of_nat (length r0) <? n); [discriminate|].
  apply take_n_sound in H. destruct H as [-> Hlen].
  apply wf_bytes_app in Hr0. destruct Hr0 as [Hv Hr].
  split; [|exact Hr]. split; [exact Hv|]. rewrite Hlen. lia.
Qed.

Lemma str_dec_enc v r : wf_str v -> str_dec (str_enc v ++ r) = Some (v, r).
Proof.
  intros [Hb Hu]. unfold str_dec, str_enc. rewrite blob_dec_enc by exact Hb. rewrite Hu. reflexivity.
Qed.
Lemma str_enc_nonempty v : str_enc v <> [].
Proof. apply blob_enc_nonempty. Qed.
Lemma str_dec_wf b v r : wf_bytes b -> str_dec b = Some (v, r) -> wf_str v /\ wf_bytes r.
Proof.
  intros Hwf H. unfold str_dec in H. destruct (blob_dec b) as [[s r0]|] eqn:Eb; [|discriminate].
  destruct (utf8_valid s) eqn:Eu; [|discriminate]. inversion H; subst.
  destruct (blob_dec_wf _ _ _ Hwf Eb) as [Hs Hr]. split; [split; auto|exact Hr].
Qed.

Lemma N_eqb_spec a b : N.eqb a b = true <-> a = b. Proof. apply N.eqb_eq. Qed.
Lemma Z_eqb_spec a b : Z.eqb a b = true <-> a = b. Proof. apply Z.eqb_eq. Qed.
