(* C01 — Convergence: replicas with the same changes show the same document.
   Statements only; proofs in Crdt/InterpProofs.v and Crdt/QueueProofs.v. *)
From AM Require Import Base.Prelude Base.Order Crdt.Types Crdt.Interp Crdt.Doc Crdt.InterpProofs Crdt.QueueProofs.

(* the observable state is a function of the SET of operations: any two arrival
   orders of the same (duplicate-free) operations give the same observation *)
Theorem C01_observe_perm : forall l1 l2 : list op,
  NoDup (map op_id l1) -> Permutation l1 l2 -> observe l1 = observe l2.
Proof. exact observe_perm. Qed.

(* two documents whose applied changes are the same set show the same heads and state *)
Theorem C01_same_changes_same_state : forall a1 a2 : list change,
  ops_unique a1 -> Permutation a1 a2 ->
  heads_of a1 = heads_of a2 /\ observe (all_ops a1) = observe (all_ops a2).
Proof. exact same_changes_same_state. Qed.

(* however the changes arrive — any order, any batching, duplicated — two error-free
   runs that deliver the same set of changes apply the same set and hold back the same set *)
Theorem C01_run_order_independent : forall (b1 b2 : list (list change)) (d1 d2 : doc),
  hash_inj (concat b1 ++ concat b2) ->
  (forall c, In c (concat b1) <-> In c (concat b2)) ->
  run empty_doc b1 = Ok d1 -> run empty_doc b2 = Ok d2 ->
  (forall c, In c (applied d1) <-> In c (applied d2)) /\ (forall c, In c (queue d1) <-> In c (queue d2)).
Proof. exact run_order_independent. Qed.
