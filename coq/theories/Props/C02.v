(* C02 — Document state equals the op-based CRDT interpretation of its history.
   The model's [observe] IS the independent reading; these theorems state that it
   reads the way the property says (so the oracle the implementation is compared
   with is provably the statement's reading). *)
From AM Require Import Base.Prelude Base.Order Crdt.Types Crdt.Interp Crdt.InterpProofs.
From Coq Require Import Sorting.Sorted.

(* a value is in its register iff it is not an increment or delete and is not named as
   predecessor by any op other than an increment of a counter *)
Theorem C02_visible_spec : forall (ops : list op) (o : op),
  visible ops o = true <->
  is_inc o = false /\ is_del o = false /\
  forall s, In s ops -> names s o = true -> is_inc s = true /\ is_counter o = true.
Proof. exact visible_spec. Qed.

(* a counter reads as its initial value plus every increment naming it *)
Theorem C02_counter_total_spec : forall (ops : list op) (o : op) (init : Z),
  counter_total ops o init = (init + fold_left Z.add (incs_of ops o) 0)%Z.
Proof. exact counter_total_spec. Qed.

(* registers are listed in ascending id, so the winner (last entry) has the greatest id *)
Theorem C02_register_ascending : forall (ops : list op) (k : key),
  StronglySorted (le opid_cmp) (map fst (register (vis_ops (isort op_cmp ops)) k)).
Proof. exact register_ascending. Qed.
