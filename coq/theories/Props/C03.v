(* C03 — Local edits have their documented sequential effect (model: Crdt/Local.v, a mirror of
   transaction/inner.rs; statements over [observe] of Crdt/Interp.v). *)
From AM Require Import Base.Prelude Base.Order Crdt.Types Crdt.Interp Crdt.Local Crdt.LocalProofs.

(* a call that returns an error leaves the transaction (document ops, pending ops) as it was *)
Theorem C03_error_unchanged : forall e t c t' x,
  apply_call e t c = EOk (t', Some x) -> t' = t.
Proof. exact apply_call_error_unchanged. Qed.
