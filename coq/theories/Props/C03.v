(* C03 — Local edits have their documented sequential effect.
   Model: Crdt/Local.v (a mirror of transaction/inner.rs: next_id, local_map_op, local_list_op,
   do_insert, inner_splice, resolve_action, the list / text index seeks).  The statements read the
   document through [observe] (Crdt/Interp.v) with the selectors
     obs_obj ob id   — one object of an observation,
     obs_reg ob id k — the register (ascending id, last wins) of key k of a map object,
     obs_seq ob id   — the registers of the visible elements of a list / text, in document order,
   for ANY transaction state satisfying the decidable predicate [wf_tx] (ids strictly ascending, every
   counter mentioned below the next op counter) which the family `edit` checks on every history.
   "Visible inside the open transaction and after commit": the observation is a function of
   document ops ++ pending ops, which is what a commit appends as one change.

   Proved in full: put / delete / increment / put_object on a map key; insert / insert_object into a
   list or text (any encoding); put / put_object / delete / increment at a list or text index, at the
   register level and (C03_seq_update_spec, C03_list_*_spec) at the position level; the error cases.
   Partial (explored by the family, not proved): splice / splice_text (several ops per call),
   preservation of wf_tx by the multi-op calls, absence of model panics (del_loop fuel).
   Marks, blocks and the GraphemeCluster encoding are outside the model. *)
From AM Require Import Base.Prelude Base.Order Crdt.Types Crdt.Interp Crdt.Local Crdt.LocalProofs Crdt.SeqProofs.
Local Open Scope N_scope.

(* ---- put on a map key: the register is exactly the new value (or, when the winning value already
   equals it, that winner alone); every other key and every other object is unchanged ---- *)
Theorem C03_put_spec : forall e t obj k v t',
  wf_tx t -> lookup_type (tx_all t) obj = Some OMap ->
  step e t (CPut obj (PMap k) v) = EOk t' ->
  let ob := observe (tx_all t) in
  let ob' := observe (tx_all t') in
  obs_reg ob' obj k =
    match winner (obs_reg ob obj k) with
    | Some (i, w) => if same_value w v then [(i, w)] else [(next_id t, scalar_vobs v)]
    | None => [(next_id t, scalar_vobs v)]
    end
  /\ (forall k', k' <> k -> obs_reg ob' obj k' = obs_reg ob obj k')
  /\ (forall obj', obj' <> obj -> obs_obj ob' obj' = obs_obj ob obj').
Proof. exact put_map_spec. Qed.

Theorem C03_delete_spec : forall e t obj k t',
  wf_tx t -> lookup_type (tx_all t) obj = Some OMap ->
  step e t (CDelete obj (PMap k)) = EOk t' ->
  let ob := observe (tx_all t) in
  let ob' := observe (tx_all t') in
  obs_reg ob' obj k = []
  /\ (forall k', k' <> k -> obs_reg ob' obj k' = obs_reg ob obj k')
  /\ (forall obj', obj' <> obj -> obs_obj ob' obj' = obs_obj ob obj').
Proof. exact delete_map_spec. Qed.

(* increment: there is a counter; every counter of the register is incremented, every other
   (conflicting) value is superseded *)
Theorem C03_increment_spec : forall e t obj k z t',
  wf_tx t -> lookup_type (tx_all t) obj = Some OMap ->
  step e t (CInc obj (PMap k) z) = EOk t' ->
  let ob := observe (tx_all t) in
  let ob' := observe (tx_all t') in
  existsb is_vc (obs_reg ob obj k) = true
  /\ obs_reg ob' obj k = inc_reg z (obs_reg ob obj k)
  /\ (forall k', k' <> k -> obs_reg ob' obj k' = obs_reg ob obj k')
  /\ (forall obj', obj' <> obj -> obs_obj ob' obj' = obs_obj ob obj').
Proof. exact increment_map_spec. Qed.

Theorem C03_put_object_spec : forall e t obj k nt t',
  wf_tx t -> lookup_type (tx_all t) obj = Some OMap ->
  step e t (CPutObj obj (PMap k) nt) = EOk t' ->
  let ob := observe (tx_all t) in
  let ob' := observe (tx_all t') in
  obs_reg ob' obj k = [(next_id t, VO nt)]
  /\ obs_obj ob' (next_id t) = Some (observe_obj [] (next_id t) nt)
  /\ (forall k', k' <> k -> obs_reg ob' obj k' = obs_reg ob obj k')
  /\ (forall obj', obj' <> obj -> obj' <> next_id t -> obs_obj ob' obj' = obs_obj ob obj').
Proof. exact put_object_map_spec. Qed.

(* insert: the visible sequence is firstn j old ++ [new] ++ skipn j old, where j is the element position
   the index resolves to (for a list j = i; for a text the index is measured in the encoding and
   rounds up to the end of the character it falls into); every other object is unchanged *)
Theorem C03_insert_spec : forall e t obj ty i v t',
  wf_tx t -> lookup_type (tx_all t) obj = Some ty -> is_seq_type ty = true ->
  step e t (CInsert obj i v) = EOk t' ->
  let ob := observe (tx_all t) in
  let ob' := observe (tx_all t') in
  exists ref idx j,
    query_insert e ty (tx_all t) obj i = Some (ref, idx, j) /\
    (ty = OList -> j = N.to_nat i) /\
    obs_seq ob' obj = firstn j (obs_seq ob obj) ++ [[(next_id t, scalar_vobs v)]] ++ skipn j (obs_seq ob obj) /\
    (forall obj', obj' <> obj -> obs_obj ob' obj' = obs_obj ob obj').
Proof. exact insert_spec. Qed.

Theorem C03_insert_object_spec : forall e t obj ty i nt t',
  wf_tx t -> lookup_type (tx_all t) obj = Some ty -> is_seq_type ty = true ->
  step e t (CInsertObj obj i nt) = EOk t' ->
  let ob := observe (tx_all t) in
  let ob' := observe (tx_all t') in
  exists ref idx j,
    query_insert e ty (tx_all t) obj i = Some (ref, idx, j) /\
    (ty = OList -> j = N.to_nat i) /\
    obs_seq ob' obj = firstn j (obs_seq ob obj) ++ [[(next_id t, VO nt)]] ++ skipn j (obs_seq ob obj) /\
    (forall obj', obj' <> obj -> obj' <> next_id t -> obs_obj ob' obj' = obs_obj ob obj').
Proof. exact insert_object_spec. Qed.

(* put / put_object / delete / increment on ANY register (a map key, or the element a list / text
   index resolves to — C03_list_index_resolution): the register becomes what the resolved action says;
   every other register of every object and the element order of every object are unchanged *)
Theorem C03_update_register_spec : forall t obj K a t' oid,
  wf_tx t ->
  update_op t obj K (reg_at (tx_all t) obj K) a = EOk (t', oid) ->
  let r := reg_at (tx_all t) obj K in
  frame_upd (tx_all t) (tx_all t') obj K /\
  reg_at (tx_all t') obj K =
    match resolve_action r a with
    | None => r
    | Some (a', r') =>
      let kept := flat_map (fun iw => if memb opid_eqb (fst iw) (map fst r') then [] else [iw]) r in
      match a' with
      | APut v => kept ++ [(next_id t, scalar_vobs v)]
      | AMake ty => kept ++ [(next_id t, VO ty)]
      | AInc z => inc_reg z r
      | _ => kept
      end
    end.
Proof. exact update_op_spec. Qed.

Theorem C03_list_index_resolution : forall e t obj ty i a t' oid,
  wf_tx t -> local_list_op e t obj ty i a = EOk (t', oid) ->
  exists el r s wd p,
    seek (elem_w e ty) (seq_elems (tx_all t) obj) i 0 0 = Some (el, r, s, wd, p) /\
    nth_error (seq_elems (tx_all t) obj) p = Some (el, r) /\
    r = reg_at (tx_all t) obj (KSeq el) /\
    update_op t obj (KSeq el) (reg_at (tx_all t) obj (KSeq el)) a = EOk (t', oid).
Proof. exact list_update_spec. Qed.


(* ---- put / put_object / delete / increment at an index of a list or text, position level: the visible
   sequence changes at exactly the position p the index resolves to (the element keeps its place with its
   new register, or disappears when the register becomes empty); other objects are unchanged ---- *)
Theorem C03_seq_update_spec : forall e t obj ty i a t' oid,
  wf_tx t -> lookup_type (tx_all t) obj = Some ty -> is_seq_type ty = true ->
  local_list_op e t obj ty i a = EOk (t', oid) ->
  let ob := observe (tx_all t) in
  let ob' := observe (tx_all t') in
  exists el r s wd p,
    seek (elem_w e ty) (seq_elems (tx_all t) obj) i 0 0 = Some (el, r, s, wd, p) /\
    nth_error (obs_seq ob obj) p = Some r /\
    r = reg_at (tx_all t) obj (KSeq el) /\
    update_op t obj (KSeq el) r a = EOk (t', oid) /\
    obs_seq ob' obj =
      firstn p (obs_seq ob obj)
      ++ (match reg_at (tx_all t') obj (KSeq el) with [] => [] | r' => [r'] end)
      ++ skipn (S p) (obs_seq ob obj) /\
    (forall obj', obj' <> obj -> obj' <> next_id t -> obs_obj ob' obj' = obs_obj ob obj').
Proof. exact seq_update_obs. Qed.

Theorem C03_list_put_spec : forall e t obj i v t',
  wf_tx t -> lookup_type (tx_all t) obj = Some OList ->
  step e t (CPut obj (PSeq i) v) = EOk t' ->
  let ob := observe (tx_all t) in
  let ob' := observe (tx_all t') in
  exists r, nth_error (obs_seq ob obj) (N.to_nat i) = Some r /\
    obs_seq ob' obj = firstn (N.to_nat i) (obs_seq ob obj)
      ++ [match winner r with
          | Some (j, w) => if same_value w v then [(j, w)] else [(next_id t, scalar_vobs v)]
          | None => [(next_id t, scalar_vobs v)]
          end]
      ++ skipn (S (N.to_nat i)) (obs_seq ob obj).
Proof. exact list_put_spec. Qed.

Theorem C03_list_delete_spec : forall e t obj i t',
  wf_tx t -> lookup_type (tx_all t) obj = Some OList ->
  step e t (CDelete obj (PSeq i)) = EOk t' ->
  let ob := observe (tx_all t) in
  let ob' := observe (tx_all t') in
  obs_seq ob' obj = firstn (N.to_nat i) (obs_seq ob obj) ++ skipn (S (N.to_nat i)) (obs_seq ob obj)
  /\ (N.to_nat i < length (obs_seq ob obj))%nat.
Proof. exact list_delete_spec. Qed.

Theorem C03_list_increment_spec : forall e t obj i z t',
  wf_tx t -> lookup_type (tx_all t) obj = Some OList ->
  step e t (CInc obj (PSeq i) z) = EOk t' ->
  let ob := observe (tx_all t) in
  let ob' := observe (tx_all t') in
  exists r, nth_error (obs_seq ob obj) (N.to_nat i) = Some r /\ existsb is_vc r = true /\
    obs_seq ob' obj = firstn (N.to_nat i) (obs_seq ob obj) ++ [inc_reg z r] ++ skipn (S (N.to_nat i)) (obs_seq ob obj).
Proof. exact list_increment_spec. Qed.

(* ---- invalid calls: an error, and nothing changes ---- *)
Theorem C03_error_unchanged : forall e t c t' x,
  apply_call e t c = EOk (t', Some x) -> t' = t.
Proof. exact apply_call_error_unchanged. Qed.

Theorem C03_unknown_object_error : forall e t c,
  lookup_type (tx_all t)
    (match c with
     | CPut o _ _ | CPutObj o _ _ | CInsert o _ _ | CInsertObj o _ _ | CDelete o _ | CInc o _ _
     | CSplice o _ _ _ | CSpliceText o _ _ _ => o end) = None ->
  step e t c = EErr EInvalidObj.
Proof. exact unknown_object_error. Qed.

Theorem C03_wrong_key_kind_error : forall e t obj,
  (forall k v, lookup_type (tx_all t) obj = Some OList -> step e t (CPut obj (PMap k) v) = EErr EInvalidOp) /\
  (forall i v, lookup_type (tx_all t) obj = Some OMap -> step e t (CPut obj (PSeq i) v) = EErr EInvalidOp) /\
  (forall i v, lookup_type (tx_all t) obj = Some OMap -> step e t (CInsert obj i v) = EErr EInvalidOp) /\
  (forall i nt, lookup_type (tx_all t) obj = Some OText -> step e t (CPutObj obj (PSeq i) nt) = EErr EInvalidOp) /\
  (forall i z, lookup_type (tx_all t) obj = Some OMap -> step e t (CInc obj (PSeq i) z) = EErr EInvalidOp) /\
  (forall i, lookup_type (tx_all t) obj = Some OMap -> step e t (CDelete obj (PSeq i)) = EErr EInvalidOp) /\
  (forall k, lookup_type (tx_all t) obj = Some OList -> step e t (CDelete obj (PMap k)) = EErr EInvalidOp) /\
  (forall k, lookup_type (tx_all t) obj = Some OText -> step e t (CDelete obj (PMap k)) = EErr EInvalidOp) /\
  (forall i d s, lookup_type (tx_all t) obj = Some OList -> step e t (CSpliceText obj i d s) = EErr EInvalidOp).
Proof. exact wrong_key_kind_error. Qed.

Theorem C03_index_out_of_range_error : forall e t obj i,
  lookup_type (tx_all t) obj = Some OList ->
  N.of_nat (length (seq_elems (tx_all t) obj)) <= i ->
  (forall v, step e t (CPut obj (PSeq i) v) = EErr EInvalidIndex) /\
  (forall nt, step e t (CPutObj obj (PSeq i) nt) = EErr EInvalidIndex) /\
  (forall z, step e t (CInc obj (PSeq i) z) = EErr EInvalidIndex) /\
  step e t (CDelete obj (PSeq i)) = EErr EInvalidIndex /\
  (forall v, step e t (CInsert obj (i + 1) v) = EErr EInvalidIndex) /\
  (forall nt, step e t (CInsertObj obj (i + 1) nt) = EErr EInvalidIndex).
Proof. exact index_out_of_range_error. Qed.

Theorem C03_text_delete_out_of_range_error : forall e t obj i,
  lookup_type (tx_all t) obj = Some OText ->
  seq_width e OText (seq_elems (tx_all t) obj) <= i ->
  step e t (CDelete obj (PSeq i)) = EErr EInvalidIndex.
Proof. exact text_delete_out_of_range_error. Qed.

Theorem C03_increment_non_counter_error : forall e t obj k z,
  lookup_type (tx_all t) obj = Some OMap ->
  existsb is_vc (reg_at (tx_all t) obj (KMap k)) = false ->
  step e t (CInc obj (PMap k) z) = EErr EMissingCounter.
Proof. exact increment_non_counter_error. Qed.

(* the next call starts from a well-formed state again (single-op calls) *)
Theorem C03_wf_push : forall t n,
  wf_tx t -> op_id n = next_id t -> fst (op_obj n) < next_ctr t -> key_ctr (op_key n) < next_ctr t ->
  (forall p, In p (op_pred n) -> fst p < next_ctr t) -> wf_tx (push t n).
Proof. exact wf_push. Qed.

(* ---- non-vacuity: a state with two actors, a conflicted register holding a counter and an integer,
   a list with one element; each hypothesis set above is inhabited ---- *)
Definition ex_tx : tx :=
  begin_tx [ mkOp (1, [1]) root_id (KMap [97]) false (APut (SCounter 5)) [];
             mkOp (1, [2]) root_id (KMap [97]) false (APut (SInt 7)) [];
             mkOp (2, [1]) root_id (KMap [108]) false (AMake OList) [];
             mkOp (3, [1]) (2, [1]) (KSeq head_id) true (APut (SInt 1)) [] ] [1].

Example C03_put_nonvacuous :
  wf_tx ex_tx /\ lookup_type (tx_all ex_tx) root_id = Some OMap /\
  exists t', step EncCP ex_tx (CPut root_id (PMap [97]) (SStr [120])) = EOk t' /\
             obs_reg (observe (tx_all t')) root_id [97] = [((4, [1]), VS (SStr [120]))].
Proof. split; [vm_compute; reflexivity|]. split; [vm_compute; reflexivity|]. eexists. split; vm_compute; reflexivity. Qed.

Example C03_delete_nonvacuous :
  exists t', step EncCP ex_tx (CDelete root_id (PMap [97])) = EOk t' /\ length (tx_pending t') = 1%nat.
Proof. eexists. split; vm_compute; reflexivity. Qed.

Example C03_increment_nonvacuous :
  exists t', step EncCP ex_tx (CInc root_id (PMap [97]) 3) = EOk t' /\
             obs_reg (observe (tx_all t')) root_id [97] = [((1, [1]), VC 8)].
Proof. eexists. split; vm_compute; reflexivity. Qed.

Example C03_put_object_nonvacuous :
  exists t', step EncCP ex_tx (CPutObj root_id (PMap [98]) OText) = EOk t' /\
             obs_obj (observe (tx_all t')) (4, [1]) = Some (mkO (4, [1]) OText (EL [])).
Proof. eexists. split; vm_compute; reflexivity. Qed.

Example C03_insert_nonvacuous :
  lookup_type (tx_all ex_tx) (2, [1]) = Some OList /\
  exists t', step EncCP ex_tx (CInsert (2, [1]) 1 (SInt 2)) = EOk t' /\
             obs_seq (observe (tx_all t')) (2, [1]) = [[((3, [1]), VS (SInt 1))]; [((4, [1]), VS (SInt 2))]].
Proof. split; [vm_compute; reflexivity|]. eexists. split; vm_compute; reflexivity. Qed.

Example C03_insert_object_nonvacuous :
  exists t', step EncCP ex_tx (CInsertObj (2, [1]) 0 OMap) = EOk t' /\ length (tx_pending t') = 1%nat.
Proof. eexists. split; vm_compute; reflexivity. Qed.

Example C03_update_register_nonvacuous :
  exists t' oid, local_list_op EncCP ex_tx (2, [1]) OList 0 (APut (SInt 9)) = EOk (t', oid) /\ oid = Some (4, [1]).
Proof. eexists. eexists. split; vm_compute; reflexivity. Qed.

Example C03_errors_nonvacuous :
  apply_call EncCP ex_tx (CPut (9, [9]) (PMap [97]) SNull) = EOk (ex_tx, Some EInvalidObj) /\
  apply_call EncCP ex_tx (CPut root_id (PSeq 0) SNull) = EOk (ex_tx, Some EInvalidOp) /\
  apply_call EncCP ex_tx (CInsert (2, [1]) 2 SNull) = EOk (ex_tx, Some EInvalidIndex) /\
  apply_call EncCP ex_tx (CInc root_id (PMap [108]) 1) = EOk (ex_tx, Some EMissingCounter).
Proof. repeat split; vm_compute; reflexivity. Qed.

Example C03_list_update_nonvacuous :
  (exists t', step EncCP ex_tx (CDelete (2, [1]) (PSeq 0)) = EOk t' /\ obs_seq (observe (tx_all t')) (2, [1]) = []) /\
  (exists t', step EncCP ex_tx (CPut (2, [1]) (PSeq 0) (SCounter 2)) = EOk t' /\
              obs_seq (observe (tx_all t')) (2, [1]) = [[((4, [1]), VC 2)]]).
Proof. split; eexists; split; vm_compute; reflexivity. Qed.
