(* C04 — Change metadata and heads follow causality.
   Statements only; proofs in Crdt/CommitProofs.v; the model is Crdt/Commit.v (a mirror of
   transaction_args / isolate_actor / export / update_history).  [appl] is the list of changes
   the document has applied, [heads] what get_heads returns, [a] the document's actor. *)
From AM Require Import Base.Prelude Base.Order Crdt.Types Crdt.Doc Crdt.QueueProofs Crdt.Commit Crdt.CommitProofs.
Local Open Scope N_scope.

(* the next sequence number of the actor the change is written as *)
Theorem C04_commit_seq_next : forall appl heads a iso m,
  commit_meta appl heads a iso = Ok m ->
  cm_seq m = seq_for_actor appl (cm_actor m) + 1.
Proof. exact commit_seq_next. Qed.

(* ... which is above the seq of every applied change of that actor (C38's invariant
   [seq_bounded]: no applied seq exceeds the number of applied changes of its actor) *)
Theorem C04_commit_seq_above : forall appl heads a iso m,
  commit_meta appl heads a iso = Ok m -> seq_bounded appl ->
  forall c, In c appl -> ch_actor c = cm_actor m -> ch_seq c < cm_seq m.
Proof. exact commit_seq_above. Qed.

(* start_op is greater than every op counter of every applied change, isolated or not (the
   code takes the maximum over ALL applied changes, also for an isolated transaction) *)
Theorem C04_commit_start_op_gt_all : forall appl heads a iso m,
  commit_meta appl heads a iso = Ok m ->
  1 <= cm_start m /\
  forall c, In c appl -> max_op c < cm_start m /\
    forall i, (i < length (ch_ops c))%nat -> ch_start c + N.of_nat i < cm_start m.
Proof. exact commit_start_op_gt_all. Qed.

(* not isolated: written as the document's actor; dependencies = the current heads plus the
   actor's own previous change, sorted, without duplicates *)
Theorem C04_commit_deps_nonisolated : forall appl heads a m,
  commit_meta appl heads a None = Ok m -> incl heads (hashes appl) ->
  cm_actor m = a /\ sorted N.compare (cm_deps m) /\
  (NoDup heads -> NoDup (cm_deps m)) /\
  forall h, In h (cm_deps m) <->
    In h heads \/ exists p, prev_change appl a = Some p /\ h = ch_hash p.
Proof. exact commit_deps_nonisolated. Qed.

(* isolated at [hs]: dependencies = [hs] (sorted); the actor is the first concurrency level
   of the document's actor that has no change or whose LATEST change (its seq is the number of
   its applied changes) is among the ancestors of [hs]; every lower level was rejected because
   its latest change is not *)
Theorem C04_commit_deps_isolated : forall appl heads a hs m,
  commit_meta appl heads a (Some hs) = Ok m ->
  cm_deps m = sortN (filter (has_hash appl) hs) /\
  (incl hs (hashes appl) -> forall h, In h (cm_deps m) <-> In h hs) /\
  exists j, cm_actor m = level_actor a j /\
    (seq_for_actor appl (cm_actor m) = 0 \/
     seq_clock_at appl hs (cm_actor m) = seq_for_actor appl (cm_actor m)) /\
    forall k, k < j ->
      seq_for_actor appl (level_actor a k) <> 0 /\
      seq_clock_at appl hs (level_actor a k) <> seq_for_actor appl (level_actor a k).
Proof. exact commit_deps_isolated. Qed.

(* the previous change of the actor an isolated transaction writes as is ALWAYS an ancestor of
   the isolation heads ([SeqIdx]: seq_index positions are seq - 1, asserted by the code and an
   invariant of the machine, C04_chain_invariant) *)
Theorem C04_isolated_prev_is_ancestor : forall appl heads a hs m p,
  commit_meta appl heads a (Some hs) = Ok m ->
  SeqIdx appl (cm_actor m) -> prev_change appl (cm_actor m) = Some p ->
  In p (ancestors appl hs).
Proof. exact isolated_prev_is_ancestor. Qed.

(* every created change - plain, empty or isolated - has the next seq of its actor and descends
   from that actor's previous change *)
Theorem C04_commit_continues_chain : forall appl a iso m h ops,
  Built appl -> (forall a, SeqIdx appl a) ->
  commit_meta appl (heads_of appl) a iso = Ok m ->
  chain_ok_new appl (mkChange h (cm_actor m) (cm_seq m) (cm_start m) (cm_deps m) ops).
Proof. exact commit_chain_ok. Qed.

(* so each actor's applied changes form a chain under the ancestor relation in every state
   reached from the empty document by commits and by deliveries of changes that continue their
   actor's chain ([run_chain_ok]: next seq - else the code panics - and descending from the
   previous change, as every library-created change does) *)
Theorem C04_chain_invariant : forall steps m,
  run_fresh m_empty steps -> run_chain_ok m_empty steps -> m_run m_empty steps = Ok m ->
  AChain (applied (m_doc m)).
Proof. intros steps m Hf Hok H. exact (chain_invariant steps m_empty m MInv_empty AChain_nil Hf Hok H). Qed.

(* heads, as an invariant of every step: after ANY sequence of deliveries (apply_changes, merge,
   load, sync: [SReceive]) and local commits (plain, empty, isolated: [SCommit]) from the empty
   document, the incrementally maintained heads (heads - deps + hash at every applied change)
   are exactly the applied changes no applied change depends on, and the applied changes are
   dependency-closed.  [run_fresh]: a created change never gets the hash of a change the
   document already holds (content addressing). *)
Theorem C04_heads_invariant : forall steps m,
  run_fresh m_empty steps -> m_run m_empty steps = Ok m ->
  m_get_heads m = heads_of (applied (m_doc m)) /\
  dep_closed (applied (m_doc m)) /\
  forall h, In h (m_get_heads m) <->
    (exists c, In c (applied (m_doc m)) /\ ch_hash c = h) /\
    (forall c, In c (applied (m_doc m)) -> ~ In h (ch_deps c)).
Proof. exact heads_invariant. Qed.

(* every change a document creates, in any reachable state *)
Theorem C04_created_change : forall m r m' c,
  MInv m -> step_fresh m (SCommit r) -> m_commit m r = Ok (m', Some c) ->
  let appl := applied (m_doc m) in
  ch_hash c = cr_hash r /\ ch_ops c = cr_ops r /\
  ch_seq c = seq_for_actor appl (ch_actor c) + 1 /\
  (forall x, In x appl -> max_op x < ch_start c) /\
  (forall h, In h (ch_deps c) -> In h (hashes appl)) /\
  match cr_iso r with
  | None => ch_actor c = cr_actor r /\
            forall h, In h (ch_deps c) <->
              In h (heads_of appl) \/ exists p, prev_change appl (cr_actor r) = Some p /\ h = ch_hash p
  | Some hs => ch_deps c = sortN (filter (has_hash appl) hs)
  end /\
  applied (m_doc m') = appl ++ [c] /\
  m_get_heads m' = heads_of (appl ++ [c]).
Proof. exact created_change_meta. Qed.

Theorem C04_invariant_reachable : forall steps m,
  run_fresh m_empty steps -> m_run m_empty steps = Ok m -> MInv m.
Proof. intros steps m Hf H. exact (MInv_run steps m_empty m MInv_empty Hf H). Qed.

(* non-vacuity: a run with two actors, a merge-like delivery, an empty change and an isolated
   commit; its heads are the two concurrent tips *)
Example C04_nonvacuous :
  let c1 := mkChange 11 [1] 1 1 [] [dummy_op] in
  let steps := [ SCommit (mkReq [2] None [dummy_op] false 21);
                 SReceive [c1];
                 SCommit (mkReq [2] None [] true 22);
                 SCommit (mkReq [2] (Some [21]) [dummy_op; dummy_op] false 23) ] in
  exists m, m_run m_empty steps = Ok m /\ run_fresh m_empty steps /\
    m_get_heads m = [22; 23] /\ length (applied (m_doc m)) = 4%nat.
Proof.
  eexists. split; [vm_compute; reflexivity|]. split; [|split; vm_compute; reflexivity].
  cbn. repeat split; vm_compute; intuition discriminate.
Qed.

(* non-vacuity of C04_isolated_prev_is_ancestor: actor [1] made two changes, [2] a concurrent
   one; a transaction isolated at actor [1]'s latest change is written by [1]; isolated at its
   FIRST change it is written by the concurrency-level actor instead *)
Example C04_isolated_prev_nonvacuous :
  let appl := [ mkChange 1 [1] 1 1 [] [dummy_op]; mkChange 2 [1] 2 2 [1] [];
                mkChange 3 [2] 1 2 [1] [dummy_op; dummy_op] ] in
  (exists m p, commit_meta appl (heads_of appl) [1] (Some [2]) = Ok m /\ (cm_actor m = [1]) /\ (cm_seq m = 3) /\
    (cm_start m = 4) /\ (cm_deps m = [2]) /\
    SeqIdx appl (cm_actor m) /\ prev_change appl (cm_actor m) = Some p) /\
  (exists m, commit_meta appl (heads_of appl) [1] (Some [1]) = Ok m /\
    cm_actor m = with_concurrency [1] 1 /\ (cm_seq m = 1) /\ (cm_deps m = [1])).
Proof.
  split.
  - eexists. eexists. split; [vm_compute; reflexivity|]. cbn [cm_actor cm_seq cm_start cm_deps].
    split; [reflexivity|]. split; [reflexivity|]. split; [reflexivity|]. split; [reflexivity|].
    split; [|vm_compute; reflexivity].
    intros i c. vm_compute. destruct i as [|[|[|i]]]; intros H; inversion H; subst; vm_compute; reflexivity.
  - eexists. split; [vm_compute; reflexivity|]. cbn [cm_actor cm_seq cm_deps]. auto.
Qed.
