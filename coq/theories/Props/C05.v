(* C05 — Changes with missing dependencies are held back until they become ready.
   Statements only; proofs in Crdt/QueueProofs.v and Crdt/DocProofs.v. *)
From AM Require Import Base.Prelude Base.Order Crdt.Types Crdt.Doc Crdt.QueueProofs Crdt.DocProofs.

(* applied changes always have all their dependencies applied: a change with a missing
   dependency is never applied, so it has no visible effect and is not a head *)
Theorem C05_applied_closed : forall d cs d',
  dep_closed (applied d) -> receive d cs = Ok d' -> dep_closed (applied d').
Proof. exact receive_closed. Qed.

(* nothing that could be applied stays in the queue: a held change takes effect exactly when
   its last missing ancestor arrives *)
Theorem C05_queue_not_ready : forall d cs d',
  receive d cs = Ok d' -> forall c, In c (queue d') -> ready (applied d') c = false.
Proof. exact receive_queue_not_ready. Qed.

(* after any error-free run: applied = the delivered changes reachable from the empty
   document through delivered changes, queue = the other delivered changes *)
Theorem C05_run_applied_char : forall batches d,
  hash_inj (concat batches) -> run empty_doc batches = Ok d ->
  forall c, In c (applied d) <-> (In c (concat batches) /\ Reach [] (concat batches) c).
Proof. exact run_applied_char. Qed.

Theorem C05_run_queue_char : forall batches d,
  hash_inj (concat batches) -> run empty_doc batches = Ok d ->
  forall c, In c (queue d) <-> (In c (concat batches) /\ ~ Reach [] (concat batches) c).
Proof. exact run_queue_char. Qed.

(* get_missing_deps: exactly the hashes neither applied nor held that a held change or one of
   the given heads needs *)
Theorem C05_missing_deps_spec : forall (d : doc) (hs : list N) (h : N),
  In h (missing_deps d hs) <->
  has_hash (applied d) h = false /\ has_hash (queue d) h = false /\
  (In h hs \/ exists c, In c (queue d) /\ In h (ch_deps c)).
Proof. exact missing_deps_spec. Qed.

(* the final state does not depend on arrival order *)
Theorem C05_order_independent : forall (b1 b2 : list (list change)) (d1 d2 : doc),
  hash_inj (concat b1 ++ concat b2) ->
  (forall c, In c (concat b1) <-> In c (concat b2)) ->
  run empty_doc b1 = Ok d1 -> run empty_doc b2 = Ok d2 ->
  (forall c, In c (applied d1) <-> In c (applied d2)) /\ (forall c, In c (queue d1) <-> In c (queue d2)).
Proof. exact run_order_independent. Qed.
