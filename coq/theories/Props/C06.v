(* C06 — Failed calls leave the document unchanged.
   Proved: a failed apply_changes never changes the applied changes (heads, every read), never
   adds to the queue, and two of its three error exits change nothing at all.
   REFUTED for the remaining exit: a collision with an applied (actor, seq) prunes the queue
   before returning the error (known finding D1; the suite asserts this behaviour, so it is not
   repaired). *)
From AM Require Import Base.Prelude Base.Order Crdt.Types Crdt.Doc Crdt.ErrProofs.

Theorem C06_failed_call_keeps_applied : forall d cs, applied (receive_err_state d cs) = applied d.
Proof. exact err_state_applied. Qed.

Theorem C06_failed_call_keeps_heads : forall d cs,
  heads_of (applied (receive_err_state d cs)) = heads_of (applied d).
Proof. exact err_state_heads. Qed.

Theorem C06_failed_call_never_adds_to_queue : forall d cs,
  incl (queue (receive_err_state d cs)) (queue d).
Proof. exact err_state_queue_incl. Qed.

Theorem C06_unchanged_partial : forall d cs,
  first_applied_collision d []
    (filter (fun c => negb (has_hash (applied d) (ch_hash c) || has_hash (queue d) (ch_hash c))) cs) = None ->
  receive_err_state d cs = d.
Proof. exact err_state_unchanged. Qed.

(* the full statement is false of the faithful model: known finding *)
Theorem C06_queue_unchanged_refuted :
  exists d cs, receive d cs = Err /\ queue d <> [] /\ queue (receive_err_state d cs) = [].
Proof. exact failed_call_can_drop_held_changes. Qed.
