(* C07 — Historical reads equal reads of the document as it was.
   Statements only; proofs in Crdt/ClockProofs.v. *)
From AM Require Import Base.Prelude Base.Order Crdt.Types Crdt.Interp Crdt.Doc Exec.HistExec Crdt.ClockProofs.
Local Open Scope N_scope.

(* the per-actor clock of a set of heads covers exactly the operations of their ancestors *)
Theorem C07_covered_iff_ancestor : forall a hs, WFhist a -> forall c o, In c a -> In o (ch_ops c) ->
  (covered (clock_of (ancestors a hs)) (op_id o) = true <-> In c (ancestors a hs)).
Proof. exact covered_iff_ancestor. Qed.

(* every read at heads [hs] (the whole observation: all registers of all objects, conflict
   sets, sequence order, counters) equals the read of a document holding exactly the
   ancestors of [hs] — which is what fork_at(hs) builds *)
Theorem C07_obs_at_eq_restrict : forall a hs, WFhist a ->
  obs_at a hs = observe (all_ops (ancestors a hs)).
Proof. exact obs_at_eq_restrict. Qed.

(* the document restricted to the ancestors is causally closed and contains the given heads *)
Theorem C07_ancestors_closed : forall a hs, WFhist a ->
  forall c, In c (ancestors a hs) -> forall h, In h (ch_deps c) ->
  exists c', In c' (ancestors a hs) /\ ch_hash c' = h.
Proof. exact ancestors_closed. Qed.

Theorem C07_ancestors_heads : forall a hs c, WFhist a -> In c a -> In (ch_hash c) hs -> In c (ancestors a hs).
Proof. exact ancestors_heads. Qed.

(* the well-formedness premise is decidable and is checked on every generated history *)
Theorem C07_wf_checker_sound : forall a, wf_hist_b a = true -> WFhist a.
Proof. exact wf_hist_b_sound. Qed.
