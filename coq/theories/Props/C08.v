(* C08 — diff between any two heads transforms one state into the other.
   Spec-level.  Model: Crdt/Patch.v — the materialized [view] (hydrate::Value with object ids and
   conflict flags; counters; texts as unit sequences of the document's encoding), the nine patch
   actions of patches/patch.rs, the applier mirroring hydrate.rs Value::apply / Map::apply /
   List::apply / Text::apply, and a model-level generator [diff].  The implementation's generator
   (iter/{doc,map_range,list_range,spans}.rs, patches/patch_log.rs, patch_builder.rs) is NOT mirrored:
   the theorems fix what a correct patch list is (the applier) and show that for ANY two well-formed
   views a patch list exists and is found by [diff]; the implementation's own patches for recorded
   head pairs are validated on every run by this applier (family `patch`, chk_apply) and by
   hydrate::Value::apply_patches.  Proofs in Crdt/PatchProofs.v. *)
From AM Require Import Base.Prelude Base.Order Crdt.Types Crdt.Interp Crdt.Local Crdt.Patch Crdt.PatchProofs.
Local Open Scope N_scope.

(* the patch language is complete and the applier sound for the generator: any document view is
   turned into any other (nested objects, conflict flags, counters, text; in every encoding) *)
Theorem C08_diff_apply : forall e v1 v2, wf_view v1 -> wf_view v2 ->
  apply_patches e (diff v1 v2) v1 = Some v2.
Proof. exact diff_apply. Qed.

(* the same for any two nodes of the same kind and id (per-object diff) *)
Theorem C08_diff_apply_node : forall e v1 v2,
  same_shell v1 v2 = true -> wf_node v1 = true -> wf_node v2 = true ->
  apply_patches e (diff v1 v2) v1 = Some v2.
Proof. intros e v1 v2. exact (diff_apply_node e v2 v1). Qed.

(* both directions: going there and back restores the view *)
Theorem C08_diff_roundtrip : forall e v1 v2 v, wf_view v1 -> wf_view v2 ->
  apply_patches e (diff v1 v2) v1 = Some v -> apply_patches e (diff v2 v1) v = Some v1.
Proof. exact diff_roundtrip. Qed.

(* the applier is a function of (view, patch): two runs cannot differ *)
Theorem C08_apply_deterministic : forall e v p a b,
  apply_patch e v p = Some a -> apply_patch e v p = Some b -> a = b.
Proof. exact apply_patch_deterministic. Qed.

(* frame: a patch changes nothing off its path — every subtree reached by a path that leaves the
   patch's path at some step (another key, another index) is exactly what it was; in particular a
   patch on object o leaves every object that is not o, an ancestor of o or inside o unchanged *)
Theorem C08_apply_frame : forall e v p v' q,
  apply_patch e v p = Some v' -> diverges q (map snd (p_path p)) ->
  subtree v' q = subtree v q.
Proof. exact apply_patch_frame. Qed.

(* the ancestors of the patched object keep their kind and id, the patched object too *)
Theorem C08_apply_keeps_shell : forall e v p v',
  apply_patch e v p = Some v' -> same_shell v v' = true.
Proof. exact apply_patch_shell. Qed.

(* the decidable well-formedness used by the checker is the predicate of the theorems *)
Theorem C08_wf_checker_sound : forall v, wf_viewb v = true <-> wf_view v.
Proof. exact wf_viewb_spec. Qed.

(* ---- non-vacuity: nested objects, a conflict that appears, one that disappears (object re-created
   and refilled), a counter increment, text in UTF-8 ---- *)
Definition ex_v1 : view :=
  VMap root_id [([97], (VScalar (SCounter 3), false));
                ([98], (VList (2,[1]) [(VScalar (SInt 1), false);
                                       (VMap (5,[1]) [([120], (VScalar SNull, true))], true)], false));
                ([99], (VText (3,[1]) [104;105], false))].
Definition ex_v2 : view :=
  VMap root_id [([97], (VScalar (SCounter 9), true));
                ([98], (VList (2,[1]) [(VMap (5,[1]) [([120], (VScalar SNull, false));
                                                      ([121], (VScalar (SInt 4), false))], false)], false));
                ([100], (VText (7,[1]) [195;169], true))].

Example C08_diff_apply_nonvacuous :
  wf_view ex_v1 /\ wf_view ex_v2 /\ ex_v1 <> ex_v2 /\
  length (diff ex_v1 ex_v2) = 9%nat /\
  apply_patches EncU8 (diff ex_v1 ex_v2) ex_v1 = Some ex_v2 /\
  apply_patches EncU8 (diff ex_v2 ex_v1) ex_v2 = Some ex_v1.
Proof.
  split; [apply wf_viewb_spec; vm_compute; reflexivity|].
  split; [apply wf_viewb_spec; vm_compute; reflexivity|].
  split; [discriminate|]. repeat split; vm_compute; reflexivity.
Qed.

Example C08_frame_nonvacuous :
  exists p v', apply_patch EncCP ex_v1 p = Some v' /\ v' <> ex_v1 /\
               diverges [PMap [99]] (map snd (p_path p)) /\ subtree v' [PMap [99]] = subtree ex_v1 [PMap [99]].
Proof.
  exists (mkPatch (5,[1]) [(root_id, PMap [98]); ((2,[1]), PSeq 1)] (PutMap [122] (PVS (SInt 1)) false)).
  eexists. split; [vm_compute; reflexivity|]. split; [discriminate|].
  split; [|vm_compute; reflexivity].
  exists [], (PMap [99]), (PMap [98]), [], [PSeq 1]. repeat split. discriminate.
Qed.
