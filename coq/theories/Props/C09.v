(* C09 — Incremental patches keep a materialized view equal to the document.
   Spec-level.  Model: Crdt/Patch.v (see C08) plus [local_action], a mirror of what
   TransactionInner::finalize_op (transaction/inner.rs) logs for an op that updates a map key (put,
   put_object, delete, increment, incl. inner.rs increment_replacement).  The receive-side generator
   (op_set2/change/batch.rs ValueState::map_process / list_flush, patches/patch_log.rs) is NOT mirrored:
   every batch of patches the implementation emits on every mutating path (local edits + diff_incremental,
   commit, rollback, apply_changes, merge, load_incremental, sync receive, load with a patch log,
   current_state, isolate / integrate) is validated by the proved applier against the document's state
   before and after (family `patch`, chk_chain).  Proofs in Crdt/PatchProofs.v.

   Partial: [C09_local_patch_sound_partial] covers map keys (not list indexes / text / inserts / splice)
   and increments of an UNCONFLICTED counter; for a conflicted register the emitted patch is wrong
   ([C09_local_increment_conflict_refuted], found on the implementation too: known finding). *)
From AM Require Import Base.Prelude Base.Order Crdt.Types Crdt.Interp Crdt.Local Crdt.LocalProofs Crdt.Patch Crdt.PatchProofs.
Local Open Scope N_scope.

(* composition: applying two batches one after the other is applying their concatenation — a view kept
   across many mutating calls is the fold of the batches *)
Theorem C09_apply_patches_app : forall e p1 p2 v,
  apply_patches e (p1 ++ p2) v =
  match apply_patches e p1 v with Some v' => apply_patches e p2 v' | None => None end.
Proof. exact apply_patches_app. Qed.

(* whatever a mutating path did to the document, the model-level patches from the view before to the view
   after are sound (and exist): the obligation on the implementation is only to emit SOME patch list the
   applier accepts with this result *)
Theorem C09_receive_patch_sound : forall e before after, wf_view before -> wf_view after ->
  apply_patches e (diff before after) before = Some after.
Proof. exact diff_apply. Qed.

(* local put / put_object / delete on a map key and increment of an unconflicted counter: the patch
   finalize_op emits turns what the view shows of the register before ([entry_shell r]: winner and
   conflict flag) into what it must show after the op ([after_reg]: the register C03_update_register_spec
   gives when the whole register is superseded); every other key keeps its entry *)
Theorem C09_local_patch_sound_partial : forall e oid m k id a r pa,
  match a with
  | APut _ | ADel => True
  | AMake t => t <> OTable
  | AInc _ => exists i c, r = [(i, VC c)]
  | _ => False
  end ->
  local_action (PMap k) id a r = Some pa ->
  shell_lookup k m = entry_shell r ->
  exists m',
    apply_action e (VMap oid m) pa = Some (VMap oid m') /\
    shell_lookup k m' = entry_shell (after_reg id a r) /\
    (forall k', k' <> k -> mlookup k' m' = mlookup k' m).
Proof. exact local_patch_sound_map. Qed.

(* the same statement FAILS for an increment of a conflicted register holding two counters: both are
   incremented and the register stays conflicted, the patch says "first counter + z, no conflict" *)
Theorem C09_local_increment_conflict_refuted :
  exists m k id z r pa,
    local_action (PMap k) id (AInc z) r = Some pa /\
    shell_lookup k m = entry_shell r /\
    forall e m', apply_action e (VMap root_id m) pa = Some (VMap root_id m') ->
                 shell_lookup k m' <> entry_shell (after_reg id (AInc z) r).
Proof. exact local_increment_conflict_refuted. Qed.

(* frame and determinism of the applier (shared with C08) *)
Theorem C09_apply_frame : forall e v p v' q,
  apply_patch e v p = Some v' -> diverges q (map snd (p_path p)) -> subtree v' q = subtree v q.
Proof. exact apply_patch_frame. Qed.

(* ---- non-vacuity ---- *)
(* the view of the observation of C03's example state (a conflicted register holding a counter and an
   integer, a list with one element), a local put on the conflicted key, and the emitted patch *)
Definition ex_tx : tx :=
  begin_tx [ mkOp (1, [1]) root_id (KMap [97]) false (APut (SCounter 5)) [];
             mkOp (1, [2]) root_id (KMap [97]) false (APut (SInt 7)) [];
             mkOp (2, [1]) root_id (KMap [108]) false (AMake OList) [];
             mkOp (3, [1]) (2, [1]) (KSeq head_id) true (APut (SInt 1)) [] ] [1].

Example C09_local_patch_nonvacuous :
  let v := view_of_obs EncCP (observe (tx_all ex_tx)) in
  v = VMap root_id [([97], (VScalar (SInt 7), true)); ([108], (VList (2, [1]) [(VScalar (SInt 1), false)], false))] /\
  exists t' pa,
    step EncCP ex_tx (CPut root_id (PMap [97]) (SStr [120])) = EOk t' /\
    local_action (PMap [97]) (next_id ex_tx) (APut (SStr [120])) (reg_at (tx_all ex_tx) root_id (KMap [97])) = Some pa /\
    apply_patches EncCP [mkPatch root_id [] pa] v = Some (view_of_obs EncCP (observe (tx_all t'))).
Proof.
  split; [vm_compute; reflexivity|]. eexists. eexists. split; [vm_compute; reflexivity|].
  split; vm_compute; reflexivity.
Qed.

Example C09_local_patch_sound_nonvacuous :
  exists m', apply_action EncCP (VMap root_id [([97], (VScalar (SCounter 5), false))])
                          (Increment (PMap [97]) 3) = Some (VMap root_id m') /\
             shell_lookup [97] m' = entry_shell (after_reg (2, [1]) (AInc 3) [((1, [1]), VC 5)]).
Proof. eexists. split; vm_compute; reflexivity. Qed.

Example C09_composition_nonvacuous :
  apply_patches EncCP ([mkPatch root_id [] (PutMap [97] (PVO OList (1, [1])) false)]
                       ++ [mkPatch (1, [1]) [(root_id, PMap [97])] (Insert 0 [(PVS (SInt 1), false)])])
                (VMap root_id [])
  = Some (VMap root_id [([97], (VList (1, [1]) [(VScalar (SInt 1), false)], false))]).
Proof. vm_compute. reflexivity. Qed.
