(* C10 — History is immutable and content-addressed: the get_changes part.
   Statements only; proofs in Crdt/CommitProofs.v.  Byte identity of retrieved changes and
   hash = SHA-256(chunk) are checked on the implementation (family "meta"): the model stores
   changes verbatim and cannot exhibit a re-encoding defect.
   [Built appl]: the applied list was built by appending changes whose dependencies were
   applied and whose hash was new — an invariant of every delivery and commit
   (C10_built_reachable). *)
From AM Require Import Base.Prelude Base.Order Crdt.Types Crdt.Doc Crdt.QueueProofs Crdt.ClockProofs
  Crdt.Commit Crdt.CommitProofs.
Local Open Scope N_scope.

(* get_changes(have) = exactly the applied changes that are not ancestors of [have] ([Anc] is
   the reflexive-transitive dependency relation from the given hashes; unknown hashes count for
   nothing), none twice, each after those of its dependencies that are returned; a dependency
   that is not returned is an ancestor of [have] *)
Theorem C10_get_changes_spec : forall appl have, Built appl ->
  (forall c, In c (get_changes appl have) <-> In c appl /\ ~ Anc appl have c) /\
  NoDup (hashes (get_changes appl have)) /\
  (forall pre c post, get_changes appl have = pre ++ c :: post ->
     forall h, In h (ch_deps c) ->
       In h (hashes pre) \/ exists d, Anc appl have d /\ ch_hash d = h).
Proof. exact get_changes_spec. Qed.

Theorem C10_built_reachable : forall steps m,
  run_fresh m_empty steps -> m_run m_empty steps = Ok m -> Built (applied (m_doc m)).
Proof. intros steps m Hf H. exact (proj1 (MInv_run steps m_empty m MInv_empty Hf H)). Qed.

(* the code does not walk the graph: it computes a per-actor sequence clock of [have] and
   returns every change above it ([get_changes_impl], mirror of get_build_indexes).  That is the
   specification whenever each actor's changes form a chain under the ancestor relation ... *)
Theorem C10_get_changes_impl_eq_spec : forall appl have, Built appl -> ActorChain appl ->
  get_changes_impl appl have = get_changes appl have.
Proof. exact get_changes_impl_eq_spec. Qed.

(* ... which holds in every state reached from the empty document by local commits (plain,
   empty, isolated: since the repair of isolate_actor an isolated transaction is written by an
   actor whose latest change is an ancestor of the isolation heads) and by deliveries of changes
   that continue their actor's chain ([run_chain_ok], see C04_chain_invariant) *)
Theorem C10_get_changes_impl_reachable : forall steps m have,
  run_fresh m_empty steps -> run_chain_ok m_empty steps -> m_run m_empty steps = Ok m ->
  get_changes_impl (applied (m_doc m)) have = get_changes (applied (m_doc m)) have.
Proof. exact get_changes_impl_reachable. Qed.

(* non-vacuity of the hypotheses: a run with a delivery and all three kinds of commit *)
Example C10_reachable_nonvacuous :
  let c1 := mkChange 11 [1] 1 1 [] [dummy_op] in
  let steps := [ SCommit (mkReq [2] None [dummy_op] false 21);
                 SReceive [c1];
                 SCommit (mkReq [2] None [] true 22);
                 SCommit (mkReq [2] (Some [21]) [dummy_op] false 23) ] in
  run_fresh m_empty steps /\ run_chain_ok m_empty steps /\ exists m, m_run m_empty steps = Ok m.
Proof.
  split; [cbn; repeat split; vm_compute; intuition discriminate|]. split; [|eexists; vm_compute; reflexivity].
  cbn [run_chain_ok step_chain_ok m_step bind]. split; [exact I|].
  destruct (m_commit m_empty _) as [[m1 o1]| |] eqn:E1; vm_compute in E1; inversion E1; subst; clear E1.
  cbn [bind]. split.
  - intros pre c post. vm_compute. intros H.
    destruct pre as [|x pre]; [|destruct pre; discriminate]. inversion H; subst. split; [vm_compute; reflexivity|].
    intros p. vm_compute. discriminate.
  - cbn [m_step bind]. repeat (match goal with |- True /\ _ => split; [exact I|] end;
      match goal with |- context [m_commit ?m ?r] => destruct (m_commit m r) as [[? ?]| |] eqn:?E; vm_compute in E; inversion E; subst; clear E; cbn [bind m_step] end).
    exact I.
Qed.

(* non-vacuity: a two-branch history; asking with one branch returns the other *)
Example C10_nonvacuous :
  let a := [ mkChange 1 [1] 1 1 [] [dummy_op]; mkChange 2 [1] 2 2 [1] [dummy_op];
             mkChange 3 [2] 1 2 [1] [dummy_op]; mkChange 4 [1] 3 3 [2; 3] [] ] in
  hashes (get_changes a [2]) = [3; 4] /\ hashes (get_changes_impl a [2]) = [3; 4] /\
  hashes (get_changes a [9]) = [1; 2; 3; 4].
Proof. vm_compute. auto. Qed.
