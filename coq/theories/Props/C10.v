(* C10 — History is immutable and content-addressed: the get_changes part.
   Statements only; proofs in Crdt/CommitProofs.v.  Byte identity of retrieved changes and
   hash = SHA-256(chunk) are checked on the implementation (family "meta"): the model stores
   changes verbatim and cannot exhibit a re-encoding defect.
   [Built appl]: the applied list was built by appending changes whose dependencies were
   applied and whose hash was new — an invariant of every delivery and commit
   (C10_built_reachable). *)
From AM Require Import Base.Prelude Base.Order Crdt.Types Crdt.Doc Crdt.QueueProofs Crdt.ClockProofs
  Crdt.Commit Crdt.CommitProofs.
Local Open Scope N_scope.

(* get_changes(have) = exactly the applied changes that are not ancestors of [have] ([Anc] is
   the reflexive-transitive dependency relation from the given hashes; unknown hashes count for
   nothing), none twice, each after those of its dependencies that are returned; a dependency
   that is not returned is an ancestor of [have] *)
Theorem C10_get_changes_spec : forall appl have, Built appl ->
  (forall c, In c (get_changes appl have) <-> In c appl /\ ~ Anc appl have c) /\
  NoDup (hashes (get_changes appl have)) /\
  (forall pre c post, get_changes appl have = pre ++ c :: post ->
     forall h, In h (ch_deps c) ->
       In h (hashes pre) \/ exists d, Anc appl have d /\ ch_hash d = h).
Proof. exact get_changes_spec. Qed.

Theorem C10_built_reachable : forall steps m,
  run_fresh m_empty steps -> m_run m_empty steps = Ok m -> Built (applied (m_doc m)).
Proof. intros steps m Hf H. exact (proj1 (MInv_run steps m_empty m MInv_empty Hf H)). Qed.

(* the code does not walk the graph: it computes a per-actor sequence clock of [have] and
   returns every change above it ([get_changes_impl], mirror of get_build_indexes).  That is the
   specification whenever each actor's changes form a chain under the ancestor relation ... *)
Theorem C10_get_changes_impl_eq_spec : forall appl have, Built appl -> ActorChain appl ->
  get_changes_impl appl have = get_changes appl have.
Proof. exact get_changes_impl_eq_spec. Qed.

(* ... and NOT in general: the library itself can create a history without that chain (a
   change, an empty change, then a transaction isolated at the first change — all by one actor:
   isolate_actor accepts the actor because an empty change has no op of its own).  In that
   reachable state get_changes([3]) as computed by the code omits change 2, which is not an
   ancestor of 3.  Reported as a finding (the implementation reproduces it). *)
Theorem C10_get_changes_impl_refuted :
  exists steps m c, run_fresh m_empty steps /\ m_run m_empty steps = Ok m /\
    In c (applied (m_doc m)) /\ ~ In c (ancestors (applied (m_doc m)) [3]) /\
    In c (get_changes (applied (m_doc m)) [3]) /\
    ~ In c (get_changes_impl (applied (m_doc m)) [3]).
Proof. exact get_changes_impl_refuted. Qed.

(* non-vacuity: a two-branch history; asking with one branch returns the other *)
Example C10_nonvacuous :
  let a := [ mkChange 1 [1] 1 1 [] [dummy_op]; mkChange 2 [1] 2 2 [1] [dummy_op];
             mkChange 3 [2] 1 2 [1] [dummy_op]; mkChange 4 [1] 3 3 [2; 3] [] ] in
  hashes (get_changes a [2]) = [3; 4] /\ hashes (get_changes_impl a [2]) = [3; 4] /\
  hashes (get_changes a [9]) = [1; 2; 3; 4].
Proof. vm_compute. auto. Qed.
