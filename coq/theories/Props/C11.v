(* C11 — Save/load round-trips a document exactly (framing part).
   Statements only; proofs in Store/ChunkProofs.v.  PARTIAL: the columnar document codec
   (that the body written by save parses back to the document's changes, [body] below) is a
   parameter of the model and is checked differentially on the implementation, not proved. *)
From AM Require Import Base.Prelude Base.Leb128 Gen.Consts Store.Chunk Store.ChunkProofs.

(* the output of save is one document chunk: loading it, strictly or with partial loads allowed,
   is exactly the body's changes applied to the empty document, whatever it leaves in the queue *)
Theorem C11_load_saved_document_partial :
  forall Hsh : bytes -> bytes, (forall x : bytes, 4 <= length (Hsh x)) ->
  forall (C : Type) (body : N -> bytes -> option (list C)) (inflate : bytes -> option bytes)
    (D : Type) (empty : D) (apply : D -> list C -> res D) (queue_empty : D -> bool)
    (data : bytes) (cs : list C) (m : mode),
  (lenN data < pow64)%N -> body CHUNK_DOCUMENT data = Some cs ->
  load Hsh C body inflate D empty apply queue_empty m (encode_chunk Hsh CHUNK_DOCUMENT data) = apply empty cs.
Proof. exact load_saved_document. Qed.

(* the chunk parser gives back exactly the bytes' (type, body): nothing of a written chunk is lost
   or re-interpreted on the way in *)
Theorem C11_parse_written :
  forall Hsh : bytes -> bytes, (forall x : bytes, 4 <= length (Hsh x)) ->
  forall (C : Type) (body : N -> bytes -> option (list C)) (inflate : bytes -> option bytes)
    (b : bytes) (cs : list C) (ty : N) (rest : list N),
  written Hsh C body inflate b cs ty -> parse_chunk Hsh C body inflate (b ++ rest) = Ok (ty, cs, rest).
Proof. exact parse_written. Qed.

Section Example.
  Local Open Scope N_scope.
  Let H (_ : bytes) : bytes := [1; 2; 3; 4].
  Let bd (_ : N) (d : bytes) : option (list N) := Some d.
  Let inf (d : bytes) : option bytes := Some d.
  Let ap (d : list N) (cs : list N) : res (list N) := Ok (d ++ cs).
  Example C11_roundtrip_example :
    load H N bd inf (list N) [] ap (fun _ => false) Strict (encode_chunk H CHUNK_DOCUMENT [7; 8]) = Ok [7; 8].
  Proof. vm_compute. reflexivity. Qed.
End Example.
