(* C11 — Save/load round-trips a document exactly (framing part).
   Statements only; proofs in Store/ChunkProofs.v.  PARTIAL: the columnar document codec
   (that the body written by save parses back to the document's changes, [body] below) is a
   parameter of the model and is checked differentially on the implementation, not proved. *)
From AM Require Import Base.Prelude Base.Leb128 Gen.Consts Store.Chunk Store.ChunkProofs.
From AM Require Import Store.ChangeChunk Store.DocChunk Store.DocChunkProofs Store.DocCols Exec.DocExec Store.DocBodyProofs.

(* the output of save is one document chunk: loading it, strictly or with partial loads allowed,
   is exactly the body's changes applied to the empty document, whatever it leaves in the queue *)
Theorem C11_load_saved_document_partial :
  forall Hsh : bytes -> bytes, (forall x : bytes, 4 <= length (Hsh x)) ->
  forall (C : Type) (body : N -> bytes -> option (list C)) (inflate : bytes -> option bytes)
    (D : Type) (empty : D) (apply : D -> list C -> res D) (queue_empty : D -> bool)
    (data : bytes) (cs : list C) (m : mode),
  (lenN data < pow64)%N -> body CHUNK_DOCUMENT data = Some cs ->
  load Hsh C body inflate D empty apply queue_empty m (encode_chunk Hsh CHUNK_DOCUMENT data) = apply empty cs.
Proof. exact load_saved_document. Qed.

(* the chunk parser gives back exactly the bytes' (type, body): nothing of a written chunk is lost
   or re-interpreted on the way in *)
Theorem C11_parse_written :
  forall Hsh : bytes -> bytes, (forall x : bytes, 4 <= length (Hsh x)) ->
  forall (C : Type) (body : N -> bytes -> option (list C)) (inflate : bytes -> option bytes)
    (b : bytes) (cs : list C) (ty : N) (rest : list N),
  written Hsh C body inflate b cs ty -> parse_chunk Hsh C body inflate (b ++ rest) = Ok (ty, cs, rest).
Proof. exact parse_written. Qed.

Section Example.
  Local Open Scope N_scope.
  Let H (_ : bytes) : bytes := [1; 2; 3; 4].
  Let bd (_ : N) (d : bytes) : option (list N) := Some d.
  Let inf (d : bytes) : option bytes := Some d.
  Let ap (d : list N) (cs : list N) : res (list N) := Ok (d ++ cs).
  Example C11_roundtrip_example :
    load H N bd inf (list N) [] ap (fun _ => false) Strict (encode_chunk H CHUNK_DOCUMENT [7; 8]) = Ok [7; 8].
  Proof. vm_compute. reflexivity. Qed.
End Example.

(* ---------------------------------------------------------------- the document chunk body
   (Store/DocChunk.v: Document::parse / Document::new; Store/DocCols.v: the change-metadata columns).
   Proofs in Store/DocChunkProofs.v and Store/DocBodyProofs.v. *)

(* the reader inverts the writer on every well-formed body, whatever DEFLATE is *)
Theorem C11_doc_body_roundtrip :
  forall (inflate : bytes -> option bytes) (d : doc_body),
  wf_doc d -> parse_doc inflate (write_doc d) = Ok d.
Proof. exact doc_body_roundtrip. Qed.

Example C11_doc_body_roundtrip_nonvacuous : wf_doc ex_doc /\ parse_doc no_inflate (write_doc ex_doc) = Ok ex_doc.
Proof. split; [exact ex_doc_wf|exact ex_doc_roundtrip]. Qed.

(* without compressed columns the reader accepts only the writer's output: what it parsed re-encodes
   to the very bytes it read (so a re-saved, unchanged body keeps its checksum) and is well-formed *)
Theorem C11_doc_body_canonical :
  forall (b : bytes) (d : doc_body),
  wf_bytes b -> (lenN b < pow64)%N -> parse_doc no_inflate b = Ok d -> write_doc d = b /\ wf_doc d.
Proof. exact doc_body_canonical. Qed.

(* ... but the head indexes it parsed are never checked: two different bodies (two checksums), one
   document.  This matters for C10 / C14 only as "the bytes of a document chunk are not a function of
   the document": a corrupted head index with a recomputed checksum is accepted. *)
Theorem C11_doc_head_index_unchecked_refuted :
  exists b1 b2 d1 d2, b1 <> b2
    /\ parse_doc no_inflate b1 = Ok d1 /\ parse_doc no_inflate b2 = Ok d2
    /\ d_actors d1 = d_actors d2 /\ d_heads d1 = d_heads d2 /\ d_ccols d1 = d_ccols d2
    /\ d_ocols d1 = d_ocols d2 /\ d_cdata d1 = d_cdata d2 /\ d_odata d1 = d_odata d2
    /\ d_hidx d1 = [0; 1]%N /\ d_hidx d2 = [77; 18446744073709551615]%N.
Proof. exact parse_doc_head_index_unchecked. Qed.

(* no chunk body and no DEFLATE make Document::parse panic *)
Theorem C11_parse_doc_no_panic :
  forall (inflate : bytes -> option bytes) (b : bytes), parse_doc inflate b <> Panic.
Proof. exact parse_doc_no_panic. Qed.

(* a declared actor count above the number of remaining bytes is rejected by the count test *)
Theorem C11_parse_doc_count_bound :
  forall (inflate : bytes -> option bytes) (n : N) (rest : bytes),
  (n < pow64)%N -> (lenN rest < n)%N -> parse_doc inflate (uleb_enc n ++ rest) = Err.
Proof. exact parse_doc_count_bound. Qed.

(* the decoder of the change-metadata columns (ChangeGraphCols::load) is NOT panic free: its
   streaming hexane decoders unwrap, and it indexes max_ops with untrusted dependency indexes
   (known findings of C15) *)
Theorem C11_decode_change_cols_panics_refuted :
  exists cols ms, decode_change_cols 1 cols = Panic
    /\ decode_change_cols 1 (encode_change_cols ms) = Ok ms /\ length ms = 1%nat.
Proof. exact decode_change_cols_dep_index_panics_refuted. Qed.

(* C11_load_saved_document_partial with the document body instantiated: [body CHUNK_DOCUMENT] is
   parse_doc followed by decode_change_cols.  PARTIAL: the reconstruction of the changes from the op
   columns and that metadata ([recon]: OpSet::load + ChangeCollector) stays a parameter, and
   [decode_change_cols (encode_change_cols ms) = Ok ms] is established by computation on examples
   (Store/DocBodyProofs.v ex_metas_roundtrip) and by the correspondence family, not yet by a theorem. *)
Theorem C11_load_saved_document_body_partial :
  forall Hsh : bytes -> bytes, (forall x : bytes, 4 <= length (Hsh x)) ->
  forall (C : Type) (inflate : bytes -> option bytes)
    (recon : doc_body -> list chmeta -> option (list C)) (other : N -> bytes -> option (list C))
    (D : Type) (empty : D) (apply : D -> list C -> res D) (queue_empty : D -> bool)
    (d : doc_body) (ms : list chmeta) (cs : list C) (m : mode),
  wf_doc d -> (lenN (write_doc d) < pow64)%N -> doc_metas d = Ok ms -> recon d ms = Some cs ->
  load Hsh C (doc_chunk_body inflate recon other) inflate D empty apply queue_empty m
    (encode_chunk Hsh CHUNK_DOCUMENT (write_doc d)) = apply empty cs.
Proof. exact load_saved_doc_body. Qed.

Example C11_change_cols_roundtrip_example :
  wf_metasb 3 ex_metas = true /\ decode_change_cols 3 (encode_change_cols ex_metas) = Ok ex_metas.
Proof. split; [exact ex_metas_wf|exact ex_metas_roundtrip]. Qed.
