(* C12 — Incremental saves and loads compose.
   Statements only; proofs in Store/ChunkProofs.v, Store/Refeed.v. *)
From AM Require Import Base.Prelude Base.Leb128 Gen.Consts Store.Chunk Store.ChunkProofs.
From AM Require Import Crdt.Types Crdt.Doc Store.Refeed.

(* any concatenation of written chunks (one save followed by incremental saves) loads to the
   changes of all of them, in order, applied to the empty document *)
Theorem C12_concat_loads :
  forall Hsh : bytes -> bytes, (forall x : bytes, 4 <= length (Hsh x)) ->
  forall (C : Type) (body : N -> bytes -> option (list C)) (inflate : bytes -> option bytes)
    (D : Type) (empty : D) (apply : D -> list C -> res D) (queue_empty : D -> bool)
    (x : bytes * list C * N) (l : list (bytes * list C * N)) (m : mode),
  all_written Hsh C body inflate (x :: l) ->
  load Hsh C body inflate D empty apply queue_empty m (flat C (x :: l)) =
    match m with
    | Strict => strict_result C D empty apply queue_empty (snd x) (changes_of C (x :: l))
    | Ignore => apply empty (changes_of C (x :: l))
    end.
Proof. exact load_complete. Qed.

(* load_incremental of the pieces written after some point applies exactly their changes *)
Theorem C12_load_incremental :
  forall Hsh : bytes -> bytes, (forall x : bytes, 4 <= length (Hsh x)) ->
  forall (C : Type) (body : N -> bytes -> option (list C)) (inflate : bytes -> option bytes)
    (D : Type) (empty : D) (apply : D -> list C -> res D) (queue_empty is_empty : D -> bool)
    (d : D) (l : stored C),
  is_empty d = false -> all_written Hsh C body inflate l ->
  load_incremental Hsh C body inflate D empty apply queue_empty is_empty d (flat C l) =
  apply d (changes_of C l).
Proof. exact load_incremental_complete. Qed.

(* the CRDT layer under it: delivering changes the document already holds (applied or held)
   has no further effect — feeding the same pieces again changes nothing *)
Theorem C12_refeed_no_effect : forall (d : doc) (cs : list change) (d' : doc) (cs' : list change),
  receive d cs = Ok d' -> incl cs' cs -> receive d' cs' = Ok d'.
Proof. exact receive_again. Qed.
