(* C13 — Truncated storage loads to the last complete save.
   Statements only; proofs in Store/ChunkProofs.v.  The model (Store/Chunk.v) is the byte-level
   framing and the chunk loops of load / load_changes; the hash, the chunk body parsers, inflate
   and the CRDT-level apply are parameters, so the theorems hold for whatever they are. *)
From AM Require Import Base.Prelude Base.Leb128 Gen.Consts Store.Chunk Store.ChunkProofs.

(* Cut a file of written chunks at ANY byte k.  l1 = the chunks wholly inside the cut.
   Partial loads allowed: the empty document for the empty cut, an error inside the first chunk,
   otherwise exactly what the file cut at the last chunk boundary loads to.
   Strict load: an error unless the cut is a chunk boundary, where it is the load of that file. *)
Theorem C13_truncated_load :
  forall Hsh : bytes -> bytes, (forall x : bytes, 4 <= length (Hsh x)) ->
  forall (C : Type) (body : N -> bytes -> option (list C)) (inflate : bytes -> option bytes)
    (D : Type) (empty : D) (apply : D -> list C -> res D) (queue_empty : D -> bool)
    (l : stored C) (k : nat),
  all_written Hsh C body inflate l -> k <= length (flat C l) ->
  exists l1 l2 : list (bytes * list C * N),
    l = l1 ++ l2 /\
    length (flat C l1) <= k /\
    (forall x l2', l2 = x :: l2' -> k < length (flat C l1) + length (fst (fst x))) /\
    (l2 = [] -> k = length (flat C l)) /\
    load Hsh C body inflate D empty apply queue_empty Ignore (firstn k (flat C l)) =
      match l1 with
      | [] => if Nat.eqb k 0 then Ok empty else Err
      | _ :: _ => load Hsh C body inflate D empty apply queue_empty Ignore (flat C l1)
      end /\
    (k <> length (flat C l1) ->
      load Hsh C body inflate D empty apply queue_empty Strict (firstn k (flat C l)) = Err) /\
    (k = length (flat C l1) ->
      load Hsh C body inflate D empty apply queue_empty Strict (firstn k (flat C l)) =
      load Hsh C body inflate D empty apply queue_empty Strict (flat C l1)).
Proof. exact truncated_load. Qed.

(* what a complete file loads to: every chunk's changes, in order, applied to the empty document *)
Theorem C13_load_complete :
  forall Hsh : bytes -> bytes, (forall x : bytes, 4 <= length (Hsh x)) ->
  forall (C : Type) (body : N -> bytes -> option (list C)) (inflate : bytes -> option bytes)
    (D : Type) (empty : D) (apply : D -> list C -> res D) (queue_empty : D -> bool)
    (x : bytes * list C * N) (l : list (bytes * list C * N)) (m : mode),
  all_written Hsh C body inflate (x :: l) ->
  load Hsh C body inflate D empty apply queue_empty m (flat C (x :: l)) =
    match m with
    | Strict => strict_result C D empty apply queue_empty (snd x) (changes_of C (x :: l))
    | Ignore => apply empty (changes_of C (x :: l))
    end.
Proof. exact load_complete. Qed.

(* the framing is prefix-free: no strict prefix of a written chunk has a parsable header *)
Theorem C13_prefix_free :
  forall Hsh : bytes -> bytes, (forall x : bytes, 4 <= length (Hsh x)) ->
  forall (C : Type) (body : N -> bytes -> option (list C)) (inflate : bytes -> option bytes)
    (b : bytes) (cs : list C) (ty : N) (k : nat),
  written Hsh C body inflate b cs ty -> k < length b -> parse_header (firstn k b) = Err.
Proof. exact prefix_no_header. Qed.

(* neither load ever panics on ANY bytes (the framing layer; apply is the CRDT layer) *)
Theorem C13_load_no_panic :
  forall (Hsh : bytes -> bytes) (C : Type) (body : N -> bytes -> option (list C))
    (inflate : bytes -> option bytes) (D : Type) (empty : D) (apply : D -> list C -> res D)
    (queue_empty : D -> bool) (m : mode) (bs : bytes),
  (forall (d : D) (cs : list C), apply d cs <> Panic) ->
  load Hsh C body inflate D empty apply queue_empty m bs <> Panic.
Proof. exact load_no_panic. Qed.

(* non-vacuity: a toy instance (constant 4-byte hash, every body parses to its bytes) has written
   chunks, and a two-chunk file cut inside its second chunk loads to the first chunk *)
Section Example.
  Let H (_ : bytes) : bytes := [1; 2; 3; 4]%N.
  Let bd (_ : N) (d : bytes) : option (list N) := Some d.
  Let inf (d : bytes) : option bytes := Some d.
  Let ap (d : list N) (cs : list N) : res (list N) := Ok (d ++ cs).
  Let c1 := encode_chunk H CHUNK_DOCUMENT [7; 8]%N.
  Let c2 := encode_chunk H CHUNK_CHANGE [9]%N.
  Example C13_written_exists :
    all_written H N bd inf [(c1, [7; 8]%N, CHUNK_DOCUMENT); (c2, [9]%N, CHUNK_CHANGE)].
  Proof.
    constructor; [|constructor; [|constructor]]; cbn [fst snd]; unfold c1, c2;
      apply w_plain; try reflexivity; discriminate.
  Qed.
  Example C13_cut_inside_second :
    load H N bd inf (list N) [] ap (fun _ => true) Ignore (firstn 15 (c1 ++ c2)) = Ok [7; 8]%N
    /\ load H N bd inf (list N) [] ap (fun _ => true) Strict (firstn 15 (c1 ++ c2)) = Err
    /\ load H N bd inf (list N) [] ap (fun _ => true) Strict (c1 ++ c2) = Ok [7; 8; 9]%N.
  Proof. vm_compute. repeat split. Qed.
End Example.
