(* C14 — Corrupted storage is rejected.
   Statements only; proofs in Store/CorruptProofs.v.  The model is the chunk parser of
   Store/Chunk.v (storage/chunk.rs Header::parse, Chunk::parse + checksum_valid); the hash is a
   parameter, so "rejected" is proved up to a collision of its first four bytes, which is all a
   4-byte checksum can promise.  The full statement is REFUTED for compressed change chunks
   (C14_compressed_refuted; known finding: DEFLATE padding bits). *)
From AM Require Import Base.Prelude Base.Leb128 Gen.Consts Store.Chunk Store.ChunkProofs Store.CorruptProofs.

(* every accepted uncompressed chunk is, byte for byte, the writer's encoding of what it carries *)
Theorem C14_accepted_is_canonical :
  forall (Hsh : bytes -> bytes) (C : Type) (body : N -> bytes -> option (list C))
    (inflate : bytes -> option bytes) (bs : bytes) (ty : N) (cs : list C) (rest : bytes),
  wf_bytes bs -> parse_chunk Hsh C body inflate bs = Ok (ty, cs, rest) -> ty <> CHUNK_COMPRESSED ->
  exists data : bytes, bs = encode_chunk Hsh ty data ++ rest /\ body ty data = Some cs.
Proof. exact accepted_is_canonical. Qed.

(* [x] stands where the writer put [encode_chunk ty data] but differs from it (any corruption that
   keeps the length, in particular any single flipped bit).  If it is accepted at all it is accepted
   as a DIFFERENT (type, data) pair whose checksum is what the checksum field of [x] says *)
Theorem C14_corrupted_chunk :
  forall Hsh : bytes -> bytes, (forall x : bytes, 4 <= length (Hsh x)) ->
  forall (C : Type) (body : N -> bytes -> option (list C)) (inflate : bytes -> option bytes)
    (x tail : list N) (ty : N) (data : bytes) (ty' : N) (cs' : list C) (rest' : bytes),
  wf_bytes (x ++ tail) ->
  length x = length (encode_chunk Hsh ty data) -> x <> encode_chunk Hsh ty data ->
  parse_chunk Hsh C body inflate (x ++ tail) = Ok (ty', cs', rest') -> ty' <> CHUNK_COMPRESSED ->
  exists data' : bytes,
    (ty', data') <> (ty, data) /\ x ++ tail = encode_chunk Hsh ty' data' ++ rest' /\
    firstn 4 (skipn 4 (x ++ tail)) = checksum_of Hsh ty' data'.
Proof. exact corrupted_chunk. Qed.

(* the corruption missed the checksum field: acceptance needs two different (type, data) pairs with
   the same 4-byte checksum *)
Theorem C14_rejected_or_collision :
  forall Hsh : bytes -> bytes, (forall x : bytes, 4 <= length (Hsh x)) ->
  forall (C : Type) (body : N -> bytes -> option (list C)) (inflate : bytes -> option bytes)
    (x tail : list N) (ty : N) (data : bytes) (ty' : N) (cs' : list C) (rest' : bytes),
  wf_bytes (x ++ tail) ->
  length x = length (encode_chunk Hsh ty data) -> x <> encode_chunk Hsh ty data ->
  firstn 4 (skipn 4 x) = checksum_of Hsh ty data ->
  parse_chunk Hsh C body inflate (x ++ tail) = Ok (ty', cs', rest') -> ty' <> CHUNK_COMPRESSED ->
  exists data' : bytes, (ty', data') <> (ty, data) /\ checksum_of Hsh ty' data' = checksum_of Hsh ty data.
Proof. exact corrupted_chunk_collision. Qed.

(* the corruption hit only the checksum field: rejected, no condition on the hash *)
Theorem C14_checksum_field_hit :
  forall (Hsh : bytes -> bytes) (C : Type) (body : N -> bytes -> option (list C))
    (inflate : bytes -> option bytes) (ck tail : list N) (ty : N) (data : bytes),
  length ck = 4 -> ck <> checksum_of Hsh ty data ->
  valid_type ty = true -> ty <> CHUNK_COMPRESSED -> (lenN data < pow64)%N ->
  parse_chunk Hsh C body inflate (MAGIC_BYTES ++ ck ++ [ty] ++ uleb_enc (lenN data) ++ data ++ tail) = Err.
Proof. exact checksum_field_hit. Qed.

(* REFUTED for compressed change chunks: the checksum covers the inflated bytes only, so a
   different deflate stream of the same plain bytes is a different chunk that is accepted *)
Theorem C14_compressed_refuted :
  forall Hsh : bytes -> bytes, (forall x : bytes, 4 <= length (Hsh x)) ->
  forall (C : Type) (body : N -> bytes -> option (list C)) (inflate : bytes -> option bytes)
    (d d' plain : bytes) (cs : list C) (rest : list N),
  (lenN d < pow64)%N -> (lenN d' < pow64)%N ->
  inflate d = Some plain -> inflate d' = Some plain -> body CHUNK_CHANGE plain = Some cs ->
  parse_chunk Hsh C body inflate (encode_compressed Hsh d' plain ++ rest) = Ok (CHUNK_COMPRESSED, cs, rest) /\
  (d <> d' -> encode_compressed Hsh d' plain <> encode_compressed Hsh d plain).
Proof. exact compressed_stream_not_covered. Qed.

(* non-vacuity: a toy instance in which a flipped data byte is rejected and a flipped "padding"
   byte of a compressed chunk is accepted *)
Section Example.
  Local Open Scope N_scope.
  Let H (x : bytes) : bytes := [fold_right N.add 0 x mod 256; 2; 3; 4].
  Let bd (_ : N) (d : bytes) : option (list N) := Some d.
  Let inf (d : bytes) : option bytes := Some (firstn 1 d).
  Example C14_flip_rejected :
    parse_chunk H N bd inf (encode_chunk H CHUNK_CHANGE [7; 8]) = Ok (CHUNK_CHANGE, [7; 8], [])
    /\ parse_chunk H N bd inf (MAGIC_BYTES ++ checksum_of H CHUNK_CHANGE [7; 8] ++ [CHUNK_CHANGE; 2; 7; 9]) = Err.
  Proof. vm_compute. split; reflexivity. Qed.
  Example C14_padding_accepted :
    parse_chunk H N bd inf (encode_compressed H [5; 1] [5]) = Ok (CHUNK_COMPRESSED, [5], [])
    /\ encode_compressed H [5; 1] [5] <> encode_compressed H [5; 0] [5].
  Proof. vm_compute. split; [reflexivity|discriminate]. Qed.
End Example.
