(* C15 — Untrusted bytes and strings never crash the library.
   FULL for the small decoders and containers listed below, PARTIAL for the property as a whole.

   Statements only.  Each theorem says: for ALL byte strings / strings the modelled decoder returns
   a value or an error, never [Panic] — the models (written line by line from the Rust, partial
   operations such as indexing, unwrap, `%`, narrowing and debug-build overflow as [Panic]) are
     Base/Leb128, Base/Sleb128           storage/parse/leb128.rs (unsigned / signed readers)
     Hexane/Hleb                         hexane's varint readers (leb128 crate): option-valued, total
     Store/Chunk                         chunk header, chunk parser, the chunk loops of load /
                                         load_incremental (hash, body parsers, inflate, apply = parameters)
     Store/ChangeChunk                   the change chunk body (storage/change.rs parse_following_header)
     Codec/Bloom                         sync/bloom.rs parse and contains_hash
     Codec/ExId, CursorCodec, Hex        ObjId / Cursor from bytes and text, ActorId / ChangeHash hex, import_obj
     Codec/SyncCodec                     sync Message::decode and State::decode
     Hexane/Rle, BoolCol, Delta          hexane Column::<T>::load / Column::<bool>::load / DeltaColumn::load
                                         (as of /repo a623e02f7 and 1187ab90a)
   NOT modelled, hence not covered by any theorem here: the document / change / bundle OP and CHANGE
   column readers above hexane (op_set2, change_graph.rs, change/collector.rs, storage/bundle, the
   streaming `hexane::decoder`s they use, columnar/encoding), Automerge::rescue, and what
   receive_sync_message does with the chunks of a decoded message.  Those are explored by the harness
   family `robust` (structure-aware mutation with the chunk checksum recomputed) and they DO panic on
   the unchanged tree: see known_findings.txt, property=C15. *)
From AM Require Import Base.Prelude Base.Leb128 Base.Sleb128 Base.Sleb128Proofs Gen.Consts
  Store.Chunk Store.ChunkProofs Store.ChangeChunk Store.ChangeChunkProofs
  Codec.Bloom Codec.BloomProofs Codec.Hex Codec.HexProofs Codec.ExId Codec.ExIdProofs
  Codec.CursorCodec Codec.CursorProofs Codec.SyncCodec Codec.SyncProofs
  Hexane.Hleb Hexane.Rle Hexane.RleProofs Hexane.BoolCol Hexane.BoolColProofs Hexane.Delta Hexane.DeltaProofs.
From AM Require Exec.RobustExec.
Local Open Scope N_scope.

(* ---- LEB128 ---- *)
Theorem C15_uleb_no_panic : forall l : bytes, uleb_dec l <> Panic.
Proof. exact uleb_dec_no_panic. Qed.
Theorem C15_uleb_u32_no_panic : forall l : bytes, uleb_dec_u32 l <> Panic.
Proof. exact uleb_dec_u32_no_panic. Qed.
Theorem C15_sleb_no_panic : forall l : bytes, sleb_dec l <> Panic.
Proof. exact sleb_dec_no_panic. Qed.

(* ---- chunk framing and the chunk loops (any hash, body parser, inflate; apply = the CRDT layer) ---- *)
Theorem C15_chunk_header_no_panic : forall bs : bytes, parse_header bs <> Panic.
Proof. exact parse_header_no_panic. Qed.
Theorem C15_chunk_no_panic :
  forall (Hsh : bytes -> bytes) (C : Type) (body : N -> bytes -> option (list C))
    (inflate : bytes -> option bytes) (bs : bytes),
  parse_chunk Hsh C body inflate bs <> Panic.
Proof. exact parse_chunk_no_panic. Qed.
Theorem C15_load_framing_no_panic :
  forall (Hsh : bytes -> bytes) (C : Type) (body : N -> bytes -> option (list C))
    (inflate : bytes -> option bytes) (D : Type) (empty : D) (apply : D -> list C -> res D)
    (queue_empty : D -> bool) (m : mode) (bs : bytes),
  (forall (d : D) (cs : list C), apply d cs <> Panic) ->
  load Hsh C body inflate D empty apply queue_empty m bs <> Panic.
Proof. exact load_no_panic. Qed.

(* ---- change chunk body ---- *)
Theorem C15_change_body_no_panic : forall b : bytes, parse_body b <> Panic.
Proof. exact parse_body_no_panic. Qed.

(* ---- Bloom filter: decoding, and every query on every decodable filter ---- *)
Theorem C15_bloom_parse_no_panic : forall bs : bytes, Bloom.parse bs <> Panic.
Proof. exact bloom_parse_no_panic. Qed.
Theorem C15_bloom_query_total : forall (bs : bytes) (f : filter) (rest h : bytes),
  Bloom.parse bs = Ok (f, rest) -> 16 * lenN bs <= pow32 -> exists b, contains f h = Ok b.
Proof. exact bloom_query_total. Qed.
Example C15_bloom_d3_nonvacuous :
  (* the filter that divided by zero before 2a7510a94: entries 1, zero bits per entry, 7 probes, no bits *)
  exists f, Bloom.parse [1; 0; 7] = Ok (f, []) /\ contains f (repeat 0 32) = Ok false.
Proof. eexists. split; reflexivity. Qed.

(* ---- identifiers ---- *)
Theorem C15_exid_of_bytes_no_panic : forall l : bytes, exid_of_bytes l <> Panic.
Proof. exact exid_of_bytes_no_panic. Qed.
Theorem C15_cursor_of_bytes_no_panic : forall l : bytes, cursor_of_bytes l <> Panic.
Proof. exact cursor_of_bytes_no_panic. Qed.
Theorem C15_cursor_of_str_no_panic : forall s : str, cursor_of_str s <> Panic.
Proof. exact cursor_of_str_no_panic. Qed.
Theorem C15_actor_of_str_no_panic : forall s : str, actor_of_str s <> Panic.
Proof. exact actor_of_str_no_panic. Qed.
Theorem C15_hash_of_str_no_panic : forall s : str, hash_of_str s <> Panic.
Proof. exact hash_of_str_no_panic. Qed.
Theorem C15_import_obj_no_panic : forall (t : table) (s : str), import_obj t s <> Panic.
Proof. exact import_obj_no_panic. Qed.
Example C15_d5_nonvacuous :
  (* the strings of defect D5: "", a multi-byte first character, a non-hex actor *)
  cursor_of_str [] = Err /\ cursor_of_str [233; 49; 64; 97; 97] = Err /\ import_obj [] [49; 64; 122; 122] = Err.
Proof. repeat split; reflexivity. Qed.

(* ---- sync ---- *)
Theorem C15_message_decode_no_panic : forall i : bytes, message_decode i <> Panic.
Proof. exact message_decode_no_panic. Qed.
Theorem C15_state_decode_no_panic : forall i : bytes, state_decode i <> Panic.
Proof. exact state_decode_no_panic. Qed.

(* ---- hexane column loaders (the validating `load`, not the streaming decoders) ---- *)
Theorem C15_hexane_rle_load_no_panic :
  forall (V : Type) (veqb : V -> V -> bool) (dec : bytes -> option (V * bytes)) (nullable : bool) (b : bytes),
  rle_load V veqb dec nullable b <> Panic.
Proof. intros V veqb dec nullable b. exact (rle_load_no_panic V veqb dec nullable b). Qed.
Theorem C15_hexane_columns_no_panic : forall (nullable : bool) (b : bytes),
  u64_load nullable b <> Panic /\ i64_load nullable b <> Panic /\ str_load nullable b <> Panic /\ blob_load nullable b <> Panic.
Proof.
  intros nullable b. repeat split.
  - exact (rle_load_no_panic N N.eqb u64_dec nullable b).
  - exact (rle_load_no_panic Z Z.eqb i64_dec nullable b).
  - exact (rle_load_no_panic bytes bytes_eqb str_dec nullable b).
  - exact (rle_load_no_panic bytes bytes_eqb blob_dec nullable b).
Qed.
Theorem C15_hexane_bool_load_no_panic : forall b : bytes, bool_load b <> Panic.
Proof. exact bool_load_no_panic. Qed.
Theorem C15_hexane_delta_load_no_panic : forall (nullable : bool) (lo hi : Z) (b : bytes),
  delta_load nullable lo hi b <> Panic.
Proof. exact delta_load_no_panic. Qed.
Example C15_hexane_overflow_inputs_nonvacuous :
  (* the inputs that panicked before a623e02f7: literal header i64::MIN; 2^64 declared items *)
  u64_load false [128;128;128;128;128;128;128;128;128;127] = Err /\
  u64_load true [0;255;255;255;255;255;255;255;255;255;1;2;5] = Err.
Proof. split; vm_compute; reflexivity. Qed.
