(* C16 — Any document that loads is internally consistent.                       PARTIAL (thin).

   What is proved here is deliberately little and is said plainly: the model's reads
   ([Interp.observe], [Cursor.resolve], the Bloom query) are TOTAL Gallina functions of the op list,
   so "every read succeeds" holds over the MODEL for every op list by construction, well-formed or
   not; the theorems below only add that the observation lists the root and each declared object
   exactly once, that registers come out in ascending id order without any well-formedness
   hypothesis, that the observation does not depend on the order in which a duplicate-free op list
   is held, and that cursor reads return a value or an error.
   NOT modelled: the loader's validation (Document::reconstruct, ChangeGraph::load, the mark-order
   validator, the op-set indexes) and therefore the actual claim of C16 — that whatever `load`
   accepts is a state on which the implementation's reads, edits, merges and save/load behave.  That
   claim is EXPLORED by the harness family `robust`: every structure-aware mutant of a saved document /
   change / bundle (checksum recomputed) that a loader accepts is read exhaustively, edited by a fixed
   program, merged with a clean replica in both directions, saved, reloaded and compared. *)
From AM Require Import Base.Prelude Base.Order Crdt.Types Crdt.Interp Crdt.InterpProofs Crdt.Cursor
  Crdt.RobustProofs.
From AM Require Exec.RobustExec.
From Coq Require Import Sorting.Sorted Sorting.Permutation.
Local Open Scope N_scope.

Theorem C16_reads_list_every_object_partial : forall ops : list op,
  map (fun o => (oo_id o, oo_type o)) (observe ops) = objects (isort op_cmp ops).
Proof. exact observe_objects. Qed.

Theorem C16_registers_ascending_partial : forall (ops : list op) (k : key),
  StronglySorted (le opid_cmp) (map fst (register (vis_ops (isort op_cmp ops)) k)).
Proof. exact register_ascending. Qed.

Theorem C16_observation_order_independent_partial : forall l1 l2 : list op,
  NoDup (map op_id l1) -> Permutation l1 l2 -> observe l1 = observe l2.
Proof. exact observe_perm. Qed.

Theorem C16_cursor_read_total_partial : forall (width : regobs -> N) (oops : list op) (c : opid),
  resolve width oops MoveAfter c <> Panic.
Proof. exact resolve_after_no_panic. Qed.

Example C16_ill_formed_ops_nonvacuous :
  (* an op list no loader should accept (an op on an object that does not exist, a duplicate id): the model still reads it *)
  let o := mkOp (1, [7]) (9, [9]) (KMap [97]) false (APut (SInt 1)) [] in
  length (observe [o; o]) = 1%nat.
Proof. reflexivity. Qed.
