(* C17 — Untrusted input cannot exhaust memory or time (the part that is proved).
   Statements only; proofs live in Codec/CostProofs.v (and Codec/BloomProofs.v, Codec/SyncProofs.v).

   SCOPE, honestly: these are cost bounds for the MODELLED small decoders —
     LEB128 readers (storage/parse/leb128.rs and the `leb128` crate used by hexane),
     the Bloom filter (sync/bloom.rs), the sync message and state (sync.rs, sync/state.rs),
     object ids and cursors from bytes (exid.rs, cursor.rs), the change chunk container
     (storage/change.rs: everything up to the opaque column data), the chunk header
     (storage/chunk.rs).
   For each: wherever a number read from the wire sizes an allocation or a loop, the size of the
   decoded value (elements of every Vec, bytes of every byte string: what the Rust allocates) and
   the number of loop iterations are bounded by the number of INPUT BYTES, whatever the wire
   declares; a declared count or length larger than the remaining input is rejected.

   NOT modelled, hence not covered here: the document / change / bundle COLUMN loaders (hexane
   run counts, change_graph.rs [Vec::with_capacity(len)], the collector's OutOfMemory guard).
   Those are MEASURED by the harness family `robust` (counting allocator + wall clock), not
   proved.  A bound on the decoded value is a bound on what the decoder keeps; transient
   allocations of the Rust that the model does not show (e.g. Vec growth doubling) are within a
   constant factor of it and are also what the harness measures.

   [length] is the number of bytes / elements ([nat]); [Bloom.lenN] and [Chunk.lenN] are
   [N.of_nat (length _)]. *)
From AM Require Import Base.Prelude Base.Leb128 Base.Sleb128 Base.Sleb128Proofs Gen.Consts.
From AM Require Import Hexane.Hleb Hexane.HlebProofs.
From AM Require Import Store.Chunk Store.ChunkProofs Store.ChangeChunk Store.ChangeChunkProofs.
From AM Require Import Codec.Bloom Codec.BloomProofs Codec.Hex Codec.SyncCodec Codec.SyncProofs
  Codec.ExId Codec.CursorCodec Codec.CostProofs.

(* ================================================================ a. LEB128 readers *)
(* every reader consumes between 1 and 10 bytes and returns the unread suffix *)
Theorem C17_uleb_consumes : forall (l : bytes) (v : N) (r : bytes),
  uleb_dec l = Ok (v, r) ->
  exists k, 1 <= k <= 10 /\ length l = k + length r /\ l = firstn k l ++ r.
Proof. exact uleb_dec_cost. Qed.

Example C17_uleb_consumes_nonvacuous :
  uleb_dec [255; 255; 255; 255; 255; 255; 255; 255; 255; 1; 9]%N = Ok (18446744073709551615%N, [9%N])
  /\ uleb_dec [255; 255; 255; 255; 255; 255; 255; 255; 255; 129; 0]%N = Err.
Proof. vm_compute. auto. Qed.

Theorem C17_uleb_value : forall (l : bytes) (v : N) (r : bytes),
  wf_bytes l -> uleb_dec l = Ok (v, r) -> (v < pow64)%N.
Proof. exact uleb_dec_value. Qed.

Theorem C17_sleb_consumes : forall (l : bytes) (v : Z) (r : bytes),
  sleb_dec l = Ok (v, r) ->
  exists k, 1 <= k <= 10 /\ length l = k + length r /\ l = firstn k l ++ r.
Proof. exact sleb_dec_cost. Qed.

Example C17_sleb_consumes_nonvacuous :
  sleb_dec [128; 128; 128; 128; 128; 128; 128; 128; 128; 127; 9]%N = Ok (Sleb128.i64_min, [9%N]).
Proof. vm_compute. reflexivity. Qed.

Theorem C17_sleb_value : forall (l : bytes) (v : Z) (r : bytes),
  wf_bytes l -> sleb_dec l = Ok (v, r) -> Sleb128.in_i64 v.
Proof. exact sleb_dec_value. Qed.

(* hexane's readers (the `leb128` crate) accept over-long encodings, but still stop at ten bytes *)
Theorem C17_hleb_u_consumes : forall (l : bytes) (v : N) (r : bytes),
  hleb_u l = Some (v, r) ->
  exists k, 1 <= k <= 10 /\ length l = k + length r /\ l = firstn k l ++ r.
Proof. exact hleb_u_cost. Qed.

Theorem C17_hleb_s_consumes : forall (l : bytes) (v : Z) (r : bytes),
  hleb_s l = Some (v, r) ->
  exists k, 1 <= k <= 10 /\ length l = k + length r /\ l = firstn k l ++ r.
Proof. exact hleb_s_cost. Qed.

Example C17_hleb_consumes_nonvacuous :
  hleb_u [128; 128; 128; 128; 128; 128; 128; 128; 128; 0; 9]%N = Some (0%N, [9%N])
  /\ hleb_s [255; 255; 255; 255; 255; 255; 255; 255; 255; 127; 9]%N = Some ((-1)%Z, [9%N])
  /\ hleb_u [128; 128; 128; 128; 128; 128; 128; 128; 128; 128; 0]%N = None.
Proof. vm_compute. auto. Qed.

Theorem C17_hleb_u_value : forall (l : bytes) (v : N) (r : bytes),
  wf_bytes l -> hleb_u l = Some (v, r) -> (v < pow64)%N.
Proof. exact hleb_u_value. Qed.

Theorem C17_hleb_s_value : forall (l : bytes) (v : Z) (r : bytes),
  wf_bytes l -> hleb_s l = Some (v, r) -> Hleb.in_i64 v.
Proof. exact hleb_s_value. Qed.

(* ================================================================ b. length_prefixed_bytes *)
(* the bytes handed out were present in the input *)
Theorem C17_length_prefixed_bytes : forall (i b r : bytes),
  length_prefixed_bytes i = Ok (b, r) -> length b + length r + 1 <= length i.
Proof. exact lpb_cost. Qed.

(* a declared length beyond the remaining input is an error *)
Theorem C17_length_prefixed_bytes_overlong : forall (i : bytes) (n : N) (i' : bytes),
  uleb_dec i = Ok (n, i') -> (Bloom.lenN i' < n)%N -> length_prefixed_bytes i = Err.
Proof. exact lpb_overlong. Qed.

Example C17_length_prefixed_bytes_nonvacuous :
  length_prefixed_bytes [2; 7; 8; 9]%N = Ok ([7; 8]%N, [9%N])
  /\ length_prefixed_bytes [255; 255; 255; 255; 255; 255; 255; 255; 255; 1; 7]%N = Err.
Proof. vm_compute. auto. Qed.

(* ================================================================ c. the [for _ in 0..count] loop *)
(* [length_prefixed item]: if every item accounts for its weight in input bytes, the decoded list
   weighs at most the input — whatever count the wire declared *)
Theorem C17_length_prefixed : forall (A : Type) (item : bytes -> res (A * bytes)) (w : A -> nat),
  (forall i x r, item i = Ok (x, r) -> w x + length r <= length i) ->
  forall (i : bytes) (xs : list A) (r : bytes),
    length_prefixed item i = Ok (xs, r) -> wsum w xs + length r + 1 <= length i.
Proof. exact (@length_prefixed_cost). Qed.

(* in particular the number of Vec pushes is at most the number of input bytes as soon as every
   item consumes a byte *)
Theorem C17_length_prefixed_len : forall (A : Type) (item : bytes -> res (A * bytes)),
  (forall i x r, item i = Ok (x, r) -> length r < length i) ->
  forall (i : bytes) (xs : list A) (r : bytes),
    length_prefixed item i = Ok (xs, r) -> length xs + length r + 1 <= length i.
Proof. exact (@length_prefixed_len). Qed.

(* the loop: the number of calls of [item] (successful or not) is at most |input| + 1 and at most
   the declared count, for every fuel of the model *)
Theorem C17_loop_iterations : forall (A : Type) (item : bytes -> res (A * bytes)),
  (forall i x r, item i = Ok (x, r) -> length r < length i) ->
  forall (fuel : nat) (count : N) (i : bytes),
    read_many_iters item fuel count i <= S (length i)
    /\ (N.of_nat (read_many_iters item fuel count i) <= count)%N.
Proof. exact (@read_many_iters_bound). Qed.

(* [read_many_iters] counts the iterations of the run that [read_many] describes *)
Theorem C17_loop_iterations_ok : forall (A : Type) (item : bytes -> res (A * bytes)),
  forall (fuel : nat) (count : N) (i : bytes) (xs : list A) (r : bytes),
    read_many item fuel count i = Ok (xs, r) -> read_many_iters item fuel count i = length xs.
Proof. exact (@read_many_iters_ok). Qed.

(* a declared count above the number of remaining bytes never succeeds *)
Theorem C17_loop_overcount : forall (A : Type) (item : bytes -> res (A * bytes)),
  (forall i x r, item i = Ok (x, r) -> length r < length i) ->
  forall (fuel : nat) (count : N) (i : bytes) (xs : list A) (r : bytes),
    (Bloom.lenN i < count)%N -> read_many item fuel count i <> Ok (xs, r).
Proof. exact (@read_many_overcount). Qed.

(* the hypothesis holds for the three item parsers of the sync codec *)
Theorem C17_items_consume :
  (forall i x r, change_hash i = Ok (x, r) -> length r < length i)
  /\ (forall i x r, length_prefixed_bytes i = Ok (x, r) -> length r < length i)
  /\ (forall i x r, parse_have i = Ok (x, r) -> length r < length i).
Proof. exact (conj change_hash_consumes (conj lpb_consumes parse_have_consumes)). Qed.

(* hashes: 32 input bytes per decoded hash *)
Theorem C17_hashes : forall (i : bytes) (hs : list bytes) (r : bytes),
  parse_hashes i = Ok (hs, r) ->
  32 * length hs + length r + 1 <= length i /\ Forall (fun h => length h = 32) hs.
Proof. exact parse_hashes_cost. Qed.

Theorem C17_hashes_overcount : forall (i : bytes) (n : N) (i' : bytes),
  uleb_dec i = Ok (n, i') -> (Bloom.lenN i' < 32 * n)%N ->
  forall (hs : list bytes) (r : bytes), parse_hashes i <> Ok (hs, r).
Proof. exact parse_hashes_overcount. Qed.

Example C17_hashes_nonvacuous :
  parse_hashes (1 :: repeat 7 32 ++ [9])%N = Ok ([repeat 7%N 32], [9%N])
  /\ parse_hashes [255; 255; 255; 255; 255; 255; 255; 255; 255; 1]%N = Err
  /\ read_many_iters change_hash 1 18446744073709551615%N [] = 1.
Proof. vm_compute. auto. Qed.

(* ================================================================ d. sync message / state *)
(* [msg_size]: one unit per element of heads / need / have / changes, 32 bytes per hash, the Bloom
   bit arrays, the bytes of the changes *)
Theorem C17_message_decode : forall (i : bytes) (m : message),
  message_decode i = Ok m -> msg_size m + 5 <= length i.
Proof. exact message_decode_cost. Qed.

Theorem C17_message_counts : forall (i : bytes) (m : message),
  message_decode i = Ok m ->
  length (m_heads m) + length (m_need m) + length (m_have m) + length (m_changes m) <= length i
  /\ length (concat (m_changes m)) + wsum have_size (m_have m) <= length i.
Proof. exact message_decode_counts. Qed.

(* the smallest message (tight), and a message declaring 2^64-1 heads in 11 bytes: rejected *)
Example C17_message_decode_nonvacuous :
  message_decode [66; 0; 0; 0; 0]%N = Ok (mkMsg [] [] [] [] None V1)
  /\ message_decode [66; 255; 255; 255; 255; 255; 255; 255; 255; 255; 1]%N = Err
  /\ message_decode [66; 0; 0; 255; 255; 255; 255; 255; 255; 255; 255; 255; 1]%N = Err
  /\ message_decode [66; 0; 0; 0; 255; 255; 255; 255; 255; 255; 255; 255; 255; 1]%N = Err.
Proof. vm_compute. auto. Qed.

Theorem C17_state_decode : forall (i : bytes) (s : state),
  state_decode i = Ok s ->
  32 * length (s_shared_heads s) + 2 <= length i /\ s = state_persisted (s_shared_heads s).
Proof. exact state_decode_cost. Qed.

Example C17_state_decode_nonvacuous :
  state_decode [67; 0]%N = Ok (state_persisted [])
  /\ state_decode [67; 255; 255; 255; 255; 255; 255; 255; 255; 255; 1]%N = Err.
Proof. vm_compute. auto. Qed.

(* ================================================================ e. Bloom filter *)
(* the bit array was present in the input, the probe count is at most the number of bits, one
   query costs at most 8 * |input| steps *)
Theorem C17_bloom_parse : forall (bs : bytes) (f : filter) (rest : bytes),
  Bloom.parse bs = Ok (f, rest) ->
  (Bloom.lenN (f_bits f) + Bloom.lenN rest <= Bloom.lenN bs)%N
  /\ (f_bits f = [] \/ (f_probes f <= 8 * Bloom.lenN (f_bits f))%N)
  /\ (query_steps f <= 8 * Bloom.lenN bs)%N.
Proof. exact bloom_parse_cost. Qed.

(* entries * bits_per_entry is bounded by the bits present *)
Theorem C17_bloom_capacity : forall (bs : bytes) (f : filter) (rest : bytes),
  Bloom.parse bs = Ok (f, rest) ->
  bits_capacity (f_entries f) (f_bpe f) = Bloom.lenN (f_bits f)
  /\ (f_entries f * f_bpe f <= 8 * Bloom.lenN bs)%N.
Proof. exact bloom_parse_capacity. Qed.

(* declared sizes the input cannot hold are rejected: bit array longer than the rest of the
   input, or more probes than bits (fix 6de6d80cd) *)
Theorem C17_bloom_overdeclared : forall (bs : bytes) (e b p : N) (i1 i2 i3 : bytes),
  bs <> [] ->
  uleb_dec_u32 bs = Ok (e, i1) -> uleb_dec_u32 i1 = Ok (b, i2) -> uleb_dec_u32 i2 = Ok (p, i3) ->
  (Bloom.lenN i3 < bits_capacity e b)%N
  \/ (bits_capacity e b <> 0 /\ 8 * bits_capacity e b < p)%N ->
  Bloom.parse bs = Err.
Proof. exact bloom_parse_overdeclared. Qed.

(* the probe Vec built by one [contains_hash] *)
Theorem C17_bloom_probes : forall (bs : bytes) (f : filter) (rest h : bytes) (ps : list N),
  Bloom.parse bs = Ok (f, rest) -> f_bits f <> [] -> get_probes f h = Ok ps ->
  Bloom.lenN ps = N.max (f_probes f) 1 /\ (Bloom.lenN ps <= 8 * Bloom.lenN bs)%N.
Proof. exact bloom_contains_probes. Qed.

(* the D4 witness (entries 1, 8 bits per entry, 2^28-1 probes, one byte of bits) is rejected;
   the same filter with 8 probes is accepted *)
Example C17_bloom_nonvacuous :
  Bloom.parse [1; 8; 255; 255; 255; 127; 170]%N = Err
  /\ Bloom.parse [1; 8; 8; 170]%N = Ok (mkFilter 1 8 8 [170%N], [])
  /\ Bloom.parse [255; 255; 255; 255; 15; 8; 1; 170]%N = Err
  /\ get_probes (mkFilter 1 8 8 [170%N]) (repeat 1%N 32) = Ok [1; 2; 4; 7; 3; 0; 6; 5]%N.
Proof. vm_compute. auto. Qed.

(* ================================================================ f. ExId / Cursor *)
Theorem C17_exid : forall (l : bytes) (e : exid),
  exid_of_bytes l = Ok e ->
  exid_size e + 1 <= length l /\ (e <> ERoot -> exid_size e + 4 <= length l).
Proof. exact exid_of_bytes_cost. Qed.

Theorem C17_cursor : forall (l : bytes) (c : cursor),
  cursor_of_bytes l = Ok c -> cursor_size c + 2 <= length l.
Proof. exact cursor_of_bytes_cost. Qed.

Example C17_ids_nonvacuous :
  exid_of_bytes [16; 1; 7; 0; 1]%N = Ok (EId 1 [7%N] 0)
  /\ exid_of_bytes [16; 255; 255; 255; 255; 255; 255; 255; 255; 255; 1; 7; 0; 1]%N = Err
  /\ cursor_of_bytes [1; 3; 1; 7; 1; 2]%N = Ok (COp 1 [7%N] MAfter)
  /\ cursor_of_bytes [1; 3; 255; 255; 255; 255; 255; 255; 255; 255; 255; 1; 7; 1; 2]%N = Err.
Proof. vm_compute. auto. Qed.

(* ================================================================ g. change chunk body *)
(* [body_size]: 32 bytes per dependency, actor, message, other actors (one unit each + their
   bytes), two units per column, column data, trailing bytes *)
Theorem C17_change_body : forall (b : bytes) (c : change_body),
  parse_body b = Ok c ->
  body_size c + 8 <= length b
  /\ N.of_nat (length (cb_data c)) = sumN (map snd (cb_cols c)).
Proof. exact parse_body_cost. Qed.

Theorem C17_change_body_counts : forall (b : bytes) (c : change_body),
  parse_body b = Ok c ->
  32 * length (cb_deps c) <= length b /\ length (cb_actor c) <= length b
  /\ length (cb_message c) <= length b
  /\ length (cb_others c) + length (concat (cb_others c)) <= length b
  /\ 2 * length (cb_cols c) <= length b
  /\ (sumN (map snd (cb_cols c)) <= N.of_nat (length b))%N.
Proof. exact parse_body_counts. Qed.

(* [apply_n]: the model rejects a count above the remaining bytes at once where the Rust loops;
   the loop ends in the same error *)
Theorem C17_apply_n_overcount : forall (A : Type) (p : bytes -> res (A * bytes)),
  (forall i x r, p i = Ok (x, r) -> length r < length i) -> (forall l, p l <> Panic) ->
  forall (n : nat) (i : bytes), length i < n -> rep_nat p n i = Err.
Proof. exact (@rep_nat_overcount). Qed.

(* the smallest body (tight); a body declaring 2^64-1 dependencies; a body whose single column
   declares 2^64-1 bytes of data *)
Example C17_change_body_nonvacuous :
  parse_body [0; 0; 0; 1; 0; 0; 0; 0]%N = Ok (mkBody [] [] 0 1 0 [] [] [] [] [])
  /\ parse_body [255; 255; 255; 255; 255; 255; 255; 255; 255; 1; 0; 0; 1; 0; 0; 0; 0]%N = Err
  /\ parse_body [0; 0; 0; 1; 0; 0; 0; 1; 1; 255; 255; 255; 255; 255; 255; 255; 255; 255; 1]%N = Err.
Proof. vm_compute. auto. Qed.

(* ================================================================ h. chunk header *)
Theorem C17_chunk_header : forall (bs : bytes) (h : header) (rest : bytes),
  parse_header bs = Ok (h, rest) ->
  length (h_data h) + length rest + 10 <= length bs /\ length (h_checksum h) = 4.
Proof. exact parse_header_cost. Qed.

Theorem C17_chunk_header_overlong : forall (magic ck : bytes) (ty len : N) (i i' : bytes),
  length magic = 4 -> length ck = 4 ->
  uleb_dec i = Ok (len, i') -> (Chunk.lenN i' < len)%N ->
  parse_header (magic ++ ck ++ ty :: i) = Err.
Proof. exact parse_header_overlong. Qed.

(* every chunk that parses consumed at least ten bytes: the chunk loop of load / load_changes
   runs at most |input| / 10 times (whatever the hash, the body parser and inflate are) *)
Theorem C17_chunk_consumes : forall (Hsh : bytes -> bytes) (C : Type)
  (body : N -> bytes -> option (list C)) (inflate : bytes -> option bytes)
  (bs : bytes) (ty : N) (cs : list C) (rest : bytes),
  parse_chunk Hsh C body inflate bs = Ok (ty, cs, rest) -> length rest + 10 <= length bs.
Proof. exact parse_chunk_cost. Qed.

Example C17_chunk_header_nonvacuous :
  parse_header (MAGIC_BYTES ++ [0; 0; 0; 0; 1; 0])%N = Ok (mkHeader [0; 0; 0; 0]%N 1 [], [])
  /\ parse_header (MAGIC_BYTES ++ [0; 0; 0; 0; 1; 255; 255; 255; 255; 255; 255; 255; 255; 255; 1; 7])%N = Err.
Proof. vm_compute. auto. Qed.
