(* C18 — Change and bundle encodings round-trip.
   Statements only; proofs in Store/ChangeChunkProofs.v and Base/Sleb128Proofs.v.

   The model (Store/ChangeChunk.v) is the body of a change chunk as storage/change.rs parses and
   writes it: dependencies, actor, seq, start_op, time (signed LEB128), message (UTF-8 checked),
   other actors, column metadata (RawColumns::parse with its normal-order, deflate-bit and column
   layout checks), column data, extra bytes — any number of dependencies / actors / columns.
   The op columns inside the column data are modelled in Codec/ColEnc.v (the legacy RLE / delta /
   boolean / raw codecs) and Store/ChangeOps.v (ChangeOpsColumns::encode, try_from(Columns),
   ChangeOpsIter, verify_ops); see the section "op columns" at the end of this file: the LEB and
   string readers and the boolean decoder are proved, the RLE decoder is proved to be able to
   PANIC (refuted), the general decode-after-encode theorem for op lists is stated
   ([ops_roundtrip_statement]) but NOT proved: only instances are (…_partial).
   Bundles are spec-level (the bundle body is a parameter).
   Those parts are checked on the implementation by the harness family `chg`. *)
From AM Require Import Base.Prelude Base.Leb128 Base.Sleb128 Base.Sleb128Proofs Gen.Consts
  Store.Chunk Store.ChunkProofs Store.ChangeChunk Exec.ChgExec Store.ChangeChunkProofs
  Codec.ColEnc Codec.ColEncProofs Store.ChangeOps Store.ChangeOpsProofs.
Local Open Scope N_scope.

(* the reader inverts the writer: every field of every well-formed body comes back *)
Theorem C18_change_roundtrip_partial : forall c : change_body,
  wf_change_body c -> parse_body (encode_body c) = Ok c.
Proof. exact change_body_roundtrip. Qed.

(* the reader accepts only the writer's output: what it parsed re-encodes to the same bytes
   (a Rust slice is shorter than 2^64 bytes), and is well-formed *)
Theorem C18_change_canonical : forall (b : bytes) (c : change_body),
  wf_bytes b -> lenN b < pow64 -> parse_body b = Ok c -> encode_body c = b /\ wf_change_body c.
Proof. exact change_body_canonical. Qed.

(* hence expanding and re-encoding keeps the hash, whatever the hash function is
   (hash = Hsh (type ‖ uleb(len) ‖ data), Store/Chunk.v) *)
Theorem C18_hash_stable_under_reencode : forall (Hsh : bytes -> bytes) (b : bytes) (c : change_body),
  wf_bytes b -> lenN b < pow64 -> parse_body b = Ok c ->
  chunk_hash Hsh CHUNK_CHANGE (encode_body c) = chunk_hash Hsh CHUNK_CHANGE b.
Proof. exact change_hash_stable. Qed.

(* no bytes make the reader panic *)
Theorem C18_parse_no_panic : forall b : bytes, parse_body b <> Panic.
Proof. exact parse_body_no_panic. Qed.

(* inside the chunk framing: a raw change chunk followed by anything parses back to the change *)
Theorem C18_change_chunk_roundtrip :
  forall Hsh : bytes -> bytes, (forall x : bytes, (4 <= length (Hsh x))%nat) ->
  forall (other : N -> bytes -> option (list change_body)) (inflate : bytes -> option bytes)
    (c : change_body) (rest : bytes),
  wf_change_body c -> lenN (encode_body c) < pow64 ->
  parse_chunk Hsh change_body (chunk_body other) inflate
    (encode_chunk Hsh CHUNK_CHANGE (encode_body c) ++ rest) = Ok (CHUNK_CHANGE, [c], rest).
Proof. exact change_chunk_roundtrip. Qed.

(* the compressed form: for ANY deflate stream that inflates to the body (DEFLATE is a parameter) *)
Theorem C18_compressed_chunk_roundtrip :
  forall Hsh : bytes -> bytes, (forall x : bytes, (4 <= length (Hsh x))%nat) ->
  forall (other : N -> bytes -> option (list change_body)) (inflate : bytes -> option bytes)
    (c : change_body) (deflated rest : bytes),
  wf_change_body c -> lenN deflated < pow64 -> inflate deflated = Some (encode_body c) ->
  parse_chunk Hsh change_body (chunk_body other) inflate
    (encode_compressed Hsh deflated (encode_body c) ++ rest) = Ok (CHUNK_COMPRESSED, [c], rest).
Proof. exact change_chunk_compressed_roundtrip. Qed.

(* the signed LEB128 of the time field: inverse on every i64, canonical, total *)
Theorem C18_time_roundtrip : forall (z : Z) (rest : bytes),
  in_i64 z -> sleb_dec (sleb_enc z ++ rest) = Ok (z, rest).
Proof. exact sleb_roundtrip. Qed.

Theorem C18_time_canonical : forall (l : bytes) (z : Z) (rest : bytes),
  wf_bytes l -> sleb_dec l = Ok (z, rest) -> l = sleb_enc z ++ rest /\ in_i64 z.
Proof. exact sleb_canonical. Qed.

(* bundles, spec level: the bundle body is the parameter [body]; whatever changes it stands for,
   loading the bundle chunk is applying exactly those changes *)
Theorem C18_bundle_load_spec :
  forall Hsh : bytes -> bytes, (forall x : bytes, (4 <= length (Hsh x))%nat) ->
  forall (C : Type) (body : N -> bytes -> option (list C)) (inflate : bytes -> option bytes)
    (D : Type) (empty : D) (apply : D -> list C -> res D) (queue_empty is_empty : D -> bool)
    (data : bytes) (cs : list C) (d : D),
  lenN data < pow64 -> body CHUNK_BUNDLE data = Some cs ->
  load Hsh C body inflate D empty apply queue_empty Ignore (encode_chunk Hsh CHUNK_BUNDLE data) = apply empty cs
  /\ (is_empty d = false ->
      load_incremental Hsh C body inflate D empty apply queue_empty is_empty d (encode_chunk Hsh CHUNK_BUNDLE data)
      = apply d cs).
Proof. exact bundle_load_spec. Qed.

(* every column layout the writer emits (ChangeOpsColumns::raw_columns: a sub-list of its fixed
   14 columns with value raw beside value metadata and the pred columns together) passes the
   reader's order, deflate-bit and layout checks *)
Theorem C18_writer_layout_accepted : forall ss : list N,
  writer_specs_ok ss = true ->
  layout_ok ss = true /\ normal_sorted ss = true /\ existsb spec_deflate ss = false.
Proof. exact writer_layout_accepted. Qed.

(* what a [true] of the correspondence checker the harness evaluates means *)
Theorem C18_checker_sound : forall (data : bytes) (deps : list bytes) (actor : bytes) (seq start : N)
    (time : Z) (msg : bytes) (others : list bytes) (extra : bytes),
  chk_chg_body data deps actor seq start time msg others extra = true ->
  exists c, parse_body data = Ok c /\ encode_body c = data /\ wf_change_body c
    /\ cb_deps c = deps /\ cb_actor c = actor /\ cb_seq c = seq /\ cb_start_op c = start
    /\ cb_time c = time /\ cb_message c = msg /\ cb_others c = others /\ cb_extra c = extra.
Proof. exact chk_chg_body_sound. Qed.

(* non-vacuity.  [real] is the chunk data of a change written by the implementation (actor f0 00 14,
   seq 1, ten op columns: obj, key, insert, action, value, pred groups); [made] carries every
   optional part: two dependencies, a message with a 2-, 3- and 4-byte UTF-8 sequence, a negative
   time, two other actors, a value column pair and a pred group, extra bytes. *)
Definition real : bytes :=
  [0;3;240;0;20;1;1;0;0;0;10;1;4;2;4;17;4;19;5;21;8;52;2;66;5;86;5;87;4;112;2;0;2;2;0;0;2;2;2;0;3;
   127;0;0;2;126;0;3;126;1;97;2;122;122;0;2;2;2;126;1;2;2;1;124;54;0;7;24;101;204;129;5;4;0].

Definition made : change_body :=
  mkBody [repeat 7 32; repeat 200 32] [1; 2; 3] 300 70000 (-1234567890123)%Z
         [99; 195; 169; 230; 188; 162; 240; 159; 152; 128] [[9]; []]
         [(1, 1); (21, 2); (52, 0); (86, 1); (87, 3); (112, 1); (113, 1); (115, 1)]
         [1; 2; 3; 4; 5; 6; 7; 8; 9; 10] [255; 0].

Example C18_roundtrip_nonvacuous :
  wf_change_body made /\ parse_body (encode_body made) = Ok made
  /\ exists c, parse_body real = Ok c /\ cb_actor c = [240; 0; 20] /\ length (cb_cols c) = 10%nat.
Proof. split; [vm_compute; reflexivity|]. split; [vm_compute; reflexivity|]. eexists. vm_compute. repeat split. Qed.

Example C18_canonical_nonvacuous :
  wf_bytes real /\ lenN real < pow64 /\ exists c, parse_body real = Ok c /\ encode_body c = real.
Proof.
  split; [apply wf_bytesb_spec; vm_compute; reflexivity|]. split; [vm_compute; reflexivity|].
  eexists. split; vm_compute; reflexivity.
Qed.

(* the reader does reject: an over-long time, a zero start_op, a surrogate in the message, a
   deflate-flagged column, a raw value column without its metadata column *)
Example C18_rejects :
  parse_body [0; 0; 1; 1; 128; 0; 0; 0; 0] = Err
  /\ parse_body [0; 0; 1; 0; 0; 0; 0; 0] = Err
  /\ parse_body [0; 0; 1; 1; 0; 3; 237; 160; 128; 0; 0] = Err
  /\ parse_body [0; 0; 1; 1; 0; 0; 0; 1; 9; 0] = Err
  /\ parse_body [0; 0; 1; 1; 0; 0; 0; 1; 87; 0] = Err
  /\ parse_body [0; 0; 1; 1; 0; 0; 0; 0] <> Err.
Proof. vm_compute. repeat split; try reflexivity; discriminate. Qed.

Example C18_time_nonvacuous :
  sleb_enc (-9223372036854775808)%Z = [128; 128; 128; 128; 128; 128; 128; 128; 128; 127]
  /\ sleb_dec [128; 128; 128; 128; 128; 128; 128; 128; 128; 127] = Ok ((-9223372036854775808)%Z, [])
  /\ sleb_dec [255; 127] = Err /\ sleb_dec [128; 0] = Err /\ sleb_dec [192; 0] = Ok (64%Z, []).
Proof. vm_compute. repeat split. Qed.

Example C18_checker_nonvacuous : chk_chg_written real [] [240; 0; 20] 1 1 0%Z [] [] [] = true.
Proof. vm_compute. reflexivity. Qed.

Example C18_writer_layout_nonvacuous :
  writer_specs_ok [1; 2; 17; 19; 21; 52; 66; 86; 87; 112] = true
  /\ writer_specs_ok [86; 87; 112; 113; 115; 148; 165] = true
  /\ writer_specs_ok [87] = false /\ writer_specs_ok [112; 113] = false /\ writer_specs_ok [2; 1] = false.
Proof. vm_compute. repeat split. Qed.

Section Example.
  Let H (_ : bytes) : bytes := [1; 2; 3; 4].
  Let other (_ : N) (_ : bytes) : option (list change_body) := None.
  Let inf (d : bytes) : option bytes := if bytes_eqb d [42] then Some (encode_body made) else None.
  Example C18_chunk_nonvacuous :
    parse_chunk H change_body (chunk_body other) inf (encode_chunk H CHUNK_CHANGE (encode_body made) ++ [5; 6])
      = Ok (CHUNK_CHANGE, [made], [5; 6])
    /\ parse_chunk H change_body (chunk_body other) inf (encode_compressed H [42] (encode_body made))
      = Ok (CHUNK_COMPRESSED, [made], []).
  Proof. vm_compute. split; reflexivity. Qed.
End Example.

(* ================================================================ op columns
   Codec/ColEnc.v: the legacy column codecs (columnar/encoding/*.rs); Store/ChangeOps.v: the op record, the
   writer [encode_ops] = ChangeOpsColumns::encode + raw_columns, the reader [decode_ops] =
   ChangeOpsColumns::try_from(Columns) + ChangeOpsIter, and [parse_change_full] = parse_following_header +
   verify_ops. *)

(* the value readers of the columns (the `leb128` crate readers, which also accept over-long forms, and the
   length-prefixed UTF-8 string reader) invert the writers, on every u64 / i64 / string the reader is willing
   to allocate *)
Theorem C18_col_u64_roundtrip : forall (n : N) (rest : bytes),
  n < pow64 -> u64_rd (uleb_enc n ++ rest) = Ok (n, rest).
Proof. exact u64_rd_roundtrip. Qed.

Theorem C18_col_i64_roundtrip : forall (z : Z) (rest : bytes),
  in_i64 z -> i64_rd (sleb_enc z ++ rest) = Ok (z, rest).
Proof. exact i64_rd_roundtrip. Qed.

Theorem C18_col_str_roundtrip : forall (utf8 : bytes -> bool) (s rest : bytes),
  utf8 s = true -> N.of_nat (length s) <= MAX_ALLOCATION ->
  str_rd utf8 (str_enc s ++ rest) = Ok (s, rest).
Proof. exact str_rd_roundtrip. Qed.

(* no bytes make the value readers or the boolean decoders panic *)
Theorem C18_col_readers_no_panic : forall (utf8 : bytes -> bool) (l : bytes),
  u64_rd l <> Panic /\ i64_rd l <> Panic /\ str_rd utf8 l <> Panic.
Proof. intros utf8 l. split; [apply u64_rd_no_panic|split; [apply i64_rd_no_panic|apply str_rd_no_panic]]. Qed.

Theorem C18_bool_decoder_no_panic : forall (orig_empty : bool) (s : bool_st),
  bool_next s <> Panic /\ maybe_bool_next orig_empty s <> Panic.
Proof. intros e s. split; [apply bool_next_no_panic|apply maybe_bool_next_no_panic]. Qed.

(* REFUTED: the RLE decoder (hence the delta decoder and every op column but insert / expand) can panic in a
   build with overflow checks: a literal-run header of i64::MIN ([count.abs()]), a null run of 2^63 items (the
   count cast [as isize] is isize::MIN and [count -= 1] overflows).  Reproduced on the implementation through
   Change::from_bytes (known findings, family chg) *)
Theorem C18_rle_decoder_panics_refuted :
  rle_next u64_rd (rle_init [128; 128; 128; 128; 128; 128; 128; 128; 128; 127; 1]) = Panic
  /\ rle_next u64_rd (rle_init [0; 128; 128; 128; 128; 128; 128; 128; 128; 128; 1]) = Panic.
Proof. exact rle_decoder_panics. Qed.

(* REFUTED: reading the ops of a change can panic although its container parses: [panic_data] is the chunk data
   of a change whose key-actor column is a literal run of i64::MIN items; [panic_cols] has an object counter above
   u32::MAX ([OpId::new] unwraps the u32 conversion, in every build) *)
Theorem C18_ops_decode_panics_refuted :
  parse_change_full panic_data = Panic /\ is_ok (parse_body panic_data) = true /\ decode_ops panic_cols = Panic.
Proof. exact ops_decode_panics. Qed.

(* the lazily bounded loop the op reader is written with is plain bounded iteration *)
Theorem C18_loop_pos_is_iteration : forall (S R : Type) (step : S -> S + R) (p : positive) (s : S),
  loop_pos step p s = loop_nat step (Pos.to_nat p) s.
Proof. exact @loop_pos_nat. Qed.

(* PARTIAL.  The statement wanted is [ops_roundtrip_statement]:
     forall ops, wf_chopsb ops = true -> decode_ops (encode_ops ops) = Ok ops
   ([wf_chopsb]: op ids within u32, UTF-8 keys / mark names / strings of at most MAX_ALLOCATION bytes, values within
   u64 / i64, 8-byte floats, unknown type codes 10..15, an action the reader accepts for the value, fewer than 2^63
   ops and predecessors).  It is NOT proved (the RLE / delta encoder invariants are missing).  Proved: it holds on
   [ex_ops] (every value type, a mark with a name and expand, an increment, a delete, inserts at the head and after
   elements, predecessors of three actors, a unicode and an empty key, repeat and literal runs, all fourteen columns)
   and on 330 ops whose runs cross 64 and 128 items (the expand and mark columns are omitted, all-false / all-null);
   the empty list writes no column and no column reads as the empty list *)
Theorem C18_ops_roundtrip_partial :
  wf_chopsb ex_ops = true /\ decode_ops (encode_ops ex_ops) = Ok ex_ops
  /\ map fst (encode_ops ex_ops) = [1; 2; 17; 19; 21; 52; 66; 86; 87; 112; 113; 115; 148; 165]
  /\ encode_ops [] = [] /\ decode_ops [] = Ok [].
Proof. exact ex_ops_roundtrip. Qed.

Theorem C18_ops_long_runs_roundtrip_partial :
  let ops := repeat (mkChop (0, 0) (K_Prop [97]) false 1 SV_Null [] false None) 200
             ++ repeat (mkChop (1, 0) (K_Elem (0, 0)) true 1 (SV_Uint 7) [(1, 0)] false None) 130 in
  wf_chopsb ops = true /\ decode_ops (encode_ops ops) = Ok ops
  /\ map fst (encode_ops ops) = [1; 2; 19; 21; 52; 66; 86; 87; 112; 113; 115].
Proof. exact long_run_roundtrip. Qed.

Example C18_col_roundtrip_nonvacuous :
  u64_rd (uleb_enc 18446744073709551615 ++ [7]) = Ok (18446744073709551615, [7])
  /\ u64_rd [128; 0; 9] = Ok (0, [9])                    (* over-long zero: accepted by this reader *)
  /\ uleb_dec [128; 0; 9] = Err                          (* and rejected by the strict one *)
  /\ i64_rd (sleb_enc (-9223372036854775808)%Z) = Ok ((-9223372036854775808)%Z, [])
  /\ str_rd utf8_valid (str_enc [195; 169] ++ [1]) = Ok ([195; 169], [1])
  /\ str_rd utf8_valid [2; 195; 40] = Err
  /\ maybe_bool_encode [false; false; false] = [] /\ bool_encode [false; false; true] = [2; 1].
Proof. vm_compute. repeat split. Qed.

(* the op checkers of the harness on the real change of [C18_roundtrip_nonvacuous] *)
Example C18_ops_checker_nonvacuous :
  match parse_change_full real with
  | Ok (c, ops) => match ops with [] => False | _ => True end /\ cols_eqb (encode_ops ops) (split_cols (cb_cols c) (cb_data c)) = true
                   /\ wf_chopsb ops = true
  | _ => False
  end.
Proof. vm_compute. repeat split. Qed.
