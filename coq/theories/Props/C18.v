(* C18 — Change and bundle encodings round-trip.
   Statements only; proofs in Store/ChangeChunkProofs.v and Base/Sleb128Proofs.v.

   The model (Store/ChangeChunk.v) is the body of a change chunk as storage/change.rs parses and
   writes it: dependencies, actor, seq, start_op, time (signed LEB128), message (UTF-8 checked),
   other actors, column metadata (RawColumns::parse with its normal-order, deflate-bit and column
   layout checks), column data, extra bytes — any number of dependencies / actors / columns.
   PARTIAL: the op columns inside the column data are opaque bytes (verify_ops, decode and the
   legacy re-encoder are not modelled); bundles are spec-level (the bundle body is a parameter).
   Those parts are checked on the implementation by the harness family `chg`. *)
From AM Require Import Base.Prelude Base.Leb128 Base.Sleb128 Base.Sleb128Proofs Gen.Consts
  Store.Chunk Store.ChunkProofs Store.ChangeChunk Exec.ChgExec Store.ChangeChunkProofs.
Local Open Scope N_scope.

(* the reader inverts the writer: every field of every well-formed body comes back *)
Theorem C18_change_roundtrip_partial : forall c : change_body,
  wf_change_body c -> parse_body (encode_body c) = Ok c.
Proof. exact change_body_roundtrip. Qed.

(* the reader accepts only the writer's output: what it parsed re-encodes to the same bytes
   (a Rust slice is shorter than 2^64 bytes), and is well-formed *)
Theorem C18_change_canonical : forall (b : bytes) (c : change_body),
  wf_bytes b -> lenN b < pow64 -> parse_body b = Ok c -> encode_body c = b /\ wf_change_body c.
Proof. exact change_body_canonical. Qed.

(* hence expanding and re-encoding keeps the hash, whatever the hash function is
   (hash = Hsh (type ‖ uleb(len) ‖ data), Store/Chunk.v) *)
Theorem C18_hash_stable_under_reencode : forall (Hsh : bytes -> bytes) (b : bytes) (c : change_body),
  wf_bytes b -> lenN b < pow64 -> parse_body b = Ok c ->
  chunk_hash Hsh CHUNK_CHANGE (encode_body c) = chunk_hash Hsh CHUNK_CHANGE b.
Proof. exact change_hash_stable. Qed.

(* no bytes make the reader panic *)
Theorem C18_parse_no_panic : forall b : bytes, parse_body b <> Panic.
Proof. exact parse_body_no_panic. Qed.

(* inside the chunk framing: a raw change chunk followed by anything parses back to the change *)
Theorem C18_change_chunk_roundtrip :
  forall Hsh : bytes -> bytes, (forall x : bytes, (4 <= length (Hsh x))%nat) ->
  forall (other : N -> bytes -> option (list change_body)) (inflate : bytes -> option bytes)
    (c : change_body) (rest : bytes),
  wf_change_body c -> lenN (encode_body c) < pow64 ->
  parse_chunk Hsh change_body (chunk_body other) inflate
    (encode_chunk Hsh CHUNK_CHANGE (encode_body c) ++ rest) = Ok (CHUNK_CHANGE, [c], rest).
Proof. exact change_chunk_roundtrip. Qed.

(* the compressed form: for ANY deflate stream that inflates to the body (DEFLATE is a parameter) *)
Theorem C18_compressed_chunk_roundtrip :
  forall Hsh : bytes -> bytes, (forall x : bytes, (4 <= length (Hsh x))%nat) ->
  forall (other : N -> bytes -> option (list change_body)) (inflate : bytes -> option bytes)
    (c : change_body) (deflated rest : bytes),
  wf_change_body c -> lenN deflated < pow64 -> inflate deflated = Some (encode_body c) ->
  parse_chunk Hsh change_body (chunk_body other) inflate
    (encode_compressed Hsh deflated (encode_body c) ++ rest) = Ok (CHUNK_COMPRESSED, [c], rest).
Proof. exact change_chunk_compressed_roundtrip. Qed.

(* the signed LEB128 of the time field: inverse on every i64, canonical, total *)
Theorem C18_time_roundtrip : forall (z : Z) (rest : bytes),
  in_i64 z -> sleb_dec (sleb_enc z ++ rest) = Ok (z, rest).
Proof. exact sleb_roundtrip. Qed.

Theorem C18_time_canonical : forall (l : bytes) (z : Z) (rest : bytes),
  wf_bytes l -> sleb_dec l = Ok (z, rest) -> l = sleb_enc z ++ rest /\ in_i64 z.
Proof. exact sleb_canonical. Qed.

(* bundles, spec level: the bundle body is the parameter [body]; whatever changes it stands for,
   loading the bundle chunk is applying exactly those changes *)
Theorem C18_bundle_load_spec :
  forall Hsh : bytes -> bytes, (forall x : bytes, (4 <= length (Hsh x))%nat) ->
  forall (C : Type) (body : N -> bytes -> option (list C)) (inflate : bytes -> option bytes)
    (D : Type) (empty : D) (apply : D -> list C -> res D) (queue_empty is_empty : D -> bool)
    (data : bytes) (cs : list C) (d : D),
  lenN data < pow64 -> body CHUNK_BUNDLE data = Some cs ->
  load Hsh C body inflate D empty apply queue_empty Ignore (encode_chunk Hsh CHUNK_BUNDLE data) = apply empty cs
  /\ (is_empty d = false ->
      load_incremental Hsh C body inflate D empty apply queue_empty is_empty d (encode_chunk Hsh CHUNK_BUNDLE data)
      = apply d cs).
Proof. exact bundle_load_spec. Qed.

(* every column layout the writer emits (ChangeOpsColumns::raw_columns: a sub-list of its fixed
   14 columns with value raw beside value metadata and the pred columns together) passes the
   reader's order, deflate-bit and layout checks *)
Theorem C18_writer_layout_accepted : forall ss : list N,
  writer_specs_ok ss = true ->
  layout_ok ss = true /\ normal_sorted ss = true /\ existsb spec_deflate ss = false.
Proof. exact writer_layout_accepted. Qed.

(* what a [true] of the correspondence checker the harness evaluates means *)
Theorem C18_checker_sound : forall (data : bytes) (deps : list bytes) (actor : bytes) (seq start : N)
    (time : Z) (msg : bytes) (others : list bytes) (extra : bytes),
  chk_chg_body data deps actor seq start time msg others extra = true ->
  exists c, parse_body data = Ok c /\ encode_body c = data /\ wf_change_body c
    /\ cb_deps c = deps /\ cb_actor c = actor /\ cb_seq c = seq /\ cb_start_op c = start
    /\ cb_time c = time /\ cb_message c = msg /\ cb_others c = others /\ cb_extra c = extra.
Proof. exact chk_chg_body_sound. Qed.

(* non-vacuity.  [real] is the chunk data of a change written by the implementation (actor f0 00 14,
   seq 1, ten op columns: obj, key, insert, action, value, pred groups); [made] carries every
   optional part: two dependencies, a message with a 2-, 3- and 4-byte UTF-8 sequence, a negative
   time, two other actors, a value column pair and a pred group, extra bytes. *)
Definition real : bytes :=
  [0;3;240;0;20;1;1;0;0;0;10;1;4;2;4;17;4;19;5;21;8;52;2;66;5;86;5;87;4;112;2;0;2;2;0;0;2;2;2;0;3;
   127;0;0;2;126;0;3;126;1;97;2;122;122;0;2;2;2;126;1;2;2;1;124;54;0;7;24;101;204;129;5;4;0].

Definition made : change_body :=
  mkBody [repeat 7 32; repeat 200 32] [1; 2; 3] 300 70000 (-1234567890123)%Z
         [99; 195; 169; 230; 188; 162; 240; 159; 152; 128] [[9]; []]
         [(1, 1); (21, 2); (52, 0); (86, 1); (87, 3); (112, 1); (113, 1); (115, 1)]
         [1; 2; 3; 4; 5; 6; 7; 8; 9; 10] [255; 0].

Example C18_roundtrip_nonvacuous :
  wf_change_body made /\ parse_body (encode_body made) = Ok made
  /\ exists c, parse_body real = Ok c /\ cb_actor c = [240; 0; 20] /\ length (cb_cols c) = 10%nat.
Proof. split; [vm_compute; reflexivity|]. split; [vm_compute; reflexivity|]. eexists. vm_compute. repeat split. Qed.

Example C18_canonical_nonvacuous :
  wf_bytes real /\ lenN real < pow64 /\ exists c, parse_body real = Ok c /\ encode_body c = real.
Proof.
  split; [apply wf_bytesb_spec; vm_compute; reflexivity|]. split; [vm_compute; reflexivity|].
  eexists. split; vm_compute; reflexivity.
Qed.

(* the reader does reject: an over-long time, a zero start_op, a surrogate in the message, a
   deflate-flagged column, a raw value column without its metadata column *)
Example C18_rejects :
  parse_body [0; 0; 1; 1; 128; 0; 0; 0; 0] = Err
  /\ parse_body [0; 0; 1; 0; 0; 0; 0; 0] = Err
  /\ parse_body [0; 0; 1; 1; 0; 3; 237; 160; 128; 0; 0] = Err
  /\ parse_body [0; 0; 1; 1; 0; 0; 0; 1; 9; 0] = Err
  /\ parse_body [0; 0; 1; 1; 0; 0; 0; 1; 87; 0] = Err
  /\ parse_body [0; 0; 1; 1; 0; 0; 0; 0] <> Err.
Proof. vm_compute. repeat split; try reflexivity; discriminate. Qed.

Example C18_time_nonvacuous :
  sleb_enc (-9223372036854775808)%Z = [128; 128; 128; 128; 128; 128; 128; 128; 128; 127]
  /\ sleb_dec [128; 128; 128; 128; 128; 128; 128; 128; 128; 127] = Ok ((-9223372036854775808)%Z, [])
  /\ sleb_dec [255; 127] = Err /\ sleb_dec [128; 0] = Err /\ sleb_dec [192; 0] = Ok (64%Z, []).
Proof. vm_compute. repeat split. Qed.

Example C18_checker_nonvacuous : chk_chg_written real [] [240; 0; 20] 1 1 0%Z [] [] [] = true.
Proof. vm_compute. reflexivity. Qed.

Example C18_writer_layout_nonvacuous :
  writer_specs_ok [1; 2; 17; 19; 21; 52; 66; 86; 87; 112] = true
  /\ writer_specs_ok [86; 87; 112; 113; 115; 148; 165] = true
  /\ writer_specs_ok [87] = false /\ writer_specs_ok [112; 113] = false /\ writer_specs_ok [2; 1] = false.
Proof. vm_compute. repeat split. Qed.

Section Example.
  Let H (_ : bytes) : bytes := [1; 2; 3; 4].
  Let other (_ : N) (_ : bytes) : option (list change_body) := None.
  Let inf (d : bytes) : option bytes := if bytes_eqb d [42] then Some (encode_body made) else None.
  Example C18_chunk_nonvacuous :
    parse_chunk H change_body (chunk_body other) inf (encode_chunk H CHUNK_CHANGE (encode_body made) ++ [5; 6])
      = Ok (CHUNK_CHANGE, [made], [5; 6])
    /\ parse_chunk H change_body (chunk_body other) inf (encode_compressed H [42] (encode_body made))
      = Ok (CHUNK_COMPRESSED, [made], []).
  Proof. vm_compute. split; reflexivity. Qed.
End Example.
