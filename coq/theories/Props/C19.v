(* C19 — Identifiers and sync state serialize losslessly and resolve correctly.
   Statements only; proofs in Codec/{HexProofs,ExIdProofs,CursorProofs,SyncProofs}.v.  The models
   (Codec/{Hex,ExId,CursorCodec,SyncCodec}.v) mirror exid.rs, cursor.rs, types.rs (hex forms),
   sync.rs / sync/state.rs (Message, State, flags), and the id resolution of automerge.rs
   (import_obj, exid_to_opid, op_cursor_to_opid).  The side conditions are exactly the ranges of
   the Rust types (u64 counters and hints, u8 bytes, 32-byte hashes, sorted hash lists — the
   encoder's own debug assertion —, Bloom filters as the decoder can return them, flag bits
   below the bitfield marker); each is a boolean predicate with a non-vacuity example. *)
From AM Require Import Base.Prelude Base.Order Gen.Consts Codec.Bloom Codec.Hex Codec.ExId
  Codec.CursorCodec Codec.SyncCodec Codec.HexProofs Codec.ExIdProofs Codec.CursorProofs Codec.SyncProofs.
(* not used by the statements: makes `make Props/C19.vo` rebuild the correspondence checkers too *)
From AM Require Exec.IdsExec.
Local Open Scope N_scope.

(* ---------- object ids ---------- *)
Theorem C19_exid_roundtrip : forall e : exid,
  wf_exidb e = true -> exid_of_bytes (exid_to_bytes e) = Ok e.
Proof. exact exid_bytes_roundtrip. Qed.
Example C19_exid_roundtrip_nonvacuous : wf_exidb (EId 4294967296 [1; 2; 255] 18446744073709551615) = true.
Proof. reflexivity. Qed.

(* text form "ctr@actorhex": parsed against a replica's actor table t it gives back an id that is
   equal to the original as ExId's equality defines it (counter and actor; the hint is the
   replica's own index for the actor) *)
Theorem C19_exid_string_roundtrip : forall (t : table) (c : N) (a : bytes) (h : N),
  c < pow64 -> wf_bytesb a = true -> In a t ->
  exists e, import_obj t (exid_to_str (EId c a h)) = Ok e /\ exid_eqb e (EId c a h) = true.
Proof. exact exid_str_roundtrip_eq. Qed.
Theorem C19_exid_string_root : forall t : table, import_obj t (exid_to_str ERoot) = Ok ERoot.
Proof. exact exid_str_root. Qed.
Example C19_exid_string_roundtrip_nonvacuous :
  7 < pow64 /\ wf_bytesb [171; 205] = true /\ In [171; 205] [[1]; [171; 205]].
Proof. split; [reflexivity|]. split; [reflexivity|]. right. left. reflexivity. Qed.

(* ---------- cursors ---------- *)
Theorem C19_cursor_bytes_roundtrip : forall c : cursor,
  wf_cursorb c = true -> cursor_of_bytes (cursor_to_bytes c) = Ok c.
Proof. exact cursor_bytes_roundtrip. Qed.
Theorem C19_cursor_string_roundtrip : forall c : cursor,
  wf_cursorb c = true -> cursor_of_str (cursor_to_str c) = Ok c.
Proof. exact cursor_str_roundtrip. Qed.
Example C19_cursor_roundtrip_nonvacuous : wf_cursorb (COp 18446744073709551615 [0; 255] MBefore) = true.
Proof. reflexivity. Qed.

(* ---------- actor ids and change hashes as text ---------- *)
Theorem C19_actor_hex_roundtrip : forall a : bytes,
  wf_bytesb a = true -> actor_of_str (actor_to_str a) = Ok a.
Proof. exact actor_hex_roundtrip. Qed.
Theorem C19_hash_hex_roundtrip : forall h : bytes,
  wf_hashb h = true -> hash_of_str (hash_to_str h) = Ok h.
Proof. exact hash_hex_roundtrip. Qed.
Example C19_hash_hex_roundtrip_nonvacuous : wf_hashb (map N.of_nat (seq 100 32)) = true.
Proof. reflexivity. Qed.

(* ---------- sync state: shared_heads is the persisted field; every other field of the decoded
   state is the constant State::parse writes ---------- *)
Theorem C19_sync_state_roundtrip : forall s : state,
  wf_hashesb (s_shared_heads s) = true ->
  exists w, state_encode s = Ok w /\ state_decode w = Ok (state_persisted (s_shared_heads s)).
Proof. exact state_roundtrip. Qed.
Example C19_sync_state_roundtrip_nonvacuous :
  wf_hashesb [map N.of_nat (seq 1 32); map N.of_nat (seq 2 32)] = true.
Proof. reflexivity. Qed.

(* ---------- sync messages, V1 and V2, with and without flags ---------- *)
Theorem C19_message_roundtrip : forall m : message,
  wf_messageb m = true -> exists w, message_encode m = Ok w /\ message_decode w = Ok m.
Proof. exact message_roundtrip. Qed.
Example C19_message_roundtrip_nonvacuous :
  wf_messageb (mkMsg [map N.of_nat (seq 1 32)] [] [mkHave [map N.of_nat (seq 2 32)] (mkFilter 1 10 7 [0; 64])]
                     [[1; 2; 3]; []] (Some 5) V2) = true.
Proof. reflexivity. Qed.

(* the two classes of values outside wf_messageb that the Rust types admit do NOT round trip
   (reported as known findings): a flag byte with bit 7 set, and a Bloom filter decoded from
   bytes that claim zero entries with non-default parameters *)
Theorem C19_message_flag_bit7_refuted :
  exists m w, m_flags m = Some 128 /\ message_encode m = Ok w /\
              message_decode w = Ok (mkMsg (m_heads m) (m_need m) (m_have m) (m_changes m) (Some 0) (m_version m)).
Proof. exact message_flag_bit7_refuted. Qed.
Theorem C19_message_bloom_zero_entries_refuted :
  exists m w, parse [0; 5; 3] = Ok (mkFilter 0 5 3 [], []) /\ m_have m = [mkHave [] (mkFilter 0 5 3 [])] /\
              message_encode m = Ok w /\
              message_decode w = Ok (mkMsg [] [] [mkHave [] default_filter] [] None V1).
Proof. exact message_bloom_zero_refuted. Qed.

(* ---------- resolution ---------- *)
(* the internal id an object id resolves to does not depend on the actor-index hint it carries:
   right, stale, out of range — for any duplicate-free actor table, in particular a sorted one *)
Theorem C19_resolve_hint_irrelevant : forall (t : table) (c : N) (a : bytes) (h1 h2 : N),
  NoDup t -> lenN t <= pow32 ->
  exid_to_opid t (EId c a h1) = exid_to_opid t (EId c a h2).
Proof. exact resolve_hint_irrelevant. Qed.
Theorem C19_sorted_table_nodup : forall t : table, sorted_table t = true -> NoDup t.
Proof. exact sorted_table_nodup. Qed.
Example C19_resolve_hint_irrelevant_nonvacuous :
  sorted_table [[1]; [1; 0]; [2]] = true /\ lenN [[1]; [1; 0]; [2]] <= pow32.
Proof. split; [reflexivity|]. vm_compute. discriminate. Qed.

(* ... nor on how the replica numbers actors: in any two replicas that know the actor (whatever
   other actors they hold, whatever the hints) the id resolves, to internal ids that denote the
   same (counter, actor) *)
Theorem C19_resolve_numbering_irrelevant : forall (t1 t2 : table) (c : N) (a : bytes) (h1 h2 : N),
  c <= u32_max -> lenN t1 <= pow32 -> lenN t2 <= pow32 -> In a t1 -> In a t2 ->
  exists o1 o2, exid_to_opid t1 (EId c a h1) = Ok o1 /\ exid_to_opid t2 (EId c a h2) = Ok o2 /\
                denote t1 o1 = Some (c, a) /\ denote t2 o2 = Some (c, a).
Proof. exact resolve_numbering_irrelevant. Qed.
Theorem C19_resolve_unknown_actor : forall (t : table) (c : N) (a : bytes) (h : N),
  ~ In a t -> exid_to_opid t (EId c a h) = Err.
Proof. exact resolve_unknown_actor. Qed.

(* end to end: the id a replica (table tp) hands out for its internal id (c, i), serialised,
   decoded and resolved in a replica with table tq that knows the actor, denotes the same op *)
Theorem C19_exid_transport : forall (tp tq : table) (c i : N) (a : bytes),
  get_actor_safe tp i = Some a -> negb ((c =? 0) && (i =? 0)) = true ->
  c <= u32_max -> wf_bytesb a = true -> lenN a < pow64 ->
  lenN tp <= pow32 -> lenN tq <= pow32 -> In a tq ->
  exists e o, id_to_exid tp (c, i) = Ok e /\ exid_of_bytes (exid_to_bytes e) = Ok e /\
              exid_to_opid tq e = Ok o /\ denote tq o = denote tp (c, i).
Proof. exact exid_transport. Qed.
Example C19_exid_transport_nonvacuous :
  get_actor_safe [[1]; [9]] 1 = Some [9] /\ In [9] [[9]] /\
  exid_to_opid [[9]] (EId 5 [9] 1) = Ok (5, 0).     (* hint 1 is out of range in the table [[9]] *)
Proof. repeat split; try reflexivity. left. reflexivity. Qed.

(* cursors carry the actor, not an index *)
Theorem C19_cursor_resolve : forall (t : table) (c : N) (a : bytes),
  c <= u32_max -> lenN t <= pow32 -> In a t ->
  exists o, cursor_to_opid t c a = Ok o /\ denote t o = Some (c, a).
Proof. exact cursor_resolve_denotes. Qed.

(* end to end for cursors: made by one replica for its element (c, i) (OpCursor::new), sent as
   bytes or text, decoded, and resolved by a replica with another actor table *)
Theorem C19_cursor_transport : forall (tp tq : table) (c i : N) (a : bytes) (m : move_cursor),
  get_actor_safe tp i = Some a -> c <= u32_max -> wf_bytesb a = true -> lenN a < pow64 ->
  lenN tq <= pow32 -> In a tq ->
  exists cur o, cursor_new tp (c, i) m = Ok cur /\
                cursor_of_bytes (cursor_to_bytes cur) = Ok cur /\
                cursor_of_str (cursor_to_str cur) = Ok cur /\
                cursor_to_opid tq c a = Ok o /\ denote tq o = denote tp (c, i).
Proof. exact cursor_transport. Qed.
Example C19_cursor_transport_nonvacuous :
  get_actor_safe [[1]; [9]] 1 = Some [9] /\ In [9] [[0]; [9]; [200]] /\ cursor_to_opid [[0]; [9]; [200]] 5 [9] = Ok (5, 1).
Proof. repeat split; try reflexivity. right. left. reflexivity. Qed.
