(* C20 — Two-peer sync converges and goes quiet.
   Statements only; proofs in Sync/ProtoProofs.v and Sync/SyncInv.v. *)
From AM Require Import Base.Prelude Base.Order Gen.Consts Crdt.Types Crdt.Doc Crdt.QueueProofs Sync.Proto Sync.ProtoProofs.
Local Open Scope N_scope.

(* safety: a receive never loses a change and only adds changes the message carries *)
Theorem C20_sync_only_adds_peer_changes :
  forall (B : Type) (d : doc) (s : sync_state B) (m : message B) d' s',
    receive_sync_message d s m = Ok (d', s') ->
    incl (applied d ++ queue d) (applied d' ++ queue d') /\
    forall c, In c (applied d' ++ queue d') -> In c (applied d ++ queue d) \/ In c (msg_changes m).
Proof. exact sync_only_adds_peer_changes. Qed.

(* applied changes only grow and stay closed under dependencies *)
Theorem C20_sync_receive_monotone :
  forall (B : Type) (d : doc) (s : sync_state B) (m : message B) d' s',
    receive_sync_message d s m = Ok (d', s') ->
    incl (applied d) (applied d') /\ (dep_closed (applied d) -> dep_closed (applied d')).
Proof. exact sync_receive_monotone. Qed.

(* whatever a generated message carries is a change the sender holds (applied, or held as an orphan when the
   whole document is sent) *)
Theorem C20_generated_changes_from_sender :
  forall (B : Type) (b_make : list N -> B) (b_query : B -> N -> bool) (d : doc) (s : sync_state B) s' m,
    generate_sync_message b_make b_query d s = (s', Some m) -> incl (msg_changes m) (applied d ++ queue d).
Proof. exact generated_changes_from_sender. Qed.

(* ---- quiescence soundness, over ALL states reachable from fresh states ----
   Two peers with arbitrary dependency-closed documents inside a hash-addressed acyclic universe U, both
   sync states State::new(), empty channels; steps: either peer generates (the message, if any, is appended
   to its outgoing in-order channel), either peer receives the oldest message addressed to it, either peer
   edits locally (its applied changes grow, staying closed and inside U).  Scope (see Sync/SyncInv.v): both
   states stay read-write, and no generate step takes the reset path (the peer's last_sync names a change we
   lack), which a session between two fresh states never does on the implementation (counted by the harness).
   Then: whenever both peers return None from generate_sync_message and nothing is in flight, they hold the
   same changes and the same heads — for every Bloom filter behaviour (arbitrary false positives).
   NOT proved: that such a state is reached within a bounded number of rounds (explored by the harness). *)
From AM Require Import Sync.SyncInv.

Theorem C20_invariant_of_reachable_states :
  forall (B : Type) (b_make : list N -> B) (b_query : B -> N -> bool) (U : list change) (w : sys B),
    reachable B b_make b_query U w -> Inv B U w.
Proof. exact Inv_reachable. Qed.

Theorem C20_quiescent_implies_equal_heads :
  forall (B : Type) (b_make : list N -> B) (b_query : B -> N -> bool) (U : list change) (rk : change -> nat),
    hash_inj U ->
    (forall c c', In c U -> In c' U -> In (ch_hash c) (ch_deps c') -> (rk c < rk c')%nat) ->
    forall (w : sys B) (sa sb : sync_state B),
      reachable B b_make b_query U w -> cAB B w = [] -> cBA B w = [] ->
      generate_sync_message b_make b_query (dA B w) (sA B w) = (sa, None) ->
      generate_sync_message b_make b_query (dB B w) (sB B w) = (sb, None) ->
      same_changes (applied (dA B w)) (applied (dB B w)) /\
      forall h, In h (heads_of (applied (dA B w))) <-> In h (heads_of (applied (dB B w))).
Proof. exact quiescent_implies_equal_heads. Qed.

(* the `.ok()?` early exit of generate_sync_message can never be taken: a builder always exists *)
Theorem C20_build_total :
  forall (B : Type) (b_query : B -> N -> bool) (d : doc) (s : sync_state B), exists b, build b_query d s = Some b.
Proof. exact build_total. Qed.

(* ---- non-vacuity: A holds c1 <- c3, B holds c2; eight steps reach a quiescent state with all three ---- *)
Definition ex_mk (l : list N) : list N := l.
Definition ex_qr (l : list N) (h : N) : bool := memN h l.
Definition ex_c1 : change := mkChange 11 [1] 1 1 [] [].
Definition ex_c2 : change := mkChange 22 [2] 1 1 [] [].
Definition ex_c3 : change := mkChange 33 [1] 2 2 [11] [].
Definition ex_U : list change := [ex_c1; ex_c2; ex_c3].
Definition ex_w0 : sys (list N) :=
  mkSys _ (mkDoc [ex_c1; ex_c3] []) (mkDoc [ex_c2] []) fresh_state fresh_state [] [] None None.
Definition ex_script : list (bool * cmd) :=
  [(true, CGen); (false, CRecv); (false, CGen); (true, CRecv); (true, CGen); (false, CRecv); (false, CGen); (true, CRecv)].

Example C20_quiescent_nonvacuous :
  hash_inj ex_U /\
  (forall c c', In c ex_U -> In c' ex_U -> In (ch_hash c) (ch_deps c') -> (N.to_nat (ch_seq c) < N.to_nat (ch_seq c'))%nat) /\
  exists w, reachable _ ex_mk ex_qr ex_U w /\ cAB _ w = [] /\ cBA _ w = [] /\
    snd (generate_sync_message ex_mk ex_qr (dA _ w) (sA _ w)) = None /\
    snd (generate_sync_message ex_mk ex_qr (dB _ w) (sB _ w)) = None /\
    hashes (applied (dA _ w)) = [11; 33; 22] /\ hashes (applied (dB _ w)) = [22; 11; 33].
Proof.
  split; [|split].
  - intros c c' Hc Hc' E. cbn in Hc, Hc'.
    destruct Hc as [<-|[<-|[<-|[]]]]; destruct Hc' as [<-|[<-|[<-|[]]]]; cbn in E; try reflexivity; discriminate.
  - intros c c' Hc Hc' E. cbn in Hc, Hc'.
    destruct Hc as [<-|[<-|[<-|[]]]]; destruct Hc' as [<-|[<-|[<-|[]]]]; cbn in E; cbn; try lia;
      destruct E as [E|E]; try discriminate; try destruct E.
  - destruct (exec _ ex_mk ex_qr ex_w0 ex_script) as [w|] eqn:E; [|vm_compute in E; discriminate].
    exists w. split.
    + apply (exec_sound _ ex_mk ex_qr ex_U ex_script ex_w0 w); [|exact E]. apply R0.
      unfold initial, good_doc, ex_w0. cbn [dA dB sA sB cAB cBA gA gB applied queue].
      repeat split; try reflexivity.
      * intros c Hc h Hh. cbn in Hc. destruct Hc as [<-|[<-|[]]]; cbn in Hh; [destruct Hh|]. destruct Hh as [<-|[]]. reflexivity.
      * intros c Hc. cbn in Hc |- *. tauto.
      * intros c Hc h Hh. cbn in Hc. destruct Hc as [<-|[]]. destruct Hh.
      * intros c Hc. cbn in Hc |- *. tauto.
    + vm_compute in E. inversion E; subst. vm_compute. auto 10.
Qed.

Example C20_sync_only_adds_nonvacuous :
  exists d' s', receive_sync_message (mkDoc [ex_c2] []) (@fresh_state (list N))
                  (mkMsg [33] [] [] (Some [ex_c3; ex_c1]) (Some 4)) = Ok (d', s') /\
    hashes (applied d') = [22; 11; 33] /\ shared_heads s' = [33].
Proof. do 2 eexists. repeat split; vm_compute; reflexivity. Qed.
