(* C20 — Two-peer sync converges and goes quiet.
   Statements only; proofs in Sync/ProtoProofs.v and Sync/SyncInv.v. *)
From AM Require Import Base.Prelude Base.Order Gen.Consts Crdt.Types Crdt.Doc Crdt.QueueProofs Sync.Proto Sync.ProtoProofs.
Local Open Scope N_scope.

(* safety: a receive never loses a change and only adds changes the message carries *)
Theorem C20_sync_only_adds_peer_changes :
  forall (B : Type) (d : doc) (s : sync_state B) (m : message B) d' s',
    receive_sync_message d s m = Ok (d', s') ->
    incl (applied d ++ queue d) (applied d' ++ queue d') /\
    forall c, In c (applied d' ++ queue d') -> In c (applied d ++ queue d) \/ In c (msg_changes m).
Proof. exact sync_only_adds_peer_changes. Qed.

(* applied changes only grow and stay closed under dependencies *)
Theorem C20_sync_receive_monotone :
  forall (B : Type) (d : doc) (s : sync_state B) (m : message B) d' s',
    receive_sync_message d s m = Ok (d', s') ->
    incl (applied d) (applied d') /\ (dep_closed (applied d) -> dep_closed (applied d')).
Proof. exact sync_receive_monotone. Qed.

(* whatever a generated message carries is a change the sender holds (applied, or held as an orphan when the
   whole document is sent) *)
Theorem C20_generated_changes_from_sender :
  forall (B : Type) (b_make : list N -> B) (b_query : B -> N -> bool) (d : doc) (s : sync_state B) s' m,
    generate_sync_message b_make b_query d s = (s', Some m) -> incl (msg_changes m) (applied d ++ queue d).
Proof. exact generated_changes_from_sender. Qed.
