(* C21 — Multi-peer sync converges across disconnects.
   Statements only; proofs in Sync/ProtoProofs.v.  The per-link safety facts are those of C20. *)
From AM Require Import Base.Prelude Base.Order Gen.Consts Crdt.Types Crdt.Doc Crdt.QueueProofs Sync.Proto Sync.ProtoProofs.
Local Open Scope N_scope.

(* State::decode (State::encode s) keeps the shared heads and nothing else of the session *)
Theorem C21_decode_encode_state_resets_session :
  forall (B : Type) (s0 : sync_state B),
    persist s0 = mkSS (shared_heads s0) [] None None (Some []) [] false false None false false false.
Proof. exact decode_encode_state_resets_session. Qed.

(* no reconnected peer waits silently: a fresh state and a restored state always produce a message that
   announces the current heads, whatever the document *)
Theorem C21_fresh_state_speaks :
  forall (B : Type) (b_make : list N -> B) (b_query : B -> N -> bool) (d : doc),
    exists s' m, generate_sync_message b_make b_query d fresh_state = (s', Some m) /\
                 m_heads m = heads_of (applied d) /\ m_changes m = None /\
                 in_flight s' = true /\ have_responded s' = true.
Proof. exact fresh_state_speaks. Qed.

Theorem C21_persisted_state_speaks :
  forall (B : Type) (b_make : list N -> B) (b_query : B -> N -> bool) (d : doc) (s0 : sync_state B),
    exists s' m, generate_sync_message b_make b_query d (persist s0) = (s', Some m) /\
                 m_heads m = heads_of (applied d) /\ m_changes m = None /\
                 in_flight s' = true /\ have_responded s' = true /\
                 shared_heads s' = shared_heads s0 /\ sent_hashes s' = [].
Proof. exact persisted_state_speaks. Qed.

(* a peer restored with MORE shared heads than the other side still has (the other side lost data) is told
   so: the other side answers with a reset message and keeps its state ... *)
Theorem C21_reset_when_last_sync_unknown :
  forall (B : Type) (b_make : list N -> B) (b_query : B -> N -> bool) (d : doc) (s : sync_state B) h rest x,
    their_have s = Some (h :: rest) -> In x (hv_last_sync h) -> has_hash (applied d) x = false ->
    generate_sync_message b_make b_query d s = (s, Some (reset_message b_make (heads_of (applied d)))).
Proof. exact reset_when_last_sync_unknown. Qed.

(* ... and whoever receives a reset message forgets last_sync for that peer (it will offer everything) *)
Theorem C21_reset_message_received :
  forall (B : Type) (b_make : list N -> B) (d : doc) (s : sync_state B) hs d' s',
    receive_sync_message d s (reset_message b_make hs) = Ok (d', s') ->
    d' = d /\ their_have s' = Some [mkHave [] (b_make [])] /\ their_need s' = Some [] /\
    their_heads s' = Some hs /\ in_flight s' = false.
Proof. exact reset_message_received. Qed.

(* receiving on any link never loses changes and only adds what the message carries *)
Theorem C21_sync_only_adds_peer_changes :
  forall (B : Type) (d : doc) (s : sync_state B) (m : message B) d' s',
    receive_sync_message d s m = Ok (d', s') ->
    incl (applied d ++ queue d) (applied d' ++ queue d') /\
    forall c, In c (applied d' ++ queue d') -> In c (applied d ++ queue d) \/ In c (msg_changes m).
Proof. exact sync_only_adds_peer_changes. Qed.

Definition ex_c1 : change := mkChange 11 [1] 1 1 [] [].
Example C21_reset_nonvacuous :
  exists s m, generate_sync_message (fun l : list N => l) (fun l h => memN h l) (mkDoc [ex_c1] [])
      (mkSS [] [] (Some [99]) (Some []) (Some [mkHave [99] []]) [] false true None false false false) = (s, Some m)
    /\ m_have m = [mkHave [] []] /\ m_heads m = [11] /\ in_flight s = false.
Proof. eexists. eexists. split; [vm_compute; reflexivity|]. cbn. auto. Qed.

Example C21_reset_message_received_nonvacuous :
  exists s', receive_sync_message (mkDoc [ex_c1] [])
      (mkSS [11] [11] (Some [11]) (Some []) (Some []) [11] true true None false false false)
      (reset_message (fun l : list N => l) []) = Ok (mkDoc [ex_c1] [], s') /\
    sent_hashes s' = [] /\ last_sent_heads s' = [] /\ shared_heads s' = [].
Proof. eexists. repeat split; vm_compute; reflexivity. Qed.
