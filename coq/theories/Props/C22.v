(* C22 — Read-only sync never applies incoming changes; the other peer still receives the read-only
   peer's changes; switching back to read-write makes the peer catch up.
   Statements only; proofs in Sync/ProtoProofs.v.  Every theorem is quantified over the Bloom filter
   (type, constructor, query): false positives are arbitrary. *)
From AM Require Import Base.Prelude Base.Order Gen.Consts Crdt.Types Crdt.Doc Sync.Proto Sync.ProtoProofs.
Local Open Scope N_scope.

(* for EVERY state with read_only set and EVERY message, the document after receive is the document before *)
Theorem C22_read_only_receive_doc_unchanged :
  forall (B : Type) (d : doc) (s : sync_state B) (m : message B) d' s',
    read_only s = true -> receive_sync_message d s m = Ok (d', s') -> d' = d.
Proof. exact read_only_receive_doc_unchanged. Qed.

(* which changes go into a message is independent of our own read-only flag, and contains every change the
   peer lacks according to what it told us (not an ancestor of its last_sync, reported by none of its
   filters, not already sent in this session) *)
Theorem C22_read_only_still_sends :
  forall (B : Type) (b_query : B -> N -> bool) (d : doc) (s : sync_state B) (ro : bool) hv nd b c,
    their_have s = Some hv -> hv <> [] -> their_need s = Some nd -> peer_read_only s = false ->
    build b_query d (with_read_only B s ro) = Some b ->
    In c (get_changes (applied d) (flat_map hv_last_sync hv)) ->
    all_negative b_query (map hv_bloom hv) (ch_hash c) = true ->
    ~ In (ch_hash c) (sent_hashes s) ->
    In (ch_hash c) (b_hashes b).
Proof. exact read_only_still_sends. Qed.

(* a read-only peer with something to send that is not waiting for an answer does send it, flagged READ_ONLY,
   asking for nothing *)
Theorem C22_read_only_generate_sends :
  forall (B : Type) (b_make : list N -> B) (b_query : B -> N -> bool) (d : doc) (s : sync_state B) b,
    read_only s = true -> reset_cond d s = false -> build b_query d s = Some b ->
    b_hashes b <> [] -> in_flight s = false ->
    exists s' m, generate_sync_message b_make b_query d s = (s', Some m) /\ m_changes m = b_changes b /\
                 m_flags m <> None /\ (forall f, m_flags m = Some f -> flag_has f FLAG_READ_ONLY = true) /\
                 m_need m = [] /\ read_only s' = true /\ in_flight s' = true.
Proof. exact read_only_generate_sends. Qed.

(* switching back: the session is forgotten (only the peer's capabilities survive), and the next generate
   always produces a message that either carries SYNC_RESET (peer understands it) or announces no heads
   (old peer), with a filter over ALL our changes and no read-only flag *)
Theorem C22_set_read_only_false_requests_reset :
  forall (B : Type) (b_make : list N -> B) (b_query : B -> N -> bool) (d : doc) (s : sync_state B),
    read_only s = true ->
    exists s2 m, generate_sync_message b_make b_query d (set_read_only s false) = (s2, Some m) /\
      needs_reset s2 = false /\ read_only s2 = false /\ in_flight s2 = true /\
      m_need m = [] /\ m_have m = [make_bloom b_make d []] /\ m_changes m = None /\
      ((peer_supports_sync_reset s = true /\ m_heads m = heads_of (applied d) /\
        exists f, m_flags m = Some f /\ flag_has f FLAG_SYNC_RESET = true /\ flag_has f FLAG_READ_ONLY = false)
       \/ (peer_supports_sync_reset s = false /\ m_heads m = [] /\
           exists f, m_flags m = Some f /\ flag_has f FLAG_READ_ONLY = false)).
Proof. exact set_read_only_false_requests_reset. Qed.

(* either form of the reset empties the receiver's record of what it has already sent *)
Theorem C22_reset_clears_sent_hashes :
  forall (B : Type) (d : doc) (s : sync_state B) (m : message B) d' s',
    receive_sync_message d s m = Ok (d', s') ->
    (exists f, m_flags m = Some f /\ flag_has f FLAG_SYNC_RESET = true) \/ m_heads m = [] ->
    sent_hashes s' = [].
Proof. exact reset_clears_sent_hashes. Qed.

(* catch-up (partial): once the writer has received the message generated right after the switch, its next
   builder carries every one of its changes that the switched peer's filter does not report — with no
   false positive that is every change the peer skipped.  NOT proved here: that the changes withheld by a
   false positive are then fetched through `need` and that the exchange terminates (explored by the
   harness: after the switch every session is run to quiescence and the documents compared). *)
Theorem C22_catch_up_after_reset_partial :
  forall (B : Type) (b_make : list N -> B) (b_query : B -> N -> bool) (dR dW : doc) (sR sW : sync_state B),
    read_only sR = true ->
    exists sR2 m, generate_sync_message b_make b_query dR (set_read_only sR false) = (sR2, Some m) /\
      forall dW' sW', receive_sync_message dW sW m = Ok (dW', sW') ->
        dW' = dW /\ sent_hashes sW' = [] /\ peer_read_only sW' = false /\
        forall b, build b_query dW sW' = Some b ->
          forall c, In c (applied dW) ->
            b_query (b_make (hashes (applied dR))) (ch_hash c) = false ->
            In (ch_hash c) (b_hashes b).
Proof. exact catch_up_after_reset_partial. Qed.

(* ---- non-vacuity: a read-only peer R (one change) and a writer W (another change), set-valued filter ---- *)
Definition ex_make (l : list N) : list N := l.
Definition ex_query (l : list N) (h : N) : bool := memN h l.
Definition ex_c1 : change := mkChange 11 [1] 1 1 [] [].
Definition ex_c2 : change := mkChange 22 [2] 1 1 [] [].
Definition ex_dR : doc := mkDoc [ex_c1] [].
Definition ex_dW : doc := mkDoc [ex_c2] [].
Definition ex_msgW : message (list N) :=
  match generate_sync_message ex_make ex_query ex_dW fresh_state with (_, Some m) => m | _ => mkMsg [] [] [] None None end.

Example C22_read_only_receive_nonvacuous :
  exists s', receive_sync_message ex_dR (@fresh_read_only (list N))
               (mkMsg [22] [] [] (Some [ex_c2]) (Some 4)) = Ok (ex_dR, s') /\ read_only s' = true.
Proof. eexists. split; vm_compute; reflexivity. Qed.

Example C22_read_only_sends_nonvacuous :
  exists sR1 sR2 m, receive_sync_message ex_dR fresh_read_only ex_msgW = Ok (ex_dR, sR1) /\
    generate_sync_message ex_make ex_query ex_dR sR1 = (sR2, Some m) /\
    m_changes m = Some [ex_c1] /\ m_flags m = Some 6.
Proof. do 3 eexists. repeat split; vm_compute; reflexivity. Qed.

Example C22_catch_up_nonvacuous :
  exists sR2 m sW' b, generate_sync_message ex_make ex_query ex_dR (set_read_only fresh_read_only false) = (sR2, Some m) /\
    m_heads m = [] /\ receive_sync_message ex_dW fresh_state m = Ok (ex_dW, sW') /\
    build ex_query ex_dW sW' = Some b /\ b_hashes b = [22].
Proof. do 4 eexists. repeat split; vm_compute; reflexivity. Qed.

Example C22_reset_clears_sent_hashes_nonvacuous :
  exists s', receive_sync_message ex_dW
      (mkSS [] [22] (Some [11]) (Some []) (Some []) [22] true true None false true false)
      (mkMsg [11] [] [mkHave [] [11]] None (Some 5)) = Ok (ex_dW, s') /\
    sent_hashes s' = [] /\ peer_read_only s' = false.
Proof. eexists. repeat split; vm_compute; reflexivity. Qed.
