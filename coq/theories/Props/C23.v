(* C23 — The sync Bloom filter has no false negatives and never crashes.
   Statements only; proofs live in Codec/BloomProofs.v. *)
From AM Require Import Base.Prelude Gen.Consts Codec.Bloom Codec.BloomProofs.
Local Open Scope N_scope.

(* every member of a filter built from hashes is reported present *)
Theorem C23_no_false_negative : forall (hs : list bytes) (h : bytes),
  small hs -> In h hs -> exists f, from_hashes hs = Ok f /\ contains f h = Ok true.
Proof. exact bloom_no_false_negative. Qed.

(* ... including after encoding and decoding: the decoded filter is the same filter *)
Theorem C23_roundtrip : forall (hs : list bytes) (f : filter),
  lenN hs <= u32_max -> from_hashes hs = Ok f -> parse (to_bytes f) = Ok (f, []).
Proof. exact bloom_roundtrip. Qed.

(* querying any decoded filter, including one decoded from arbitrary bytes, returns a boolean *)
Theorem C23_query_total : forall (bs : bytes) (f : filter) (rest : bytes) (h : bytes),
  parse bs = Ok (f, rest) -> 16 * lenN bs <= pow32 -> exists b, contains f h = Ok b.
Proof. exact bloom_query_total. Qed.

Theorem C23_parse_no_panic : forall bs : bytes, parse bs <> Panic.
Proof. exact bloom_parse_no_panic. Qed.
