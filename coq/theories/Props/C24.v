(* C24 — Text indexes are consistent in every text encoding.
   Over the model of Crdt/Local.v (widths: TextEncoding::width of types.rs for code points, UTF-8 and
   UTF-16; element width = width of the winning value's string, U+FFFC for a non-string): the length
   of a text is the width of its string; the element an index resolves to (get, put, delete, increment,
   cursors use the same seek) is the one whose span, measured in the encoding, covers the index; an insert
   / splice lands on the element boundary at or after the index and is rejected exactly beyond the length.
   Grapheme clusters are outside the model (widths by an oracle): the implementation violates the property
   there (known finding edit|grapheme-length); spans / marks / cursors are checked directly by the family. *)
From AM Require Import Base.Prelude Base.Order Crdt.Types Crdt.Interp Crdt.Local Crdt.LocalProofs Crdt.TextProofs.
Local Open Scope N_scope.

Theorem C24_width_additive : forall e a b, str_width e (a ++ b) = str_width e a + str_width e b.
Proof. exact str_width_app. Qed.

Theorem C24_width_per_character : forall e c, 1 <= cp_width e c <= 4.
Proof. exact cp_width_bounds. Qed.

Theorem C24_length_eq_width : forall e els, text_len e els = str_width e (text_str els).
Proof. exact text_len_eq_width. Qed.

Theorem C24_text_is_concat_of_elements : forall ops obj id,
  text_of (mkO id OText (EL (map snd (seq_elems ops obj)))) = text_str (seq_elems ops obj).
Proof. exact text_of_seq. Qed.

Theorem C24_index_in_encoding : forall e els idx el r s wd p,
  seek (elem_w e OText) els idx 0 0 = Some (el, r, s, wd, p) ->
  nth_error els p = Some (el, r) /\
  s = str_width e (text_str (firstn p els)) /\ wd = str_width e (elem_text r) /\ s <= idx < s + wd.
Proof. exact seek_in_encoding. Qed.

Theorem C24_index_defined_iff_below_length : forall e els idx,
  seek (elem_w e OText) els idx 0 0 = None <-> str_width e (text_str els) <= idx.
Proof. exact seek_defined_iff. Qed.

Theorem C24_insert_index_in_encoding : forall e ops obj idx ref idx' j,
  query_insert e OText ops obj idx = Some (ref, idx', j) ->
  idx' = str_width e (text_str (firstn j (seq_elems ops obj))) /\ idx <= idx' /\
  (j <= length (seq_elems ops obj))%nat.
Proof. exact insert_index_in_encoding. Qed.

Theorem C24_insert_rejected_iff_beyond_length : forall e ops obj idx,
  query_insert e OText ops obj idx = None <-> str_width e (text_str (seq_elems ops obj)) < idx.
Proof. exact insert_rejected_iff. Qed.

(* non-vacuity: "a", U+00E9 (2 UTF-8 units), U+1F600 (4 UTF-8 units, 2 UTF-16 units) *)
Definition ex_els : list (opid * regobs) :=
  [ ((2, [1]), [((2, [1]), VS (SStr [97]))]);
    ((3, [1]), [((3, [1]), VS (SStr [233]))]);
    ((4, [1]), [((4, [1]), VS (SStr [128512]))]) ].

Example C24_index_nonvacuous :
  text_len EncU8 ex_els = 7 /\ text_len EncU16 ex_els = 4 /\ text_len EncCP ex_els = 3 /\
  seek (elem_w EncU8 OText) ex_els 2 0 0 = Some ((3, [1]), [((3, [1]), VS (SStr [233]))], 1, 2, 1%nat) /\
  seek (elem_w EncU16 OText) ex_els 3 0 0 = Some ((4, [1]), [((4, [1]), VS (SStr [128512]))], 2, 2, 2%nat) /\
  seek (elem_w EncU8 OText) ex_els 7 0 0 = None.
Proof. repeat split; vm_compute; reflexivity. Qed.

Example C24_insert_nonvacuous :
  let ops := [ mkOp (1, [1]) root_id (KMap [116]) false (AMake OText) [];
               mkOp (2, [1]) (1, [1]) (KSeq head_id) true (APut (SStr [97])) [];
               mkOp (3, [1]) (1, [1]) (KSeq (2, [1])) true (APut (SStr [128512])) [] ] in
  query_insert EncU8 OText ops (1, [1]) 3 = Some ((3, [1]), 5, 2%nat) /\
  query_insert EncU8 OText ops (1, [1]) 6 = None.
Proof. split; vm_compute; reflexivity. Qed.
