(* C25 — Rich-text marks follow Peritext semantics and agree across reads.
   Statements only; proofs in Crdt/MarksProofs.v.  The model (Crdt/Marks.v) mirrors MarkStateMachine /
   MarkAccumulator (marks.rs), calculate_marks / get_marks_for / spans_for (automerge.rs, iter/spans.rs),
   InsertQuery (op_set2/op_set/insert.rs) and TransactionInner::mark / unmark.  [its] is the element
   sequence of one text (MarkBegin / MarkEnd / characters in document order), [text_view e ops obj] the
   element sequence of text [obj] in a set of operations given in any order. *)
From AM Require Import Base.Prelude Base.Order Crdt.Types Crdt.Interp Crdt.Local Crdt.Marks Crdt.MarksProofs.
Local Open Scope N_scope.

(* The Peritext rule.  At every visible character the walk reports, for a name, the value of the mark
   with the greatest id among the marks of that name that cover the character (begin before it, no
   matching end in between); a name is absent iff no mark of that name covers it. *)
Theorem C25_mark_value_highest_id : forall l1 l2 c w s n v,
  NoDup (begin_ids (l1 ++ IChar c true w s :: l2)) ->
  exists e, nth_error (marking (l1 ++ IChar c true w s :: l2) []) (length (marking l1 [])) = Some e /\
            p_id e = c /\
    (In (n, v) (p_set e) <->
     exists id, covers l1 id n v /\ forall id' v', covers l1 id' n v' -> opid_le id' id).
Proof. exact mark_value_highest_id. Qed.

(* ... a null value means unmarked: what a reader reports is the set without its null entries *)
Theorem C25_null_is_unmarked : forall m n v,
  In (n, v) (without_unmarks m) <-> In (n, v) m /\ v <> SNull.
Proof. exact without_unmarks_in. Qed.

(* the open marks after any prefix of the text: begin seen, no end naming it seen since *)
Theorem C25_open_marks : forall its id n v,
  NoDup (begin_ids its) ->
  (In (id, n, v) (final_open its) <->
   exists l1 ex l2, its = l1 ++ IBegin id ex n v :: l2 /\
                    forallb (fun it => negb (ends id it)) l2 = true).
Proof. exact open_spec. Qed.

(* get_marks(i) is the pointwise marking of the i-th visible character ... *)
Theorem C25_get_marks_eq_pointwise : forall its i,
  (i < length (marking its []))%nat ->
  get_marks its i = without_unmarks (marks_at_elem its i).
Proof. exact get_marks_eq_pointwise. Qed.

(* ... which is the marking at text position i when every character is one unit wide *)
Theorem C25_get_marks_eq_pointwise_unit : forall its i,
  Forall (fun e => p_w e = 1) (marking its []) -> (i < length (marking its []))%nat ->
  get_marks its i = without_unmarks (marks_at_pos its (N.of_nat i)).
Proof. exact get_marks_eq_pointwise_unit. Qed.

(* the known finding: read as a TEXT index (the unit of marks(), spans(), mark(), splice_text) get_marks
   disagrees with the other readers as soon as a character is wider than one unit *)
Theorem C25_get_marks_text_index_refuted :
  exists (e : enc) (ops : list op) (obj : opid) (i : nat),
    let its := text_view e ops obj in
    marks its = [(2, 3, [98; 111; 108; 100], SBool true)] /\
    get_marks its i <> without_unmarks (marks_at_pos its (N.of_nat i)).
Proof. exact get_marks_text_index_refuted. Qed.

(* marks() — the mirror of calculate_marks_slow and MarkAccumulator (run grouping, merging of adjacent
   equal ranges, null ranges dropped): a text position lies in a reported range of name n with value v
   exactly when the pointwise marking gives n the non-null value v there *)
Theorem C25_marks_eq_pointwise : forall its p n v,
  (exists s e, In (s, e, n, v) (marks its) /\ s <= p < e) <->
  In (n, v) (without_unmarks (marks_at_pos its p)).
Proof. exact marks_eq_pointwise. Qed.

(* spans(): every code point of every span carries the span's mark set = the reported (non-null) set of
   its character; and the spans concatenate to the text *)
Theorem C25_spans_marks_eq_pointwise : forall its,
  Forall (fun e => 0 < p_w e) (marking its []) ->
  expand_spans (spans its) = pointwise_chars (marking its []).
Proof. exact spans_marks_eq_pointwise. Qed.

Theorem C25_spans_concat_text : forall its,
  Forall (fun e => 0 < p_w e) (marking its []) ->
  flat_map fst (spans its) = flat_map p_txt (marking its []).
Proof. exact spans_concat_text. Qed.

(* expand (partial: ONE mark over plain text — visible characters of positive width, no tombstones, no
   other mark; stated on the element sequence, where the new element lands right after the reference the
   insert query picks because it carries the greatest id, cf. Interp.place).  A character inserted by the
   model's insert rule (InsertQuery) exactly at the start boundary is reported as marked iff the mark
   expands before ... *)
Theorem C25_expand_single_mark_start_partial : forall pre b xb n v c w s rest q wq sq,
  Forall pos_char pre -> 0 < w ->
  NoDup (map item_id (pre ++ [IBegin b xb n v])) -> ~ In head_id (map item_id (pre ++ [IBegin b xb n v])) ->
  let its := pre ++ IBegin b xb n v :: IChar c true w s :: rest in
  exists r, anchor (cw_sum pre) its = Some (r, cw_sum pre) /\
    exists l1 l2, place_item r (IChar q true wq sq) its = l1 ++ IChar q true wq sq :: l2 /\
                  current (final_open l1) = if xb then [(n, v)] else [].
Proof. exact expand_single_mark_start. Qed.

(* ... and exactly at the end boundary iff the mark expands after *)
Theorem C25_expand_single_mark_end_partial : forall pre b xb n v mid e xe post q wq sq,
  Forall pos_char pre -> Forall pos_char mid -> mid <> [] -> opid_prev e = b ->
  (post = [] \/ exists c w s t, post = IChar c true w s :: t) ->
  NoDup (map item_id (pre ++ IBegin b xb n v :: mid ++ [IEnd e xe])) ->
  ~ In head_id (map item_id (pre ++ IBegin b xb n v :: mid ++ [IEnd e xe])) ->
  let its := pre ++ IBegin b xb n v :: mid ++ IEnd e xe :: post in
  exists r, anchor (cw_sum pre + cw_sum mid) its = Some (r, cw_sum pre + cw_sum mid) /\
    exists l1 l2, place_item r (IChar q true wq sq) its = l1 ++ IChar q true wq sq :: l2 /\
                  current (final_open l1) = if xe then [(n, v)] else [].
Proof. exact expand_single_mark_end. Qed.

(* the set reported for a character is [current] of the marks open in front of it *)
Theorem C25_marking_at_char : forall l1 st id w s l2,
  marking (l1 ++ IChar id true w s :: l2) st =
  marking l1 st ++ mkP id w s (current (fold_left step_open l1 st)) :: marking l2 (fold_left step_open l1 st).
Proof. exact marking_app. Qed.

(* convergence: every reader is a function of the SET of operations *)
Theorem C25_marks_converge : forall e obj ops1 ops2,
  NoDup (map op_id ops1) -> Permutation ops1 ops2 ->
  marks (text_view e ops1 obj) = marks (text_view e ops2 obj) /\
  spans (text_view e ops1 obj) = spans (text_view e ops2 obj) /\
  (forall i, get_marks (text_view e ops1 obj) i = get_marks (text_view e ops2 obj) i) /\
  (forall p, marks_at_pos (text_view e ops1 obj) p = marks_at_pos (text_view e ops2 obj) p).
Proof. exact marks_converge. Qed.

(* ---- non-vacuity: "ab" + e-acute + "c"; bold [1,4) by actor 1 (id 6), a concurrent bold = 7 over
   [0,2) by actor 2 (id 6, greater actor), an unmark of bold on the last marked character (id 8) ---- *)
Definition ex_a1 : actor := [1].
Definition ex_a2 : actor := [2].
Definition ex_t : opid := (1, ex_a1).
Definition ex_bold : mname := [98; 111; 108; 100].
Definition ex_ops : list op :=
  [ mkOp (1, ex_a1) root_id (KMap [116]) false (AMake OText) [];
    mkOp (2, ex_a1) ex_t (KSeq head_id) true (APut (SStr [97])) [];
    mkOp (3, ex_a1) ex_t (KSeq (2, ex_a1)) true (APut (SStr [98])) [];
    mkOp (4, ex_a1) ex_t (KSeq (3, ex_a1)) true (APut (SStr [233])) [];
    mkOp (5, ex_a1) ex_t (KSeq (4, ex_a1)) true (APut (SStr [99])) [];
    mkOp (6, ex_a1) ex_t (KSeq (2, ex_a1)) true (AMarkBegin true ex_bold (SBool true)) [];
    mkOp (7, ex_a1) ex_t (KSeq (4, ex_a1)) true (AMarkEnd true) [];
    mkOp (6, ex_a2) ex_t (KSeq head_id) true (AMarkBegin false ex_bold (SInt 7)) [];
    mkOp (7, ex_a2) ex_t (KSeq (3, ex_a1)) true (AMarkEnd false) [];
    mkOp (8, ex_a1) ex_t (KSeq (3, ex_a1)) true (AMarkBegin false ex_bold SNull) [];
    mkOp (9, ex_a1) ex_t (KSeq (4, ex_a1)) true (AMarkEnd false) [] ].

Example C25_readers_nonvacuous :
  let its := text_view EncU8 ex_ops ex_t in
  marks its = [(0, 2, ex_bold, SInt 7)] /\
  map (get_marks its) [0; 1; 2; 3; 4]%nat = [[(ex_bold, SInt 7)]; [(ex_bold, SInt 7)]; []; []; []] /\
  spans its = [([97; 98], [(ex_bold, SInt 7)]); ([233; 99], [])] /\
  map (marks_at_pos its) [0; 1; 2; 3; 4] =
    [[(ex_bold, SInt 7)]; [(ex_bold, SInt 7)]; [(ex_bold, SNull)]; [(ex_bold, SNull)]; []] /\
  NoDup (begin_ids its) /\ NoDup (map op_id ex_ops) /\
  text_view EncU8 (rev ex_ops) ex_t = its.
Proof.
  repeat split; try (vm_compute; reflexivity).
  - vm_compute. repeat constructor; cbn; intuition discriminate.
  - vm_compute. repeat constructor; cbn; intuition discriminate.
Qed.

(* non-vacuity of the expand theorems on operations: "abc", mark [1,2) by the model's [mark_text], then a
   character spliced in at the start (1) / end (2) boundary by the model's [splice_text_m] *)
Definition ex_text0 : list op :=
  [ mkOp (1, ex_a1) root_id (KMap [116]) false (AMake OText) [];
    mkOp (2, ex_a1) ex_t (KSeq head_id) true (APut (SStr [97])) [];
    mkOp (3, ex_a1) ex_t (KSeq (2, ex_a1)) true (APut (SStr [98])) [];
    mkOp (4, ex_a1) ex_t (KSeq (3, ex_a1)) true (APut (SStr [99])) [] ].
Definition ex_run (x : expand_mode) (at_ : N) : list mark :=
  let t1 := fst (mark_text EncCP (begin_tx ex_text0 ex_a1) ex_t 1 2 ex_bold (SBool true) x) in
  match splice_text_m EncCP t1 ex_t at_ 0 [81] with
  | EOk t2 => marks (text_view EncCP (tx_all t2) ex_t)
  | _ => []
  end.

Example C25_expand_nonvacuous :
  ex_run XBoth 1 = [(1, 3, ex_bold, SBool true)] /\ ex_run XBoth 2 = [(1, 3, ex_bold, SBool true)] /\
  ex_run XNone 1 = [(2, 3, ex_bold, SBool true)] /\ ex_run XNone 2 = [(1, 2, ex_bold, SBool true)] /\
  ex_run XBefore 1 = [(1, 3, ex_bold, SBool true)] /\ ex_run XBefore 2 = [(1, 2, ex_bold, SBool true)] /\
  ex_run XAfter 1 = [(2, 3, ex_bold, SBool true)] /\ ex_run XAfter 2 = [(1, 3, ex_bold, SBool true)].
Proof. repeat split; vm_compute; reflexivity. Qed.

Example C25_expand_items_nonvacuous :
  let its := text_view EncCP (tx_all (fst (mark_text EncCP (begin_tx ex_text0 ex_a1) ex_t 1 2 ex_bold (SBool true) XBefore))) ex_t in
  its = [IChar (2, ex_a1) true 1 [97]; IBegin (5, ex_a1) true ex_bold (SBool true); IChar (3, ex_a1) true 1 [98];
         IEnd (6, ex_a1) false; IChar (4, ex_a1) true 1 [99]] /\
  anchor 1 its = Some ((5, ex_a1), 1) /\ anchor 2 its = Some ((6, ex_a1), 2).
Proof. repeat split; vm_compute; reflexivity. Qed.
