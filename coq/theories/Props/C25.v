(* C25 — Rich-text marks follow Peritext semantics and agree across reads.
   Statements only; proofs in Crdt/MarksProofs.v.  The model (Crdt/Marks.v) mirrors MarkStateMachine /
   MarkAccumulator (marks.rs), calculate_marks / get_marks_for / spans_for (automerge.rs, iter/spans.rs),
   InsertQuery (op_set2/op_set/insert.rs) and TransactionInner::mark / unmark.  [its] is the element
   sequence of one text (MarkBegin / MarkEnd / characters in document order), [text_view e ops obj] the
   element sequence of text [obj] in a set of operations given in any order. *)
From AM Require Import Base.Prelude Base.Order Crdt.Types Crdt.Interp Crdt.Local Crdt.Marks Crdt.MarksProofs.
Local Open Scope N_scope.

(* The Peritext rule.  At every visible character the walk reports, for a name, the value of the mark
   with the greatest id among the marks of that name that cover the character (begin before it, no
   matching end in between); a name is absent iff no mark of that name covers it. *)
Theorem C25_mark_value_highest_id : forall l1 l2 c w s n v,
  NoDup (begin_ids (l1 ++ IChar c true w s :: l2)) ->
  exists e, nth_error (marking (l1 ++ IChar c true w s :: l2) []) (length (marking l1 [])) = Some e /\
            p_id e = c /\
    (In (n, v) (p_set e) <->
     exists id, covers l1 id n v /\ forall id' v', covers l1 id' n v' -> opid_le id' id).
Proof. exact mark_value_highest_id. Qed.

(* ... a null value means unmarked: what a reader reports is the set without its null entries *)
Theorem C25_null_is_unmarked : forall m n v,
  In (n, v) (without_unmarks m) <-> In (n, v) m /\ v <> SNull.
Proof. exact without_unmarks_in. Qed.

(* the open marks after any prefix of the text: begin seen, no end naming it seen since *)
Theorem C25_open_marks : forall its id n v,
  NoDup (begin_ids its) ->
  (In (id, n, v) (final_open its) <->
   exists l1 ex l2, its = l1 ++ IBegin id ex n v :: l2 /\
                    forallb (fun it => negb (ends id it)) l2 = true).
Proof. exact open_spec. Qed.

(* get_marks(i) is the pointwise marking of the i-th visible character ... *)
Theorem C25_get_marks_eq_pointwise : forall its i,
  (i < length (marking its []))%nat ->
  get_marks its i = without_unmarks (marks_at_elem its i).
Proof. exact get_marks_eq_pointwise. Qed.

(* ... which is the marking at text position i when every character is one unit wide *)
Theorem C25_get_marks_eq_pointwise_unit : forall its i,
  Forall (fun e => p_w e = 1) (marking its []) -> (i < length (marking its []))%nat ->
  get_marks its i = without_unmarks (marks_at_pos its (N.of_nat i)).
Proof. exact get_marks_eq_pointwise_unit. Qed.

(* convergence: every reader is a function of the SET of operations *)
Theorem C25_marks_converge : forall e obj ops1 ops2,
  NoDup (map op_id ops1) -> Permutation ops1 ops2 ->
  marks (text_view e ops1 obj) = marks (text_view e ops2 obj) /\
  spans (text_view e ops1 obj) = spans (text_view e ops2 obj) /\
  (forall i, get_marks (text_view e ops1 obj) i = get_marks (text_view e ops2 obj) i) /\
  (forall p, marks_at_pos (text_view e ops1 obj) p = marks_at_pos (text_view e ops2 obj) p).
Proof. exact marks_converge. Qed.

(* ---- non-vacuity: "ab" + e-acute + "c"; bold [1,4) by actor 1 (id 6), a concurrent bold = 7 over
   [0,2) by actor 2 (id 6, greater actor), an unmark of bold on the last marked character (id 8) ---- *)
Definition ex_a1 : actor := [1].
Definition ex_a2 : actor := [2].
Definition ex_t : opid := (1, ex_a1).
Definition ex_bold : mname := [98; 111; 108; 100].
Definition ex_ops : list op :=
  [ mkOp (1, ex_a1) root_id (KMap [116]) false (AMake OText) [];
    mkOp (2, ex_a1) ex_t (KSeq head_id) true (APut (SStr [97])) [];
    mkOp (3, ex_a1) ex_t (KSeq (2, ex_a1)) true (APut (SStr [98])) [];
    mkOp (4, ex_a1) ex_t (KSeq (3, ex_a1)) true (APut (SStr [233])) [];
    mkOp (5, ex_a1) ex_t (KSeq (4, ex_a1)) true (APut (SStr [99])) [];
    mkOp (6, ex_a1) ex_t (KSeq (2, ex_a1)) true (AMarkBegin true ex_bold (SBool true)) [];
    mkOp (7, ex_a1) ex_t (KSeq (4, ex_a1)) true (AMarkEnd true) [];
    mkOp (6, ex_a2) ex_t (KSeq head_id) true (AMarkBegin false ex_bold (SInt 7)) [];
    mkOp (7, ex_a2) ex_t (KSeq (3, ex_a1)) true (AMarkEnd false) [];
    mkOp (8, ex_a1) ex_t (KSeq (3, ex_a1)) true (AMarkBegin false ex_bold SNull) [];
    mkOp (9, ex_a1) ex_t (KSeq (4, ex_a1)) true (AMarkEnd false) [] ].

Example C25_readers_nonvacuous :
  let its := text_view EncU8 ex_ops ex_t in
  marks its = [(0, 2, ex_bold, SInt 7)] /\
  map (get_marks its) [0; 1; 2; 3; 4]%nat = [[(ex_bold, SInt 7)]; [(ex_bold, SInt 7)]; []; []; []] /\
  spans its = [([97; 98], [(ex_bold, SInt 7)]); ([233; 99], [])] /\
  map (marks_at_pos its) [0; 1; 2; 3; 4] =
    [[(ex_bold, SInt 7)]; [(ex_bold, SInt 7)]; [(ex_bold, SNull)]; [(ex_bold, SNull)]; []] /\
  NoDup (begin_ids its) /\ NoDup (map op_id ex_ops) /\
  text_view EncU8 (rev ex_ops) ex_t = its.
Proof.
  repeat split; try (vm_compute; reflexivity).
  - vm_compute. repeat constructor; cbn; intuition discriminate.
  - vm_compute. repeat constructor; cbn; intuition discriminate.
Qed.
