(* C26 — Cursors track their element through edits.
   Statements only; proofs in Crdt/CursorProofs.v.  [oops] is the set of operations of one list or
   text object (ascending id) — of the current document or of the document at historical heads;
   the width of a visible element is a parameter (1 in lists, the width of its character in the
   document's text encoding in texts).  The model (Crdt/Cursor.v) mirrors get_cursor_for /
   get_cursor_position_for / seek_list_opid. *)
From AM Require Import Base.Prelude Base.Order Crdt.Types Crdt.Interp Crdt.Cursor Crdt.CursorProofs.
Local Open Scope N_scope.

(* get_cursor_position(get_cursor(i)) = i, whatever the move mode (lists) *)
Theorem C26_fresh_cursor : forall oops i c mode,
  NoDup (map op_id oops) ->
  cursor_at width_list oops i = Some c ->
  resolve width_list oops mode c = Ok i.
Proof. exact list_fresh_cursor. Qed.

(* MoveCursor::After, in ANY later state that still holds the cursor's op (any further local or merged
   operations): the position is the total width of the visible elements before the cursor's element ... *)
Theorem C26_after_position : forall width oops c o pre post,
  find_op oops c = Some o -> is_inc o = false -> is_del o = false ->
  elem_order oops = pre ++ elem_of o :: post -> ~ In (elem_of o) pre ->
  resolve width oops MoveAfter c = Ok (sumN (map (elem_width width oops) pre)).
Proof. exact resolve_after_spec. Qed.

(* ... which in a list is the element's own index while it is visible, and once it is deleted the index
   of the next surviving element, or the length when none survives *)
Theorem C26_list_after : forall oops c o pre post,
  find_op oops c = Some o -> is_inc o = false -> is_del o = false ->
  elem_order oops = pre ++ elem_of o :: post -> ~ In (elem_of o) pre ->
  exists i, resolve width_list oops MoveAfter c = Ok (N.of_nat i) /\
    i = length (filter (elem_vis oops) pre) /\
    (elem_vis oops (elem_of o) = true -> nth_error (vis_elems oops) i = Some (elem_of o)) /\
    (elem_vis oops (elem_of o) = false ->
       nth_error (vis_elems oops) i = hd_error (filter (elem_vis oops) post) /\
       (filter (elem_vis oops) post = [] -> i = length (vis_elems oops))).
Proof. exact list_cursor_after. Qed.

(* MoveCursor::Before: the same position while the element is visible (whichever of its ops wins) ... *)
Theorem C26_before_visible : forall width oops c o pre post,
  find_op oops c = Some o -> is_inc o = false -> is_del o = false ->
  elem_order oops = pre ++ elem_of o :: post -> ~ In (elem_of o) pre ->
  elem_vis oops (elem_of o) = true ->
  resolve width oops MoveBefore c = Ok (sumN (map (elem_width width oops) pre)).
Proof. exact resolve_before_visible. Qed.

(* ... and once it is deleted, the position of the nearest surviving predecessor along the insertion
   chain ([chain_to]), or 0 *)
Theorem C26_before_deleted : forall width oops c o pre post i,
  find_op oops c = Some o -> is_inc o = false -> is_del o = false ->
  elem_order oops = pre ++ elem_of o :: post -> ~ In (elem_of o) pre ->
  elem_vis oops (elem_of o) = false ->
  resolve width oops MoveBefore c = Ok i ->
  (sumN (map (elem_width width oops) pre) = 0 /\ i = 0) \/
  exists r, chain_to width oops (if op_insert o then ref_of o else elem_of o) r /\
            match r with None => i = 0 | Some a => index_of width oops a = Some i end.
Proof. exact resolve_before_hidden. Qed.

(* a cursor whose op the document does not hold is rejected *)
Theorem C26_unknown_cursor : forall width oops mode c,
  find_op oops c = None -> resolve width oops mode c = Err.
Proof. exact resolve_unknown. Qed.
