(* C27 — Reconciliation and bulk-construction calls reach their target value.
   Model: Crdt/Update.v.
   (1) update_text: the index arithmetic of text_diff.rs's TxHook — ONE running index in the units of the text
   encoding, advanced by equal / insert / replace, used as the position of every splice_text — for an ARBITRARY
   hook script (the Myers search of text_diff/myers.rs is not modelled: spec-level).  [wf_script old new s] is the
   decidable statement "s tiles old and new, in order" which the family `recon` checks on the script recovered
   from the ops the implementation emitted.
   (2) update_object on lists and maps: update_list / update_map of transaction/inner.rs as they are after fix
   d4866c089, one level of the recursion: the update of one entry (update_value: recursive call on a nested
   object of the same type, or replacement by put / put_object / insert / insert_object + construction) is the
   parameter [upd], assumed to reach its target (the induction hypothesis of the recursion over the value).
   Not proved here (checked directly by the family): update_spans, batch_create_object / init_root_from_hydrate /
   init_from_hydrate / nested splice against call-by-call construction (no C27_batch_create_eq_stepwise). *)
From AM Require Import Base.Prelude Base.Order Crdt.Types Crdt.Interp Crdt.Local Crdt.Update Crdt.UpdateProofs.
Local Open Scope N_scope.

(* every edit script that tiles old and new drives the hook to exactly the new text — in code points, UTF-8 and
   UTF-16 units — without leaving the slices of old / new (no panic) *)
Theorem C27_script_sound : forall e old new s,
  wf_script old new s = true -> apply_script e old new s = Ok (concat new).
Proof. exact script_sound. Qed.

(* ... and the running index ends at the width of the new text *)
Theorem C27_script_final_index : forall e old new s,
  wf_script old new s = true -> run_hooks e old new (0, concat old) s = Ok (gwidth e new, concat new).
Proof. exact script_final_index. Qed.

(* update_list: whatever the lengths (growing, shrinking, equal), the list ends up as the target *)
Theorem C27_update_list_reaches : forall (V : Type) (upd : option V -> V -> V),
  (forall o n, upd o n = n) -> forall old new, update_list V upd old new = Ok new.
Proof. exact update_list_reaches. Qed.

(* update_map: afterwards every key reads what the target reads (absent keys are absent) *)
Theorem C27_update_map_reaches : forall (V : Type) (upd : option V -> V -> V),
  (forall o n, upd o n = n) -> forall old new k, mlookup V (update_map V upd old new) k = mlookup V new k.
Proof. exact update_map_reaches. Qed.

(* the loop as it was before fix d4866c089 (surplus deleted from the head) missed its target *)
Theorem C27_update_list_head_deletion_refuted :
  exists old new : list N, update_list_before_fix N (fun _ n => n) old new <> Ok new.
Proof. exists [0; 1; 2; 3; 4], [10; 11; 12]. vm_compute. discriminate. Qed.

(* ---- non-vacuity ---- *)
Example C27_script_nonvacuous :
  (* "ab" + e-acute (one grapheme of two code points) + "d"  ->  "a" + U+1F600 + e-acute + "dz" *)
  let old := [[97]; [98]; [101; 769]; [100]] in
  let new := [[97]; [128512]; [101; 769]; [100]; [122]] in
  let s := [HEqual 0 0 1; HDelete 1 1 1; HInsert 2 1 1; HEqual 2 2 2; HInsert 4 4 1] in
  wf_script old new s = true /\
  run_hooks EncU16 old new (0, concat old) s = Ok (7, [97; 128512; 101; 769; 100; 122]) /\
  run_hooks EncU8 old new (0, concat old) s = Ok (10, [97; 128512; 101; 769; 100; 122]).
Proof. repeat split; vm_compute; reflexivity. Qed.

Example C27_update_list_nonvacuous :
  update_list N (fun _ n => n) [0; 1; 2; 3; 4] [10; 11; 12] = Ok [10; 11; 12] /\
  update_list N (fun _ n => n) [0] [7; 8; 9] = Ok [7; 8; 9].
Proof. split; vm_compute; reflexivity. Qed.

Example C27_update_map_nonvacuous :
  let old := [([97], 1); ([98], 2); ([99], 3)] in
  let new := [([98], 20); ([100], 40)] in
  map (mlookup N (update_map N (fun _ n => n) old new)) [[97]; [98]; [99]; [100]] = [None; Some 20; None; Some 40].
Proof. vm_compute. reflexivity. Qed.
