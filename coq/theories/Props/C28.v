(* C28 — Rollback restores the exact prior document.
   Statements only; proofs in Crdt/TxnProofs.v; the model is Crdt/Txn.v (over Crdt/Local.v for
   the editing calls and Crdt/Commit.v for transaction_args).  A document of the model ([tdoc]) is
   the applied changes, the queue, the maintained heads, the actor table and the actor;
   [txn_open] mirrors Automerge::transaction / transaction_at (actor put into the table — every
   concurrency level tried when isolated —, queue pruned, actor / seq / start_op / deps / scope
   fixed), [txn_calls] runs editing calls, [txn_rollback] mirrors TransactionInner::rollback
   (pending ops leave the op set, remove_actor when seq = 1, remove_unused_actors).
   [table_ok]: the actor table is sorted and holds exactly the actors that have changes (the
   state remove_unused_actors establishes after every transaction). *)
From AM Require Import Base.Prelude Base.Order Crdt.Types Crdt.Interp Crdt.Doc Crdt.Local Crdt.Commit
  Crdt.CommitProofs Crdt.Txn Crdt.TxnProofs Crdt.UndoProofs.
From AM Require Exec.TxnExec.
Local Open Scope N_scope.

(* after any editing calls, rollback gives back: the applied changes, the heads, the actor, the
   ACTOR TABLE (it grew when the transaction opened), the op set (the ops it held, so every
   read) — and the queue as the opening of the transaction left it *)
Theorem C28_rollback_restores : forall (d : tdoc) (iso : option (list N)) (o : otx) (e : enc) (cs : list call) (o' : otx),
  table_ok d -> txn_open d iso = Ok o -> txn_calls e o cs = EOk o' ->
  let d' := txn_rollback o' in
  t_applied d' = t_applied d /\ m_heads (t_m d') = m_heads (t_m d) /\
  t_actor d' = t_actor d /\ t_table d' = t_table d /\
  queue (m_doc (t_m d')) =
    remove_actor_branch_from (queue (m_doc (t_m d))) (cm_actor (ot_meta o)) (cm_seq (ot_meta o)) /\
  tx_all (tx_rollback (ot_tx o')) = tx_base (ot_tx o) /\
  observe (tx_all (tx_rollback (ot_tx o'))) = observe (scope_ops (t_applied d) iso (cm_actor (ot_meta o))).
Proof. exact rollback_restores. Qed.

(* when no queued change claims the sequence number the transaction would have used, the
   rolled-back document is EQUAL to the one the transaction started from *)
Theorem C28_rollback_state_equal : forall (d : tdoc) (iso : option (list N)) (o : otx) (e : enc) (cs : list call) (o' : otx),
  table_ok d -> queue_quiet d iso -> txn_open d iso = Ok o -> txn_calls e o cs = EOk o' ->
  txn_rollback o' = d.
Proof. exact rollback_state_equal. Qed.

(* hence the next transaction (plain or isolated at any heads) opens identically and the same
   calls produce the same change: same actor, seq, start_op, deps, ops, for the same hash input *)
Theorem C28_rollback_next_change_same :
  forall (d : tdoc) (iso : option (list N)) (o : otx) (e : enc) (cs : list call) (o' : otx)
         (iso2 : option (list N)) (e2 : enc) (cs2 : list call) (hash : N),
  table_ok d -> queue_quiet d iso -> txn_open d iso = Ok o -> txn_calls e o cs = EOk o' ->
  txn_open (txn_rollback o') iso2 = txn_open d iso2 /\
  forall o2 o2',
    txn_open (txn_rollback o') iso2 = Ok o2 -> txn_calls e2 o2 cs2 = EOk o2' ->
    exists u2 u2', txn_open d iso2 = Ok u2 /\ txn_calls e2 u2 cs2 = EOk u2' /\
                   txn_commit o2' hash = txn_commit u2' hash.
Proof. exact rollback_next_change_same. Qed.

(* the faithful model REFUTES the property without the queue side condition: a queued change of
   the document's own actor that claims the next sequence number is dropped by transaction_args
   when the transaction opens and stays dropped after rollback (get_missing_deps and, with
   retained orphans, save() differ) *)
Theorem C28_rollback_queue_refuted :
  exists d o, table_ok d /\ txn_open d None = Ok o /\ txn_rollback o <> d /\
              queue (m_doc (t_m d)) <> [] /\ queue (m_doc (t_m (txn_rollback o))) = [].
Proof. exact rollback_queue_refuted. Qed.

(* ---------- the mechanism: the undo log of the op set ----------
   [cols]: the index columns a local op rewrites when it adds itself as a successor of the ops it
   supersedes (succ_count, successor ids with their increments, visible, text width, top);
   [add_succ_with_undo] / [undo_succ] mirror OpSet::add_succ_with_undo / undo_succ line by line
   (reverse iteration, succ_inc, the expose / delete flags, out-of-range positions = Panic).
   For the inserts one local op produces — distinct rows (the ops of one register), positions
   inside the columns, [si_len] = the row's successor count ([wf_ins]) — adding succeeds, logs one
   entry per insert and undoing the log restores the columns EXACTLY. *)
Theorem C28_undo_succ_restores : forall (c : cols) (ins : list sins),
  NoDup (map si_pos ins) -> (forall i, In i ins -> wf_ins c i) ->
  exists c' us, add_succ_with_undo c ins = Ok (c', us) /\ length us = length ins /\
                undo_succ c' us = Ok c.
Proof. exact undo_succ_restores. Qed.
Example C28_undo_succ_nonvacuous :
  let c := mkCols [0; 1; 0] [true; true; true] [Some 1; Some 1; Some 1] [false; false; true] [((9, [1]), Some 2%Z)] in
  let ins := [mkSI (12, [2]) 1 (Some 3%Z) 1 1 (Some 1); mkSI (12, [2]) 2 None 0 1 (Some 1)] in
  NoDup (map si_pos ins) /\ (forall i, In i ins -> wf_ins c i) /\
  exists c' us, add_succ_with_undo c ins = Ok (c', us) /\
    c_vis c' = [true; true; false] /\ c_top c' = [false; true; false] /\ c_cnt c' = [0; 2; 1].
Proof.
  cbv zeta. split; [repeat constructor; cbn; intuition discriminate|].
  split; [intros i [<-|[<-|[]]]; unfold wf_ins; cbn; repeat split; try reflexivity; lia|].
  eexists. eexists. split; [vm_compute; reflexivity|]. repeat split.
Qed.

(* non-vacuity: a document with two changes of actor [2]; a plain transaction by the NEW actor
   [1] (sorts first: the table grows at index 0 and shrinks back) doing a put and an insert-free
   delete; an isolated one at the first change *)
Example C28_nonvacuous :
  let op1 := mkOp (1, [2]) root_id (KMap [97]) false (APut (SInt 1)) [] in
  let op2 := mkOp (2, [2]) root_id (KMap [97]) false (APut (SInt 2)) [(1, [2])] in
  let appl := [mkChange 21 [2] 1 1 [] [op1]; mkChange 22 [2] 2 2 [21] [op2]] in
  let d := mkT (mkM (mkDoc appl []) [22]) [[2]] [1] in
  table_ok d /\ queue_quiet d None /\ queue_quiet d (Some [21]) /\
  (exists o o', txn_open d None = Ok o /\ t_table (ot_doc o) = [[1]; [2]] /\
     txn_calls EncCP o [CPut root_id (PMap [98]) (SInt 5); CDelete root_id (PMap [97])] = EOk o' /\
     length (tx_pending (ot_tx o')) = 2%nat /\ txn_rollback o' = d) /\
  (exists o o', txn_open d (Some [21]) = Ok o /\
     txn_calls EncCP o [CPut root_id (PMap [97]) (SInt 7)] = EOk o' /\
     length (tx_pending (ot_tx o')) = 1%nat /\ txn_rollback o' = d).
Proof.
  cbv zeta. split; [apply table_ok_b_sound; reflexivity|].
  split; [intros m _; reflexivity|]. split; [intros m _; reflexivity|]. split.
  - eexists. eexists. split; [vm_compute; reflexivity|]. split; [reflexivity|].
    split; [vm_compute; reflexivity|]. split; reflexivity.
  - eexists. eexists. split; [vm_compute; reflexivity|].
    split; [vm_compute; reflexivity|]. split; reflexivity.
Qed.
