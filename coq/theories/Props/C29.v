(* C29 — Isolated transactions act on the chosen heads.
   Statements only; proofs in Crdt/TxnProofs.v (over ClockProofs / CommitProofs / QueueProofs).
   Model: Crdt/Txn.v.  [txn_open d (Some hs)] mirrors transaction_at(hs) / an isolated AutoCommit
   opening its transaction: actor chosen by isolate_actor, deps = hs, scope = clock_at(hs) with
   the writing actor's entry raised to u32::MAX (Clock::isolate); [txn_view] is a read through that
   scope over the whole op set (document ops and pending ops); the editing calls (Crdt/Local.v)
   run on the ops the scope admits.  [obs_at] is the historical read of C07 (= the document
   restricted to the ancestors of the heads = fork_at).  Hypotheses: [WFhist] (decidable,
   checked on every generated history), [Built] / [AChain] (invariants of every state reached
   by commits and deliveries, C04). *)
From AM Require Import Base.Prelude Base.Order Crdt.Types Crdt.Interp Crdt.Doc Crdt.Local Crdt.Commit
  Crdt.InterpProofs Crdt.ClockProofs Crdt.QueueProofs Crdt.CommitProofs Crdt.Txn Crdt.TxnProofs Crdt.UndoProofs Exec.HistExec.
From AM Require Exec.TxnExec.
Local Open Scope N_scope.

(* the actor an isolated transaction writes as has all its changes among the ancestors of the
   heads, so raising its clock entry admits nothing of the document beyond those heads *)
Theorem C29_isolated_actor_covered : forall (appl : list change) (heads : list N) (a : actor) (hs : list N) (m : cmeta),
  Built appl -> AChain appl -> commit_meta appl heads a (Some hs) = Ok m ->
  forall c, In c appl -> ch_actor c = cm_actor m -> In c (ancestors appl hs).
Proof. exact isolated_actor_covered. Qed.

Theorem C29_isolated_scope_eq : forall (appl : list change) (hs : list N) (ai : actor) (pending : list op),
  WFhist appl ->
  (forall c, In c appl -> ch_actor c = ai -> In c (ancestors appl hs)) ->
  (forall o, In o pending -> snd (op_id o) = ai) ->
  filter (fun o => iso_covered (at_clock appl hs) ai (op_id o)) (all_ops appl ++ pending)
  = all_ops (ancestors appl hs) ++ pending.
Proof. exact isolated_scope_eq. Qed.

(* reads inside = the state at the heads plus the transaction's own edits; when it opens it is
   exactly the historical read; and it is the op set the editing calls work on *)
Theorem C29_isolated_reads : forall (d : tdoc) (hs : list N) (o : otx) (e : enc) (cs : list call) (o' : otx),
  WFhist (t_applied d) -> Built (t_applied d) -> AChain (t_applied d) ->
  txn_open d (Some hs) = Ok o -> txn_calls e o cs = EOk o' ->
  let appl := t_applied d in
  let pending := tx_pending (ot_tx o') in
  txn_view o' = observe (all_ops (ancestors appl hs) ++ pending) /\
  observe (tx_all (ot_tx o)) = obs_at appl hs /\
  (NoDup (map op_id (all_ops (ancestors appl hs) ++ pending)) -> observe (tx_all (ot_tx o')) = txn_view o').
Proof. exact isolated_reads. Qed.

(* dependencies of the created change: the isolation heads (those the document knows), sorted;
   the change carries them *)
Theorem C29_isolated_deps : forall (d : tdoc) (hs : list N) (o : otx),
  txn_open d (Some hs) = Ok o ->
  cm_deps (ot_meta o) = sortN (filter (has_hash (t_applied d)) hs) /\
  (incl hs (hashes (t_applied d)) -> forall h, In h (cm_deps (ot_meta o)) <-> In h hs) /\
  forall o' hash c d', tx_pending (ot_tx o') <> [] -> ot_meta o' = ot_meta o ->
    txn_commit o' hash = (d', Some c) -> ch_deps c = cm_deps (ot_meta o) /\ ch_hash c = hash.
Proof. exact isolated_deps. Qed.

(* an isolated AutoCommit then isolates at the change it made: the next one depends on it alone *)
Theorem C29_isolated_moves_to_change : forall (e : enc) (d : adoc) (cs : list call) (hash : N) (d' : adoc) (c : change) (hs : list N),
  a_iso d = Some hs -> a_transact e d cs hash = EOk (d', Some c) -> a_iso d' = Some [ch_hash c].
Proof. exact isolated_moves_to_change. Qed.
Theorem C29_isolated_deps_next : forall (appl : list change) (heads : list N) (a : actor) (h : N) (m : cmeta),
  has_hash appl h = true -> commit_meta appl heads a (Some [h]) = Ok m -> cm_deps m = [h].
Proof. exact isolated_deps_next. Qed.
Theorem C29_isolated_commit_appends : forall (e : enc) (d : adoc) (cs : list call) (hash : N) (d' : adoc) (c : change),
  a_transact e d cs hash = EOk (d', Some c) ->
  t_applied (a_doc d') = t_applied (a_doc d) ++ [c].
Proof. exact isolated_commit_appends. Qed.

(* integrate changes nothing in the document; afterwards it shows the reading of everything it
   has applied, which is what any replica holding the other changes shows after receiving the
   isolated changes [cs] (deliverable one by one: [chain_ready]) *)
Theorem C29_integrate_eq_merge : forall (d : adoc) (appl_e cs : list change),
  let applied_d := t_applied (a_doc d) in
  ops_unique applied_d -> Permutation applied_d (appl_e ++ cs) -> chain_ready appl_e cs ->
  a_doc (a_integrate d) = a_doc d /\ a_iso (a_integrate d) = None /\
  a_view (a_integrate d) = observe (all_ops applied_d) /\
  exists e', deliver_each (mkDoc appl_e []) cs = Ok e' /\
             a_view (a_integrate d) = observe (all_ops (applied e')) /\
             heads_of applied_d = heads_of (applied e').
Proof. exact integrate_eq_merge. Qed.

(* the index columns under a scoped transaction (Crdt/Txn.v: add_succ_with_undo / reset_top, as
   of the repair 9da869ded): an increment names every op its scope shows, also ops the document
   has superseded since; whatever the inserts, no top flag is left on an op that is not visible
   ([top_vis], the state in which reset_top's assertion fired before the repair: fixed finding
   `panic|txn|call|scoped|increment`) *)
Theorem C29_add_succ_keeps_top_visible : forall (c : cols) (ins : list sins) (c' : cols) (us : list sundo),
  top_vis c -> add_succ_with_undo c ins = Ok (c', us) -> top_vis c'.
Proof. exact add_succ_keeps_top_visible. Qed.
(* non-vacuity, on the columns of the repaired defect (a counter and a concurrent null, both
   deleted in the document, named by a scoped increment) *)
Example C29_add_succ_keeps_top_visible_nonvacuous :
  let c := mkCols [1; 1] [false; false] [None; None] [false; false] [((8, [1]), None); ((12, [1]), None)] in
  let ins := [mkSI (20, [3]) 0 (Some 3%Z) 1 1 (Some 1); mkSI (20, [3]) 1 None 1 2 (Some 1)] in
  top_vis c /\
  exists c' us, add_succ_with_undo c ins = Ok (c', us) /\ c_top c' = [false; false] /\
                reset_top (c_vis c') (c_top c') 0 2 = Ok [false; false] /\ undo_succ c' us = Ok c.
Proof. exact scoped_increment_fixed. Qed.

(* non-vacuity: actor [2] made two changes; a transaction isolated at the FIRST one (not the
   current heads) is written by the concurrency-level actor, reads a = 1 (not 2), and its put
   supersedes op (1,[2]) only; integrating equals delivering its change to a replica that has
   the two changes *)
Example C29_nonvacuous :
  let op1 := mkOp (1, [2]) root_id (KMap [97]) false (APut (SInt 1)) [] in
  let op2 := mkOp (2, [2]) root_id (KMap [97]) false (APut (SInt 2)) [(1, [2])] in
  let appl := [mkChange 21 [2] 1 1 [] [op1]; mkChange 22 [2] 2 2 [21] [op2]] in
  let d := mkT (mkM (mkDoc appl []) [22]) [[2]] [2] in
  WFhist appl /\ Built appl /\ AChain appl /\
  exists o o' d' c,
    txn_open d (Some [21]) = Ok o /\ cm_actor (ot_meta o) = with_concurrency [2] 1 /\
    txn_calls EncCP o [CPut root_id (PMap [97]) (SInt 7)] = EOk o' /\
    txn_commit o' 23 = (d', Some c) /\ ch_deps c = [21] /\
    map op_pred (ch_ops c) = [[(1, [2])]] /\
    chain_ready appl [c] /\ Permutation (t_applied d') (appl ++ [c]) /\ ops_unique (t_applied d').
Proof.
  cbv zeta.
  assert (W : WFhist [mkChange 21 [2] 1 1 [] [mkOp (1, [2]) root_id (KMap [97]) false (APut (SInt 1)) []];
                      mkChange 22 [2] 2 2 [21] [mkOp (2, [2]) root_id (KMap [97]) false (APut (SInt 2)) [(1, [2])]]])
    by (apply wf_hist_b_sound; vm_compute; reflexivity).
  split; [exact W|]. split; [apply WFhist_Built; [apply (wf_nodup _ W)|apply (wf_topo _ W)]|]. split.
  - pose (steps := [SCommit (mkReq [2] None [mkOp (1, [2]) root_id (KMap [97]) false (APut (SInt 1)) []] false 21);
                    SCommit (mkReq [2] None [mkOp (2, [2]) root_id (KMap [97]) false (APut (SInt 2)) [(1, [2])]] false 22)]).
    assert (R : exists m, m_run m_empty steps = Ok m /\
                 applied (m_doc m) = [mkChange 21 [2] 1 1 [] [mkOp (1, [2]) root_id (KMap [97]) false (APut (SInt 1)) []];
                      mkChange 22 [2] 2 2 [21] [mkOp (2, [2]) root_id (KMap [97]) false (APut (SInt 2)) [(1, [2])]]])
      by (eexists; split; vm_compute; reflexivity).
    destruct R as [m [Hr Ha]]. rewrite <- Ha.
    apply (chain_invariant steps m_empty m MInv_empty AChain_nil); [|vm_compute; repeat split|exact Hr].
    cbn. repeat split; vm_compute; intuition discriminate.
  - eexists. eexists. eexists. eexists.
    split; [vm_compute; reflexivity|]. split; [reflexivity|].
    split; [vm_compute; reflexivity|]. split; [vm_compute; reflexivity|].
    split; [reflexivity|]. split; [reflexivity|].
    split; [vm_compute; repeat split; try reflexivity|].
    split; [vm_compute; apply Permutation_refl|].
    unfold ops_unique. vm_compute. repeat constructor; cbn; intuition discriminate.
Qed.
