(* C30 — Object ids stay valid and stable.
   Statements only; proofs in Crdt/ResolveProofs.v (over Codec/ExIdProofs.v).  The model
   (Crdt/Resolve.v) mirrors Automerge::exid_to_obj: exid_to_opid (Codec/ExId.v: hint trusted only
   when actors[hint] == actor, else the actor is searched), then the object index keyed by the
   internal id of the make op; [objects ops] is the object table of the interpretation
   (Crdt/Interp.v).  [t] is a replica's actor table, [ops] the ops it holds, an id is
   [EId counter actor hint].  Side conditions: tables of at most 2^32 actors (the Rust OpId holds
   a u32 index), op ids unique within a replica, counters of real objects (1 .. u32::MAX). *)
From AM Require Import Base.Prelude Base.Order Codec.Bloom Codec.ExId Crdt.Types Crdt.Interp Crdt.Local
  Crdt.Resolve Crdt.Txn Crdt.ResolveProofs.
From AM Require Exec.TxnExec.
Local Open Scope N_scope.

(* an id whose object the replica holds resolves to that object: whatever hint it carries
   (right, stale, out of range) and however the replica numbers its actors *)
Theorem C30_resolve_present : forall (t : table) (ops : list op) (m : op) (ty : objtype) (h : N),
  lenN t <= pow32 -> NoDup (map op_id ops) -> In m ops -> make_type m = Some ty ->
  0 < fst (op_id m) <= u32_max -> In (snd (op_id m)) t ->
  resolve_obj t ops (EId (fst (op_id m)) (snd (op_id m)) h) = Ok (op_id m, ty).
Proof. exact resolve_present. Qed.

(* actor-table changes: inserting an actor (put_actor keeps the table sorted, so an actor that
   sorts first shifts every index and makes the hints of earlier ids stale) does not change what
   an id resolves to *)
Theorem C30_resolve_stable_under_actor_insert : forall (t : table) (ops : list op) (c : N) (a : bytes) (h h' : N) (b : bytes),
  lenN t <= pow32 -> lenN (put_actor t b) <= pow32 -> 0 < c -> In a t ->
  resolve_obj (put_actor t b) ops (EId c a h') = resolve_obj t ops (EId c a h).
Proof. exact resolve_stable_under_actor_insert. Qed.

Theorem C30_resolve_table_irrelevant : forall (t1 t2 : table) (ops : list op) (c : N) (a : bytes) (h1 h2 : N),
  lenN t1 <= pow32 -> lenN t2 <= pow32 -> 0 < c -> (In a t1 <-> In a t2) ->
  resolve_obj t1 ops (EId c a h1) = resolve_obj t2 ops (EId c a h2).
Proof. exact resolve_table_irrelevant. Qed.

(* every replica that contains the object (holds its make op; merges, loads and forks copy
   ops) resolves the id to that same object *)
Theorem C30_resolve_same_object_any_replica :
  forall (t1 t2 : table) (ops1 ops2 : list op) (m : op) (ty : objtype) (h1 h2 : N),
  lenN t1 <= pow32 -> lenN t2 <= pow32 ->
  NoDup (map op_id ops1) -> NoDup (map op_id ops2) -> In m ops1 -> In m ops2 ->
  make_type m = Some ty -> 0 < fst (op_id m) <= u32_max ->
  In (snd (op_id m)) t1 -> In (snd (op_id m)) t2 ->
  resolve_obj t1 ops1 (EId (fst (op_id m)) (snd (op_id m)) h1) = Ok (op_id m, ty) /\
  resolve_obj t2 ops2 (EId (fst (op_id m)) (snd (op_id m)) h2) = Ok (op_id m, ty).
Proof. exact resolve_same_object_any_replica. Qed.

(* end to end: the id one replica hands out (id_to_exid, with ITS index as hint) resolved by
   another replica that holds the object *)
Theorem C30_exid_of_resolves : forall (tp tq : table) (ops : list op) (m : op) (ty : objtype) (e : exid),
  lenN tp <= pow32 -> lenN tq <= pow32 -> NoDup (map op_id ops) -> In m ops -> make_type m = Some ty ->
  0 < fst (op_id m) <= u32_max -> In (snd (op_id m)) tq ->
  exid_of tp (op_id m) = Ok e ->
  resolve_obj tq ops e = Ok (op_id m, ty).
Proof. exact exid_of_resolves. Qed.

(* a replica that does not contain the object answers with an error ... *)
Theorem C30_resolve_absent_is_error : forall (t : table) (ops : list op) (c : N) (a : bytes) (h : N),
  lenN t <= pow32 -> 0 < c ->
  (forall m, In m ops -> op_id m = (c, a) -> make_type m = None) ->
  resolve_obj t ops (EId c a h) = Err.
Proof. exact resolve_absent_is_error. Qed.

(* ... and whenever an id resolves, it is to the make op with exactly its (counter, actor):
   never to another object *)
Theorem C30_resolve_ok_sound : forall (t : table) (ops : list op) (c : N) (a : bytes) (h : N) (id : opid) (ty : objtype),
  lenN t <= pow32 -> 0 < c -> resolve_obj t ops (EId c a h) = Ok (id, ty) ->
  id = (c, a) /\ In a t /\ exists m, In m ops /\ op_id m = (c, a) /\ make_type m = Some ty.
Proof. exact resolve_ok_sound. Qed.

Theorem C30_resolve_no_panic : forall (t : table) (ops : list op) (e : exid),
  lenN t <= pow32 -> resolve_obj t ops e <> Panic.
Proof. exact resolve_no_panic. Qed.

(* the reason for the side condition 0 < c: ObjId::is_root tests the counter only, so a
   decodable id with counter 0 and any actor the replica knows names the root (no API call
   returns such an id) *)
Theorem C30_resolve_counter_zero_is_root : forall (t : table) (ops : list op) (a : bytes) (h : N),
  lenN t <= pow32 -> In a t -> resolve_obj t ops (EId 0 a h) = Ok (root_id, OMap).
Proof. exact resolve_counter_zero_is_root. Qed.

(* non-vacuity: two replicas with different actor tables (actor [9] has index 1 in one, 0 in the
   other), both holding the list made by op (3, [9]); a stale hint, a hint past the table *)
Example C30_nonvacuous :
  let mk := mkOp (3, [9]) root_id (KMap [108]) false (AMake OList) [] in
  let ops1 := [mkOp (1, [1]) root_id (KMap [97]) false (APut SNull) []; mk] in
  let ops2 := [mk; mkOp (4, [9]) (3, [9]) (KSeq head_id) true (APut SNull) []] in
  resolve_obj [[1]; [9]] ops1 (EId 3 [9] 0) = Ok ((3, [9]), OList) /\
  resolve_obj [[9]] ops2 (EId 3 [9] 7) = Ok ((3, [9]), OList) /\
  resolve_obj [[1]; [9]] ops1 (EId 4 [9] 1) = Err /\
  resolve_obj [[1]] [mkOp (1, [1]) root_id (KMap [97]) false (APut SNull) []] (EId 3 [9] 1) = Err /\
  NoDup (map op_id ops1) /\ lenN [[1]; [9]] <= pow32.
Proof.
  cbv zeta. repeat split; try reflexivity.
  - repeat constructor; cbn; intuition discriminate.
  - vm_compute. discriminate.
Qed.
