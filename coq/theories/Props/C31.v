(* C31 — Anonymization preserves document shape.
   Statements only; proofs in Crdt/AnonProofs.v, model in Crdt/Anon.v.

   anonymize (anonymize.rs) rebuilds every change with its actor, op ids, object ids, element ids and
   predecessors sent through an actor map, its map keys and mark names through a character substitution,
   its values replaced by fresh values of the same kind and encoded shape (per occurrence), its
   dependencies through the map old hash -> new hash.  That is a RENAMING of the history (Crdt/Anon.v
   [rename]).  The theorems say: the interpretation of a history is equivariant under every renaming whose
   actor map preserves the ORDER of the actors that occur (winners, conflict order and the order of
   concurrently inserted list elements follow op-id order, i.e. counter then actor bytes), whose key map is
   injective on the keys that occur and keeps their character classes, and whose value map keeps kind and
   encoded shape.  The SHAPE (types, nesting, per-element / per-key conflict structure and value kinds,
   string character classes — hence list lengths and text widths in every encoding — with map entries as a
   multiset because renamed keys are listed in a different order) is the same at the final heads and at
   every historical head set, and the change graph is mapped isomorphically.
   The code's actor map (rank in the sorted actor set, written big-endian after a common prefix) IS order
   preserving; the harness family "anon" checks on every generated history that what the implementation
   produced is such a renaming and evaluates both histories in this model. *)
From AM Require Import Base.Prelude Base.Order Crdt.Types Crdt.Interp Crdt.Doc Crdt.Local Crdt.Anon Exec.HistExec
  Crdt.AnonProofs.
Local Open Scope N_scope.

(* the interpretation commutes with renaming, up to shape *)
Theorem C31_interp_equivariant : forall R ops, good_on R ops ->
  shape (observe (map (rn_op R) ops)) = shape (observe ops).
Proof. intros R ops G. apply (shape_observe_rn R ops G). intros o Ho. exact Ho. Qed.

(* ... at every head set, with the heads sent through the hash map *)
Theorem C31_shape_at_every_heads : forall R appl hs, good_hist R appl hs ->
  shape (obs_at (rename R appl) (map (r_hash R) hs)) = shape (obs_at appl hs).
Proof. exact shape_obs_at_rn. Qed.

(* the change graph is isomorphic: same changes (seq, start_op, op count), dependencies and heads
   through the hash map, ancestors of any head set through the renaming *)
Theorem C31_graph_isomorphic : forall R appl hs, good_hist R appl hs ->
  length (rename R appl) = length appl /\
  (forall c, ch_deps (rn_change R c) = map (r_hash R) (ch_deps c) /\
             length (ch_ops (rn_change R c)) = length (ch_ops c) /\
             ch_seq (rn_change R c) = ch_seq c /\ ch_start (rn_change R c) = ch_start c /\
             ch_actor (rn_change R c) = r_actor R (ch_actor c)) /\
  heads_of (rename R appl) = sortN (map (r_hash R) (heads_of appl)) /\
  ancestors (rename R appl) (map (r_hash R) hs) = rename R (ancestors appl hs).
Proof.
  intros R appl hs H. split; [apply map_length|]. split.
  - intros c. cbn [rn_change ch_deps ch_ops ch_seq ch_start ch_actor]. rewrite map_length. repeat split; reflexivity.
  - split; [apply (heads_rename R appl hs H)|].
    unfold rename. apply (ancestors_rn R (fun h => In h (hist_hashes appl hs)) (h_hash _ _ _ H)).
    + intros c Hc. apply hist_hash_dom, Hc.
    + intros h Hh. unfold hist_hashes. apply in_or_app. left. exact Hh.
Qed.

(* equal shapes have equal object types, key counts / sequence lengths and text widths in every encoding *)
Theorem C31_shape_determines : forall e ops1 ops2, shape (observe ops1) = shape (observe ops2) ->
  map oo_type (observe ops1) = map oo_type (observe ops2) /\
  map obj_len (observe ops1) = map obj_len (observe ops2) /\
  map (obj_width e) (observe ops1) = map (obj_width e) (observe ops2).
Proof.
  intros e a b H. rewrite !shape_types, !shape_lens, !(shape_widths e), H. repeat split; reflexivity.
Qed.

(* order preservation on op ids follows from order preservation on the ACTORS that occur, because
   real op ids have a counter >= 1 and the root / head id is not mapped *)
Theorem C31_actor_order_suffices : forall R ops, wf_ids ops ->
  (forall a b, In a (map snd (ids_of ops)) -> In b (map snd (ids_of ops)) ->
     bytes_cmp (r_actor R a) (r_actor R b) = bytes_cmp a b) ->
  forall x y, In x (ids_of ops) -> In y (ids_of ops) -> opid_cmp (rn_id R x) (rn_id R y) = opid_cmp x y.
Proof. exact mono_of_actors. Qed.

Theorem C31_wf_checker_sound : forall ops, wf_ids_b ops = true -> wf_ids ops.
Proof. exact wf_ids_b_sound. Qed.
