(* C31 — Anonymization preserves document shape.
   Statements only; proofs in Crdt/AnonProofs.v, model in Crdt/Anon.v.

   anonymize (anonymize.rs) rebuilds every change with its actor, op ids, object ids, element ids and
   predecessors sent through an actor map, its map keys and mark names through a character substitution,
   its values replaced by fresh values of the same kind and encoded shape (per occurrence), its
   dependencies through the map old hash -> new hash.  That is a RENAMING of the history (Crdt/Anon.v
   [rename]).  The theorems say: the interpretation of a history is equivariant under every renaming whose
   actor map preserves the ORDER of the actors that occur (winners, conflict order and the order of
   concurrently inserted list elements follow op-id order, i.e. counter then actor bytes), whose key map is
   injective on the keys that occur and keeps their character classes, and whose value map keeps kind and
   encoded shape.  The SHAPE (types, nesting, per-element / per-key conflict structure and value kinds,
   string character classes — hence list lengths and text widths in every encoding — with map entries as a
   multiset because renamed keys are listed in a different order) is the same at the final heads and at
   every historical head set, and the change graph is mapped isomorphically.
   The code's actor map (rank in the sorted actor set, written big-endian after a common prefix) IS order
   preserving; the harness family "anon" checks on every generated history that what the implementation
   produced is such a renaming and evaluates both histories in this model. *)
From AM Require Import Base.Prelude Base.Order Crdt.Types Crdt.Interp Crdt.Doc Crdt.Local Crdt.Anon Exec.HistExec
  Crdt.AnonProofs Crdt.AnonCodeProofs.
Local Open Scope N_scope.

(* the interpretation commutes with renaming, up to shape *)
Theorem C31_interp_equivariant : forall R ops, good_on R ops ->
  shape (observe (map (rn_op R) ops)) = shape (observe ops).
Proof. intros R ops G. apply (shape_observe_rn R ops G). intros o Ho. exact Ho. Qed.

(* ... at every head set, with the heads sent through the hash map *)
Theorem C31_shape_at_every_heads : forall R appl hs, good_hist R appl hs ->
  shape (obs_at (rename R appl) (map (r_hash R) hs)) = shape (obs_at appl hs).
Proof. exact shape_obs_at_rn. Qed.

(* the change graph is isomorphic: same changes (seq, start_op, op count), dependencies and heads
   through the hash map, ancestors of any head set through the renaming *)
Theorem C31_graph_isomorphic : forall R appl hs, good_hist R appl hs ->
  length (rename R appl) = length appl /\
  (forall c, ch_deps (rn_change R c) = map (r_hash R) (ch_deps c) /\
             length (ch_ops (rn_change R c)) = length (ch_ops c) /\
             ch_seq (rn_change R c) = ch_seq c /\ ch_start (rn_change R c) = ch_start c /\
             ch_actor (rn_change R c) = r_actor R (ch_actor c)) /\
  heads_of (rename R appl) = sortN (map (r_hash R) (heads_of appl)) /\
  ancestors (rename R appl) (map (r_hash R) hs) = rename R (ancestors appl hs).
Proof.
  intros R appl hs H. split; [apply map_length|]. split.
  - intros c. cbn [rn_change ch_deps ch_ops ch_seq ch_start ch_actor]. rewrite map_length. repeat split; reflexivity.
  - split; [apply (heads_rename R appl hs H)|].
    unfold rename. apply (ancestors_rn R (fun h => In h (hist_hashes appl hs)) (h_hash _ _ _ H)).
    + intros c Hc. apply hist_hash_dom, Hc.
    + intros h Hh. unfold hist_hashes. apply in_or_app. left. exact Hh.
Qed.

(* equal shapes have equal object types, key counts / sequence lengths and text widths in every encoding *)
Theorem C31_shape_determines : forall e ops1 ops2, shape (observe ops1) = shape (observe ops2) ->
  map oo_type (observe ops1) = map oo_type (observe ops2) /\
  map obj_len (observe ops1) = map obj_len (observe ops2) /\
  map (obj_width e) (observe ops1) = map (obj_width e) (observe ops2).
Proof.
  intros e a b H. rewrite !shape_types, !shape_lens, !(shape_widths e), H. repeat split; reflexivity.
Qed.

(* order preservation on op ids follows from order preservation on the ACTORS that occur, because
   real op ids have a counter >= 1 and the root / head id is not mapped *)
Theorem C31_actor_order_suffices : forall R ops, wf_ids ops ->
  (forall a b, In a (id_actors ops) -> In b (id_actors ops) ->
     bytes_cmp (r_actor R a) (r_actor R b) = bytes_cmp a b) ->
  forall x y, In x (ids_of ops) -> In y (ids_of ops) -> opid_cmp (rn_id R x) (rn_id R y) = opid_cmp x y.
Proof. exact mono_of_actors. Qed.

Theorem C31_wf_checker_sound : forall ops, wf_ids_b ops = true -> wf_ids ops.
Proof. exact wf_ids_b_sound. Qed.

(* ---- the hypotheses are the ones the code satisfies ---- *)

(* Anonymization::actor_map (rank in the sorted set of all actors, 8 big-endian bytes after a common
   prefix): defined on every actor of the table and ORDER PRESERVING, for any prefix *)
Theorem C31_actor_map_order_preserving : forall prefix l a b,
  N.of_nat (length (actor_set l)) <= 18446744073709551616 -> In a l -> In b l ->
  exists x y, anon_actor prefix (actor_set l) a = Ok x /\ anon_actor prefix (actor_set l) b = Ok y /\
              bytes_cmp x y = bytes_cmp a b.
Proof. exact anon_actor_mono. Qed.

(* order preservation (not just injectivity) is needed: swapping two actors changes the conflict order *)
Theorem C31_order_preservation_needed :
  (forall a b, In a (id_actors conflict_ops) -> In b (id_actors conflict_ops) ->
     r_actor swap12 a = r_actor swap12 b -> a = b) /\
  shape (observe (map (rn_op swap12) conflict_ops)) <> shape (observe conflict_ops).
Proof. exact order_needed. Qed.

(* the structural substitution (keys, mark names) keeps the UTF-8 length of every character, whatever
   the tables *)
Theorem C31_key_substitution_keeps_lengths : forall p s, tables_ok p -> Forall valid_char s ->
  map u8w (struct_string p s) = map u8w s.
Proof. exact struct_string_u8w. Qed.

(* it is injective and keeps the character classes of shape.rs (ASCII control / printable ASCII / UTF-8
   length) for every permutation of the ranks: two different keys never become one.  (Before the repair
   bd9e88bf3 of structural_character_from_rank the rank of DEL came out as U+0020 for an original below
   U+0020 and both statements were refuted.) *)
Theorem C31_key_substitution_injective : forall p s1, tables_ok p -> tables_inj p ->
  forall s2, Forall valid_char s1 -> Forall valid_char s2 -> struct_string p s1 = struct_string p s2 -> s1 = s2.
Proof. exact struct_string_inj. Qed.

Theorem C31_key_substitution_keeps_classes : forall p c, tables_ok p -> valid_char c ->
  kclass (struct_replace p c) = kclass c.
Proof. exact struct_replace_kclass. Qed.

(* anonymize_scalar keeps the kind and the encoded shape of a value (UTF-8 length of every character of a
   string, length of bytes, type code of unknown values), whatever is drawn *)
Theorem C31_values_keep_shape : forall p syn fz fu fb v, tables_ok p -> (forall i, syn i < 128) -> scalar_valid v ->
  sshape (anon_scalar p syn fz fu fb v) = sshape v.
Proof. exact anon_scalar_shape. Qed.

(* the finer "retained whitespace" class of shape.rs is not kept: U+00E9 can become U+0085 (whitespace) *)
Theorem C31_content_class_refuted :
  exists p, tables_ok p /\ tables_inj p /\ tables_derange p /\ cclass (content_char p 108 233) <> cclass 233.
Proof. exact content_class_refuted. Qed.

(* the renaming the code builds satisfies the hypotheses of the equivariance theorems, for every prefix,
   every injective table, every value map that keeps shapes and every injective hash map *)
Theorem C31_code_renaming_good : forall prefix p vals incs fh appl hs,
  wf_ids (all_ops appl) ->
  N.of_nat (length (actor_set (hist_actors appl))) <= 18446744073709551616 ->
  tables_ok p -> tables_inj p ->
  (forall k, In k (map_keys (all_ops appl)) -> Forall valid_char k) ->
  (forall o v, In o (all_ops appl) -> op_action o = APut v -> sshape (vals (op_id o) v) = sshape v) ->
  (forall x y, In x (hist_hashes appl hs) -> In y (hist_hashes appl hs) -> fh x = fh y -> x = y) ->
  good_hist (code_renaming prefix (actor_set (hist_actors appl)) p vals incs fh) appl hs.
Proof. exact code_renaming_good. Qed.

Theorem C31_anonymize_preserves_shape : forall prefix p vals incs fh appl hs,
  wf_ids (all_ops appl) ->
  N.of_nat (length (actor_set (hist_actors appl))) <= 18446744073709551616 ->
  tables_ok p -> tables_inj p ->
  (forall k, In k (map_keys (all_ops appl)) -> Forall valid_char k) ->
  (forall o v, In o (all_ops appl) -> op_action o = APut v -> sshape (vals (op_id o) v) = sshape v) ->
  (forall x y, In x (hist_hashes appl hs) -> In y (hist_hashes appl hs) -> fh x = fh y -> x = y) ->
  let R := code_renaming prefix (actor_set (hist_actors appl)) p vals incs fh in
  shape (obs_at (rename R appl) (map fh hs)) = shape (obs_at appl hs).
Proof.
  intros. apply (shape_obs_at_rn R appl hs). apply code_renaming_good; assumption.
Qed.

(* ---- non-vacuity: a two-actor history with a text, concurrent inserts, a conflict between a counter and a
   string on a key that starts with a TAB; the code's renaming with concrete draws ---- *)
Example C31_hypotheses_nonvacuous : good_hist ex_renaming ex_hist [20; 30] /\ good_on ex_renaming (all_ops ex_hist).
Proof. split; [exact ex_good|exact (good_hist_on _ _ _ ex_good)]. Qed.

Example C31_shape_nonvacuous :
  shape (obs_at ex_hist [20; 30]) =
    [ (OMap, [ [[1]; [12; 1]]; [[1; 1]; [7]; [5; 1; 1]] ]);
      (OText, [ [[5; 4]]; [[5; 2]]; [[5; 1]] ]) ] /\
  shape (obs_at (rename ex_renaming ex_hist) [21; 31]) = shape (obs_at ex_hist [20; 30]) /\
  map ch_actor (rename ex_renaming ex_hist) = [[200; 7; 0; 0; 0; 0; 0; 0; 0; 1]; [200; 7; 0; 0; 0; 0; 0; 0; 0; 0]; [200; 7; 0; 0; 0; 0; 0; 0; 0; 1]] /\
  map_keys (all_ops (rename ex_renaming ex_hist)) <> map_keys (all_ops ex_hist).
Proof. repeat split; vm_compute; try reflexivity; discriminate. Qed.
