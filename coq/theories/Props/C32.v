(* C32 — Serde export is a faithful image of the current state.
   Model: Crdt/Render.v [render], a mirror of the traversal of autoserde.rs (after fix 5bd3832f2) over an
   observation [obs] (Crdt/Interp.v: per object, the registers of its keys / visible elements, each ascending by op
   id, the last entry being the winner that doc.get returns).  The result is the tree of serializer calls: maps with
   the length they ANNOUNCED (serialize_map(Some(doc.length(obj)))) next to the entries they emitted, sequences
   (serialize_seq(None)), text as one string, scalars by kind (counters and timestamps as i64, bytes as an announced
   sequence of u8).  Tied to the code by the family `recon`, stream serde: a length-enforcing test Serializer and
   serde_json on generated multi-replica documents, compared with the winners read through get_all / keys / length. *)
From AM Require Import Base.Prelude Base.Order Crdt.Types Crdt.Interp Crdt.Render Crdt.RenderProofs.
Local Open Scope N_scope.

(* winners only, one entry per key / per visible element, text as a string *)
Theorem C32_render_faithful : forall f ob id ty t,
  render (S f) ob id ty = Some t ->
  exists o, find_obj ob id = Some o /\
  match ty with
  | OText => t = JStr (text_of o)
  | OList => exists l items, oo_entries o = EL l /\ t = JSeq None items /\
                             Forall2 (fun r v => render_reg f ob r = Some v) l items
  | OMap | OTable => exists l es, oo_entries o = EM l /\ t = JMap (Some (length l)) es /\
                             Forall2 (fun kr e => fst e = fst kr /\ render_reg f ob (snd kr) = Some (snd e)) l es
  end.
Proof. exact render_faithful. Qed.

(* every container of the exported tree, at any depth, announced exactly the number of children it emitted *)
Theorem C32_announced_len_true : forall fuel ob id ty t, render fuel ob id ty = Some t -> ann_ok t = true.
Proof. exact announced_len_true. Qed.

(* ---- non-vacuity: root {"a": conflict 1 / "x" (the string wins), "m": {"k": counter 5}, "l": [bytes, text "hi"]} *)
Definition ex_obs : obs :=
  [ mkO root_id OMap (EM [([97], [((1, [1]), VS (SInt 1)); ((1, [2]), VS (SStr [120]))]);
                          ([108], [((3, [1]), VO OList)]);
                          ([109], [((2, [1]), VO OMap)])]);
    mkO (2, [1]) OMap (EM [([107], [((4, [1]), VC 5)])]);
    mkO (3, [1]) OList (EL [[((5, [1]), VS (SBytes [1; 2]))]; [((6, [1]), VO OText)]]);
    mkO (6, [1]) OText (EL [[((7, [1]), VS (SStr [104]))]; [((8, [1]), VS (SStr [105]))]]) ].

Example C32_nonvacuous :
  export_root ex_obs =
  Some (JMap (Some 3%nat) [([97], JStr [120]);
                           ([108], JSeq None [JSeq (Some 2%nat) [JU64 1; JU64 2]; JStr [104; 105]]);
                           ([109], JMap (Some 1%nat) [([107], JI64 5)])]).
Proof. vm_compute. reflexivity. Qed.
