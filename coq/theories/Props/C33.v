(* C33 — CLI JSON import / export round-trips.
   Model: Crdt/Render.v [import_val] / [export_val]: rust/automerge-cli/src/import.rs (import_map / import_list: the
   members of a JSON object are put, the items of an array inserted at 0, 1, .., numbers by as_i64, else as_u64, else
   as_f64) and export.rs (serde_json::to_value(AutoSerde), C32) over an abstract document value tree; JSON numbers
   are serde_json's three kinds PosInt / NegInt / Float (floats opaque: by bit pattern), strings are code points.
   PARTIAL: the document is a value tree (maps = association lists in put order), not an op set — the ops the
   editing calls create and what they show are C03's theorems; object members are compared in the order given
   (serde_json's Map is key-sorted on both sides); the text -> number parser of serde_json is outside the model —
   and that is where the implementation fails: `automerge import` parses floats with serde_json's default,
   approximately rounded parser (known finding recon|cli|roundtrip-differs|float).  The family `recon`, stream cli,
   drives the built binary: import | export on generated JSON objects, compared by kind and value. *)
From AM Require Import Base.Prelude Base.Order Crdt.Types Crdt.Interp Crdt.Render Crdt.RenderProofs.
Local Open Scope N_scope.

Theorem C33_export_import_id_partial : forall j, canon j = true -> export_val (import_val j) = j.
Proof. exact export_import_id. Qed.

Example C33_nonvacuous :
  let j := JO [([97], JPos 18446744073709551615); ([98], JNeg (-9223372036854775808)); ([99], JPos 9223372036854775807);
               ([100], JA [JFl 4607182418800017408; JS [233]; JN; JB true; JO []; JA []]);
               ([], JO [([120], JPos 0)])] in
  canon j = true /\
  import_val j = DM [([97], DS (SUint 18446744073709551615)); ([98], DS (SInt (-9223372036854775808)));
                     ([99], DS (SInt 9223372036854775807));
                     ([100], DL [DS (SF64 4607182418800017408); DS (SStr [233]); DS SNull; DS (SBool true); DM []; DL []]);
                     ([], DM [([120], DS (SInt 0))])] /\
  export_val (import_val j) = j.
Proof. repeat split; vm_compute; reflexivity. Qed.
