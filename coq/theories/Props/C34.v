(* C34 — Hexane columns behave like vectors under any edits (level: spec-level).
   Statements only; proofs in Hexane/ColSpecProofs.v.  The model (Hexane/ColSpec.v) is the executable
   Vec SPECIFICATION of the column API (a column = a list of values); the slab / B-tree implementation
   is not modelled and is tied to this specification by the differential family `hexcol`.
   The theorems say that the specification has the algebra the queries promise, for every list,
   every index and every value type with a decidable equality. *)
From AM Require Import Base.Prelude Hexane.ColSpec Hexane.ColSpecProofs.
From Coq Require Import Sorted.

(* ---- edits are list surgery; out-of-range = Panic exactly when index + del exceeds the length ---- *)
Theorem C34_splice_spec : forall (V : Type) (i del : nat) (vals l r : list V),
  splice i del vals l = Ok r <->
  (i + del <= length l /\ r = firstn i l ++ vals ++ skipn (i + del) l).
Proof. exact c34_splice_spec. Qed.

Theorem C34_splice_panic : forall (V : Type) (i del : nat) (vals l : list V),
  (splice i del vals l = Panic <-> length l < i + del) /\ splice i del vals l <> Err.
Proof. exact c34_splice_panic. Qed.

Theorem C34_splice_length : forall (V : Type) (i del : nat) (vals l r : list V),
  splice i del vals l = Ok r -> length r + del = length l + length vals.
Proof. exact c34_splice_length. Qed.

(* indexed access after a splice: old items, then the new ones, then the old ones shifted *)
Theorem C34_splice_get : forall (V : Type) (i del : nat) (vals l r : list V) (k : nat),
  splice i del vals l = Ok r ->
  get k r =
    if k <? i then get k l
    else if k <? i + length vals then get (k - i) vals
    else get (k - length vals + del) l.
Proof. exact c34_splice_get. Qed.

(* insert / remove / remove_n / push / truncate / clear / extend / pop / splice_runs as list operations,
   with the out-of-range conventions of the Rust bodies *)
Theorem C34_named_edits : forall (V : Type) (l : list V),
  (forall i v, insert i v l = if i <=? length l then Ok (firstn i l ++ v :: skipn i l) else Panic) /\
  (forall i, remove i l = Ok (firstn i l ++ skipn (S i) l)) /\
  (forall i n, remove_n i n l =
     if i + n <=? length l then Ok (firstn i l ++ skipn (i + n) l)
     else if n =? 0 then Ok l else Panic) /\
  (forall v, push v l = Ok (l ++ [v])) /\
  (forall n, truncate n l = Ok (firstn n l)) /\
  clear l = Ok [] /\
  (forall vals, extend vals l = Ok (l ++ vals)) /\
  pop l = Ok (removelast l) /\
  (forall i del rs, splice_runs i del rs l = splice i del (expand_runs rs) l).
Proof. exact c34_named_edits. Qed.

(* edits compose as on lists: a splice is a deletion followed by an insertion, and splices at
   disjoint places commute (the later position shifted by what the earlier one inserted / deleted) *)
Theorem C34_splice_decompose : forall (V : Type) (i del : nat) (vals l : list V),
  i + del <= length l ->
  splice i del vals l = (let* l1 := remove_n i del l in splice i 0 vals l1).
Proof. exact c34_splice_decompose. Qed.

Theorem C34_splice_commute : forall (V : Type) (i1 d1 : nat) (v1 : list V) (i2 d2 : nat) (v2 l : list V),
  i1 + d1 <= i2 -> i2 + d2 <= length l ->
  (let* l' := splice i2 d2 v2 l in splice i1 d1 v1 l') =
  (let* l' := splice i1 d1 v1 l in splice (i2 + length v1 - d1) d2 v2 l').
Proof. exact c34_splice_commute. Qed.

(* the edit cursor: Column::splice_inner = edit_at; delete; insert_run ...; finish, and whatever a
   cursor does, the items still ahead of it are a suffix of the original column *)
Theorem C34_cursor_is_splice : forall (V : Type) (veqb : V -> V -> bool) (i del : nat)
    (rs : list (nat * V)) (l : list V),
  i + del <= length l ->
  edit_session veqb i (CDelete del :: map (fun r => CInsertRun (snd r) (fst r)) rs) l =
  splice_runs i del rs l.
Proof. exact c34_cursor_is_splice. Qed.

Theorem C34_cursor_keeps_suffix : forall (V : Type) (veqb : V -> V -> bool) (op : cur_op)
    (c c' : cursor) (l : list V),
  cur_step veqb op c = Ok c' ->
  c_rest c = skipn (c_orig c) l -> c_orig c <= length l ->
  c_rest c' = skipn (c_orig c') l /\ c_orig c' <= length l.
Proof. exact c34_cursor_keeps_suffix. Qed.

(* ---- indexed access and range iteration ---- *)
Theorem C34_iter_range_spec : forall (V : Type) (a b : nat) (l : list V) (k : nat),
  win_start a l <= win_end a b l <= length l /\
  length (iter_range a b l) = win_end a b l - win_start a l /\
  nth_error (iter_range a b l) k =
    (if k <? win_end a b l - win_start a l then get (win_start a l + k) l else None) /\
  iter_range 0 (length l) l = l.
Proof. exact c34_iter_range_spec. Qed.

(* ---- run iteration: expanding the runs gives the contents back, counts are positive, adjacent runs
   differ, and the run list is the only one with these properties (so it is THE maximal-run list) ---- *)
Theorem C34_runs_concat : forall (V : Type) (veqb : V -> V -> bool),
  (forall x y, veqb x y = true <-> x = y) ->
  forall (a b : nat) (l : list V),
  expand_runs (run_iter veqb a b l) = iter_range a b l /\
  Forall (fun r => 0 < fst r) (run_iter veqb a b l) /\
  adj_diff (run_iter veqb a b l).
Proof. exact c34_runs_concat. Qed.

Theorem C34_runs_canonical : forall (V : Type) (veqb : V -> V -> bool),
  (forall x y, veqb x y = true <-> x = y) ->
  forall rs : list (nat * V),
  Forall (fun r => 0 < fst r) rs -> adj_diff rs -> runs veqb (expand_runs rs) = rs.
Proof. exact c34_runs_canonical. Qed.

(* ---- find by value: exactly the indexes of the window holding v, ascending; scan_to_value is the first ---- *)
Theorem C34_find_by_value_spec : forall (V : Type) (veqb : V -> V -> bool),
  (forall x y, veqb x y = true <-> x = y) ->
  forall (v : V) (a b : nat) (l : list V),
  (forall k, In k (find_all veqb v a b l) <->
             win_start a l <= k < win_end a b l /\ get k l = Some v) /\
  StronglySorted lt (find_all veqb v a b l).
Proof. exact c34_find_by_value_spec. Qed.

Theorem C34_scan_to_value_first : forall (V : Type) (veqb : V -> V -> bool),
  (forall x y, veqb x y = true <-> x = y) ->
  forall (v : V) (a b : nat) (l : list V),
  match scan_to_value veqb v a b l with
  | Some k => win_start a l <= k < win_end a b l /\ get k l = Some v /\
              forall j, win_start a l <= j < k -> get j l <> Some v
  | None => forall j, win_start a l <= j < win_end a b l -> get j l <> Some v
  end.
Proof. exact c34_scan_to_value_first. Qed.

(* ---- scope_to_value: inside a window that is sorted (by any strict total order compatible with the
   equality test) the returned range lies inside the window and is exactly where v is; when v is absent
   it is empty (at the insertion point: everything before it is smaller) ---- *)
Theorem C34_scope_to_value_spec : forall (V : Type) (veqb vltb : V -> V -> bool),
  (forall x y, veqb x y = true <-> x = y) ->
  (forall x, vltb x x = false) ->
  (forall x y z, vltb x y = true -> vltb y z = true -> vltb x z = true) ->
  (forall x y, vltb x y = false -> vltb y x = false -> x = y) ->
  forall (v : V) (a b : nat) (l : list V),
  sorted_asc vltb (iter_range a b l) ->
  win_start a l <= fst (scope_to_value veqb vltb v a b l) <= snd (scope_to_value veqb vltb v a b l) /\
  snd (scope_to_value veqb vltb v a b l) <= win_end a b l /\
  forall k, win_start a l <= k < win_end a b l ->
            (get k l = Some v <-> fst (scope_to_value veqb vltb v a b l) <= k < snd (scope_to_value veqb vltb v a b l)).
Proof. exact c34_scope_to_value_spec. Qed.

(* ---- prefix sums ---- *)
Theorem C34_prefix_sum_app : forall (V : Type) (wt : V -> Z) (l1 l2 : list V) (i : nat),
  get_prefix wt (length l1 + i) (l1 ++ l2) = (sum wt l1 + get_prefix wt i l2)%Z.
Proof. exact c34_prefix_sum_app. Qed.

Theorem C34_prefix_sum_step : forall (V : Type) (wt : V -> Z) (l : list V) (i : nat) (x : V),
  get_prefix wt 0 l = 0%Z /\
  (get i l = Some x -> get_prefix wt (S i) l = (get_prefix wt i l + wt x)%Z) /\
  (length l <= i -> get_prefix wt i l = sum wt l).
Proof. exact c34_prefix_sum_step. Qed.

Theorem C34_prefix_sum_monotone : forall (V : Type) (wt : V -> Z) (l : list V) (i j : nat),
  (forall x, In x l -> (0 <= wt x)%Z) -> i <= j -> (get_prefix wt i l <= get_prefix wt j l)%Z.
Proof. exact c34_prefix_sum_monotone. Qed.

Theorem C34_sum_range_spec : forall (V : Type) (wt : V -> Z) (a b : nat) (l : list V),
  a <= b -> sum_range wt a b l = sum wt (iter_range a b l).
Proof. exact c34_sum_range_spec. Qed.

(* ---- index-for-total lookups ---- *)
(* get_index_for_prefix(t): 0 for t <= 0; otherwise the first k in 1..len whose prefix reaches t,
   len+1 if none does; on unsigned columns it is the least such index *)
Theorem C34_index_for_prefix_spec : forall (V : Type) (wt : V -> Z) (t : Z) (l : list V),
  ((t <= 0)%Z -> index_for_prefix wt t l = 0) /\
  ((0 < t)%Z ->
     1 <= index_for_prefix wt t l <= S (length l) /\
     (forall j, 1 <= j < index_for_prefix wt t l -> (get_prefix wt j l < t)%Z) /\
     (index_for_prefix wt t l <= length l -> (t <= get_prefix wt (index_for_prefix wt t l) l)%Z) /\
     ((forall x, In x l -> (0 <= wt x)%Z) ->
        (forall j, 1 <= j -> (t <= get_prefix wt j l)%Z -> index_for_prefix wt t l <= j) /\
        ((sum wt l < t)%Z -> index_for_prefix wt t l = S (length l)))).
Proof. exact c34_index_for_prefix_spec. Qed.

(* get_index_for_total(t) names the item that owns unit t, and is the inverse of the running total
   on strictly positive columns *)
Theorem C34_index_for_total_inverse : forall (V : Type) (wt : V -> Z) (l : list V) (i : nat),
  i < length l ->
  ((forall x, In x l -> (0 <= wt x)%Z) ->
     forall t, (get_prefix wt i l < t)%Z -> (t <= get_total wt i l)%Z -> index_for_total wt t l = i) /\
  ((forall x, In x l -> (0 < wt x)%Z) ->
     index_for_total wt (get_total wt i l) l = i /\
     index_for_prefix wt (get_prefix wt (S i) l) l = S i).
Proof. exact c34_index_for_total_inverse. Qed.

(* PrefixIter: running totals are prefix sums; advance_prefix(n) lands on the item containing unit n+1 *)
Theorem C34_with_acc_spec : forall (V : Type) (wt : V -> Z) (acc : Z) (l : list V) (k : nat) (x : V),
  map fst (with_acc wt acc l) = l /\
  (get k l = Some x -> nth_error (with_acc wt acc l) k = Some (x, (acc + get_prefix wt (S k) l)%Z)).
Proof. exact c34_with_acc_spec. Qed.

Theorem C34_advance_prefix_spec : forall (V : Type) (wt : V -> Z) (a b : nat) (n : Z) (l : list V)
    (p : nat) (d : Z) (x : V) (tot : Z),
  (forall y, In y l -> (0 <= wt y)%Z) -> (0 <= n)%Z ->
  advance_prefix wt a b n l = Some (p, d, x, tot) ->
  win_start a l <= p < win_end a b l /\ get p l = Some x /\
  d = (get_prefix wt p l - get_prefix wt (win_start a l) l)%Z /\ tot = get_total wt p l /\
  (get_prefix wt p l <= get_prefix wt (win_start a l) l + n < get_total wt p l)%Z.
Proof. exact c34_advance_prefix_spec. Qed.

(* boolean columns: the accumulator is the number of trues *)
Theorem C34_bool_acc_counts : forall (i : nat) (l : list bool),
  get_prefix bool_wt i l = Z.of_nat (count_occ bool_dec (firstn i l) true).
Proof. exact c34_bool_acc_counts. Qed.

(* ---- delta columns: the presentation is the running sum of the stored deltas, the stored deltas are
   determined by the presentation, nulls are stored as nulls ---- *)
Theorem C34_delta_presentation : forall (p : Z) (l : list (option Z)),
  realize_from p (deltas_from p l) = l /\
  deltas_from p (realize_from p l) = l /\
  length (deltas_from p l) = length l /\
  (forall k, nth_error (deltas_from p l) k = Some None <-> nth_error l k = Some None).
Proof. exact c34_delta_presentation. Qed.

(* DeltaRuns: realizing the expanded runs of the whole column gives the column back, and each run's
   prefix is the realized running value before it *)
Theorem C34_delta_runs_concat : forall l : list (option Z),
  realize_from 0 (expand_delta_runs (delta_run_iter 0 (length l) l)) = l.
Proof. exact c34_delta_runs_concat. Qed.

Theorem C34_delta_runs_prefix : forall (running : Z) (rs : list (nat * option Z))
    (pre : list (Z * option Z * nat)) (p : Z) (d : option Z) (c : nat) (post : list (Z * option Z * nat)),
  delta_runs_from running rs = pre ++ (p, d, c) :: post ->
  p = running_after running (realize_from running (expand_delta_runs pre)).
Proof. exact c34_delta_runs_prefix. Qed.

(* find_by_range / find_by_value / find_first on delta columns *)
Theorem C34_delta_find_spec : forall (lo hi v : Z) (l : list (option Z)) (k : nat),
  (In k (find_by_range lo hi l) <-> exists x, nth_error l k = Some (Some x) /\ (lo <= x < hi)%Z) /\
  StronglySorted lt (find_by_range lo hi l) /\
  (In k (find_by_value v l) <-> nth_error l k = Some (Some v)) /\
  (find_first v l = Some k ->
     nth_error l k = Some (Some v) /\ forall j, j < k -> nth_error l j <> Some (Some v)).
Proof. exact c34_delta_find_spec. Qed.

(* ---- non-vacuity: the hypotheses are satisfiable on concrete columns and the functions compute ---- *)
Example C34_splice_nonvacuous :
  splice 1 2 [7; 8; 9] [1; 2; 3; 4] = Ok [1; 7; 8; 9; 4] /\ splice 3 2 [] [1; 2; 3; 4] = Panic.
Proof. split; reflexivity. Qed.

Example C34_commute_nonvacuous :
  (let* l' := splice 3 1 [9] [1; 2; 3; 4; 5] in splice 0 2 [7; 7; 7] l') = Ok [7; 7; 7; 3; 9; 5].
Proof. reflexivity. Qed.

Example C34_runs_nonvacuous :
  run_iter Nat.eqb 1 6 [5; 5; 5; 2; 2; 7; 7] = [(2, 5); (2, 2); (1, 7)].
Proof. reflexivity. Qed.

Example C34_scope_nonvacuous :
  scope_to_value Nat.eqb Nat.ltb 5 1 7 [9; 2; 5; 5; 5; 8; 9; 0] = (2, 5) /\
  scope_to_value Nat.eqb Nat.ltb 6 1 7 [9; 2; 5; 5; 5; 8; 9; 0] = (5, 5) /\
  sorted_asc Nat.ltb (iter_range 1 7 [9; 2; 5; 5; 5; 8; 9; 0]).
Proof.
  split; [reflexivity|]. split; [reflexivity|].
  cbn. repeat (constructor; [|repeat constructor]). constructor.
Qed.

Example C34_index_nonvacuous :
  let l := [5; 3; 7; 2]%Z in
  get_prefix (fun z => z) 3 l = 15%Z /\ index_for_total (fun z => z) 10%Z l = 2 /\
  index_for_prefix (fun z => z) 18%Z l = 5 /\
  advance_prefix (fun z => z) 1 4 4%Z l = Some (2, 3%Z, 7%Z, 15%Z).
Proof. repeat split; reflexivity. Qed.

Example C34_delta_nonvacuous :
  deltas_from 0 [Some 100; None; Some 101; Some 103]%Z = [Some 100; None; Some 1; Some 2]%Z /\
  delta_run_iter 0 5 [Some 10; Some 11; Some 12; None; Some 12]%Z =
    [(0%Z, Some 10%Z, 1); (10%Z, Some 1%Z, 2); (12%Z, None, 1); (12%Z, Some 0%Z, 1)] /\
  find_by_range 11 13 [Some 10; Some 11; Some 12; None; Some 12]%Z = [1; 2; 4].
Proof. repeat split; reflexivity. Qed.

Example C34_cursor_nonvacuous :
  edit_session Nat.eqb 1 [CDelete 1; CInsertRun 9 2; CSeek 3; CReplace 0] [1; 2; 3; 4; 5] =
    Ok [1; 9; 9; 3; 0; 5] /\
  edit_session Nat.eqb 2 [CAdvance 2; CSeek 3] [1; 2; 3; 4; 5] = Panic.
Proof. split; reflexivity. Qed.
