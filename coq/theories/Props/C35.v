(* C35 — Hexane encodings round-trip and reject bad data safely.
   Statements only; models in Hexane/{Hleb,Rle,BoolCol,Delta}.v, proofs in Hexane/*Proofs.v.

   A column is represented by its run list [(count, Some v | None)] ([expand] gives the
   values) because a dozen bytes can declare 2^64 - 1 items.  [rle_load V eqb dec nullable]
   is `Column::<T>::load`, [rle_save V eqb enc] is `Column::<T>::save` of a column holding
   the given values; the four instances are u64 / i64 / String / Vec<u8>, [nullable]
   selects `Option<T>`.  [wf_vals]: every value is in the range of its Rust type, nulls
   only when nullable, fewer than 2^63 values. *)
From AM Require Import Base.Prelude Base.Leb128 Hexane.Hleb Hexane.HlebProofs Hexane.Rle Hexane.RleProofs
  Hexane.BoolCol Hexane.BoolColProofs Hexane.Delta Hexane.DeltaProofs Hexane.DeltaAccept.
Local Open Scope N_scope.

(* 1. save then load gives the same values: per column type *)
Theorem C35_u64_load_save : forall (nullable : bool) (l : list (option N)),
  wf_vals N nullable wf_u64 l ->
  rle_load_vals N N.eqb u64_dec nullable (u64_save l) = Ok l.
Proof.
  intros. apply (rle_load_vals_save N N.eqb u64_enc u64_dec nullable wf_u64
    N_eqb_spec u64_dec_enc u64_enc_nonempty u64_dec_wf); assumption.
Qed.

Theorem C35_i64_load_save : forall (nullable : bool) (l : list (option Z)),
  wf_vals Z nullable wf_i64 l ->
  rle_load_vals Z Z.eqb i64_dec nullable (i64_save l) = Ok l.
Proof.
  intros. apply (rle_load_vals_save Z Z.eqb i64_enc i64_dec nullable wf_i64
    Z_eqb_spec i64_dec_enc i64_enc_nonempty i64_dec_wf); assumption.
Qed.

Theorem C35_str_load_save : forall (nullable : bool) (l : list (option bytes)),
  wf_vals bytes nullable wf_str l ->
  rle_load_vals bytes bytes_eqb str_dec nullable (str_save l) = Ok l.
Proof.
  intros. apply (rle_load_vals_save bytes bytes_eqb str_enc str_dec nullable wf_str
    bytes_eqb_spec str_dec_enc str_enc_nonempty str_dec_wf); assumption.
Qed.

Theorem C35_blob_load_save : forall (nullable : bool) (l : list (option bytes)),
  wf_vals bytes nullable wf_blob l ->
  rle_load_vals bytes bytes_eqb blob_dec nullable (blob_save l) = Ok l.
Proof.
  intros. apply (rle_load_vals_save bytes bytes_eqb blob_enc blob_dec nullable wf_blob
    bytes_eqb_spec blob_dec_enc blob_enc_nonempty blob_dec_wf); assumption.
Qed.

(* ... and the loaded column is, run for run, the canonical run list of the values *)
Theorem C35_u64_load_save_runs : forall (nullable : bool) (l : list (option N)),
  wf_vals N nullable wf_u64 l ->
  u64_load nullable (u64_save l) = Ok (group N N.eqb l).
Proof.
  intros. apply (rle_load_save N N.eqb u64_enc u64_dec nullable wf_u64
    N_eqb_spec u64_dec_enc u64_enc_nonempty u64_dec_wf); assumption.
Qed.

(* 2. a column that loads saves back to bytes that load to the same column, for ALL bytes
   (over-long varints included: the loaded runs, not the bytes, determine the re-encoding) *)
Theorem C35_u64_resave : forall nullable (b : bytes) rs,
  wf_bytes b -> u64_load nullable b = Ok rs ->
  u64_load nullable (u64_save (expand N rs)) = Ok rs.
Proof.
  intros nullable b rs. apply (rle_resave N N.eqb u64_enc u64_dec nullable wf_u64
    N_eqb_spec u64_dec_enc u64_enc_nonempty u64_dec_wf).
Qed.
Theorem C35_i64_resave : forall nullable (b : bytes) rs,
  wf_bytes b -> i64_load nullable b = Ok rs ->
  i64_load nullable (i64_save (expand Z rs)) = Ok rs.
Proof.
  intros nullable b rs. apply (rle_resave Z Z.eqb i64_enc i64_dec nullable wf_i64
    Z_eqb_spec i64_dec_enc i64_enc_nonempty i64_dec_wf).
Qed.
Theorem C35_str_resave : forall nullable (b : bytes) rs,
  wf_bytes b -> str_load nullable b = Ok rs ->
  str_load nullable (str_save (expand bytes rs)) = Ok rs.
Proof.
  intros nullable b rs. apply (rle_resave bytes bytes_eqb str_enc str_dec nullable wf_str
    bytes_eqb_spec str_dec_enc str_enc_nonempty str_dec_wf).
Qed.
Theorem C35_blob_resave : forall nullable (b : bytes) rs,
  wf_bytes b -> blob_load nullable b = Ok rs ->
  blob_load nullable (blob_save (expand bytes rs)) = Ok rs.
Proof.
  intros nullable b rs. apply (rle_resave bytes bytes_eqb blob_enc blob_dec nullable wf_blob
    bytes_eqb_spec blob_dec_enc blob_enc_nonempty blob_dec_wf).
Qed.

(* 3. canonicity at run level: bytes that load parse (with whatever varint spellings) into
   exactly the canonical segment list of the loaded values; the loaded run list is the
   maximal-run grouping of its own values.  Stated for the abstract codec, then u64. *)
Theorem C35_rle_load_canonical :
  forall (V : Type) (veqb : V -> V -> bool) (enc : V -> bytes) (dec : bytes -> option (V * bytes))
         (nullable : bool) (wfv : V -> Prop),
  (forall a b, veqb a b = true <-> a = b) ->
  (forall v r, wfv v -> dec (enc v ++ r) = Some (v, r)) ->
  (forall v, enc v <> []) ->
  (forall b v r, wf_bytes b -> dec b = Some (v, r) -> wfv v /\ wf_bytes r) ->
  forall (b : bytes) rs, wf_bytes b -> rle_load V veqb dec nullable b = Ok rs ->
    raw_parse V dec (S (length b)) 0 b = (segs_aux V false rs, TEnd) /\
    group V veqb (expand V rs) = rs.
Proof.
  intros V veqb enc dec nullable wfv Heq Hde Hne Hwf b rs Hb H. split.
  - destruct (rle_load_canonical V veqb enc dec nullable wfv Heq Hde Hne Hwf b rs Hb H) as (E & _ & _). exact E.
  - exact (rle_load_group V veqb enc dec nullable wfv Heq Hde Hne Hwf b rs Hb H).
Qed.

Theorem C35_u64_load_canonical : forall nullable (b : bytes) rs,
  wf_bytes b -> u64_load nullable b = Ok rs ->
  raw_parse N u64_dec (S (length b)) 0 b = (segs_aux N false rs, TEnd) /\
  group N N.eqb (expand N rs) = rs.
Proof.
  intros nullable b rs. apply (C35_rle_load_canonical N N.eqb u64_enc u64_dec nullable wf_u64 N_eqb_spec u64_dec_enc u64_enc_nonempty u64_dec_wf).
Qed.

(* 4. loading arbitrary bytes never panics (as of /repo a623e02f7 and 1187ab90a: i64::MIN literal headers
   and item counts of 2^64 and more are BadFormat errors).  Over the abstract codec, hence
   for u64 / i64 / String / Vec<u8>, nullable or not. *)
Theorem C35_load_never_panics :
  forall (V : Type) (veqb : V -> V -> bool) (dec : bytes -> option (V * bytes)) (nullable : bool) (b : bytes),
  rle_load V veqb dec nullable b <> Panic.
Proof. intros V veqb dec nullable b. exact (rle_load_no_panic V veqb dec nullable b). Qed.

(* the inputs that used to panic are now rejected *)
Example C35_former_panics_rejected :
  u64_load false [128;128;128;128;128;128;128;128;128;127] = Err /\
  u64_load true [0;255;255;255;255;255;255;255;255;255;1;2;5] = Err /\
  u64_load true [0;255;255;255;255;255;255;255;255;255;1] = Err /\
  u64_load true [0;254;255;255;255;255;255;255;255;255;1] = Ok [(18446744073709551614, None)].
Proof. repeat split; vm_compute; reflexivity. Qed.

Theorem C35_i64_load_canonical : forall nullable (b : bytes) rs,
  wf_bytes b -> i64_load nullable b = Ok rs ->
  raw_parse Z i64_dec (S (length b)) 0 b = (segs_aux Z false rs, TEnd) /\
  group Z Z.eqb (expand Z rs) = rs.
Proof.
  intros nullable b rs. apply (C35_rle_load_canonical Z Z.eqb i64_enc i64_dec nullable wf_i64 Z_eqb_spec i64_dec_enc i64_enc_nonempty i64_dec_wf).
Qed.
Theorem C35_str_load_canonical : forall nullable (b : bytes) rs,
  wf_bytes b -> str_load nullable b = Ok rs ->
  raw_parse bytes str_dec (S (length b)) 0 b = (segs_aux bytes false rs, TEnd) /\
  group bytes bytes_eqb (expand bytes rs) = rs.
Proof.
  intros nullable b rs. apply (C35_rle_load_canonical bytes bytes_eqb str_enc str_dec nullable wf_str bytes_eqb_spec str_dec_enc str_enc_nonempty str_dec_wf).
Qed.
Theorem C35_blob_load_canonical : forall nullable (b : bytes) rs,
  wf_bytes b -> blob_load nullable b = Ok rs ->
  raw_parse bytes blob_dec (S (length b)) 0 b = (segs_aux bytes false rs, TEnd) /\
  group bytes bytes_eqb (expand bytes rs) = rs.
Proof.
  intros nullable b rs. apply (C35_rle_load_canonical bytes bytes_eqb blob_enc blob_dec nullable wf_blob bytes_eqb_spec blob_dec_enc blob_enc_nonempty blob_dec_wf).
Qed.

(* 5. boolean columns: the same four statements *)
Theorem C35_bool_load_save : forall l : list bool,
  N.of_nat (length l) < pow64 -> bool_load_vals (bool_save l) = Ok l.
Proof. exact bool_load_vals_save. Qed.

Theorem C35_bool_resave : forall (b : bytes) rs,
  wf_bytes b -> bool_load b = Ok rs -> bool_load (bool_save (bexpand rs)) = Ok rs.
Proof. exact bool_resave. Qed.

Theorem C35_bool_load_canonical : forall (b : bytes) rs,
  wf_bytes b -> bool_load b = Ok rs ->
  bool_raw (S (length b)) true b = (bcounts_of_runs rs, BEnd) /\ bgroup (bexpand rs) = rs.
Proof.
  intros b rs Hwf H. split.
  - destruct (bool_load_canonical b rs Hwf H) as (E & _ & _). exact E.
  - exact (bool_load_group b rs Hwf H).
Qed.

Theorem C35_bool_load_never_panics : forall b : bytes, bool_load b <> Panic.
Proof. exact bool_load_no_panic. Qed.

(* 6. delta columns.  [lo],[hi]: the i64 domain of the element type (i64: the whole range;
   u64: 0 .. i64::MAX).  The delta loader accepts a subset of the i64 RLE loader with the
   same runs, so canonical form transfers; re-save is proved for all bytes.  Save then load:
   proved for every value list inside a window [wlo, whi] that contains 0, is at most
   2^63 - 1 wide and lies inside the domain -- for u64 / Option<u64> columns that is every
   list the type can hold (C35_delta_u64_load_save).  hexane's documented contract for signed
   columns (any 2^63-wide window, 0 not necessarily inside) is wider: outside the window
   hypothesis only the second half is proved (C35_delta_load_save_partial: IF the loader
   accepts the writer's output THEN it holds the same values). *)
Theorem C35_delta_load_save : forall (nullable : bool) (lo hi wlo whi : Z) (vs : list (option Z)),
  (lo <= wlo)%Z -> (whi <= hi)%Z -> (i64_min <= wlo)%Z -> (whi <= i64_max)%Z ->
  (wlo <= 0 <= whi)%Z -> (whi - wlo <= i64_max)%Z ->
  delta_dom nullable wlo whi vs ->
  delta_load_vals nullable lo hi (delta_save vs) = Ok vs.
Proof. intros. eapply delta_load_vals_save; eauto. Qed.

Theorem C35_delta_u64_load_save : forall (nullable : bool) (vs : list (option Z)),
  delta_dom nullable 0 i64_max vs ->
  delta_load_vals nullable 0 i64_max (delta_save vs) = Ok vs.
Proof.
  intros nullable vs H. apply (delta_load_vals_save nullable 0 i64_max 0 i64_max);
    rewrite ?i64_min_val, ?i64_max_val; try lia. exact H.
Qed.

Theorem C35_delta_load_is_rle_load : forall nullable lo hi (b : bytes) rs,
  delta_load nullable lo hi b = Ok rs -> i64_load nullable b = Ok rs.
Proof. exact delta_load_rle. Qed.

Theorem C35_delta_load_never_panics : forall nullable lo hi (b : bytes),
  delta_load nullable lo hi b <> Panic.
Proof. exact delta_load_no_panic. Qed.

Example C35_delta_former_panic_rejected :
  delta_load false i64_min i64_max
    [255;255;255;255;255;255;255;255;255;0;0; 255;255;255;255;255;255;255;255;255;0;1; 2;0] = Err.
Proof. vm_compute. reflexivity. Qed.

Theorem C35_delta_resave : forall nullable lo hi (b : bytes) rs,
  wf_bytes b -> delta_load nullable lo hi b = Ok rs ->
  delta_load nullable lo hi (delta_save (realize 0 (expand Z rs))) = Ok rs.
Proof. exact delta_resave. Qed.

Theorem C35_delta_load_save_partial : forall nullable lo hi (vs : list (option Z)) rs,
  wf_vals Z nullable wf_i64 (deltas 0 vs) ->
  delta_load nullable lo hi (delta_save vs) = Ok rs ->
  rs = group Z Z.eqb (deltas 0 vs) /\ realize 0 (expand Z rs) = vs.
Proof. exact delta_load_save_partial. Qed.

(* 7. the varints under all of it: hexane's writers against the leb128 crate's readers *)
Theorem C35_varint_unsigned_roundtrip : forall n rest,
  n < pow64 -> hleb_u (hleb_uenc n ++ rest) = Some (n, rest).
Proof. exact hleb_u_roundtrip. Qed.
Theorem C35_varint_signed_roundtrip : forall z rest,
  in_i64 z -> hleb_s (hleb_senc z ++ rest) = Some (z, rest).
Proof. exact hleb_s_roundtrip. Qed.

(* non-vacuity *)
Example C35_u64_load_save_nonvacuous :
  wf_vals N true wf_u64 [Some 1; Some 1; Some 2; None; None; Some 18446744073709551615] /\
  u64_save [Some 1; Some 1; Some 2; None; None; Some 18446744073709551615]
    = [2;1;127;2;0;2;127;255;255;255;255;255;255;255;255;255;1].
Proof.
  split; [|vm_compute; reflexivity]. split.
  - repeat constructor; unfold wf_u64; rewrite ?pow64_val; lia.
  - cbn. rewrite pow63_val. lia.
Qed.
Example C35_u64_resave_nonvacuous :
  u64_load false [130;0;133;0] = Ok [(2, Some 5)] /\ u64_save (expand N [(2, Some 5)]) = [2;5].
Proof. split; vm_compute; reflexivity. Qed.
Example C35_bool_nonvacuous :
  bool_save [true; true; false] = [0;2;1] /\ bool_load [0;2;1] = Ok [(2, true); (1, false)].
Proof. split; vm_compute; reflexivity. Qed.
Example C35_delta_nonvacuous :
  delta_save [Some 100%Z; Some 101%Z; Some 102%Z; None; Some 200%Z] = [127;228;0;2;1;0;1;127;226;0] /\
  delta_load_vals true 0 9223372036854775807 [127;228;0;2;1;0;1;127;226;0]
    = Ok [Some 100%Z; Some 101%Z; Some 102%Z; None; Some 200%Z].
Proof. split; vm_compute; reflexivity. Qed.
Example C35_delta_load_save_nonvacuous :
  delta_dom true 0 i64_max [Some 100%Z; Some 101%Z; None; Some 9223372036854775807%Z; Some 0%Z].
Proof.
  unfold delta_dom. rewrite i64_max_val. split; [|split].
  - repeat constructor; unfold win; cbn; lia.
  - repeat constructor; auto; discriminate.
  - cbn. rewrite pow63_val. lia.
Qed.
