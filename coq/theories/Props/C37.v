(* C37 — Public API calls never panic.                                                PARTIAL.

   Statements only.  What is proved is the ARGUMENT-VALIDATION layer that exists in the models:
     Codec/ExId      exid_to_opid / op_cursor_to_opid: an object id or cursor whose counter does not
                     fit the internal u32 (OpId::new narrowing) is an error, not a panic (as of /repo
                     323bff928), for every actor table of at most 2^32 actors, every hint;
     Crdt/Cursor     get_cursor_position: unknown / foreign cursors are InvalidCursor; MoveCursor::After
                     resolution returns a value or an error on EVERY op list; MoveCursor::Before without
                     the reference walk likewise (the walk is fuelled by the number of ops; that the fuel
                     suffices is C26's well-formedness argument, not repeated here);
     Crdt/Local      the editing calls put / put_object / insert / insert_object / delete / increment /
                     splice / splice_text: unknown object, wrong key kind for the object type, index out
                     of range, increment of a non-counter each return the corresponding error, and a
                     failed call leaves the transaction unchanged.
   NOT modelled: the op-set seek paths behind the calls (op_set2, hexane cursors: e.g. the index
   arithmetic in hexane/src/prefix.rs), historical reads at arbitrary head sets, marks / blocks,
   diff, isolate, transaction_at, hydrate::Value::apply_patches.  Those are explored by the harness
   family `robust` (valid, stale, foreign and out-of-range arguments into every public call). *)
From AM Require Import Base.Prelude Base.Order Crdt.Types Crdt.Interp Crdt.Cursor Crdt.CursorProofs
  Crdt.Local Crdt.LocalProofs Codec.Bloom Codec.ExId Codec.ExIdProofs Crdt.RobustProofs.
From AM Require Exec.RobustExec.
Local Open Scope N_scope.

(* ---- ids: narrowing to the internal OpId ---- *)
Theorem C37_exid_counter_above_u32_is_error : forall (t : table) (c : N) (a : bytes) (h : N),
  u32_max < c -> exid_to_opid t (EId c a h) = Err.
Proof. exact exid_narrowing_err. Qed.
Theorem C37_cursor_counter_above_u32_is_error : forall (t : table) (c : N) (a : bytes),
  u32_max < c -> cursor_to_opid t c a = Err.
Proof. exact cursor_narrowing_err. Qed.
Theorem C37_exid_to_opid_no_panic : forall (t : table) (e : exid), lenN t <= pow32 -> exid_to_opid t e <> Panic.
Proof. exact exid_to_opid_no_panic. Qed.
Theorem C37_cursor_to_opid_no_panic : forall (t : table) (c : N) (a : bytes),
  lenN t <= pow32 -> cursor_to_opid t c a <> Panic.
Proof. exact cursor_to_opid_no_panic. Qed.
Theorem C37_unknown_actor_is_error : forall (t : table) (c : N) (a : bytes) (h : N),
  ~ In a t -> exid_to_opid t (EId c a h) = Err.
Proof. exact resolve_unknown_actor. Qed.
Example C37_narrowing_nonvacuous :
  exid_to_opid [[1]] (EId 4294967296 [1] 0) = Err /\ exid_to_opid [[1]] (EId 4294967295 [1] 0) = Ok (4294967295, 0).
Proof. split; reflexivity. Qed.

(* ---- cursors ---- *)
Theorem C37_unknown_cursor_is_error : forall (width : regobs -> N) (oops : list op) (mode : move_mode) (c : opid),
  find_op oops c = None -> resolve width oops mode c = Err.
Proof. exact resolve_unknown. Qed.
Theorem C37_cursor_after_no_panic : forall (width : regobs -> N) (oops : list op) (c : opid),
  resolve width oops MoveAfter c <> Panic.
Proof. exact resolve_after_no_panic. Qed.
Theorem C37_cursor_before_visible_no_panic_partial : forall (width : regobs -> N) (oops : list op) (c : opid) (o : op),
  find_op oops c = Some o -> elem_vis oops (elem_of o) = true -> resolve width oops MoveBefore c <> Panic.
Proof. exact resolve_before_direct_no_panic. Qed.

(* ---- editing calls: invalid arguments are errors and change nothing ---- *)
Theorem C37_failed_call_changes_nothing : forall e t c t' x,
  apply_call e t c = EOk (t', Some x) -> t' = t.
Proof. exact apply_call_error_unchanged. Qed.
Theorem C37_unknown_object_is_error : forall e t c,
  lookup_type (tx_all t)
    (match c with
     | CPut o _ _ | CPutObj o _ _ | CInsert o _ _ | CInsertObj o _ _ | CDelete o _ | CInc o _ _
     | CSplice o _ _ _ | CSpliceText o _ _ _ => o end) = None ->
  step e t c = EErr EInvalidObj.
Proof. exact unknown_object_error. Qed.
Theorem C37_wrong_key_kind_is_error : forall e t obj,
  (forall k v, lookup_type (tx_all t) obj = Some OList -> step e t (CPut obj (PMap k) v) = EErr EInvalidOp) /\
  (forall i v, lookup_type (tx_all t) obj = Some OMap -> step e t (CPut obj (PSeq i) v) = EErr EInvalidOp) /\
  (forall i v, lookup_type (tx_all t) obj = Some OMap -> step e t (CInsert obj i v) = EErr EInvalidOp) /\
  (forall i nt, lookup_type (tx_all t) obj = Some OText -> step e t (CPutObj obj (PSeq i) nt) = EErr EInvalidOp) /\
  (forall i z, lookup_type (tx_all t) obj = Some OMap -> step e t (CInc obj (PSeq i) z) = EErr EInvalidOp) /\
  (forall i, lookup_type (tx_all t) obj = Some OMap -> step e t (CDelete obj (PSeq i)) = EErr EInvalidOp) /\
  (forall k, lookup_type (tx_all t) obj = Some OList -> step e t (CDelete obj (PMap k)) = EErr EInvalidOp) /\
  (forall k, lookup_type (tx_all t) obj = Some OText -> step e t (CDelete obj (PMap k)) = EErr EInvalidOp) /\
  (forall i d s, lookup_type (tx_all t) obj = Some OList -> step e t (CSpliceText obj i d s) = EErr EInvalidOp).
Proof. exact wrong_key_kind_error. Qed.
Theorem C37_index_out_of_range_is_error : forall e t obj i,
  lookup_type (tx_all t) obj = Some OList ->
  N.of_nat (length (seq_elems (tx_all t) obj)) <= i ->
  (forall v, step e t (CPut obj (PSeq i) v) = EErr EInvalidIndex) /\
  (forall nt, step e t (CPutObj obj (PSeq i) nt) = EErr EInvalidIndex) /\
  (forall z, step e t (CInc obj (PSeq i) z) = EErr EInvalidIndex) /\
  step e t (CDelete obj (PSeq i)) = EErr EInvalidIndex /\
  (forall v, step e t (CInsert obj (i + 1) v) = EErr EInvalidIndex) /\
  (forall nt, step e t (CInsertObj obj (i + 1) nt) = EErr EInvalidIndex).
Proof. exact index_out_of_range_error. Qed.
Theorem C37_increment_non_counter_is_error : forall e t obj k z,
  lookup_type (tx_all t) obj = Some OMap ->
  existsb is_vc (reg_at (tx_all t) obj (KMap k)) = false ->
  step e t (CInc obj (PMap k) z) = EErr EMissingCounter.
Proof. exact increment_non_counter_error. Qed.
