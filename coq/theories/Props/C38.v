(* C38 — Actor sequence numbers stay unique.
   Statements only; proofs in Crdt/QueueProofs.v.  [seq_chain u]: every change of the universe
   has its actor's previous change among its transitive dependencies (true of every change the
   editing API emits; a first change with seq > 1 makes the implementation panic instead —
   known finding under C15). *)
From AM Require Import Base.Prelude Base.Order Crdt.Types Crdt.Doc Crdt.QueueProofs.
Local Open Scope N_scope.

(* the invariant holds initially and every accepted delivery preserves it *)
Theorem C38_inv_empty : forall u, Inv u empty_doc.
Proof. exact Inv_empty. Qed.

Theorem C38_receive_preserves : forall u d cs d',
  hash_inj u -> seq_chain u -> incl cs u ->
  Inv u d -> receive d cs = Ok d' -> Inv u d'.
Proof. exact receive_actor_seq_unique. Qed.

(* hence no document reached by error-free deliveries holds (applied or held) two different
   changes with the same actor and sequence number *)
Theorem C38_run_actor_seq_unique : forall u batches d,
  hash_inj u -> seq_chain u -> incl (concat batches) u ->
  run empty_doc batches = Ok d -> actor_seq_unique (applied d ++ queue d).
Proof. exact run_actor_seq_unique. Qed.

(* applied sequence numbers of an actor with n applied changes lie in 1..n *)
Theorem C38_seq_range : forall u d, Inv u d ->
  forall c, In c (applied d) -> 1 <= ch_seq c <= seq_for_actor (applied d) (ch_actor c).
Proof. exact Inv_seq_range. Qed.
