(* C38 — Actor sequence numbers stay unique.
   Statements only; proofs in Crdt/QueueProofs.v.  [seq_chain u]: every change of the universe
   has its actor's previous change among its transitive dependencies (true of every change the
   editing API emits; a first change with seq > 1 makes the implementation panic instead —
   known finding under C15). *)
From AM Require Import Base.Prelude Base.Order Crdt.Types Crdt.Doc Crdt.QueueProofs Crdt.Commit Crdt.PruneProofs.
Local Open Scope N_scope.

(* the invariant holds initially and every accepted delivery preserves it *)
Theorem C38_inv_empty : forall u, Inv u empty_doc.
Proof. exact Inv_empty. Qed.

Theorem C38_receive_preserves : forall u d cs d',
  hash_inj u -> seq_chain u -> incl cs u ->
  Inv u d -> receive d cs = Ok d' -> Inv u d'.
Proof. exact receive_actor_seq_unique. Qed.

(* hence no document reached by error-free deliveries holds (applied or held) two different
   changes with the same actor and sequence number *)
Theorem C38_run_actor_seq_unique : forall u batches d,
  hash_inj u -> seq_chain u -> incl (concat batches) u ->
  run empty_doc batches = Ok d -> actor_seq_unique (applied d ++ queue d).
Proof. exact run_actor_seq_unique. Qed.

(* applied sequence numbers of an actor with n applied changes lie in 1..n *)
Theorem C38_seq_range : forall u d, Inv u d ->
  forall c, In c (applied d) -> 1 <= ch_seq c <= seq_for_actor (applied d) (ch_actor c).
Proof. exact Inv_seq_range. Qed.

(* a local commit that claims a sequence number (it mirrors transaction_args, also for a commit that
   ends up creating no change) discards every held change of its actor with that or a later
   sequence number - the conflicting branch - and holds back nothing new *)
Theorem C38_commit_discards_conflicting_branch : forall m r m' oc meta,
  m_commit m r = Ok (m', oc) ->
  commit_meta (applied (m_doc m)) (m_get_heads m) (cr_actor r) (cr_iso r) = Ok meta ->
  forall c, In c (queue (m_doc m')) ->
    In c (queue (m_doc m)) /\
    ~ (same_actor (ch_actor c) (cm_actor meta) = true /\ cm_seq meta <= ch_seq c).
Proof. exact commit_discards_conflicting_branch. Qed.
