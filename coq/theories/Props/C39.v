(* C39 — Strings decoded from untrusted bytes are always valid UTF-8.
   Statements only; proofs in Base/Utf8Proofs.v, definitions in Base/Utf8Spec.v.

   What is proved.  The model has two byte-level UTF-8 validators, both transcriptions of the
   Unicode Table 3-7 automaton that `std::str::from_utf8` implements:
     Hexane/Rle.v         [Rle.utf8_valid]          (hexane `String::try_unpack`, string columns)
     Store/ChangeChunk.v  [ChangeChunk.utf8_valid]  (the change message, `parse_following_header`).
   The theorems say that these two automata are the same function, that they accept EXACTLY the
   byte strings that are concatenations of shortest-form encodings of Unicode scalar values
   ([well_formed]: a definition by the ENCODER, which never mentions Table 3-7), that an independent
   textbook decoder returns the scalar values on accepted input and nothing on rejected input, and
   therefore that every string the model's column loader or change parser hands out is
   well-formed UTF-8.  All for every byte string, of any length (no bound; "bytes" >= 256 are
   rejected too, so there is no side condition).

   What is NOT proved here.  These are theorems about the validators of the MODEL, which mirror
   `from_utf8`; `from_utf8` itself (the Rust standard library) is trusted to implement Table 3-7.
   That every Rust code path reaches an UNCHECKED accessor only after such a validating load —
   hexane's `String::unpack` uses `std::str::from_utf8_unchecked` on slab bytes, relying on
   `try_unpack` having validated them at load time — is a statement about the control flow of the
   Rust code and is not modelled; it is explored by the harness family `robust`, which feeds
   malformed bytes to every public decoding entry point and checks each string that comes out
   (checker [chk_utf8] of Exec/RobustExec.v ties the implementation's verdict to these validators). *)
From AM Require Import Base.Prelude Base.Utf8Spec Base.Utf8Proofs.
From AM Require Hexane.Rle Store.ChangeChunk.
Local Open Scope N_scope.

(* the two validators of the model are the same function *)
Theorem C39_rle_validator_agrees : forall l : bytes,
  Rle.utf8_valid l = ChangeChunk.utf8_valid l.
Proof. exact validators_agree. Qed.

(* soundness + completeness: accepted <-> well-formed (the encoding of some scalar values) *)
Theorem C39_utf8_valid_iff_well_formed : forall l : bytes,
  Rle.utf8_valid l = true <->
  exists cps : list N, Forall (fun c => is_scalar c = true) cps /\ l = concat (map utf8_encode cps).
Proof. exact rle_valid_iff_well_formed. Qed.

Theorem C39_chg_utf8_valid_iff_well_formed : forall l : bytes,
  ChangeChunk.utf8_valid l = true <-> well_formed l.
Proof. exact chg_valid_iff_well_formed. Qed.

(* completeness on its own: no well-formed string is rejected *)
Theorem C39_utf8_valid_complete : forall cps : list N,
  Forall (fun c => is_scalar c = true) cps -> Rle.utf8_valid (concat (map utf8_encode cps)) = true.
Proof. exact rle_valid_complete. Qed.

(* accepted bytes decode, to scalar values, which re-encode to exactly those bytes *)
Theorem C39_decode_sound : forall l : bytes,
  Rle.utf8_valid l = true ->
  exists cps : list N, utf8_decode l = Some cps /\
    Forall (fun c => is_scalar c = true) cps /\ concat (map utf8_encode cps) = l.
Proof. exact valid_decode. Qed.

(* rejected bytes yield no string *)
Theorem C39_decode_rejects : forall l : bytes,
  Rle.utf8_valid l = false -> utf8_decode l = None.
Proof. exact invalid_decode. Qed.

(* the decoder on its own (no validator involved): whatever it returns is the unique reading *)
Theorem C39_decoder_sound : forall (l : bytes) (cps : list N),
  utf8_decode l = Some cps ->
  Forall (fun c => is_scalar c = true) cps /\ concat (map utf8_encode cps) = l.
Proof. exact decode_sound. Qed.

Theorem C39_decoder_complete : forall cps : list N,
  Forall (fun c => is_scalar c = true) cps -> utf8_decode (concat (map utf8_encode cps)) = Some cps.
Proof. exact decode_complete. Qed.

(* UTF-8 is uniquely decodable: a well-formed string is the encoding of exactly one list of
   scalar values *)
Theorem C39_encoding_injective : forall cps cps' : list N,
  Forall (fun c => is_scalar c = true) cps -> Forall (fun c => is_scalar c = true) cps' ->
  concat (map utf8_encode cps) = concat (map utf8_encode cps') -> cps = cps'.
Proof. exact encode_all_injective. Qed.

(* hexane `String::try_unpack` (and through it `Option<String>`): the value it returns *)
Theorem C39_str_dec_well_formed : forall b s r : bytes,
  Rle.str_dec b = Some (s, r) -> well_formed s.
Proof. exact str_dec_well_formed. Qed.

(* `Column::<String>::load` (nullable = false) and `Column::<Option<String>>::load` (true):
   every string value of every run of a column the loader accepts, for ANY input bytes *)
Theorem C39_column_strings_well_formed :
  forall (nullable : bool) (b : bytes) (rs : list (N * option bytes)),
  Rle.str_load nullable b = Ok rs ->
  forall (n : N) (s : bytes), In (n, Some s) rs -> well_formed s.
Proof. exact str_load_well_formed. Qed.

(* the same over the expanded value list *)
Theorem C39_column_values_well_formed :
  forall (nullable : bool) (b : bytes) (vs : list (option bytes)),
  Rle.rle_load_vals bytes bytes_eqb Rle.str_dec nullable b = Ok vs ->
  forall s : bytes, In (Some s) vs -> well_formed s.
Proof. exact str_load_vals_well_formed. Qed.

(* the message of a change the parser accepts, for ANY input bytes *)
Theorem C39_change_message_well_formed : forall (b : bytes) (c : ChangeChunk.change_body),
  ChangeChunk.parse_body b = Ok c -> well_formed (ChangeChunk.cb_message c).
Proof. exact parse_body_message_well_formed. Qed.

(* ---- non-vacuity: "é漢😀" = U+00E9 U+6F22 U+1F600 = C3 A9 | E6 BC A2 | F0 9F 98 80 ---- *)
Example C39_sample_nonvacuous :
  let l := [195; 169; 230; 188; 162; 240; 159; 152; 128] in
  Rle.utf8_valid l = true /\ ChangeChunk.utf8_valid l = true /\
  utf8_decode l = Some [233; 28450; 128512] /\
  forallb is_scalar [233; 28450; 128512] = true /\
  concat (map utf8_encode [233; 28450; 128512]) = l.
Proof. vm_compute. repeat split. Qed.

(* the boundaries of the four lengths and of the surrogate gap *)
Example C39_boundaries_nonvacuous :
  map utf8_encode [0; 127; 128; 2047; 2048; 55295; 57344; 65535; 65536; 1114111] =
  [[0]; [127]; [194; 128]; [223; 191]; [224; 160; 128]; [237; 159; 191]; [238; 128; 128];
   [239; 191; 191]; [240; 144; 128; 128]; [244; 143; 191; 191]] /\
  Rle.utf8_valid (concat (map utf8_encode [0; 127; 128; 2047; 2048; 55295; 57344; 65535; 65536; 1114111])) = true /\
  map is_scalar [55295; 55296; 57343; 57344; 1114111; 1114112] = [true; false; false; true; true; false].
Proof. vm_compute. repeat split. Qed.

(* the classic ill-formed sequences: over-long C0 80 / E0 80 80 / F0 80 80 80, surrogate
   ED A0 80, above U+10FFFF F4 90 80 80, truncated E6 BC, lone continuation 80, FF, F5.., and a
   "byte" that is not a byte *)
Example C39_rejects_nonvacuous :
  map Rle.utf8_valid
    [[192; 128]; [193; 191]; [237; 160; 128]; [237; 191; 191]; [244; 144; 128; 128];
     [224; 128; 128]; [224; 159; 191]; [240; 128; 128; 128]; [240; 143; 191; 191];
     [230; 188]; [128]; [191]; [255]; [245; 128; 128; 128]; [248; 136; 128; 128; 128];
     [195]; [195; 40]; [97; 226; 130]; [300]; [195; 425]]
  = repeat false 20 /\
  map ChangeChunk.utf8_valid
    [[192; 128]; [193; 191]; [237; 160; 128]; [237; 191; 191]; [244; 144; 128; 128];
     [224; 128; 128]; [224; 159; 191]; [240; 128; 128; 128]; [240; 143; 191; 191];
     [230; 188]; [128]; [191]; [255]; [245; 128; 128; 128]; [248; 136; 128; 128; 128];
     [195]; [195; 40]; [97; 226; 130]; [300]; [195; 425]]
  = repeat false 20 /\
  map utf8_decode
    [[192; 128]; [193; 191]; [237; 160; 128]; [237; 191; 191]; [244; 144; 128; 128];
     [224; 128; 128]; [224; 159; 191]; [240; 128; 128; 128]; [240; 143; 191; 191];
     [230; 188]; [128]; [191]; [255]; [245; 128; 128; 128]; [248; 136; 128; 128; 128];
     [195]; [195; 40]; [97; 226; 130]; [300]; [195; 425]]
  = repeat None 20.
Proof. vm_compute. repeat split. Qed.

(* the column loader: a literal run of the two strings "é" "漢" loads, and the same column with
   the second string's last byte cut to a non-continuation is rejected *)
Example C39_column_nonvacuous :
  Rle.str_load false [126; 2; 195; 169; 3; 230; 188; 162] = Ok [(1, Some [195; 169]); (1, Some [230; 188; 162])] /\
  Rle.str_load false [126; 2; 195; 169; 3; 230; 188; 40] = Err /\
  Rle.str_load true [2; 2; 237; 160] = Err.
Proof. vm_compute. repeat split. Qed.
