(* C40 — Loading with string migration turns visible strings into text and nothing else.
   Model: Crdt/Migrate.v, a mirror of Automerge::convert_scalar_strings_to_text (automerge.rs) as load_with_options
   runs it for StringMigration::ConvertToText: every visible Put(Str) op of every map / list object (conflict losers
   included) becomes one conversion (object, map key | list index, string); all conversions run in ONE transaction of
   the loaded document's actor, each as put_object(obj, prop, Text) followed by splice_text(text, 0, 0, s), through the
   editing calls of Crdt/Local.v.  [migrate e ops a] returns the ops of the change the load appends ([] = no change).

   The statements read the document before (ops0 = the ops ascending by id) and after (ops0 ++ new) through
     reg_at ops obj K   — the visible values of a register, ascending id (the last one wins),
     seq_elems ops obj  — the visible elements of a list with their registers, in document order,
     listed ops obj ty K r — K is a key of the map obj, or a visible element of the list obj, and r its register,
     last_str r         — the highest-id visible string of r (None: r shows no string),  no_str r — r shows none,
     text_at ops id     — the characters of the text object id,
   for ANY op set satisfying the decidable well-formedness predicate wf_tx (ids strictly ascending, counters below
   the next op counter), which the family `recon` checks on every generated document.

   What the code does beyond the wording of the property (and the theorems say so): a register that shows a string
   next to non-string conflict siblings (an integer, a counter, an object) ends up holding ONLY the text object — the
   siblings are superseded together with the strings (C40_text_is_highest_string: the register is exactly
   [(id, text)]); "visible" is per register of any object the document knows, reachable from the root or not. *)
From AM Require Import Base.Prelude Base.Order Crdt.Types Crdt.Interp Crdt.Local Crdt.LocalProofs Crdt.Migrate Crdt.MigrateProofs.
Local Open Scope N_scope.

Theorem C40_migrate_no_visible_string : forall e ops a new,
  wf_tx (begin_tx ops a) -> migrate e ops a = EOk new ->
  let ops' := tx_all (begin_tx ops a) ++ new in
  forall obj ty K r, lookup_type ops' obj = Some ty -> container ty -> listed ops' obj ty K r -> no_str r.
Proof. exact migrate_no_visible_string. Qed.

Theorem C40_migrate_text_is_highest_string : forall e ops a new,
  wf_tx (begin_tx ops a) -> migrate e ops a = EOk new ->
  let ops0 := tx_all (begin_tx ops a) in
  let ops' := ops0 ++ new in
  forall obj ty K r s, lookup_type ops0 obj = Some ty -> listed ops0 obj ty K r -> last_str r = Some s ->
  exists id, reg_at ops' obj K = [(id, VO OText)] /\ lookup_type ops0 id = None /\
             lookup_type ops' id = Some OText /\ text_at ops' id = s.
Proof. exact migrate_text_is_highest_string. Qed.

Theorem C40_migrate_others_untouched : forall e ops a new,
  wf_tx (begin_tx ops a) -> migrate e ops a = EOk new ->
  let ops0 := tx_all (begin_tx ops a) in
  let ops' := ops0 ++ new in
  (forall obj ty K r, lookup_type ops0 obj = Some ty -> listed ops0 obj ty K r -> last_str r = None ->
     reg_at ops' obj K = r) /\
  (forall obj ty K, lookup_type ops0 obj = Some ty -> ~ container ty -> reg_at ops' obj K = reg_at ops0 obj K) /\
  (forall obj ty, lookup_type ops0 obj = Some ty ->
     lookup_type ops' obj = Some ty /\ elem_order (obj_ops ops' obj) = elem_order (obj_ops ops0 obj) /\
     map fst (seq_elems ops' obj) = map fst (seq_elems ops0 obj)).
Proof. exact migrate_others_untouched. Qed.

Theorem C40_migrate_noop_no_change : forall e ops a,
  wf_tx (begin_tx ops a) ->
  let ops0 := tx_all (begin_tx ops a) in
  (forall obj ty K r, lookup_type ops0 obj = Some ty -> container ty -> listed ops0 obj ty K r -> no_str r) ->
  migrate e ops a = EOk [].
Proof. exact migrate_noop_no_change. Qed.

(* and conversely: a change is added exactly when some addressable register shows a string *)
Theorem C40_migrate_change_iff : forall e ops a new,
  wf_tx (begin_tx ops a) -> migrate e ops a = EOk new ->
  let ops0 := tx_all (begin_tx ops a) in
  (new = [] <->
   forall obj ty K r, lookup_type ops0 obj = Some ty -> container ty -> listed ops0 obj ty K r -> no_str r).
Proof. exact migrate_change_iff. Qed.

(* the migrating load cannot fail or panic in the migration step *)
Theorem C40_migrate_total : forall e ops a, wf_tx (begin_tx ops a) -> exists new, migrate e ops a = EOk new.
Proof. exact migrate_total. Qed.

(* ---- non-vacuity: two actors; root key "a" shows the string "x" (1@[1]), the string "yz" (1@[2]) and — as a
   conflict sibling — nothing else; key "n" shows an integer next to the string "q"; a list with a string element;
   a text object whose characters are strings and stay as they are ---- *)
Definition ex_ops : list op :=
  [ mkOp (1, [1]) root_id (KMap [97]) false (APut (SStr [120])) [];
    mkOp (1, [2]) root_id (KMap [97]) false (APut (SStr [121; 122])) [];
    mkOp (2, [1]) root_id (KMap [110]) false (APut (SInt 7)) [];
    mkOp (2, [2]) root_id (KMap [110]) false (APut (SStr [113])) [];
    mkOp (3, [1]) root_id (KMap [108]) false (AMake OList) [];
    mkOp (4, [1]) (3, [1]) (KSeq head_id) true (APut (SStr [104; 105])) [];
    mkOp (5, [1]) root_id (KMap [116]) false (AMake OText) [];
    mkOp (6, [1]) (5, [1]) (KSeq head_id) true (APut (SStr [99])) [] ].

Example C40_nonvacuous :
  wf_tx (begin_tx ex_ops [9]) /\
  exists new, migrate EncCP ex_ops [9] = EOk new /\ length new = 10%nat /\
    let ops' := tx_all (begin_tx ex_ops [9]) ++ new in
    (* "a": the higher-id string "yz" wins *)
    last_str (reg_at ex_ops root_id (KMap [97])) = Some [121; 122] /\
    reg_at ops' root_id (KMap [97]) = [((9, [9]), VO OText)] /\ text_at ops' (9, [9]) = [121; 122] /\
    (* "n": the integer sibling is gone with the string *)
    reg_at ex_ops root_id (KMap [110]) = [((2, [1]), VS (SInt 7)); ((2, [2]), VS (SStr [113]))] /\
    reg_at ops' root_id (KMap [110]) = [((12, [9]), VO OText)] /\ text_at ops' (12, [9]) = [113] /\
    (* the list element *)
    listed ex_ops (3, [1]) OList (KSeq (4, [1])) [((4, [1]), VS (SStr [104; 105]))] /\
    text_at ops' (14, [9]) = [104; 105] /\
    (* the text object is untouched *)
    text_at ops' (5, [1]) = [99].
Proof.
  assert (Li : listed ex_ops (3, [1]) OList (KSeq (4, [1])) [((4, [1]), VS (SStr [104; 105]))]).
  { right. split; [reflexivity|]. exists (4, [1]). split; [reflexivity|]. vm_compute. left. reflexivity. }
  split; [vm_compute; reflexivity|]. eexists. split; [vm_compute; reflexivity|].
  split; [vm_compute; reflexivity|]. cbv zeta.
  split; [vm_compute; reflexivity|]. split; [vm_compute; reflexivity|]. split; [vm_compute; reflexivity|].
  split; [vm_compute; reflexivity|]. split; [vm_compute; reflexivity|]. split; [vm_compute; reflexivity|].
  split; [exact Li|]. split; vm_compute; reflexivity.
Qed.

Example C40_noop_nonvacuous :
  let ops := [ mkOp (1, [1]) root_id (KMap [97]) false (APut (SInt 3)) [];
               mkOp (2, [1]) root_id (KMap [116]) false (AMake OText) [];
               mkOp (3, [1]) (2, [1]) (KSeq head_id) true (APut (SStr [99])) [] ] in
  wf_tx (begin_tx ops [9]) /\ migrate EncCP ops [9] = EOk [].
Proof. split; vm_compute; reflexivity. Qed.
