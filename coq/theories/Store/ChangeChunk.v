(* Store/ChangeChunk.v — the BODY of a change chunk (chunk type 1; type 2 after inflation) as
   rust/automerge/src/storage/change.rs reads and writes it.

   Reader  = [Change::parse_following_header] (storage/change.rs), built from the combinators of
             storage/parse.rs ([length_prefixed], [change_hash], [actor_id], [take_n], [utf_8],
             [take_rest]), storage/parse/leb128.rs ([leb128_u64], [nonzero_leb128_u64],
             [leb128_i64], [leb128_u32]), [RawColumns::parse] / [are_normal_sorted] /
             [total_column_len] / [uncompressed] (storage/columns/raw_column.rs), the bit layout of
             [ColumnSpec] (storage/columns/column_specification.rs), the column layout state
             machine [Columns::parse2] = [ColumnLayoutParser::add_column]/[build]
             (storage/columns.rs, column_builder.rs) and [ChangeOpsColumns::try_from(Columns)]
             (storage/change/change_op_columns.rs).
   Writer  = [ChangeBuilder::build] (storage/change.rs) + [RawColumns::write].

   body = uleb(#deps) ‖ deps(32 bytes each) ‖ uleb(|actor|) ‖ actor ‖ uleb(seq) ‖ uleb(start_op)
          ‖ sleb(time) ‖ uleb(|message|) ‖ message ‖ uleb(#others) ‖ (uleb(|a|) ‖ a)*
          ‖ uleb(#columns) ‖ (uleb(spec) ‖ uleb(len))* ‖ column data (sum of lens) ‖ extra bytes

   NOT modelled: the contents of the column data (the op columns; [verify_ops] decodes them after
   this parser has succeeded).  The column data is an opaque byte string here.

   Quirks mirrored (not repaired):
   - [ColumnSpec::normalize] is [self.0 & 0b11110111] on a u32: it clears the deflate bit AND every
     bit above bit 7, so the "normalised order" compares (id mod 16, type) only;
   - [are_normal_sorted] is non-strict (equal normalised specs are accepted) and the
     OutOfOrder / DuplicateColumnSpecs tests of [add_column] are dead code ([last_spec] is never
     assigned), so duplicate column specs are accepted by this layer;
   - column offsets are accumulated with a SATURATING add; [total_column_len] then sums the range
     lengths with a plain (overflow-checked in debug) add: modelled as [Panic] on overflow
     ([sum_checked]) and proved unreachable;
   - [check_contiguous] / [check_bounds] of the layout parser compare ranges that are contiguous
     by construction (every range starts where the previous one ended and ends at most at
     [total_column_len]); they cannot fail and are not modelled (the harness compares accept /
     reject on mutated column metadata);
   - [length_prefixed] / [apply_n] loop [count] times with no pre-check; every element parser used
     here consumes at least one byte and never panics, so a count larger than the remaining input
     always ends in "not enough input": [p_rep] returns [Err] at once in that case (this also
     keeps [nat] counts below the input length). *)
From AM Require Import Base.Prelude Base.Leb128 Base.Sleb128 Gen.Consts Store.Chunk.
Local Open Scope N_scope.

Definition HASH_SIZE : N := 32.

(* ---------------------------------------------------------------- parse.rs combinators *)
(* [take_n]: Err = not enough input *)
Definition p_take (n : N) (i : bytes) : res (bytes * bytes) :=
  match take_N n i with Some (a, r) => Ok (a, r) | None => Err end.

(* [change_hash] *)
Definition p_hash (i : bytes) : res (bytes * bytes) := p_take HASH_SIZE i.

(* [actor_id] / [length_prefixed_bytes] *)
Definition p_lpbytes (i : bytes) : res (bytes * bytes) :=
  let* (n, i1) := uleb_dec i in p_take n i1.

(* [nonzero_leb128_u64] *)
Definition p_nonzero (i : bytes) : res (N * bytes) :=
  let* (n, i1) := uleb_dec i in if n =? 0 then Err else Ok (n, i1).

(* [apply_n] *)
Fixpoint rep_nat {A} (p : bytes -> res (A * bytes)) (n : nat) (i : bytes) : res (list A * bytes) :=
  match n with
  | O => Ok ([], i)
  | S k =>
    let* (x, i1) := p i in
    let* (xs, i2) := rep_nat p k i1 in
    Ok (x :: xs, i2)
  end.

Definition p_rep {A} (p : bytes -> res (A * bytes)) (n : N) (i : bytes) : res (list A * bytes) :=
  if lenN i <? n then Err else rep_nat p (N.to_nat n) i.

(* [length_prefixed g] *)
Definition p_counted {A} (p : bytes -> res (A * bytes)) (i : bytes) : res (list A * bytes) :=
  let* (n, i1) := uleb_dec i in p_rep p n i1.

(* ---------------------------------------------------------------- UTF-8 ([String::from_utf8]) *)
Definition cont (b : N) : bool := (128 <=? b) && (b <=? 191).
Definition inr (lo hi b : N) : bool := (lo <=? b) && (b <=? hi).

(* well-formed UTF-8 byte sequences (Unicode Table 3-7): no over-long forms, no surrogates,
   nothing above U+10FFFF *)
Fixpoint utf8_valid (l : bytes) : bool :=
  match l with
  | [] => true
  | b0 :: t =>
    if b0 <? 128 then utf8_valid t
    else if inr 194 223 b0 then
      match t with b1 :: t1 => cont b1 && utf8_valid t1 | _ => false end
    else if inr 224 239 b0 then
      match t with
      | b1 :: b2 :: t2 =>
        (if b0 =? 224 then inr 160 191 b1 else if b0 =? 237 then inr 128 159 b1 else cont b1)
        && cont b2 && utf8_valid t2
      | _ => false
      end
    else if inr 240 244 b0 then
      match t with
      | b1 :: b2 :: b3 :: t3 =>
        (if b0 =? 240 then inr 144 191 b1 else if b0 =? 244 then inr 128 143 b1 else cont b1)
        && cont b2 && cont b3 && utf8_valid t3
      | _ => false
      end
    else false
  end.

(* ---------------------------------------------------------------- column specifications *)
Definition spec_normalize (s : N) : N := N.land s 247.          (* self.0 & 0b11110111 *)
Definition spec_deflate (s : N) : bool := negb (N.land s 8 =? 0).
Definition spec_id (s : N) : N := s / 16.                       (* self.0 >> 4 *)
Definition spec_type (s : N) : N := s mod 8.                    (* to_be_bytes()[3] & 7 *)

Definition T_GROUP : N := 0.
Definition T_ACTOR : N := 1.
Definition T_INTEGER : N := 2.
Definition T_DELTA : N := 3.
Definition T_BOOLEAN : N := 4.
Definition T_STRING : N := 5.
Definition T_VALUE_META : N := 6.
Definition T_VALUE : N := 7.

(* [are_normal_sorted] *)
Fixpoint normal_sorted (ss : list N) : bool :=
  match ss with
  | a :: ((b :: _) as t) => negb (spec_normalize b <? spec_normalize a) && normal_sorted t
  | _ => true
  end.

(* one (spec, len) pair: [tuple2 (map leb128_u32 ColumnSpec::from) leb128_u64] *)
Definition p_colpair (i : bytes) : res (N * N * bytes) :=
  let* (s, i1) := uleb_dec_u32 i in
  let* (l, i2) := uleb_dec i1 in
  Ok (s, l, i2).

(* the [scan] of [RawColumns::parse]: offsets with a saturating add; a column is (spec, range
   length) where the range is offset .. saturating(offset + len) *)
Definition sat_add (a b : N) : N := N.min (a + b) u64_max.
Fixpoint col_ranges (off : N) (cs : list (N * N)) : list (N * N) :=
  match cs with
  | [] => []
  | (s, l) :: t => let e := sat_add off l in (s, e - off) :: col_ranges e t
  end.

(* [total_column_len]: [iter().map(len).sum()] with overflow checks *)
Fixpoint sum_checked (ls : list N) (acc : N) : res N :=
  match ls with
  | [] => Ok acc
  | l :: t => if u64_max <? acc + l then Panic else sum_checked t (acc + l)
  end.

(* ---------------------------------------------------------------- column layout *)
(* kinds of grouped columns and of finished logical columns *)
Inductive gkind := GK_RleInt | GK_Delta | GK_Bool | GK_Str | GK_Value.
Inductive ckind := CK_Simple | CK_Value | CK_Group (cols : list gkind).

Inductive gstate := GReady | GInValue.
Inductive lstate :=
| LReady
| LInValue (spec : N)                          (* AwaitingRawColumnValueBuilder *)
| LInGroup (spec : N) (g : gstate) (cols : list gkind).   (* GroupBuilder / GroupAwaitingValue *)

(* state, finished columns in reverse order *)
Definition lay := (lstate * list (N * ckind))%type.

(* [add_column] in state Ready *)
Definition add_ready (done : list (N * ckind)) (s : N) : res lay :=
  let t := spec_type s in
  if t =? T_GROUP then Ok (LInGroup s GReady [], done)
  else if t =? T_VALUE_META then Ok (LInValue s, done)
  else if t =? T_VALUE then Err                               (* LoneRawValueColumn *)
  else Ok (LReady, (s, CK_Simple) :: done).

(* [add_column] in state InGroup(id, Ready(builder)), column of the same id *)
Definition add_gready (done : list (N * ckind)) (gs : N) (cols : list gkind) (s : N) : res lay :=
  let t := spec_type s in
  if t =? T_GROUP then Err                                    (* NestedGroup *)
  else if t =? T_VALUE then Err                               (* LoneRawValueColumn *)
  else if t =? T_VALUE_META then Ok (LInGroup gs GInValue cols, done)
  else if t =? T_ACTOR then Ok (LInGroup gs GReady (cols ++ [GK_RleInt]), done)
  else if t =? T_BOOLEAN then Ok (LInGroup gs GReady (cols ++ [GK_Bool]), done)
  else if t =? T_DELTA then Ok (LInGroup gs GReady (cols ++ [GK_Delta]), done)
  else if t =? T_INTEGER then Ok (LInGroup gs GReady (cols ++ [GK_RleInt]), done)
  else Ok (LInGroup gs GReady (cols ++ [GK_Str]), done).

(* columns of a group when it is finished ([finish] / [finish_empty().finish()]) *)
Definition group_cols (g : gstate) (cols : list gkind) : list gkind :=
  match g with GReady => cols | GInValue => cols ++ [GK_Value] end.

Definition add_column (st : lay) (s : N) : res lay :=
  let (state, done) := st in
  match state with
  | LReady => add_ready done s
  | LInValue vs =>
    if spec_type s =? T_VALUE then
      if negb (spec_id vs =? spec_id s) then Err              (* MismatchingValueMetadataId *)
      else Ok (LReady, (vs, CK_Value) :: done)
    else add_ready ((vs, CK_Value) :: done) s
  | LInGroup gs g cols =>
    if negb (spec_id gs =? spec_id s) then
      add_ready ((gs, CK_Group (group_cols g cols)) :: done) s
    else
      match g with
      | GReady => add_gready done gs cols s
      | GInValue =>
        if spec_type s =? T_VALUE then Ok (LInGroup gs GReady (cols ++ [GK_Value]), done)
        else add_gready done gs (cols ++ [GK_Value]) s
      end
  end.

Fixpoint add_columns (st : lay) (ss : list N) : res lay :=
  match ss with
  | [] => Ok st
  | s :: t => let* st1 := add_column st s in add_columns st1 t
  end.

(* [build] *)
Definition lay_build (st : lay) : list (N * ckind) :=
  let (state, done) := st in
  rev match state with
      | LReady => done
      | LInValue vs => (vs, CK_Value) :: done
      | LInGroup gs g cols => (gs, CK_Group (group_cols g cols)) :: done
      end.

(* [Columns::parse2] *)
Definition columns_parse2 (ss : list N) : res (list (N * ckind)) :=
  let* st := add_columns (LReady, []) ss in Ok (lay_build st).

(* column ids of change_op_columns.rs *)
Definition VAL_COL_ID : N := 5.
Definition PRED_COL_ID : N := 7.

(* [ChangeOpsColumns::try_from(Columns)]: the only failures are MismatchingColumn for the value
   column (id 5, ValueMetadata) that is not a value range and for the pred group (id 7, Group)
   whose grouped columns are not exactly (RleInt, Delta) or empty *)
Definition ops_col_ok (c : N * ckind) : bool :=
  let (s, k) := c in
  if (spec_id s =? VAL_COL_ID) && (spec_type s =? T_VALUE_META) then
    match k with CK_Value => true | _ => false end
  else if (spec_id s =? PRED_COL_ID) && (spec_type s =? T_GROUP) then
    match k with
    | CK_Group [] => true
    | CK_Group [GK_RleInt; GK_Delta] => true
    | _ => false
    end
  else true.

(* [ChangeOpsColumns::try_from(RawColumns<Uncompressed>)] as accept / reject *)
Definition layout_ok (ss : list N) : bool :=
  match columns_parse2 ss with
  | Ok cols => forallb ops_col_ok cols
  | _ => false
  end.

(* ---------------------------------------------------------------- the writer's column layout *)
(* [ChangeOpsColumns::raw_columns] (change_op_columns.rs): the fixed list
     obj actor, obj counter, key actor, key counter, key string, insert, action, value metadata,
     value raw, pred group, pred actor, pred counter, expand, mark name
   = ColumnSpec::new(id, type, false) = id * 16 + type, of which [RawColumns::from_iter] keeps the
   non-empty ones; value raw only beside value metadata, pred actor and pred counter only together
   and beside the pred group *)
Definition known_specs : list N := [1; 2; 17; 19; 21; 52; 66; 86; 87; 112; 113; 115; 148; 165].

Fixpoint is_sublist (ss l : list N) : bool :=
  match ss, l with
  | [], _ => true
  | _ :: _, [] => false
  | s :: ss', x :: l' => if s =? x then is_sublist ss' l' else is_sublist ss l'
  end.

Definition has (s : N) (ss : list N) : bool := existsb (N.eqb s) ss.

Definition writer_specs_ok (ss : list N) : bool :=
  is_sublist ss known_specs
  && implb (has 87 ss) (has 86 ss)
  && Bool.eqb (has 113 ss) (has 115 ss)
  && implb (has 113 ss) (has 112 ss).

(* ---------------------------------------------------------------- the change body *)
Record change_body := mkBody {
  cb_deps : list bytes;
  cb_actor : bytes;
  cb_seq : N;
  cb_start_op : N;
  cb_time : Z;
  cb_message : bytes;            (* [] = no message *)
  cb_others : list bytes;
  cb_cols : list (N * N);        (* (spec, length of the column's range) *)
  cb_data : bytes;               (* column data, opaque *)
  cb_extra : bytes
}.

(* [RawColumns::parse] *)
Definition p_columns (i : bytes) : res (list (N * N) * bytes) :=
  let* (raw, i1) := p_counted p_colpair i in
  let cols := col_ranges 0 raw in
  if negb (normal_sorted (map fst cols)) then Err else Ok (cols, i1).

(* [Change::parse_following_header] on the chunk data *)
Definition parse_body (b : bytes) : res change_body :=
  let* (deps, i) := p_counted p_hash b in
  let* (actor, i) := p_lpbytes i in
  let* (seq, i) := uleb_dec i in
  let* (start_op, i) := p_nonzero i in
  let* (time, i) := sleb_dec i in
  let* (msg, i) := p_lpbytes i in
  if negb (utf8_valid msg) then Err else
  let* (others, i) := p_counted p_lpbytes i in
  let* (cols, i) := p_columns i in
  let* total := sum_checked (map snd cols) 0 in
  let* (data, extra) := p_take total i in
  if existsb spec_deflate (map fst cols) then Err else          (* CompressedChangeCols *)
  if negb (layout_ok (map fst cols)) then Err else              (* InvalidColumns *)
  Ok (mkBody deps actor seq start_op time msg others cols data extra).

(* ---------------------------------------------------------------- writer *)
Definition e_lpbytes (a : bytes) : bytes := uleb_enc (lenN a) ++ a.
Definition e_colpair (c : N * N) : bytes := uleb_enc (fst c) ++ uleb_enc (snd c).

(* [ChangeBuilder::build]: the chunk data *)
Definition encode_body (c : change_body) : bytes :=
  uleb_enc (N.of_nat (length (cb_deps c))) ++ concat (cb_deps c)
  ++ e_lpbytes (cb_actor c)
  ++ uleb_enc (cb_seq c)
  ++ uleb_enc (cb_start_op c)
  ++ sleb_enc (cb_time c)
  ++ e_lpbytes (cb_message c)
  ++ uleb_enc (N.of_nat (length (cb_others c))) ++ concat (map e_lpbytes (cb_others c))
  ++ uleb_enc (N.of_nat (length (cb_cols c))) ++ concat (map e_colpair (cb_cols c))
  ++ cb_data c
  ++ cb_extra c.

(* ---------------------------------------------------------------- well-formed bodies *)
Definition sumN (l : list N) : N := fold_right N.add 0 l.

Definition wf_change_bodyb (c : change_body) : bool :=
  forallb (fun d => (lenN d =? HASH_SIZE) && wf_bytesb d) (cb_deps c)
  && (N.of_nat (length (cb_deps c)) <? pow64)
  && wf_bytesb (cb_actor c) && (lenN (cb_actor c) <? pow64)
  && (cb_seq c <? pow64)
  && (1 <=? cb_start_op c) && (cb_start_op c <? pow64)
  && in_i64b (cb_time c)
  && wf_bytesb (cb_message c) && (lenN (cb_message c) <? pow64) && utf8_valid (cb_message c)
  && forallb (fun a => wf_bytesb a && (lenN a <? pow64)) (cb_others c)
  && (N.of_nat (length (cb_others c)) <? pow64)
  && forallb (fun sl => (fst sl <=? u32_max) && (snd sl <? pow64)) (cb_cols c)
  && (N.of_nat (length (cb_cols c)) <? pow64)
  && normal_sorted (map fst (cb_cols c))
  && negb (existsb spec_deflate (map fst (cb_cols c)))
  && layout_ok (map fst (cb_cols c))
  && (sumN (map snd (cb_cols c)) =? lenN (cb_data c)) && (lenN (cb_data c) <? pow64)
  && wf_bytesb (cb_data c) && wf_bytesb (cb_extra c).

Definition wf_change_body (c : change_body) : Prop := wf_change_bodyb c = true.

(* ---------------------------------------------------------------- as a chunk body of Store/Chunk.v *)
(* the change chunk body parser plugged into [Chunk.parse_chunk]; other chunk types are the
   parameter [other] *)
Definition chunk_body (other : N -> bytes -> option (list change_body)) (ty : N) (data : bytes)
  : option (list change_body) :=
  if ty =? CHUNK_CHANGE then
    match parse_body data with Ok c => Some [c] | _ => None end
  else other ty data.
