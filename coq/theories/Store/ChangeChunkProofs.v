(* Store/ChangeChunkProofs.v — theorems about the change-chunk body model (Store/ChangeChunk.v).

   - [change_body_roundtrip]: the reader inverts the writer on every well-formed body (any number
     of dependencies, other actors, columns; any i64 time; any valid UTF-8 message);
   - [change_body_canonical]: the reader accepts ONLY the writer's output: a parsed body
     re-encodes to the very bytes it was parsed from (so the SHA-256 of the chunk, the change
     hash, is preserved by decode / re-encode), and it is well-formed;
   - [parse_body_no_panic]: no input makes the reader panic (in particular the overflow-checked
     sum of [total_column_len] cannot overflow, because the column offsets saturate);
   - composition with the chunk framing of Store/Chunk.v.
   The op columns inside the column data are opaque bytes here. *)
From AM Require Import Base.Prelude Base.Leb128 Base.Sleb128 Base.Sleb128Proofs Gen.Consts
  Store.Chunk Store.ChunkProofs Store.ChangeChunk Exec.ChgExec.
Local Open Scope N_scope.

Ltac Zify.zify_post_hook ::= Z.div_mod_to_equations.

(* ---------------------------------------------------------------- small facts *)
Lemma uleb_enc_nonempty n : (1 <= length (uleb_enc n))%nat.
Proof.
  unfold uleb_enc. cbn [uenc]. destruct (n <? 128); cbn [length]; lia.
Qed.

Lemma wf_bytes_concat (ls : list bytes) : wf_bytes (concat ls) <-> Forall wf_bytes ls.
Proof.
  induction ls as [|a t IH]; cbn [concat].
  - split; constructor.
  - rewrite wf_bytes_app, IH. split.
    + intros [Ha Ht]. constructor; assumption.
    + intros H. inversion H; subst. auto.
Qed.

Lemma lenN_app (a b : bytes) : lenN (a ++ b) = lenN a + lenN b.
Proof. unfold lenN. rewrite app_length. lia. Qed.

Lemma res_bind_ok {A B} (r : res A) (f : A -> res B) (y : B) :
  bind r f = Ok y -> exists x, r = Ok x /\ f x = Ok y.
Proof. destruct r as [x| |]; cbn [bind]; try discriminate. intros H. exists x. auto. Qed.

(* ---------------------------------------------------------------- primitive codecs *)
Lemma p_take_spec n l a r : p_take n l = Ok (a, r) <-> (l = a ++ r /\ lenN a = n).
Proof.
  unfold p_take. destruct (take_N n l) as [[a' r']|] eqn:E.
  - rewrite <- take_N_spec. split; intros H; [inversion H; subst; exact E|congruence].
  - split; [discriminate|]. intros H. apply take_N_spec in H. congruence.
Qed.

Lemma p_take_no_panic n l : p_take n l <> Panic.
Proof. unfold p_take. destruct (take_N n l) as [[a r]|]; discriminate. Qed.

Lemma p_take_rt a r : p_take (lenN a) (a ++ r) = Ok (a, r).
Proof. apply p_take_spec. auto. Qed.

Lemma p_lpbytes_rt a rest : lenN a < pow64 -> p_lpbytes (e_lpbytes a ++ rest) = Ok (a, rest).
Proof.
  intros H. unfold p_lpbytes, e_lpbytes. rewrite <- app_assoc.
  rewrite uleb_roundtrip by exact H. cbn [bind]. apply p_take_rt.
Qed.

Lemma p_lpbytes_can l a rest :
  wf_bytes l -> p_lpbytes l = Ok (a, rest) -> l = e_lpbytes a ++ rest /\ lenN a < pow64.
Proof.
  intros Hwf H. unfold p_lpbytes in H. apply res_bind_ok in H. destruct H as ([n i1] & H1 & H2).
  apply uleb_canonical in H1; [|exact Hwf]. destruct H1 as [-> Hn].
  apply p_take_spec in H2. destruct H2 as [-> <-]. unfold e_lpbytes. rewrite <- app_assoc. auto.
Qed.

Lemma p_lpbytes_no_panic l : p_lpbytes l <> Panic.
Proof.
  unfold p_lpbytes. pose proof (uleb_dec_no_panic l) as Hp.
  destruct (uleb_dec l) as [[n i]| |]; cbn [bind]; try congruence. apply p_take_no_panic.
Qed.

Lemma e_lpbytes_len a : (1 <= length (e_lpbytes a))%nat.
Proof. unfold e_lpbytes. rewrite app_length. pose proof (uleb_enc_nonempty (lenN a)). lia. Qed.

Lemma p_nonzero_rt n rest : 1 <= n < pow64 -> p_nonzero (uleb_enc n ++ rest) = Ok (n, rest).
Proof.
  intros H. unfold p_nonzero. rewrite uleb_roundtrip by lia. cbn [bind].
  assert ((n =? 0) = false) as -> by lia. reflexivity.
Qed.

Lemma p_nonzero_can l n rest :
  wf_bytes l -> p_nonzero l = Ok (n, rest) -> l = uleb_enc n ++ rest /\ 1 <= n < pow64.
Proof.
  intros Hwf H. unfold p_nonzero in H. apply res_bind_ok in H. destruct H as ([m i1] & H1 & H2).
  apply uleb_canonical in H1; [|exact Hwf]. destruct H1 as [-> Hn].
  destruct (m =? 0) eqn:E; [discriminate|]. inversion H2; subst. split; [reflexivity|lia].
Qed.

Lemma p_nonzero_no_panic l : p_nonzero l <> Panic.
Proof.
  unfold p_nonzero. pose proof (uleb_dec_no_panic l) as Hp.
  destruct (uleb_dec l) as [[n i]| |]; cbn [bind]; try congruence. destruct (n =? 0); discriminate.
Qed.

Definition V_hash (h : bytes) : Prop := lenN h = HASH_SIZE.
Definition V_lp (a : bytes) : Prop := lenN a < pow64.
Definition V_col (c : N * N) : Prop := fst c <= u32_max /\ snd c < pow64.

Lemma p_hash_rt h rest : V_hash h -> p_hash (h ++ rest) = Ok (h, rest).
Proof. unfold V_hash, p_hash. intros <-. apply p_take_rt. Qed.

Lemma p_hash_can l h rest : wf_bytes l -> p_hash l = Ok (h, rest) -> l = h ++ rest /\ V_hash h.
Proof. intros _ H. apply p_take_spec in H. exact H. Qed.

Lemma p_colpair_rt c rest : V_col c -> p_colpair (e_colpair c ++ rest) = Ok (c, rest).
Proof.
  destruct c as [s l]. unfold V_col, p_colpair, e_colpair, uleb_dec_u32. cbn [fst snd]. intros [Hs Hl].
  rewrite <- app_assoc. rewrite uleb_roundtrip by (unfold u32_max, pow64 in *; lia). cbn [bind].
  assert ((s <=? u32_max) = true) as -> by lia. cbn [bind].
  rewrite uleb_roundtrip by exact Hl. reflexivity.
Qed.

Lemma p_colpair_can l c rest :
  wf_bytes l -> p_colpair l = Ok (c, rest) -> l = e_colpair c ++ rest /\ V_col c.
Proof.
  intros Hwf H. unfold p_colpair in H. apply res_bind_ok in H. destruct H as ([s i1] & H1 & H2).
  unfold uleb_dec_u32 in H1. apply res_bind_ok in H1. destruct H1 as ([s' i1'] & H1 & H1').
  destruct (s' <=? u32_max) eqn:Es; [|discriminate]. inversion H1'; subst s' i1'.
  apply uleb_canonical in H1; [|exact Hwf]. destruct H1 as [-> Hs].
  apply wf_bytes_app in Hwf. destruct Hwf as [_ Hwf1].
  apply res_bind_ok in H2. destruct H2 as ([len i2] & H2 & H3).
  apply uleb_canonical in H2; [|exact Hwf1]. destruct H2 as [-> Hl].
  inversion H3; subst. unfold e_colpair, V_col. cbn [fst snd]. rewrite <- app_assoc.
  split; [reflexivity|]. split; [lia|exact Hl].
Qed.

Lemma p_colpair_no_panic l : p_colpair l <> Panic.
Proof.
  unfold p_colpair. pose proof (uleb_dec_u32_no_panic l) as Hp.
  destruct (uleb_dec_u32 l) as [[s i]| |]; cbn [bind]; try congruence.
  pose proof (uleb_dec_no_panic i) as Hq.
  destruct (uleb_dec i) as [[n j]| |]; cbn [bind]; congruence.
Qed.

Lemma e_colpair_len c : (1 <= length (e_colpair c))%nat.
Proof. unfold e_colpair. rewrite app_length. pose proof (uleb_enc_nonempty (fst c)). lia. Qed.

(* ---------------------------------------------------------------- repetition *)
Section Rep.
  Context {A : Type} (p : bytes -> res (A * bytes)) (e : A -> bytes) (V : A -> Prop).
  Hypothesis p_rt : forall x rest, V x -> p (e x ++ rest) = Ok (x, rest).
  Hypothesis p_can : forall l x rest, wf_bytes l -> p l = Ok (x, rest) -> l = e x ++ rest /\ V x.
  Hypothesis p_np : forall l, p l <> Panic.
  Hypothesis e_len : forall x, V x -> (1 <= length (e x))%nat.

  Lemma rep_nat_rt xs rest :
    Forall V xs -> rep_nat p (length xs) (concat (map e xs) ++ rest) = Ok (xs, rest).
  Proof.
    induction xs as [|x t IH]; intros H; cbn [length rep_nat map concat]; [reflexivity|].
    inversion H as [|? ? Hx Ht]; subst. rewrite <- app_assoc. rewrite p_rt by exact Hx. cbn [bind].
    rewrite IH by exact Ht. reflexivity.
  Qed.

  Lemma rep_nat_can n : forall l xs rest,
    wf_bytes l -> rep_nat p n l = Ok (xs, rest) ->
    l = concat (map e xs) ++ rest /\ Forall V xs /\ length xs = n.
  Proof.
    induction n as [|n IH]; intros l xs rest Hwf H; cbn [rep_nat] in H.
    - inversion H; subst. cbn. auto.
    - apply res_bind_ok in H. destruct H as ([x i1] & H1 & H2).
      apply res_bind_ok in H2. destruct H2 as ([t i2] & H2 & H3). inversion H3; subst.
      apply p_can in H1; [|exact Hwf]. destruct H1 as [-> Hx].
      apply wf_bytes_app in Hwf. destruct Hwf as [_ Hwf1].
      apply IH in H2; [|exact Hwf1]. destruct H2 as (-> & Ht & Hn).
      cbn [map concat length]. rewrite <- app_assoc. split; [reflexivity|]. split; [constructor; assumption|lia].
  Qed.

  Lemma rep_nat_no_panic n : forall l, rep_nat p n l <> Panic.
  Proof.
    induction n as [|n IH]; intros l; cbn [rep_nat]; [discriminate|].
    pose proof (p_np l) as Hp. destruct (p l) as [[x i1]| |]; cbn [bind]; try congruence.
    specialize (IH i1). destruct (rep_nat p n i1) as [[t i2]| |]; cbn [bind]; congruence.
  Qed.

  Lemma concat_len_ge xs : Forall V xs -> (length xs <= length (concat (map e xs)))%nat.
  Proof.
    induction 1 as [|x t Hx Ht IH]; cbn [map concat length]; [lia|].
    rewrite app_length. specialize (e_len x Hx). lia.
  Qed.

  Lemma p_counted_rt xs rest :
    Forall V xs -> N.of_nat (length xs) < pow64 ->
    p_counted p (uleb_enc (N.of_nat (length xs)) ++ concat (map e xs) ++ rest) = Ok (xs, rest).
  Proof.
    intros Hxs Hn. unfold p_counted. rewrite uleb_roundtrip by exact Hn. cbn [bind].
    unfold p_rep. pose proof (concat_len_ge xs Hxs) as Hl.
    assert ((lenN (concat (map e xs) ++ rest) <? N.of_nat (length xs)) = false) as ->.
    { unfold lenN. rewrite app_length. lia. }
    rewrite Nat2N.id. apply rep_nat_rt. exact Hxs.
  Qed.

  Lemma p_counted_can l xs rest :
    wf_bytes l -> p_counted p l = Ok (xs, rest) ->
    l = uleb_enc (N.of_nat (length xs)) ++ concat (map e xs) ++ rest
    /\ Forall V xs /\ N.of_nat (length xs) < pow64.
  Proof.
    intros Hwf H. unfold p_counted in H. apply res_bind_ok in H. destruct H as ([n i1] & H1 & H2).
    apply uleb_canonical in H1; [|exact Hwf]. destruct H1 as [-> Hn].
    apply wf_bytes_app in Hwf. destruct Hwf as [_ Hwf1].
    unfold p_rep in H2. destruct (lenN i1 <? n); [discriminate|].
    apply rep_nat_can in H2; [|exact Hwf1]. destruct H2 as (-> & Hxs & Hlen).
    rewrite Hlen, N2Nat.id. auto.
  Qed.

  Lemma p_counted_no_panic l : p_counted p l <> Panic.
  Proof.
    unfold p_counted. pose proof (uleb_dec_no_panic l) as Hp.
    destruct (uleb_dec l) as [[n i]| |]; cbn [bind]; try congruence.
    unfold p_rep. destruct (lenN i <? n); [discriminate|]. apply rep_nat_no_panic.
  Qed.
End Rep.

(* ---------------------------------------------------------------- column ranges *)
Lemma col_ranges_nosat : forall raw off,
  off + sumN (map snd raw) <= u64_max -> col_ranges off raw = raw.
Proof.
  induction raw as [|[s l] t IH]; intros off H; cbn [col_ranges]; [reflexivity|].
  cbn [map snd sumN fold_right] in H. fold (sumN (map snd t)) in H.
  unfold sat_add. assert (N.min (off + l) u64_max = off + l) as -> by lia.
  rewrite IH by lia. f_equal. f_equal. lia.
Qed.

Lemma col_ranges_specs : forall raw off, map fst (col_ranges off raw) = map fst raw.
Proof.
  induction raw as [|[s l] t IH]; intros off; cbn [col_ranges map fst]; [reflexivity|].
  rewrite IH. reflexivity.
Qed.

Lemma col_ranges_length : forall raw off, length (col_ranges off raw) = length raw.
Proof.
  induction raw as [|[s l] t IH]; intros off; cbn [col_ranges length]; [reflexivity|].
  rewrite IH. reflexivity.
Qed.

(* the overflow-checked sum of the range lengths telescopes to the (saturated) final offset *)
Lemma sum_checked_ranges : forall raw off,
  off <= u64_max ->
  sum_checked (map snd (col_ranges off raw)) off = Ok (N.min (off + sumN (map snd raw)) u64_max).
Proof.
  induction raw as [|[s l] t IH]; intros off H; cbn [col_ranges map snd sum_checked sumN fold_right].
  - f_equal. lia.
  - fold (sumN (map snd t)). unfold sat_add.
    assert (off + (N.min (off + l) u64_max - off) = N.min (off + l) u64_max) as -> by lia.
    assert ((u64_max <? N.min (off + l) u64_max) = false) as -> by lia.
    rewrite IH by lia. f_equal. lia.
Qed.

(* ---------------------------------------------------------------- well-formedness, as propositions *)
Record WF (c : change_body) : Prop := mkWF {
  wf_deps : Forall V_hash (cb_deps c);
  wf_deps_b : Forall wf_bytes (cb_deps c);
  wf_ndeps : N.of_nat (length (cb_deps c)) < pow64;
  wf_actor_b : wf_bytes (cb_actor c);
  wf_actor : lenN (cb_actor c) < pow64;
  wf_seq : cb_seq c < pow64;
  wf_start : 1 <= cb_start_op c < pow64;
  wf_time : in_i64 (cb_time c);
  wf_msg_b : wf_bytes (cb_message c);
  wf_msg : lenN (cb_message c) < pow64;
  wf_msg_utf8 : utf8_valid (cb_message c) = true;
  wf_others : Forall V_lp (cb_others c);
  wf_others_b : Forall wf_bytes (cb_others c);
  wf_nothers : N.of_nat (length (cb_others c)) < pow64;
  wf_cols : Forall V_col (cb_cols c);
  wf_ncols : N.of_nat (length (cb_cols c)) < pow64;
  wf_sorted : normal_sorted (map fst (cb_cols c)) = true;
  wf_nodeflate : existsb spec_deflate (map fst (cb_cols c)) = false;
  wf_layout : layout_ok (map fst (cb_cols c)) = true;
  wf_total : sumN (map snd (cb_cols c)) = lenN (cb_data c);
  wf_data : lenN (cb_data c) < pow64;
  wf_data_b : wf_bytes (cb_data c);
  wf_extra_b : wf_bytes (cb_extra c)
}.

Lemma forallb_Forall {A} (f : A -> bool) (P : A -> Prop) (l : list A) :
  (forall x, f x = true <-> P x) -> (forallb f l = true <-> Forall P l).
Proof.
  intros Hf. induction l as [|x t IH]; cbn [forallb].
  - split; constructor.
  - rewrite andb_true_iff, Hf, IH. split.
    + intros [Hx Ht]. constructor; assumption.
    + intros H. inversion H; subst. auto.
Qed.

Lemma Forall_and_split {A} (P Q : A -> Prop) (l : list A) :
  Forall (fun x => P x /\ Q x) l <-> Forall P l /\ Forall Q l.
Proof.
  induction l as [|x t IH].
  - split; [split; constructor|constructor].
  - split.
    + intros H. inversion H as [|? ? [Hp Hq] Ht]; subst. apply IH in Ht. destruct Ht.
      split; constructor; assumption.
    + intros [Hp Hq]. inversion Hp; subst. inversion Hq; subst. constructor; [auto|]. apply IH. auto.
Qed.

Lemma in_i64b_spec z : in_i64b z = true <-> in_i64 z.
Proof. unfold in_i64b, in_i64. rewrite andb_true_iff. lia. Qed.

Lemma wf_change_body_WF c : wf_change_body c <-> WF c.
Proof.
  unfold wf_change_body, wf_change_bodyb. repeat rewrite andb_true_iff.
  rewrite (forallb_Forall _ (fun d => V_hash d /\ wf_bytes d)).
  2:{ intros d. rewrite andb_true_iff, wf_bytesb_spec. unfold V_hash. rewrite N.eqb_eq. tauto. }
  rewrite (forallb_Forall _ (fun a => wf_bytes a /\ V_lp a)).
  2:{ intros a. rewrite andb_true_iff, wf_bytesb_spec. unfold V_lp. rewrite N.ltb_lt. tauto. }
  rewrite (forallb_Forall _ V_col).
  2:{ intros [s l]. unfold V_col. cbn [fst snd]. rewrite andb_true_iff, N.leb_le, N.ltb_lt. tauto. }
  repeat rewrite Forall_and_split. repeat rewrite wf_bytesb_spec. rewrite in_i64b_spec.
  repeat rewrite N.ltb_lt. rewrite N.leb_le, N.eqb_eq, negb_true_iff.
  split.
  - intros H. decompose [and] H. constructor; auto.
  - intros H. destruct H. tauto.
Qed.

(* the three instances of the repetition lemmas *)
Lemma p_hash_no_panic l : p_hash l <> Panic.
Proof. apply p_take_no_panic. Qed.

Lemma hash_len h : V_hash h -> (1 <= length h)%nat.
Proof. unfold V_hash, HASH_SIZE, lenN. lia. Qed.

Definition hashes_rt := p_counted_rt p_hash (fun h => h) V_hash p_hash_rt p_hash_can p_hash_no_panic hash_len.
Definition hashes_can := p_counted_can p_hash (fun h => h) V_hash p_hash_rt p_hash_can p_hash_no_panic hash_len.
Definition lps_rt := p_counted_rt p_lpbytes e_lpbytes V_lp p_lpbytes_rt p_lpbytes_can p_lpbytes_no_panic (fun x _ => e_lpbytes_len x).
Definition lps_can := p_counted_can p_lpbytes e_lpbytes V_lp p_lpbytes_rt p_lpbytes_can p_lpbytes_no_panic (fun x _ => e_lpbytes_len x).
Definition cols_rt := p_counted_rt p_colpair e_colpair V_col p_colpair_rt p_colpair_can p_colpair_no_panic (fun x _ => e_colpair_len x).
Definition cols_can := p_counted_can p_colpair e_colpair V_col p_colpair_rt p_colpair_can p_colpair_no_panic (fun x _ => e_colpair_len x).

(* ---------------------------------------------------------------- columns *)
Lemma p_columns_rt cols rest :
  Forall V_col cols -> N.of_nat (length cols) < pow64 ->
  sumN (map snd cols) <= u64_max -> normal_sorted (map fst cols) = true ->
  p_columns (uleb_enc (N.of_nat (length cols)) ++ concat (map e_colpair cols) ++ rest) = Ok (cols, rest).
Proof.
  intros Hc Hn Hsum Hs. unfold p_columns.
  rewrite cols_rt by assumption.
  cbn [bind]. rewrite col_ranges_nosat by lia. rewrite Hs. reflexivity.
Qed.

Lemma p_columns_can l cols rest :
  wf_bytes l -> p_columns l = Ok (cols, rest) ->
  exists raw,
    l = uleb_enc (N.of_nat (length raw)) ++ concat (map e_colpair raw) ++ rest
    /\ cols = col_ranges 0 raw /\ Forall V_col raw /\ N.of_nat (length raw) < pow64
    /\ normal_sorted (map fst cols) = true.
Proof.
  intros Hwf H. unfold p_columns in H. apply res_bind_ok in H. destruct H as ([raw i1] & H1 & H2).
  apply cols_can in H1; [|exact Hwf].
  destruct H1 as (-> & Hraw & Hn).
  destruct (normal_sorted (map fst (col_ranges 0 raw))) eqn:Es; cbn [negb] in H2; [|discriminate].
  inversion H2; subst. exists raw. auto.
Qed.

Lemma p_columns_no_panic l : p_columns l <> Panic.
Proof.
  unfold p_columns. pose proof (p_counted_no_panic p_colpair p_colpair_no_panic l) as Hp.
  destruct (p_counted p_colpair l) as [[raw i]| |]; cbn [bind]; try congruence.
  destruct (negb (normal_sorted (map fst (col_ranges 0 raw)))); discriminate.
Qed.

(* ---------------------------------------------------------------- round trip *)
Theorem change_body_roundtrip c : wf_change_body c -> parse_body (encode_body c) = Ok c.
Proof.
  intros Hwf. apply wf_change_body_WF in Hwf.
  destruct Hwf as [Hd Hdb Hnd Hab Ha Hseq Hst Hti Hmb Hm Hutf Ho Hob Hno Hc Hnc Hsort Hdefl Hlay Htot Hdat Hdatb Hexb].
  destruct c as [deps actor seq start time msg others cols data extra].
  cbn [cb_deps cb_actor cb_seq cb_start_op cb_time cb_message cb_others cb_cols cb_data cb_extra] in *.
  unfold parse_body, encode_body.
  cbn [cb_deps cb_actor cb_seq cb_start_op cb_time cb_message cb_others cb_cols cb_data cb_extra].
  rewrite <- (map_id deps) at 2.
  rewrite hashes_rt by assumption.
  cbn [bind]. rewrite p_lpbytes_rt by assumption. cbn [bind].
  rewrite uleb_roundtrip by assumption. cbn [bind].
  rewrite p_nonzero_rt by assumption. cbn [bind].
  rewrite sleb_roundtrip by assumption. cbn [bind].
  rewrite p_lpbytes_rt by assumption. cbn [bind].
  rewrite Hutf. cbn [negb].
  rewrite lps_rt by assumption.
  cbn [bind].
  rewrite p_columns_rt; [|assumption|assumption|unfold pow64, u64_max in *; lia|assumption].
  cbn [bind].
  rewrite <- (col_ranges_nosat cols 0) at 1 by (unfold pow64, u64_max in *; lia).
  rewrite sum_checked_ranges by (unfold u64_max; lia).
  assert (N.min (0 + sumN (map snd cols)) u64_max = lenN data) as -> by (unfold pow64, u64_max in *; lia).
  cbn [bind]. rewrite p_take_rt. cbn [bind].
  rewrite Hdefl, Hlay. reflexivity.
Qed.

(* ---------------------------------------------------------------- canonical form *)
Lemma lenN_uleb_pos n : 1 <= lenN (uleb_enc n).
Proof. unfold lenN. pose proof (uleb_enc_nonempty n). lia. Qed.

Lemma Forall_wf_lp (others : list bytes) :
  Forall wf_bytes (map e_lpbytes others) -> Forall wf_bytes others.
Proof.
  induction others as [|a t IH]; cbn [map]; intros H; [constructor|].
  inversion H as [|? ? Ha Ht]; subst. constructor; [|apply IH; exact Ht].
  unfold e_lpbytes in Ha. apply wf_bytes_app in Ha. tauto.
Qed.

(* A body the reader accepts is byte for byte the writer's encoding of what was read, and what
   was read is well-formed.  [lenN b < pow64]: a Rust slice is shorter than 2^64 bytes; it is what
   rules out the saturated column offsets. *)
Theorem change_body_canonical b c :
  wf_bytes b -> lenN b < pow64 -> parse_body b = Ok c -> encode_body c = b /\ wf_change_body c.
Proof.
  intros Hwf Hlen H. unfold parse_body in H.
  apply res_bind_ok in H. destruct H as ([deps i1] & H1 & H).
  apply hashes_can in H1; [|exact Hwf]. destruct H1 as (Eb & Hd & Hnd). subst b.
  apply wf_bytes_app in Hwf. destruct Hwf as [_ Hwf]. apply wf_bytes_app in Hwf. destruct Hwf as [Hw_deps Hwf].
  apply res_bind_ok in H. destruct H as ([actor i2] & H1 & H).
  apply p_lpbytes_can in H1; [|exact Hwf]. destruct H1 as (-> & Ha).
  apply wf_bytes_app in Hwf. destruct Hwf as [Hw_actor Hwf].
  apply res_bind_ok in H. destruct H as ([seq i3] & H1 & H).
  apply uleb_canonical in H1; [|exact Hwf]. destruct H1 as (-> & Hseq).
  apply wf_bytes_app in Hwf. destruct Hwf as [_ Hwf].
  apply res_bind_ok in H. destruct H as ([start i4] & H1 & H).
  apply p_nonzero_can in H1; [|exact Hwf]. destruct H1 as (-> & Hst).
  apply wf_bytes_app in Hwf. destruct Hwf as [_ Hwf].
  apply res_bind_ok in H. destruct H as ([time i5] & H1 & H).
  apply sleb_canonical in H1; [|exact Hwf]. destruct H1 as (-> & Hti).
  apply wf_bytes_app in Hwf. destruct Hwf as [_ Hwf].
  apply res_bind_ok in H. destruct H as ([msg i6] & H1 & H).
  apply p_lpbytes_can in H1; [|exact Hwf]. destruct H1 as (-> & Hm).
  apply wf_bytes_app in Hwf. destruct Hwf as [Hw_msg Hwf].
  destruct (utf8_valid msg) eqn:Hutf; cbn [negb] in H; [|discriminate].
  apply res_bind_ok in H. destruct H as ([others i7] & H1 & H).
  apply lps_can in H1; [|exact Hwf]. destruct H1 as (-> & Ho & Hno).
  apply wf_bytes_app in Hwf. destruct Hwf as [_ Hwf]. apply wf_bytes_app in Hwf. destruct Hwf as [Hw_others Hwf].
  apply res_bind_ok in H. destruct H as ([cols i8] & H1 & H).
  apply p_columns_can in H1; [|exact Hwf]. destruct H1 as (raw & -> & Ecols & Hraw & Hnraw & Hsort).
  apply wf_bytes_app in Hwf. destruct Hwf as [_ Hwf]. apply wf_bytes_app in Hwf. destruct Hwf as [_ Hwf].
  apply res_bind_ok in H. destruct H as (total & H1 & H).
  rewrite Ecols, sum_checked_ranges in H1 by (unfold u64_max; lia). inversion H1 as [Etotal]; clear H1.
  apply res_bind_ok in H. destruct H as ([data extra] & H1 & H).
  apply p_take_spec in H1. destruct H1 as (-> & Hdata).
  apply wf_bytes_app in Hwf. destruct Hwf as [Hw_data Hw_extra].
  destruct (existsb spec_deflate (map fst cols)) eqn:Hdefl; [discriminate|].
  destruct (layout_ok (map fst cols)) eqn:Hlay; cbn [negb] in H; [|discriminate].
  inversion H; subst c; clear H.
  (* no saturation: otherwise the column data alone would be 2^64 - 1 bytes *)
  assert (Hns : sumN (map snd raw) <= u64_max).
  { destruct (sumN (map snd raw) <=? u64_max) eqn:E; [lia|]. exfalso.
    repeat rewrite lenN_app in Hlen.
    pose proof (lenN_uleb_pos (N.of_nat (length deps))).
    unfold pow64, u64_max in *. lia. }
  assert (Ecols' : col_ranges 0 raw = raw) by (apply col_ranges_nosat; lia). rewrite Ecols' in Ecols. subst cols.
  split.
  - unfold encode_body. cbn [cb_deps cb_actor cb_seq cb_start_op cb_time cb_message cb_others cb_cols cb_data cb_extra].
    rewrite map_id. reflexivity.
  - apply wf_change_body_WF. rewrite map_id in Hw_deps.
    constructor; cbn [cb_deps cb_actor cb_seq cb_start_op cb_time cb_message cb_others cb_cols cb_data cb_extra];
      try assumption.
    + apply wf_bytes_concat. exact Hw_deps.
    + unfold e_lpbytes in Hw_actor. apply wf_bytes_app in Hw_actor. tauto.
    + unfold e_lpbytes in Hw_msg. apply wf_bytes_app in Hw_msg. tauto.
    + apply Forall_wf_lp. apply wf_bytes_concat. exact Hw_others.
    + unfold pow64, u64_max in *. lia.
    + unfold pow64, u64_max in *. lia.
Qed.

(* the hash of a change is a function of its chunk bytes: decode / re-encode preserves it *)
Corollary change_hash_stable (Hsh : bytes -> bytes) b c :
  wf_bytes b -> lenN b < pow64 -> parse_body b = Ok c ->
  chunk_hash Hsh CHUNK_CHANGE (encode_body c) = chunk_hash Hsh CHUNK_CHANGE b.
Proof. intros Hwf Hlen H. destruct (change_body_canonical b c Hwf Hlen H) as [-> _]. reflexivity. Qed.

(* ---------------------------------------------------------------- no panic *)
Theorem parse_body_no_panic b : parse_body b <> Panic.
Proof.
  unfold parse_body.
  pose proof (p_counted_no_panic p_hash p_hash_no_panic b) as P1.
  destruct (p_counted p_hash b) as [[deps i1]| |]; cbn [bind]; try congruence.
  pose proof (p_lpbytes_no_panic i1) as P2.
  destruct (p_lpbytes i1) as [[actor i2]| |]; cbn [bind]; try congruence.
  pose proof (uleb_dec_no_panic i2) as P3.
  destruct (uleb_dec i2) as [[seq i3]| |]; cbn [bind]; try congruence.
  pose proof (p_nonzero_no_panic i3) as P4.
  destruct (p_nonzero i3) as [[start i4]| |]; cbn [bind]; try congruence.
  pose proof (sleb_dec_no_panic i4) as P5.
  destruct (sleb_dec i4) as [[time i5]| |]; cbn [bind]; try congruence.
  pose proof (p_lpbytes_no_panic i5) as P6.
  destruct (p_lpbytes i5) as [[msg i6]| |]; cbn [bind]; try congruence.
  destruct (negb (utf8_valid msg)); [discriminate|].
  pose proof (p_counted_no_panic p_lpbytes p_lpbytes_no_panic i6) as P7.
  destruct (p_counted p_lpbytes i6) as [[others i7]| |]; cbn [bind]; try congruence.
  pose proof (p_columns_no_panic i7) as P8.
  destruct (p_columns i7) as [[cols i8]| |] eqn:Ec; cbn [bind]; try congruence.
  (* the overflow-checked sum cannot overflow: the offsets saturate *)
  assert (Hsum : exists t, sum_checked (map snd cols) 0 = Ok t).
  { unfold p_columns in Ec. destruct (p_counted p_colpair i7) as [[raw j]| |]; cbn [bind] in Ec; try discriminate.
    destruct (negb (normal_sorted (map fst (col_ranges 0 raw)))); [discriminate|].
    inversion Ec; subst. eexists. apply sum_checked_ranges. unfold u64_max. lia. }
  destruct Hsum as [t ->]. cbn [bind].
  pose proof (p_take_no_panic t i8) as P9.
  destruct (p_take t i8) as [[data extra]| |]; cbn [bind]; try congruence.
  destruct (existsb spec_deflate (map fst cols)); [discriminate|].
  destruct (negb (layout_ok (map fst cols))); discriminate.
Qed.

(* ---------------------------------------------------------------- inside a chunk *)
Section Framed.
  Variable Hsh : bytes -> bytes.
  Hypothesis Hsh_len : forall x, (4 <= length (Hsh x))%nat.
  Variable other : N -> bytes -> option (list change_body).
  Variable inflate : bytes -> option bytes.

  Lemma encode_body_len c : wf_change_body c -> 1 <= lenN (encode_body c).
  Proof.
    intros _. unfold encode_body. rewrite lenN_app. pose proof (lenN_uleb_pos (N.of_nat (length (cb_deps c)))). lia.
  Qed.

  (* a written change chunk (MAGIC ‖ checksum ‖ 1 ‖ uleb(len) ‖ encode_body c) followed by anything
     parses back to exactly [c] and leaves the rest *)
  Theorem change_chunk_roundtrip c rest :
    wf_change_body c -> lenN (encode_body c) < pow64 ->
    parse_chunk Hsh change_body (chunk_body other) inflate
      (encode_chunk Hsh CHUNK_CHANGE (encode_body c) ++ rest) = Ok (CHUNK_CHANGE, [c], rest).
  Proof.
    intros Hwf Hlen. apply (parse_written Hsh Hsh_len). apply w_plain; [reflexivity|discriminate|exact Hlen|].
    unfold chunk_body. cbn [N.eqb]. change (CHUNK_CHANGE =? CHUNK_CHANGE) with true. cbn iota.
    rewrite change_body_roundtrip by exact Hwf. reflexivity.
  Qed.

  (* the compressed form (chunk type 2): for any deflate stream that inflates to the body *)
  Theorem change_chunk_compressed_roundtrip c deflated rest :
    wf_change_body c -> lenN deflated < pow64 -> inflate deflated = Some (encode_body c) ->
    parse_chunk Hsh change_body (chunk_body other) inflate
      (encode_compressed Hsh deflated (encode_body c) ++ rest) = Ok (CHUNK_COMPRESSED, [c], rest).
  Proof.
    intros Hwf Hlen Hinf. apply (parse_written Hsh Hsh_len). apply w_compressed with (plain := encode_body c); [exact Hlen|exact Hinf|].
    unfold chunk_body. change (CHUNK_CHANGE =? CHUNK_CHANGE) with true. cbn iota.
    rewrite change_body_roundtrip by exact Hwf. reflexivity.
  Qed.

  (* raw and compressed chunks of one change carry the same checksum and give the same change *)
  Theorem change_chunk_same_change c deflated :
    wf_change_body c -> lenN (encode_body c) < pow64 -> lenN deflated < pow64 ->
    inflate deflated = Some (encode_body c) ->
    exists ck,
      parse_header (encode_chunk Hsh CHUNK_CHANGE (encode_body c)) = Ok (mkHeader ck CHUNK_CHANGE (encode_body c), [])
      /\ parse_header (encode_compressed Hsh deflated (encode_body c)) = Ok (mkHeader ck CHUNK_COMPRESSED deflated, []).
  Proof.
    intros Hwf Hl1 Hl2 Hinf. exists (checksum_of Hsh CHUNK_CHANGE (encode_body c)). split.
    - unfold encode_chunk. rewrite <- (app_nil_r (encode_body c)) at 3. repeat rewrite <- app_assoc.
      apply parse_header_written; [apply (checksum_len Hsh Hsh_len change_body (chunk_body other) inflate)|reflexivity|exact Hl1].
    - unfold encode_compressed. rewrite <- (app_nil_r deflated) at 2. repeat rewrite <- app_assoc.
      apply parse_header_written; [apply (checksum_len Hsh Hsh_len change_body (chunk_body other) inflate)|reflexivity|exact Hl2].
  Qed.
End Framed.

(* ---------------------------------------------------------------- bundles (spec level) *)
(* A bundle is one chunk of type 3.  Its body (a columnar encoding of several changes,
   storage/bundle/*.rs) is NOT modelled: it is the parameter [body].  What the framing gives:
   whatever changes the body stands for, loading the bundle chunk — into an empty document or into
   one that already holds changes — is applying exactly those changes. *)
Section Bundle.
  Variable Hsh : bytes -> bytes.
  Hypothesis Hsh_len : forall x, (4 <= length (Hsh x))%nat.
  Variable C : Type.
  Variable body : N -> bytes -> option (list C).
  Variable inflate : bytes -> option bytes.
  Variable D : Type.
  Variable empty : D.
  Variable apply : D -> list C -> res D.
  Variable queue_empty : D -> bool.
  Variable is_empty : D -> bool.

  Theorem bundle_load_spec data cs d :
    lenN data < pow64 -> body CHUNK_BUNDLE data = Some cs ->
    load Hsh C body inflate D empty apply queue_empty Ignore (encode_chunk Hsh CHUNK_BUNDLE data) = apply empty cs
    /\ (is_empty d = false ->
        load_incremental Hsh C body inflate D empty apply queue_empty is_empty d (encode_chunk Hsh CHUNK_BUNDLE data)
        = apply d cs).
  Proof.
    intros Hlen Hb.
    assert (W : written Hsh C body inflate (encode_chunk Hsh CHUNK_BUNDLE data) cs CHUNK_BUNDLE)
      by (apply w_plain; [reflexivity|discriminate|exact Hlen|exact Hb]).
    assert (Hall : all_written Hsh C body inflate [(encode_chunk Hsh CHUNK_BUNDLE data, cs, CHUNK_BUNDLE)])
      by (constructor; [exact W|constructor]).
    split.
    - pose proof (load_complete Hsh Hsh_len C body inflate D empty apply queue_empty _ _ Ignore Hall) as H.
      unfold flat, changes_of in H. cbn [map concat fst snd] in H. rewrite !app_nil_r in H. exact H.
    - intros He.
      pose proof (load_incremental_complete Hsh Hsh_len C body inflate D empty apply queue_empty is_empty d _ He Hall) as H.
      unfold flat, changes_of in H. cbn [map concat fst snd] in H. rewrite !app_nil_r in H. exact H.
  Qed.
End Bundle.

(* ---------------------------------------------------------------- the exec checker *)
(* what a [true] of the harness checker [chk_chg_body] means: the implementation's chunk data is
   the writer's encoding of a well-formed body that carries exactly the reported fields *)
Theorem chk_chg_body_sound data deps actor seq start time msg others extra :
  chk_chg_body data deps actor seq start time msg others extra = true ->
  exists c, parse_body data = Ok c /\ encode_body c = data /\ wf_change_body c
    /\ cb_deps c = deps /\ cb_actor c = actor /\ cb_seq c = seq /\ cb_start_op c = start
    /\ cb_time c = time /\ cb_message c = msg /\ cb_others c = others /\ cb_extra c = extra.
Proof.
  unfold chk_chg_body. destruct (parse_body data) as [c| |]; try discriminate.
  unfold fields_eqb, blist_eqb. repeat rewrite andb_true_iff.
  intros [[[[[[[[[Hd Ha] Hs] Hst] Ht] Hm] Ho] He] Henc] Hwf].
  exists c. split; [reflexivity|].
  assert (Hl : forall a b, list_eqb bytes_eqb a b = true -> a = b)
    by (intros a b; apply list_eqb_spec; apply bytes_eqb_spec).
  apply bytes_eqb_spec in Ha, Hm, He, Henc. apply Hl in Hd, Ho.
  apply N.eqb_eq in Hs, Hst. apply Z.eqb_eq in Ht. repeat split; assumption.
Qed.

(* ---------------------------------------------------------------- the writer's layouts are accepted *)
Fixpoint sublists (l : list N) : list (list N) :=
  match l with
  | [] => [[]]
  | x :: t => map (cons x) (sublists t) ++ sublists t
  end.

Lemma is_sublist_in : forall l ss, is_sublist ss l = true -> In ss (sublists l).
Proof.
  induction l as [|x t IH]; intros ss H.
  - destruct ss; [left; reflexivity|discriminate].
  - cbn [sublists]. apply in_or_app. destruct ss as [|s ss'].
    + right. apply IH. destruct t; reflexivity.
    + cbn [is_sublist] in H. destruct (s =? x) eqn:E.
      * apply N.eqb_eq in E. subst s. left. apply in_map. apply IH. exact H.
      * right. apply IH. exact H.
Qed.

Definition layout_accepts (ss : list N) : bool :=
  layout_ok ss && normal_sorted ss && negb (existsb spec_deflate ss).

(* a finite check (the 2^14 sub-lists of the writer's fixed column list) lifted to every list *)
Lemma writer_layouts_checked :
  forallb (fun ss => implb (writer_specs_ok ss) (layout_accepts ss)) (sublists known_specs) = true.
Proof. vm_compute. reflexivity. Qed.

Theorem writer_layout_accepted ss :
  writer_specs_ok ss = true ->
  layout_ok ss = true /\ normal_sorted ss = true /\ existsb spec_deflate ss = false.
Proof.
  intros H. assert (Hin : In ss (sublists known_specs)).
  { apply is_sublist_in. unfold writer_specs_ok in H. repeat rewrite andb_true_iff in H. tauto. }
  pose proof (proj1 (forallb_forall _ _) writer_layouts_checked ss Hin) as Hc.
  cbv beta in Hc. rewrite H in Hc. cbn [implb] in Hc. unfold layout_accepts in Hc.
  repeat rewrite andb_true_iff in Hc. rewrite negb_true_iff in Hc. tauto.
Qed.
