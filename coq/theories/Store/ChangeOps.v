(* Store/ChangeOps.v — the OP COLUMNS inside the column data of a change chunk.

   Mirrors rust/automerge/src
     storage/change/change_op_columns.rs   [ChangeOp], [ChangeOpsColumns::encode] = [encode_columnwise] (and
                                           [encode_rowwise] for > 10 000 ops: the same encoders fed row by row, the
                                           same bytes), [raw_columns], [TryFrom<Columns>], [ChangeOpsIter::try_next]
     storage/columns.rs                    [ColumnLayoutParser::add_column] / [build] WITH the byte ranges
     storage/columns/raw_column.rs         [RawColumns::from_iter] (empty columns are dropped)
     columnar/column_range/obj_id.rs       [ObjIdRange::encode] / [new], [ObjIdIter::try_next]
     columnar/column_range/key.rs          [KeyRange::encode], [KeyIter::try_next]
     columnar/column_range/value.rs        [ValueMeta], [encode_val], [ValueRange::encode], [ValueIter::next]
     columnar/column_range/opid_list.rs    [OpIdListRange::encode], [OpIdListIter::try_next]
     columnar/encoding/column_decoder.rs   [next_in_col] / [maybe_next_in_col]
     columnar/encoding/leb128.rs           [lebsize] / [ulebsize]
     types.rs                              [OpType::validate_action_and_value], [OpId::new] (panics above u32::MAX)
     storage/change.rs                     [Change::verify_ops] (every op is read; then start_op must fit a u32)
   on top of the column codecs of Codec/ColEnc.v.

   Which writer.  [Change::from(ExpandedChange)] -> [ChangeBuilder::build] -> [ChangeOpsColumns::encode] is the
   writer modelled here ([encode_ops]).  A transaction commit / [get_changes] / load build their changes in
   op_set2/change.rs [write_change_ops] with the hexane encoders instead; that the two writers agree byte for byte is
   checked on the implementation (decode -> Change::from gives the same bytes, family chg) and through
   [chk_chg_ops], which re-encodes the decoded ops of every such change with [encode_ops].

   An op id is (counter, actor INDEX into the change's actor table: 0 = the author, then [other_actors]).
   The root object and the head element are the id (0, 0), as in the Rust ([ObjId::root()], [ElemId::head()]).

   Quirks mirrored (not repaired):
   - [ObjId::is_root] is "counter == 0" while [ElemId::is_head] is "== (0, 0)": the reader can produce an object id
     (0, a) with a <> 0, which the writer (and [Change::decode]) treat as the root: such an op does not re-encode to
     itself ([wf_chopb] asks for the root to be (0, 0));
   - [ObjIdRange::new]: when the obj actor OR the obj counter column is empty the obj columns are not read at all;
   - a column missing from the chunk is an empty column; of duplicate columns the last one wins; columns of a group
     whose id is not 7 (and any other unknown column) are ignored;
   - the decoders are lazy: bytes of a column beyond what the ops need are never looked at; the number of ops is the
     number of values of the ACTION column;
   - the length in a value's metadata is ignored for null / false / true; a float must have length 8; LEB values in
     the value column are read with the STRICT readers of storage/parse/leb128.rs and must fill their length;
   - [OpId::new(counter, actor)] unwraps a u32 conversion: an obj / key / pred counter or actor above u32::MAX is a
     PANIC ([Panic]), also a debug-build overflow inside the RLE decoder (Codec/ColEnc.v);
   - [ValueMeta::from(Unknown {type_code, bytes})] ORs the whole type code into the metadata: a code above 15 leaks
     into the length ([wf_sval] asks for 10..15, what the reader can produce). *)
From AM Require Import Base.Prelude Base.Leb128 Base.Sleb128 Store.Chunk Store.ChangeChunk Codec.ColEnc.
Local Open Scope N_scope.

(* ---------------------------------------------------------------- the op record *)
Inductive sval :=
| SV_Null
| SV_Bool (b : bool)
| SV_Uint (n : N)
| SV_Int (z : Z)
| SV_F64 (le : bytes)              (* the 8 little-endian bytes, opaque *)
| SV_Str (s : bytes)               (* UTF-8 *)
| SV_Bytes (b : bytes)
| SV_Counter (z : Z)
| SV_Timestamp (z : Z)
| SV_Unknown (code : N) (b : bytes).

Definition opid := (N * N)%type.   (* (counter, actor index) *)

Inductive ckey :=
| K_Prop (s : bytes)
| K_Elem (e : opid).               (* (0, 0) = head *)

Record chop := mkChop {
  co_obj : opid;                   (* (0, 0) = root *)
  co_key : ckey;
  co_insert : bool;
  co_action : N;
  co_val : sval;
  co_pred : list opid;
  co_expand : bool;
  co_mark : option bytes
}.

Definition llen {A} (l : list A) : N := N.of_nat (length l).

Definition is_zero_id (o : opid) : bool := (fst o =? 0) && (snd o =? 0).   (* [ElemId::is_head]: == HEAD *)
(* [ObjId::is_root] looks at the COUNTER only: (0, a) is the root for every actor a *)
Definition is_root_id (o : opid) : bool := fst o =? 0.

(* ---------------------------------------------------------------- value metadata *)
(* [ulebsize] / [lebsize]: 64 - leading_zeros = [N.size] *)
Definition div_ceil7 (bits : N) : N := (bits + 6) / 7.
Definition ulebsize (v : N) : N := if v =? 0 then 1 else div_ceil7 (N.size v).
Definition lebsize (z : Z) : N :=
  let v := if (z <? 0)%Z then Z.to_N (- z - 1) else Z.to_N z in        (* !val *)
  div_ceil7 (1 + N.size v).

(* [ValueMeta::from(&ScalarValue)] as a u64 *)
Definition val_meta (v : sval) : N :=
  match v with
  | SV_Uint n => N.lor (ulebsize n * 16) 3
  | SV_Int z => N.lor (lebsize z * 16) 4
  | SV_Null => 0
  | SV_Bool false => 1
  | SV_Bool true => 2
  | SV_Timestamp z => N.lor (lebsize z * 16) 9
  | SV_F64 _ => N.lor (8 * 16) 5
  | SV_Counter z => N.lor (lebsize z * 16) 8
  | SV_Str s => N.lor (lenN s * 16) 6
  | SV_Bytes b => N.lor (lenN b * 16) 7
  | SV_Unknown code b => N.lor (lenN b * 16) code
  end.

(* [encode_val] *)
Definition val_raw (v : sval) : bytes :=
  match v with
  | SV_Uint n => uleb_enc n
  | SV_Int z | SV_Timestamp z | SV_Counter z => sleb_enc z
  | SV_Null | SV_Bool _ => []
  | SV_F64 le => le
  | SV_Str s => s
  | SV_Bytes b | SV_Unknown _ b => b
  end.

(* ---------------------------------------------------------------- the writer *)
Definition rle_u64 (xs : list (option N)) : bytes := rle_encode uleb_enc N.eqb xs.
Definition rle_str (xs : list (option bytes)) : bytes := rle_encode str_enc bytes_eqb xs.

Definition col_obj_actor (ops : list chop) : bytes :=
  rle_u64 (map (fun o => if is_root_id (co_obj o) then None else Some (snd (co_obj o))) ops).
Definition col_obj_ctr (ops : list chop) : bytes :=
  match col_obj_actor ops with
  | [] => []                                                           (* [if actor.is_empty() return Ok(None)] *)
  | _ => rle_u64 (map (fun o => if is_root_id (co_obj o) then None else Some (fst (co_obj o))) ops)
  end.
Definition col_key_actor (ops : list chop) : bytes :=
  rle_u64 (map (fun o => match co_key o with
                         | K_Prop _ => None
                         | K_Elem e => if is_zero_id e then None else Some (snd e)
                         end) ops).
Definition col_key_ctr (ops : list chop) : bytes :=
  delta_encode (map (fun o => match co_key o with
                              | K_Prop _ => None
                              | K_Elem e => if is_zero_id e then Some 0%Z else Some (Z.of_N (fst e))
                              end) ops).
Definition col_key_str (ops : list chop) : bytes :=
  rle_str (map (fun o => match co_key o with K_Prop s => Some s | K_Elem _ => None end) ops).
Definition col_insert (ops : list chop) : bytes := bool_encode (map co_insert ops).
Definition col_action (ops : list chop) : bytes := rle_u64 (map (fun o => Some (co_action o)) ops).
Definition col_val_meta (ops : list chop) : bytes := rle_u64 (map (fun o => Some (val_meta (co_val o))) ops).
Definition col_val_raw (ops : list chop) : bytes := concat (map (fun o => val_raw (co_val o)) ops).
Definition col_pred_num (ops : list chop) : bytes := rle_u64 (map (fun o => Some (llen (co_pred o))) ops).
Definition all_preds (ops : list chop) : list opid := concat (map co_pred ops).
Definition col_pred_actor (ops : list chop) : bytes := rle_u64 (map (fun p => Some (snd p)) (all_preds ops)).
Definition col_pred_ctr (ops : list chop) : bytes :=
  delta_encode (map (fun p : opid => Some (Z.of_N (fst p))) (all_preds ops)).
Definition col_expand (ops : list chop) : bytes := maybe_bool_encode (map co_expand ops).
Definition col_mark (ops : list chop) : bytes := rle_str (map co_mark ops).

(* all fourteen columns, in the order they are laid out in the column data, with their specifications
   (id * 16 + type) *)
Definition all_cols (ops : list chop) : list (N * bytes) :=
  [ (1, col_obj_actor ops); (2, col_obj_ctr ops);
    (17, col_key_actor ops); (19, col_key_ctr ops); (21, col_key_str ops);
    (52, col_insert ops); (66, col_action ops);
    (86, col_val_meta ops); (87, col_val_raw ops);
    (112, col_pred_num ops); (113, col_pred_actor ops); (115, col_pred_ctr ops);
    (148, col_expand ops); (165, col_mark ops) ].

Definition nonempty_col (c : N * bytes) : bool := match snd c with [] => false | _ => true end.

(* [ChangeOpsColumns::encode] + [raw_columns] + [RawColumns::from_iter]: (column spec, data) of the columns that
   are written *)
Definition encode_ops (ops : list chop) : list (N * bytes) := filter nonempty_col (all_cols ops).

(* ---------------------------------------------------------------- the column layout, with the data *)
(* the raw columns of a parsed body: each takes its length from the column data in turn *)
Fixpoint split_cols (cols : list (N * N)) (data : bytes) : list (N * bytes) :=
  match cols with
  | [] => []
  | (s, l) :: t => (s, firstn (N.to_nat l) data) :: split_cols t (skipn (N.to_nat l) data)
  end.

(* logical columns as [ColumnLayoutParser] builds them.  A grouped column: (kind, data or metadata, raw) *)
Inductive lcol :=
| LSimple (spec : N) (d : bytes)
| LValue (spec : N) (meta raw : bytes)
| LGroup (spec : N) (num : bytes) (cols : list (gkind * bytes * bytes)).

Inductive wstate :=
| WReady
| WValue (spec : N) (meta : bytes)
| WGroup (spec : N) (num : bytes) (cols : list (gkind * bytes * bytes)) (pending : option bytes).

Definition wlay := (wstate * list lcol)%type.          (* finished columns in reverse order *)

Definition group_done (cols : list (gkind * bytes * bytes)) (pending : option bytes) :=
  match pending with
  | None => cols
  | Some m => cols ++ [(GK_Value, m, [])]                              (* finish_empty *)
  end.

Definition w_ready (done : list lcol) (s : N) (d : bytes) : res wlay :=
  let t := spec_type s in
  if t =? T_GROUP then Ok (WGroup s d [] None, done)
  else if t =? T_VALUE_META then Ok (WValue s d, done)
  else if t =? T_VALUE then Err
  else Ok (WReady, LSimple s d :: done).

Definition w_gready (done : list lcol) (gs : N) (num : bytes) (cols : list (gkind * bytes * bytes))
    (s : N) (d : bytes) : res wlay :=
  let t := spec_type s in
  if t =? T_GROUP then Err
  else if t =? T_VALUE then Err
  else if t =? T_VALUE_META then Ok (WGroup gs num cols (Some d), done)
  else
    let k := if t =? T_ACTOR then GK_RleInt else if t =? T_BOOLEAN then GK_Bool
             else if t =? T_DELTA then GK_Delta else if t =? T_INTEGER then GK_RleInt else GK_Str in
    Ok (WGroup gs num (cols ++ [(k, d, [])]) None, done).

Definition w_add (st : wlay) (c : N * bytes) : res wlay :=
  let (state, done) := st in
  let (s, d) := c in
  match state with
  | WReady => w_ready done s d
  | WValue vs m =>
    if spec_type s =? T_VALUE then
      if negb (spec_id vs =? spec_id s) then Err
      else Ok (WReady, LValue vs m d :: done)
    else w_ready (LValue vs m [] :: done) s d
  | WGroup gs num cols pending =>
    if negb (spec_id gs =? spec_id s) then
      w_ready (LGroup gs num (group_done cols pending) :: done) s d
    else
      match pending with
      | None => w_gready done gs num cols s d
      | Some m =>
        if spec_type s =? T_VALUE then Ok (WGroup gs num (cols ++ [(GK_Value, m, d)]) None, done)
        else w_gready done gs num (cols ++ [(GK_Value, m, [])]) s d
      end
  end.

Fixpoint w_adds (st : wlay) (cs : list (N * bytes)) : res wlay :=
  match cs with
  | [] => Ok st
  | c :: t => let* st1 := w_add st c in w_adds st1 t
  end.

Definition w_build (st : wlay) : list lcol :=
  let (state, done) := st in
  rev match state with
      | WReady => done
      | WValue vs m => LValue vs m [] :: done
      | WGroup gs num cols pending => LGroup gs num (group_done cols pending) :: done
      end.

(* [Columns::parse2] *)
Definition logical_cols (cs : list (N * bytes)) : res (list lcol) :=
  let* st := w_adds (WReady, []) cs in Ok (w_build st).

(* the ranges [ChangeOpsColumns] keeps *)
Record opcols := mkOpcols {
  oc_obj_actor : bytes; oc_obj_ctr : bytes;
  oc_key_actor : bytes; oc_key_ctr : bytes; oc_key_str : bytes;
  oc_insert : bytes; oc_action : bytes;
  oc_val_meta : bytes; oc_val_raw : bytes;
  oc_pred_num : bytes; oc_pred_actor : bytes; oc_pred_ctr : bytes;
  oc_expand : bytes; oc_mark : bytes
}.
Definition opcols_empty : opcols := mkOpcols [] [] [] [] [] [] [] [] [] [] [] [] [] [].

Definition OBJ_COL_ID : N := 0.
Definition KEY_COL_ID : N := 1.
Definition INSERT_COL_ID : N := 3.
Definition ACTION_COL_ID : N := 4.
Definition EXPAND_COL_ID : N := 9.
Definition MARK_NAME_COL_ID : N := 10.

(* one turn of the [for (index, col) in columns] of [TryFrom<Columns>] *)
Definition assign_col (oc : opcols) (c : lcol) : res opcols :=
  let '(mkOpcols oa ob ka kc ks ins act vm vr pn pa pc ex mk) := oc in
  match c with
  | LSimple s d =>
    let i := spec_id s in let t := spec_type s in
    if (i =? OBJ_COL_ID) && (t =? T_ACTOR) then Ok (mkOpcols d ob ka kc ks ins act vm vr pn pa pc ex mk)
    else if (i =? OBJ_COL_ID) && (t =? T_INTEGER) then Ok (mkOpcols oa d ka kc ks ins act vm vr pn pa pc ex mk)
    else if (i =? KEY_COL_ID) && (t =? T_ACTOR) then Ok (mkOpcols oa ob d kc ks ins act vm vr pn pa pc ex mk)
    else if (i =? KEY_COL_ID) && (t =? T_DELTA) then Ok (mkOpcols oa ob ka d ks ins act vm vr pn pa pc ex mk)
    else if (i =? KEY_COL_ID) && (t =? T_STRING) then Ok (mkOpcols oa ob ka kc d ins act vm vr pn pa pc ex mk)
    else if (i =? INSERT_COL_ID) && (t =? T_BOOLEAN) then Ok (mkOpcols oa ob ka kc ks d act vm vr pn pa pc ex mk)
    else if (i =? ACTION_COL_ID) && (t =? T_INTEGER) then Ok (mkOpcols oa ob ka kc ks ins d vm vr pn pa pc ex mk)
    else if (i =? EXPAND_COL_ID) && (t =? T_BOOLEAN) then Ok (mkOpcols oa ob ka kc ks ins act vm vr pn pa pc d mk)
    else if (i =? MARK_NAME_COL_ID) && (t =? T_STRING) then Ok (mkOpcols oa ob ka kc ks ins act vm vr pn pa pc ex d)
    else Ok oc
  | LValue s m r =>
    if spec_id s =? VAL_COL_ID then Ok (mkOpcols oa ob ka kc ks ins act m r pn pa pc ex mk) else Ok oc
  | LGroup s num cols =>
    if spec_id s =? PRED_COL_ID then
      match cols with
      | [] => Ok (mkOpcols oa ob ka kc ks ins act vm vr num [] [] ex mk)
      | [(GK_RleInt, a, _); (GK_Delta, c, _)] => Ok (mkOpcols oa ob ka kc ks ins act vm vr num a c ex mk)
      | _ => Err                                                       (* MismatchingColumn *)
      end
    else Ok oc
  end.

Fixpoint assign_cols (oc : opcols) (cs : list lcol) : res opcols :=
  match cs with
  | [] => Ok oc
  | c :: t => let* oc1 := assign_col oc c in assign_cols oc1 t
  end.

(* [ChangeOpsColumns::try_from(RawColumns<Uncompressed>)] on (spec, data) pairs *)
Definition opcols_of (cs : list (N * bytes)) : res opcols :=
  let* lc := logical_cols cs in assign_cols opcols_empty lc.

(* ---------------------------------------------------------------- the iterators *)
Definition nul {A} (x : option (option A)) : option A := match x with Some (Some v) => Some v | _ => None end.

(* [OpId::new(counter, actor)]: both are squeezed into a u32 with [try_into().unwrap()] *)
Definition opid_new (c a : N) : res opid :=
  if (u32_max <? c) || (u32_max <? a) then Panic else Ok (c, a).

Definition str_rd8 := str_rd utf8_valid.
Definition u64_next := rle_next (T:=N) u64_rd.
Definition str_next := rle_next (T:=bytes) str_rd8.

(* [ObjIdIter::try_next]; never [None] *)
Definition obj_next (s : rle_st (T:=N) * rle_st (T:=N)) : res (opid * (rle_st * rle_st)) :=
  let (sa, sc) := s in
  let* (a, sa1) := u64_next sa in
  let* (c, sc1) := u64_next sc in
  match nul a, nul c with
  | None, None => Ok ((0, 0), (sa1, sc1))
  | Some a, Some c => let* o := opid_new c a in Ok (o, (sa1, sc1))
  | None, Some c => if c =? 0 then Ok ((0, 0), (sa1, sc1)) else Err
  | Some _, None => Err
  end.

(* [KeyIter::try_next] + [next_in_col] *)
Definition key_st := (rle_st (T:=N) * delta_st * rle_st (T:=bytes))%type.
Definition key_next (s : key_st) : res (ckey * key_st) :=
  let '(sa, sc, ss) := s in
  let* (a, sa1) := u64_next sa in
  let* (c, sc1) := delta_next sc in
  let* (k, ss1) := str_next ss in
  let s1 := (sa1, sc1, ss1) in
  match nul a, nul c, nul k with
  | Some _, Some _, Some _ => Err                                      (* too many values *)
  | None, None, Some k => Ok (K_Prop k, s1)
  | None, Some c, None => if (c =? 0)%Z then Ok (K_Elem (0, 0), s1) else Err
  | Some a, Some c, None =>
      if (c <? 0)%Z then Err else let* o := opid_new (Z.to_N c) a in Ok (K_Elem o, s1)
  | None, None, None => Err                                            (* Ok(None) -> unexpected null *)
  | None, Some _, Some _ => Err
  | Some _, None, _ => Err
  end.

(* [ValueIter::next] + [next_in_col]: (meta decoder, remaining raw bytes) *)
Definition read_bytes (n : N) (raw : bytes) : res (bytes * bytes) :=
  match col_take n raw with Some (a, r) => Ok (a, r) | None => Err end.

Definition whole {A} (r : res (A * bytes)) : res A :=                  (* [parse_input]: no bytes may be left *)
  let* (v, rest) := r in match rest with [] => Ok v | _ => Err end.

Definition val_next (s : rle_st (T:=N) * bytes) : res (sval * (rle_st * bytes)) :=
  let (sm, raw) := s in
  let* (m, sm1) := u64_next sm in
  match m with
  | Some (Some m) =>
    let ty := m mod 16 in let len := m / 16 in
    if ty =? 0 then Ok (SV_Null, (sm1, raw))
    else if ty =? 1 then Ok (SV_Bool false, (sm1, raw))
    else if ty =? 2 then Ok (SV_Bool true, (sm1, raw))
    else
      let* (b, raw1) := read_bytes len raw in
      let s1 := (sm1, raw1) in
      if ty =? 3 then let* n := whole (uleb_dec b) in Ok (SV_Uint n, s1)
      else if ty =? 4 then let* z := whole (sleb_dec b) in Ok (SV_Int z, s1)
      else if ty =? 5 then if len =? 8 then Ok (SV_F64 b, s1) else Err
      else if ty =? 6 then if utf8_valid b then Ok (SV_Str b, s1) else Err
      else if ty =? 7 then Ok (SV_Bytes b, s1)
      else if ty =? 8 then let* z := whole (sleb_dec b) in Ok (SV_Counter z, s1)
      else if ty =? 9 then let* z := whole (sleb_dec b) in Ok (SV_Timestamp z, s1)
      else Ok (SV_Unknown ty b, s1)
  | _ => Err                                                           (* null / exhausted: unexpected null *)
  end.

(* [OpIdListIter::try_next] + [next_in_col] *)
Definition pred_st := (rle_st (T:=N) * rle_st (T:=N) * delta_st)%type.
Definition pred_step (s : rle_st (T:=N) * delta_st * list opid)
    : ((rle_st (T:=N) * delta_st * list opid) + res (list opid))%type :=
  let '(sa, sc, acc) := s in
  match u64_next sa with
  | Ok (a, sa1) =>
    match delta_next sc with
    | Ok (c, sc1) =>
      match nul a, nul c with
      | Some a, Some c =>
        if (c <? 0)%Z then Datatypes.inr Err
        else match opid_new (Z.to_N c) a with
             | Ok o => inl (sa1, sc1, o :: acc)
             | Err => Datatypes.inr Err
             | Panic => Datatypes.inr Panic
             end
      | _, _ => Datatypes.inr Err
      end
    | Err => Datatypes.inr Err
    | Panic => Datatypes.inr Panic
    end
  | Err => Datatypes.inr Err
  | Panic => Datatypes.inr Panic
  end.

Definition pred_next (s : pred_st) : res (list opid * pred_st) :=
  let '(sn, sa, sc) := s in
  let* (n, sn1) := u64_next sn in
  match n with
  | Some (Some n) =>
    match n with
    | 0 => Ok ([], (sn1, sa, sc))
    | Npos p =>
      match loop_pos pred_step p (sa, sc, []) with
      | inl (sa1, sc1, acc) => Ok (rev acc, (sn1, sa1, sc1))
      | Datatypes.inr Panic => Panic
      | Datatypes.inr _ => Err
      end
    end
  | _ => Err
  end.

(* [OpType::validate_action_and_value] *)
Definition action_value_ok (action : N) (v : sval) : bool :=
  if action <=? 4 then true
  else if action =? 5 then match v with SV_Int _ | SV_Uint _ => true | _ => false end
  else (action =? 6) || (action =? 7).

(* [ChangeOpsIter] *)
Record ops_st := mkOpsSt {
  os_obj : option (rle_st (T:=N) * rle_st (T:=N));
  os_key : key_st;
  os_insert : bool_st;
  os_action : rle_st (T:=N);
  os_val : rle_st (T:=N) * bytes;
  os_pred : pred_st;
  os_expand_empty : bool;
  os_expand : bool_st;
  os_mark : rle_st (T:=bytes)
}.

(* [ChangeOpsColumns::iter] (with [ObjIdRange::new] of [try_from]) *)
Definition ops_init (oc : opcols) : ops_st :=
  mkOpsSt
    (match oc_obj_actor oc, oc_obj_ctr oc with
     | [], _ | _, [] => None
     | a, c => Some (rle_init a, rle_init c)
     end)
    (rle_init (oc_key_actor oc), delta_init (oc_key_ctr oc), rle_init (oc_key_str oc))
    (bool_init (oc_insert oc))
    (rle_init (oc_action oc))
    (rle_init (oc_val_meta oc), oc_val_raw oc)
    (rle_init (oc_pred_num oc), rle_init (oc_pred_actor oc), delta_init (oc_pred_ctr oc))
    (match oc_expand oc with [] => true | _ => false end)
    (bool_init (oc_expand oc))
    (rle_init (oc_mark oc)).

(* the body of [try_next] once the iterator is neither failed nor done *)
Definition op_next (s : ops_st) : res (chop * ops_st) :=
  let* (obj, so) :=
    match os_obj s with
    | Some o => let* (x, o1) := obj_next o in Ok (x, Some o1)
    | None => Ok ((0, 0), None)
    end in
  let* (key, sk) := key_next (os_key s) in
  let* (ins, si) := bool_next (os_insert s) in
  let* ins := match ins with Some b => Ok b | None => Err end in
  let* (act, sa) := u64_next (os_action s) in
  let* act := match nul act with Some a => Ok a | None => Err end in
  let* (val, sv) := val_next (os_val s) in
  let* (pred, sp) := pred_next (os_pred s) in
  let* (ex, se) := maybe_bool_next (os_expand_empty s) (os_expand s) in
  let* (mk, sm) := str_next (os_mark s) in
  if negb (action_value_ok act val) then Err else
  Ok (mkChop obj key ins act val pred (match ex with Some b => b | None => false end) (nul mk),
      mkOpsSt so sk si sa sv sp (os_expand_empty s) se sm).

Definition ops_step (x : ops_st * list chop) : ((ops_st * list chop) + res (list chop))%type :=
  let (s, acc) := x in
  if rle_done (os_action s) then Datatypes.inr (Ok (rev acc))
  else match op_next s with
       | Ok (o, s1) => inl (s1, o :: acc)
       | Err => Datatypes.inr Err
       | Panic => Datatypes.inr Panic
       end.

(* an upper bound of the number of ops: every header of the action column stands for fewer than 2^63 values
   and takes at least one byte ([loop_pos] is lazy in its bound) *)
Definition ops_bound (oc : opcols) : positive := N.succ_pos (lenN (oc_action oc) * pow63).

(* all ops of the columns: what [verify_ops] iterates over *)
Definition decode_opcols (oc : opcols) : res (list chop) :=
  match loop_pos ops_step (ops_bound oc) (ops_init oc, []) with
  | Datatypes.inr r => r
  | inl _ => Err                                                       (* the bound is never reached *)
  end.

(* (spec, data) of the raw columns -> the ops *)
Definition decode_ops (cs : list (N * bytes)) : res (list chop) :=
  let* oc := opcols_of cs in decode_opcols oc.

(* ---------------------------------------------------------------- glue with the chunk body *)
(* [Change::try_from(&[u8])] below the chunk framing: [parse_following_header], then [verify_ops] (every op is
   decoded, then [start_op] must fit a u32: CounterTooLarge) *)
Definition parse_change_full (data : bytes) : res (change_body * list chop) :=
  let* c := parse_body data in
  let* ops := decode_ops (split_cols (cb_cols c) (cb_data c)) in
  if u32_max <? cb_start_op c then Err else Ok (c, ops).

(* ---------------------------------------------------------------- well-formed op lists *)
Definition wf_opidb (o : opid) : bool := (fst o <=? u32_max) && (snd o <=? u32_max).

Definition wf_svalb (v : sval) : bool :=
  match v with
  | SV_Null | SV_Bool _ => true
  | SV_Uint n => n <? pow64
  | SV_Int z | SV_Counter z | SV_Timestamp z => in_i64b z
  | SV_F64 le => (lenN le =? 8) && wf_bytesb le
  | SV_Str s => wf_bytesb s && utf8_valid s && (lenN s <=? MAX_ALLOCATION)
  | SV_Bytes b => wf_bytesb b && (lenN b <=? MAX_ALLOCATION)
  | SV_Unknown code b => (10 <=? code) && (code <=? 15) && wf_bytesb b && (lenN b <=? MAX_ALLOCATION)
  end.

(* what a list of [ChangeOp]s is by its Rust type (u32 counters and actors, a u64 action, UTF-8 strings) plus
   what [validate_action_and_value] asks of every op that is read back, an action the reader accepts, strings
   the reader is willing to allocate, and fewer than 2^63 ops *)
Definition wf_chopb (o : chop) : bool :=
  wf_opidb (co_obj o)
  && (negb (is_root_id (co_obj o)) || is_zero_id (co_obj o))        (* the root is written (0, 0) *)
  && match co_key o with
     | K_Prop s => wf_bytesb s && utf8_valid s && (lenN s <=? MAX_ALLOCATION)
     | K_Elem e => wf_opidb e
     end
  && action_value_ok (co_action o) (co_val o)
  && wf_svalb (co_val o)
  && forallb wf_opidb (co_pred o)
  && match co_mark o with
     | Some s => wf_bytesb s && utf8_valid s && (lenN s <=? MAX_ALLOCATION)
     | None => true
     end.

Definition wf_chopsb (ops : list chop) : bool :=
  forallb wf_chopb ops && (llen ops <? pow63) && (llen (all_preds ops) <? pow63).
