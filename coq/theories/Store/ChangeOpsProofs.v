(* Store/ChangeOpsProofs.v — proofs about the op-column model of Store/ChangeOps.v. *)
From AM Require Import Base.Prelude Base.Leb128 Base.Sleb128 Store.Chunk Store.ChangeChunk Codec.ColEnc
  Codec.ColEncProofs Store.ChangeOps.
Local Open Scope N_scope.

(* ---------------------------------------------------------------- [loop_pos] is bounded iteration *)
Fixpoint loop_nat {S R} (step : S -> S + R) (n : nat) (s : S) : S + R :=
  match n with
  | O => inl s
  | Datatypes.S k => match step s with inl s1 => loop_nat step k s1 | Datatypes.inr r => Datatypes.inr r end
  end.

Lemma loop_nat_add {S R} (step : S -> S + R) a : forall b s,
  loop_nat step (a + b) s =
  match loop_nat step a s with inl s1 => loop_nat step b s1 | Datatypes.inr r => Datatypes.inr r end.
Proof.
  induction a as [|a IH]; intros b s; cbn [loop_nat Nat.add]; [reflexivity|].
  destruct (step s) as [s1|r]; [apply IH|reflexivity].
Qed.

Lemma loop_pos_nat {S R} (step : S -> S + R) p : forall s,
  loop_pos step p s = loop_nat step (Pos.to_nat p) s.
Proof.
  induction p as [p IH|p IH|]; intros s; cbn [loop_pos].
  - rewrite Pos2Nat.inj_xI.
    replace (2 * Pos.to_nat p)%nat with (Pos.to_nat p + Pos.to_nat p)%nat by lia.
    cbn [loop_nat].
    destruct (step s) as [s0|r]; [|reflexivity].
    rewrite loop_nat_add, <- IH. destruct (loop_pos step p s0) as [s1|r]; [apply IH|reflexivity].
  - rewrite Pos2Nat.inj_xO.
    replace (2 * Pos.to_nat p)%nat with (Pos.to_nat p + Pos.to_nat p)%nat by lia.
    rewrite loop_nat_add, <- IH. destruct (loop_pos step p s) as [s1|r]; [apply IH|reflexivity].
  - change (Pos.to_nat 1) with 1%nat. cbn [loop_nat]. destruct (step s); reflexivity.
Qed.

(* ---------------------------------------------------------------- the reader CAN panic *)
(* chunk data of a change whose key-actor column is a literal run of i64::MIN items; Change::from_bytes of the
   chunk built from it panics in a debug build (found by the mutation stream of family chg) *)
Definition panic_data : bytes :=
  [1; 176; 17; 17; 53; 246; 184; 121; 222; 138; 119; 255; 75; 147; 226; 110; 121; 17; 119; 179; 199; 206; 208;
   119; 41; 154; 170; 213; 56; 14; 176; 20; 83; 3; 0; 1; 163; 9; 19; 0; 0; 1; 4; 16; 0; 177; 23; 11; 1; 4; 2; 4;
   19; 11; 21; 9; 52; 1; 66; 3; 86; 3; 87; 1; 112; 2; 113; 3; 115; 3; 0; 1; 127; 0; 0; 1; 127; 8; 128; 128; 128;
   128; 128; 128; 128; 128; 128; 127; 1; 126; 2; 107; 49; 4; 240; 159; 152; 128; 2; 126; 5; 3; 126; 20; 0; 127; 2;
   1; 126; 1; 0; 126; 1; 11].

(* a counter above u32::MAX in the obj column: [OpId::new] unwraps (every build) *)
Definition panic_cols : list (N * bytes) :=
  [(1, [127; 0]); (2, [127; 128; 128; 128; 128; 16]); (21, [127; 1; 97]); (52, [1]); (66, [127; 1]); (86, [127; 0]);
   (112, [127; 0])].

Theorem ops_decode_panics :
  parse_change_full panic_data = Panic /\ is_ok (parse_body panic_data) = true /\ decode_ops panic_cols = Panic.
Proof. vm_compute. repeat split. Qed.

(* ---------------------------------------------------------------- a non-trivial op list round-trips *)
Definition ex_ops : list chop :=
  [ mkChop (0, 0) (K_Prop [107; 195; 169]) false 1 (SV_Str [104; 105]) [] false None;
    mkChop (0, 0) (K_Prop [108]) false 2 SV_Null [(3, 0); (3, 1)] false None;
    mkChop (5, 0) (K_Elem (0, 0)) true 1 (SV_Int (-9223372036854775808)) [] false None;
    mkChop (5, 0) (K_Elem (6, 0)) true 1 (SV_Uint 18446744073709551615) [] false None;
    mkChop (5, 0) (K_Elem (7, 0)) true 1 (SV_F64 [24; 45; 68; 84; 251; 33; 9; 64]) [] false None;
    mkChop (5, 0) (K_Elem (8, 0)) true 1 (SV_Counter 10) [] false None;
    mkChop (5, 0) (K_Elem (8, 0)) false 5 (SV_Int (-3)) [(9, 0)] false None;
    mkChop (5, 0) (K_Elem (7, 0)) false 3 SV_Null [(8, 0); (70000, 2)] false None;
    mkChop (5, 1) (K_Elem (2, 2)) true 7 (SV_Bool true) [] true (Some [98; 111; 108; 100]);
    mkChop (5, 1) (K_Elem (4, 2)) true 7 SV_Null [] false None;
    mkChop (0, 0) (K_Prop []) false 1 (SV_Unknown 12 [1; 2; 3]) [(4294967295, 4294967295)] false None;
    mkChop (0, 0) (K_Prop []) false 1 (SV_Timestamp (-5)) [] false None;
    mkChop (0, 0) (K_Prop []) false 1 (SV_Bytes [0; 255]) [] false None;
    mkChop (0, 0) (K_Prop []) false 1 (SV_Bytes [0; 255]) [] false None;
    mkChop (0, 0) (K_Prop []) false 1 (SV_Bytes [0; 255]) [] false None ].

Theorem ex_ops_roundtrip :
  wf_chopsb ex_ops = true /\ decode_ops (encode_ops ex_ops) = Ok ex_ops
  /\ map fst (encode_ops ex_ops) = [1; 2; 17; 19; 21; 52; 66; 86; 87; 112; 113; 115; 148; 165]
  /\ encode_ops [] = [] /\ decode_ops [] = Ok [].
Proof. vm_compute. repeat split. Qed.

(* runs that cross the 64-item mark, all-false expand (the column is omitted), no value bytes *)
Theorem long_run_roundtrip :
  let ops := repeat (mkChop (0, 0) (K_Prop [97]) false 1 SV_Null [] false None) 200
             ++ repeat (mkChop (1, 0) (K_Elem (0, 0)) true 1 (SV_Uint 7) [(1, 0)] false None) 130 in
  wf_chopsb ops = true /\ decode_ops (encode_ops ops) = Ok ops
  /\ map fst (encode_ops ops) = [1; 2; 19; 21; 52; 66; 86; 87; 112; 113; 115].
Proof. vm_compute. repeat split. Qed.

(* the statement that remains to be proved in general (kept visible; see Props/C18.v) *)
Definition ops_roundtrip_statement : Prop :=
  forall ops : list chop, wf_chopsb ops = true -> decode_ops (encode_ops ops) = Ok ops.
