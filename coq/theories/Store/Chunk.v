(* Store/Chunk.v — byte-level model of chunk framing and of the load paths.

   Mirrors rust/automerge/src/storage/chunk.rs ([Header::parse], [Header::write],
   [hash], [checksum_valid], [Chunk::parse]) and the chunk loop of
   rust/automerge/src/automerge.rs [load_with_options_and_mark_validation] and
   rust/automerge/src/storage/load.rs [load_changes].

   chunk  =  MAGIC(4) ‖ checksum(4) ‖ type(1) ‖ uleb(len) ‖ data(len)
   hash   =  Hsh (type ‖ uleb(len) ‖ data),  checksum = first 4 bytes of the hash
   For a compressed change chunk (type 2) the hash is taken over the INFLATED data
   with type 1 ([Header::with_data]).

   Abstracted (section variables): the hash function [Hsh] (SHA-256 in the code), the
   parser of a chunk body [body] (columns of a document / change / bundle: [None] when the
   body does not parse), [inflate], and the document-level [apply].  A document chunk is
   treated as the list of changes it reconstructs to. *)
From AM Require Import Base.Prelude Base.Leb128 Gen.Consts.
Local Open Scope N_scope.

Section Chunk.
  Variable Hsh : bytes -> bytes.
  Variable C : Type.                                (* a change *)
  Variable body : N -> bytes -> option (list C).    (* chunk type (0,1,3) -> data -> changes *)
  Variable inflate : bytes -> option bytes.

  Definition lenN (l : bytes) : N := N.of_nat (length l).

  Definition chunk_hash (ty : N) (data : bytes) : bytes := Hsh (ty :: uleb_enc (lenN data) ++ data).
  Definition checksum_of (ty : N) (data : bytes) : bytes := firstn 4 (chunk_hash ty data).

  (* [Header::write] + data; for type 2 [data] is the deflated payload and [plain] its inflation *)
  Definition encode_chunk (ty : N) (data : bytes) : bytes :=
    MAGIC_BYTES ++ checksum_of ty data ++ [ty] ++ uleb_enc (lenN data) ++ data.
  Definition encode_compressed (deflated plain : bytes) : bytes :=
    MAGIC_BYTES ++ checksum_of CHUNK_CHANGE plain ++ [CHUNK_COMPRESSED] ++ uleb_enc (lenN deflated) ++ deflated.

  Definition valid_type (t : N) : bool :=
    (t =? CHUNK_DOCUMENT) || (t =? CHUNK_CHANGE) || (t =? CHUNK_COMPRESSED) || (t =? CHUNK_BUNDLE).

  Definition take_N (n : N) (l : bytes) : option (bytes * bytes) :=
    if lenN l <? n then None else take_n (N.to_nat n) l.

  Record header := mkHeader { h_checksum : bytes; h_type : N; h_data : bytes }.

  (* [Header::parse]: Err = not enough input / bad magic / unknown type / bad LEB.
     Returns the header (with its data) and the input after the data. *)
  Definition parse_header (bs : bytes) : res (header * bytes) :=
    match take_n 4 bs with
    | None => Err
    | Some (magic, i) =>
      if negb (bytes_eqb magic MAGIC_BYTES) then Err else
      match take_n 4 i with
      | None => Err
      | Some (ck, i) =>
        match i with
        | [] => Err
        | ty :: i =>
          if negb (valid_type ty) then Err else
          let* (len, i) := uleb_dec i in
          match take_N len i with
          | None => Err
          | Some (data, rest) => Ok (mkHeader ck ty data, rest)
          end
        end
      end
    end.

  (* [Chunk::parse] followed by the [checksum_valid] test every caller performs:
     the changes of the chunk and the remaining input *)
  Definition parse_chunk (bs : bytes) : res (N * list C * bytes) :=
    let* (h, rest) := parse_header bs in
    if h_type h =? CHUNK_COMPRESSED then
      match inflate (h_data h) with
      | None => Err
      | Some plain =>
        match body CHUNK_CHANGE plain with
        | None => Err
        | Some cs =>
          if bytes_eqb (checksum_of CHUNK_CHANGE plain) (h_checksum h) then Ok (h_type h, cs, rest) else Err
        end
      end
    else
      match body (h_type h) (h_data h) with
      | None => Err
      | Some cs =>
        if bytes_eqb (checksum_of (h_type h) (h_data h)) (h_checksum h) then Ok (h_type h, cs, rest) else Err
      end.

  (* [load_changes]: chunks until the input is empty or one fails;
     (changes loaded, true = complete / false = stopped at a bad or truncated chunk) *)
  Fixpoint load_changes (fuel : nat) (bs : bytes) : list C * bool :=
    match bs with
    | [] => ([], true)
    | _ =>
      match fuel with
      | O => ([], false)
      | S f =>
        match parse_chunk bs with
        | Ok (_, cs, rest) => let (more, ok) := load_changes f rest in (cs ++ more, ok)
        | _ => ([], false)
        end
      end
    end.

  Inductive mode := Strict | Ignore.

  Variable D : Type.
  Variable empty : D.
  Variable apply : D -> list C -> res D.
  Variable queue_empty : D -> bool.

  (* [load_with_options]: [fuel] only bounds the chunk loop (every chunk consumes >= 10 bytes) *)
  Definition load (m : mode) (bs : bytes) : res D :=
    match bs with
    | [] => Ok empty
    | _ =>
      let* (ty, first, rest) := parse_chunk bs in
      let (more, complete) := load_changes (length rest) rest in
      if complete then
        let* d := apply empty (first ++ more) in
        match m with
        | Strict => if negb (queue_empty d) && negb (ty =? CHUNK_DOCUMENT) then Err else Ok d
        | Ignore => Ok d
        end
      else
        match m with
        | Strict => Err
        | Ignore => apply empty (first ++ more)
        end
    end.

  (* [load_incremental]: an empty document (nothing applied, nothing queued) is REPLACED by
     [load Ignore bs]; otherwise the chunks read before the first bad one are applied and a bad
     or truncated chunk is not an error (the code only logs a warning) *)
  Variable is_empty : D -> bool.
  Definition load_incremental (d : D) (bs : bytes) : res D :=
    if is_empty d then load Ignore bs
    else apply d (fst (load_changes (length bs) bs)).
End Chunk.
