(* Store/ChunkProofs.v — framing theorems of the storage model (Store/Chunk.v).

   What is proved here, for every hash function with >= 4 output bytes, every body parser,
   every inflater and every document-level [apply]:
   - a written chunk followed by anything parses back to its changes and leaves exactly the rest;
   - no strict prefix of a written chunk parses (prefix-freeness of the framing);
   - hence a file of written chunks cut at ANY byte loads, with partial loads allowed, to what
     the file cut at the last chunk boundary loads to, and a strict load of a cut that is not a
     boundary is an error;
   - the parsers never return [Panic]. *)
From AM Require Import Base.Prelude Base.Leb128 Gen.Consts Store.Chunk.
Local Open Scope N_scope.

(* ---------------------------------------------------------------- monotonicity in the input *)
Lemma take_n_mono {A} n (l a r s : list A) :
  take_n n l = Some (a, r) -> take_n n (l ++ s) = Some (a, r ++ s).
Proof.
  intros H. apply take_n_spec in H. destruct H as [-> <-].
  rewrite <- app_assoc. apply take_n_app.
Qed.

Lemma udec_mono f : forall first l v r s,
  udec first f l = Ok (v, r) -> udec first f (l ++ s) = Ok (v, r ++ s).
Proof.
  induction f as [|f IH]; intros first l v r s H; [discriminate|].
  cbn [udec] in *. destruct l as [|b t]; [discriminate|]. cbn [app].
  destruct (b <? 128).
  - destruct (Nat.eqb f 0 && (1 <? b)); [discriminate|].
    destruct (negb first && (b =? 0)); [discriminate|].
    inversion H; subst. reflexivity.
  - destruct (Nat.eqb f 0); [discriminate|].
    destruct (udec false f t) as [[v' r']| |] eqn:Ed; cbn [bind] in H; try discriminate.
    inversion H; subst. rewrite (IH _ _ _ _ s Ed). reflexivity.
Qed.

Lemma length_lenN (l : bytes) : lenN l = N.of_nat (length l).
Proof. reflexivity. Qed.

Lemma take_N_spec n l a r :
  take_N n l = Some (a, r) <-> (l = a ++ r /\ lenN a = n).
Proof.
  unfold take_N, lenN. destruct (N.of_nat (length l) <? n) eqn:E.
  - split; [discriminate|]. intros [-> Hn]. rewrite app_length in E. lia.
  - split.
    + intros H. apply take_n_spec in H. destruct H as [-> Hn]. split; [reflexivity|lia].
    + intros [-> Hn]. apply take_n_spec. split; [reflexivity|lia].
Qed.

Lemma take_N_mono n l a r s :
  take_N n l = Some (a, r) -> take_N n (l ++ s) = Some (a, r ++ s).
Proof.
  intros H. apply take_N_spec in H. destruct H as [-> Hn].
  apply take_N_spec. rewrite <- app_assoc. auto.
Qed.

Section Proofs.
  Variable Hsh : bytes -> bytes.
  Hypothesis Hsh_len : forall x, (4 <= length (Hsh x))%nat.
  Variable C : Type.
  Variable body : N -> bytes -> option (list C).
  Variable inflate : bytes -> option bytes.

  Notation parse_chunk := (parse_chunk Hsh C body inflate).
  Notation load_changes := (load_changes Hsh C body inflate).
  Notation encode_chunk := (encode_chunk Hsh).
  Notation encode_compressed := (encode_compressed Hsh).
  Notation checksum_of := (checksum_of Hsh).

  Lemma checksum_len ty data : length (checksum_of ty data) = 4%nat.
  Proof.
    unfold checksum_of, chunk_hash. rewrite firstn_length. specialize (Hsh_len (ty :: uleb_enc (lenN data) ++ data)). lia.
  Qed.

  Lemma magic_len : length MAGIC_BYTES = 4%nat.
  Proof. reflexivity. Qed.

  (* ---------------------------------------------------------------- header *)
  Lemma parse_header_mono bs h r s :
    parse_header bs = Ok (h, r) -> parse_header (bs ++ s) = Ok (h, r ++ s).
  Proof.
    unfold parse_header. intros H.
    destruct (take_n 4 bs) as [[magic i]|] eqn:E1; [|discriminate].
    rewrite (take_n_mono _ _ _ _ s E1).
    destruct (negb (bytes_eqb magic MAGIC_BYTES)); [discriminate|].
    destruct (take_n 4 i) as [[ck i2]|] eqn:E2; [|discriminate].
    rewrite (take_n_mono _ _ _ _ s E2).
    destruct i2 as [|ty i3]; [discriminate|]. cbn [app].
    destruct (negb (valid_type ty)); [discriminate|].
    unfold uleb_dec in *.
    destruct (udec true 10 i3) as [[len i4]| |] eqn:E3; cbn [bind] in H; try discriminate.
    rewrite (udec_mono _ _ _ _ _ s E3). cbn [bind].
    destruct (take_N len i4) as [[data rest]|] eqn:E4; [|discriminate].
    rewrite (take_N_mono _ _ _ _ s E4). inversion H; subst. reflexivity.
  Qed.

  Lemma parse_header_no_panic bs : parse_header bs <> Panic.
  Proof.
    unfold parse_header.
    destruct (take_n 4 bs) as [[magic i]|]; [|discriminate].
    destruct (negb (bytes_eqb magic MAGIC_BYTES)); [discriminate|].
    destruct (take_n 4 i) as [[ck i2]|]; [|discriminate].
    destruct i2 as [|ty i3]; [discriminate|].
    destruct (negb (valid_type ty)); [discriminate|].
    pose proof (uleb_dec_no_panic i3) as Hp.
    destruct (uleb_dec i3) as [[len i4]| |]; cbn [bind]; try congruence.
    destruct (take_N len i4) as [[data rest]|]; discriminate.
  Qed.

  (* the header of  MAGIC ‖ ck ‖ ty ‖ uleb(len data) ‖ data ‖ rest *)
  Lemma parse_header_written ck ty data rest :
    length ck = 4%nat -> valid_type ty = true -> lenN data < pow64 ->
    parse_header (MAGIC_BYTES ++ ck ++ [ty] ++ uleb_enc (lenN data) ++ data ++ rest)
    = Ok (mkHeader ck ty data, rest).
  Proof.
    intros Hck Hty Hlen. unfold parse_header.
    rewrite <- magic_len at 1. rewrite take_n_app.
    assert (bytes_eqb MAGIC_BYTES MAGIC_BYTES = true) as -> by (apply bytes_eqb_spec; reflexivity).
    cbn [negb]. rewrite <- Hck at 1. rewrite take_n_app. cbn [app].
    rewrite Hty. cbn [negb].
    rewrite (uleb_roundtrip _ _ Hlen). cbn [bind].
    assert (take_N (lenN data) (data ++ rest) = Some (data, rest)) as ->
      by (apply take_N_spec; auto).
    reflexivity.
  Qed.

  (* ---------------------------------------------------------------- written chunks *)
  (* [written b cs ty]: [b] is the chunk the writer emits for a body that parses to [cs] *)
  Inductive written : bytes -> list C -> N -> Prop :=
  | w_plain ty data cs :
      valid_type ty = true -> ty <> CHUNK_COMPRESSED -> lenN data < pow64 ->
      body ty data = Some cs -> written (encode_chunk ty data) cs ty
  | w_compressed deflated plain cs :
      lenN deflated < pow64 -> inflate deflated = Some plain -> body CHUNK_CHANGE plain = Some cs ->
      written (encode_compressed deflated plain) cs CHUNK_COMPRESSED.

  Lemma bytes_eqb_refl (a : bytes) : bytes_eqb a a = true.
  Proof. apply bytes_eqb_spec. reflexivity. Qed.

  Theorem parse_written b cs ty rest :
    written b cs ty -> parse_chunk (b ++ rest) = Ok (ty, cs, rest).
  Proof.
    intros W. destruct W as [ty data cs Hty Hnc Hlen Hb | deflated plain cs Hlen Hinf Hb].
    - unfold Chunk.parse_chunk, Chunk.encode_chunk. repeat rewrite <- app_assoc.
      rewrite parse_header_written; [|apply checksum_len|exact Hty|exact Hlen].
      cbn [bind h_type h_data h_checksum].
      assert ((ty =? CHUNK_COMPRESSED) = false) as -> by (apply N.eqb_neq; exact Hnc).
      rewrite Hb, bytes_eqb_refl. reflexivity.
    - unfold Chunk.parse_chunk, Chunk.encode_compressed. repeat rewrite <- app_assoc.
      rewrite parse_header_written; [|apply checksum_len|reflexivity|exact Hlen].
      cbn [bind h_type h_data h_checksum].
      assert ((CHUNK_COMPRESSED =? CHUNK_COMPRESSED) = true) as -> by reflexivity.
      rewrite Hinf, Hb, bytes_eqb_refl. reflexivity.
  Qed.

  Lemma written_header b cs ty :
    written b cs ty -> exists h, parse_header b = Ok (h, []).
  Proof.
    intros W. destruct W as [ty data cs Hty Hnc Hlen Hb | deflated plain cs Hlen Hinf Hb].
    - exists (mkHeader (checksum_of ty data) ty data).
      unfold Chunk.encode_chunk. rewrite <- (app_nil_r data) at 3. repeat rewrite <- app_assoc.
      apply parse_header_written; [apply checksum_len|exact Hty|exact Hlen].
    - exists (mkHeader (checksum_of CHUNK_CHANGE plain) CHUNK_COMPRESSED deflated).
      unfold Chunk.encode_compressed. rewrite <- (app_nil_r deflated) at 2. repeat rewrite <- app_assoc.
      apply parse_header_written; [apply checksum_len|reflexivity|exact Hlen].
  Qed.

  Lemma written_nonempty b cs ty : written b cs ty -> b <> [].
  Proof. intros W; destruct W; discriminate. Qed.

  (* prefix-freeness: no strict prefix of a written chunk has a parsable header *)
  Theorem prefix_no_header b cs ty k :
    written b cs ty -> (k < length b)%nat -> parse_header (firstn k b) = Err.
  Proof.
    intros W Hk. destruct (written_header _ _ _ W) as [h Hh].
    destruct (parse_header (firstn k b)) as [[h' r']| |] eqn:E.
    - exfalso. apply (parse_header_mono _ _ _ (skipn k b)) in E.
      rewrite firstn_skipn, Hh in E. inversion E as [[Eh Er]].
      symmetry in Er. apply app_eq_nil in Er. destruct Er as [_ Er].
      assert (length (skipn k b) = 0%nat) by (rewrite Er; reflexivity).
      rewrite skipn_length in *. lia.
    - reflexivity.
    - exfalso. exact (parse_header_no_panic _ E).
  Qed.

  Lemma parse_chunk_header_err bs : parse_header bs = Err -> parse_chunk bs = Err.
  Proof. unfold Chunk.parse_chunk. intros ->. reflexivity. Qed.

  Lemma parse_chunk_no_panic bs : parse_chunk bs <> Panic.
  Proof.
    unfold Chunk.parse_chunk. pose proof (parse_header_no_panic bs) as Hp.
    destruct (parse_header bs) as [[h rest]| |]; cbn [bind]; try congruence.
    destruct (h_type h =? CHUNK_COMPRESSED).
    - destruct (inflate (h_data h)); [|discriminate].
      destruct (body CHUNK_CHANGE b); [|discriminate].
      destruct (bytes_eqb _ _); discriminate.
    - destruct (body (h_type h) (h_data h)); [|discriminate].
      destruct (bytes_eqb _ _); discriminate.
  Qed.

  (* ---------------------------------------------------------------- files *)
  Definition stored := list (bytes * list C * N).
  Definition all_written (l : stored) : Prop := Forall (fun x => written (fst (fst x)) (snd (fst x)) (snd x)) l.
  Definition flat (l : stored) : bytes := concat (map (fun x => fst (fst x)) l).
  Definition changes_of (l : stored) : list C := concat (map (fun x => snd (fst x)) l).

  Lemma flat_app a b : flat (a ++ b) = flat a ++ flat b.
  Proof. unfold flat. rewrite map_app, concat_app. reflexivity. Qed.
  Lemma changes_app a b : changes_of (a ++ b) = changes_of a ++ changes_of b.
  Proof. unfold changes_of. rewrite map_app, concat_app. reflexivity. Qed.

  Lemma flat_length_ge l : all_written l -> (length l <= length (flat l))%nat.
  Proof.
    induction 1 as [|[[b cs] ty] l W _ IH]; cbn; [lia|].
    cbn in W. apply written_nonempty in W. unfold flat in IH. rewrite app_length.
    destruct b; [congruence|]. cbn [length]. lia.
  Qed.

  (* the chunk loop reads a file of written chunks followed by a strict prefix [p] of one more
     written chunk: all the complete chunks, and "complete" iff nothing is left over *)
  Lemma load_changes_cut : forall l fuel b cs ty k,
    all_written l -> written b cs ty -> (k < length b)%nat -> (length l <= fuel)%nat ->
    load_changes fuel (flat l ++ firstn k b) = (changes_of l, Nat.eqb k 0).
  Proof.
    induction l as [|[[b0 cs0] ty0] l IH]; intros fuel b cs ty k Hall W Hk Hf.
    - cbn [flat changes_of map concat app].
      destruct k as [|k].
      + cbn. destruct fuel; reflexivity.
      + destruct b as [|x b]; [cbn in Hk; lia|].
        destruct fuel as [|fuel]; [reflexivity|].
        cbn [Chunk.load_changes firstn].
        rewrite parse_chunk_header_err; [reflexivity|].
        exact (prefix_no_header _ _ _ (S k) W Hk).
    - inversion Hall as [|? ? W0 Hall']; subst. cbn [fst snd] in W0.
      destruct fuel as [|fuel]; [cbn in Hf; lia|].
      unfold flat, changes_of. cbn [map concat fst snd]. fold (flat l). fold (changes_of l).
      rewrite <- app_assoc.
      pose proof (written_nonempty _ _ _ W0) as Hne.
      destruct b0 as [|x0 b0]; [congruence|].
      cbn [app Chunk.load_changes].
      change (x0 :: b0 ++ flat l ++ firstn k b) with ((x0 :: b0) ++ flat l ++ firstn k b).
      rewrite (parse_written _ _ _ _ W0).
      rewrite (IH fuel b cs ty k Hall' W Hk); [reflexivity|cbn in Hf; lia].
  Qed.

  Lemma load_changes_full l fuel :
    all_written l -> (length l <= fuel)%nat -> load_changes fuel (flat l) = (changes_of l, true).
  Proof.
    intros Hall Hf.
    (* any written chunk serves as the (empty) left-over prefix; without one the file is empty *)
    destruct l as [|[[b cs] ty] l'] eqn:El; [destruct fuel; reflexivity|].
    inversion Hall as [|? ? W _]; subst. cbn [fst snd] in W.
    pose proof (load_changes_cut ((b, cs, ty) :: l') fuel b cs ty 0 Hall W) as H.
    rewrite app_nil_r in H. apply H; [|exact Hf].
    apply written_nonempty in W. destruct b; [congruence|cbn; lia].
  Qed.

  (* every cut of a file falls inside (or at the start of) exactly one chunk *)
  Lemma cut_decompose : forall (l : stored) k, (k < length (flat l))%nat ->
    exists l1 x l2 j, l = l1 ++ x :: l2 /\ (j < length (fst (fst x)))%nat /\
      firstn k (flat l) = flat l1 ++ firstn j (fst (fst x)) /\ k = (length (flat l1) + j)%nat.
  Proof.
    induction l as [|x l IH]; intros k Hk; [cbn in Hk; lia|].
    unfold flat in Hk |- *. cbn [map concat] in Hk |- *. fold (flat l) in Hk |- *.
    rewrite app_length in Hk.
    destruct (Nat.ltb k (length (fst (fst x)))) eqn:E.
    - apply Nat.ltb_lt in E. exists [], x, l, k. cbn [app map concat length].
      split; [reflexivity|]. split; [exact E|]. split; [|lia].
      rewrite firstn_app. assert (k - length (fst (fst x)) = 0)%nat as -> by lia.
      cbn [firstn]. rewrite app_nil_r. reflexivity.
    - apply Nat.ltb_ge in E.
      destruct (IH (k - length (fst (fst x)))%nat) as (l1 & y & l2 & j & -> & Hj & Hf & Hkk); [lia|].
      exists (x :: l1), y, l2, j. split; [reflexivity|]. split; [exact Hj|].
      cbn [map concat]. fold (flat l1). split.
      + rewrite firstn_app, Hf. rewrite firstn_all2 by lia. rewrite app_assoc. reflexivity.
      + rewrite app_length. lia.
  Qed.

  (* ---------------------------------------------------------------- load *)
  Variable D : Type.
  Variable empty : D.
  Variable apply : D -> list C -> res D.
  Variable queue_empty : D -> bool.
  Notation load := (load Hsh C body inflate D empty apply queue_empty).

  Definition strict_result (first_ty : N) (cs : list C) : res D :=
    let* d := apply empty cs in
    if negb (queue_empty d) && negb (first_ty =? CHUNK_DOCUMENT) then Err else Ok d.

  Lemma all_written_app a b : all_written (a ++ b) <-> all_written a /\ all_written b.
  Proof. apply Forall_app. Qed.

  (* a complete file: every chunk is read *)
  Theorem load_complete x l m :
    all_written (x :: l) ->
    load m (flat (x :: l)) =
      match m with
      | Ignore => apply empty (changes_of (x :: l))
      | Strict => strict_result (snd x) (changes_of (x :: l))
      end.
  Proof.
    intros Hall. inversion Hall as [|? ? W Hall']; subst.
    destruct x as [[b cs] ty]. cbn [fst snd] in *.
    unfold flat, changes_of. cbn [map concat fst snd]. fold (flat l). fold (changes_of l).
    pose proof (written_nonempty _ _ _ W) as Hne.
    unfold Chunk.load. destruct b as [|x0 b]; [congruence|]. cbn [app].
    change (x0 :: b ++ flat l) with ((x0 :: b) ++ flat l).
    rewrite (parse_written _ _ _ _ W). cbn [bind].
    rewrite load_changes_full; [|exact Hall'|apply flat_length_ge; exact Hall'].
    destruct m; unfold strict_result; [reflexivity|].
    destruct (apply empty (cs ++ changes_of l)); reflexivity.
  Qed.

  (* the file cut inside (or at the start of) chunk [x], after the complete chunks [l1] *)
  Theorem load_cut l1 b cs ty j m :
    all_written l1 -> written b cs ty -> (j < length b)%nat ->
    load m (flat l1 ++ firstn j b) =
      match l1 with
      | [] => if Nat.eqb j 0 then Ok empty else Err
      | x :: l =>
        match m with
        | Ignore => apply empty (changes_of l1)
        | Strict => if Nat.eqb j 0 then strict_result (snd x) (changes_of l1) else Err
        end
      end.
  Proof.
    intros Hall W Hj. destruct l1 as [|x l].
    - cbn [flat map concat app]. destruct j as [|j]; [reflexivity|].
      cbn [Nat.eqb]. unfold Chunk.load.
      destruct b as [|x0 b]; [cbn in Hj; lia|]. cbn [firstn].
      change (x0 :: firstn j b) with (firstn (S j) (x0 :: b)).
      rewrite parse_chunk_header_err; [reflexivity|]. exact (prefix_no_header _ _ _ _ W Hj).
    - inversion Hall as [|? ? W0 Hall']; subst.
      destruct x as [[b0 cs0] ty0]. cbn [fst snd] in *.
      unfold flat, changes_of. cbn [map concat fst snd]. fold (flat l). fold (changes_of l).
      pose proof (written_nonempty _ _ _ W0) as Hne.
      unfold Chunk.load. destruct b0 as [|x0 b0]; [congruence|].
      rewrite <- app_assoc. cbn [app].
      change (x0 :: b0 ++ flat l ++ firstn j b) with ((x0 :: b0) ++ flat l ++ firstn j b).
      rewrite (parse_written _ _ _ _ W0). cbn [bind].
      rewrite (load_changes_cut l _ b cs ty j Hall' W Hj).
      2:{ rewrite app_length. pose proof (flat_length_ge l Hall'). lia. }
      destruct (Nat.eqb j 0) eqn:Ej; destruct m; unfold strict_result; try reflexivity.
      destruct (apply empty (cs0 ++ changes_of l)); reflexivity.
  Qed.

  (* C13 in one statement: cut a file of written chunks at ANY byte [k].  With partial loads
     allowed the result is what the file cut at the last chunk boundary loads to (the empty
     document for the empty cut, an error inside the first chunk); a strict load of a cut that
     is not a chunk boundary is an error. *)
  Theorem truncated_load (l : stored) (k : nat) :
    all_written l -> (k <= length (flat l))%nat ->
    exists l1 l2, l = l1 ++ l2 /\ (length (flat l1) <= k)%nat /\
      (* l1 = the chunks wholly inside the cut; the cut ends inside the first chunk of l2 *)
      (forall x l2', l2 = x :: l2' -> (k < length (flat l1) + length (fst (fst x)))%nat) /\
      (l2 = [] -> k = length (flat l)) /\
      load Ignore (firstn k (flat l)) =
        (match l1 with
         | [] => if Nat.eqb k 0 then Ok empty else Err
         | _ => load Ignore (flat l1)
         end) /\
      (k <> length (flat l1) -> load Strict (firstn k (flat l)) = Err) /\
      (k = length (flat l1) -> load Strict (firstn k (flat l)) = load Strict (flat l1)).
  Proof.
    intros Hall Hk.
    destruct (Nat.eq_dec k (length (flat l))) as [Ek|Nk].
    - exists l, []. rewrite app_nil_r. subst k. rewrite firstn_all.
      split; [reflexivity|]. split; [lia|]. split; [discriminate|]. split; [reflexivity|].
      split; [|split; [congruence|reflexivity]].
      destruct l as [|x l']; [reflexivity|reflexivity].
    - destruct (cut_decompose l k) as (l1 & x & l2 & j & -> & Hj & Hf & Hkk); [lia|].
      apply all_written_app in Hall. destruct Hall as [H1 H2].
      inversion H2 as [|? ? W H2']; subst.
      exists l1, (x :: l2). split; [reflexivity|]. split; [lia|].
      split; [intros y l2' E; inversion E; subst; lia|]. split; [discriminate|].
      rewrite Hf. destruct x as [[b cs] ty]. cbn [fst snd] in *.
      rewrite (load_cut l1 b cs ty j Ignore H1 W Hj), (load_cut l1 b cs ty j Strict H1 W Hj).
      destruct l1 as [|y l1'].
      + cbn [flat map concat length] in *. cbn [Nat.add].
        split; [reflexivity|]. split.
        * intros Hne. destruct j; [lia|reflexivity].
        * intros ->. reflexivity.
      + rewrite (load_complete y l1' Ignore H1), (load_complete y l1' Strict H1).
        split; [reflexivity|]. split.
        * intros Hne. destruct j; [lia|reflexivity].
        * intros E. assert (j = 0)%nat as -> by lia. reflexivity.
  Qed.

  (* neither load ever panics (as far as framing goes: [apply] is the CRDT layer) *)
  Theorem load_no_panic m bs : (forall d cs, apply d cs <> Panic) -> load m bs <> Panic.
  Proof.
    intros Hap. unfold Chunk.load. destruct bs as [|x bs]; [discriminate|].
    pose proof (parse_chunk_no_panic (x :: bs)) as Hp.
    destruct (parse_chunk (x :: bs)) as [[[ty first] rest]| |]; cbn [bind]; try congruence.
    destruct (load_changes (length rest) rest) as [more complete].
    destruct complete.
    - pose proof (Hap empty (first ++ more)) as Ha.
      destruct (apply empty (first ++ more)); cbn [bind]; try congruence.
      destruct m; [destruct (negb (queue_empty a) && negb (ty =? CHUNK_DOCUMENT))|]; discriminate.
    - destruct m; [discriminate|apply Hap].
  Qed.

  Variable is_empty : D -> bool.
  Notation load_incremental := (load_incremental Hsh C body inflate D empty apply queue_empty is_empty).

  (* C12: feeding a non-empty document the concatenation of written pieces applies exactly their
     changes; an incomplete tail is dropped without an error *)
  Theorem load_incremental_complete d l :
    is_empty d = false -> all_written l ->
    load_incremental d (flat l) = apply d (changes_of l).
  Proof.
    intros He Hall. unfold Chunk.load_incremental. rewrite He.
    rewrite load_changes_full; [reflexivity|exact Hall|apply flat_length_ge; exact Hall].
  Qed.

  Theorem load_incremental_cut d l b cs ty j :
    is_empty d = false -> all_written l -> written b cs ty -> (j < length b)%nat ->
    load_incremental d (flat l ++ firstn j b) = apply d (changes_of l).
  Proof.
    intros He Hall W Hj. unfold Chunk.load_incremental. rewrite He.
    rewrite (load_changes_cut l _ b cs ty j Hall W Hj); [reflexivity|].
    rewrite app_length. pose proof (flat_length_ge l Hall). lia.
  Qed.
End Proofs.

(* C11 (framing part): the output of save is ONE document chunk; loading it, strictly or not, is
   the body's changes applied to the empty document — a strict load never rejects a document-first
   file because of held changes (orphans retained by save come back into the queue). *)
Section SaveLoad.
  Variable Hsh : bytes -> bytes.
  Hypothesis Hsh_len : forall x, (4 <= length (Hsh x))%nat.
  Variable C : Type.
  Variable body : N -> bytes -> option (list C).
  Variable inflate : bytes -> option bytes.
  Variable D : Type.
  Variable empty : D.
  Variable apply : D -> list C -> res D.
  Variable queue_empty : D -> bool.

  Theorem load_saved_document data cs m :
    lenN data < pow64 -> body CHUNK_DOCUMENT data = Some cs ->
    load Hsh C body inflate D empty apply queue_empty m (encode_chunk Hsh CHUNK_DOCUMENT data)
    = apply empty cs.
  Proof.
    intros Hlen Hb.
    assert (W : written Hsh C body inflate (encode_chunk Hsh CHUNK_DOCUMENT data) cs CHUNK_DOCUMENT)
      by (apply w_plain; [reflexivity|discriminate|exact Hlen|exact Hb]).
    pose proof (load_complete Hsh Hsh_len C body inflate D empty apply queue_empty
                  (encode_chunk Hsh CHUNK_DOCUMENT data, cs, CHUNK_DOCUMENT) [] m) as H.
    unfold flat, changes_of in H. cbn [map concat fst snd] in H. rewrite !app_nil_r in H.
    rewrite H; [|constructor; [exact W|constructor]].
    destruct m; [|reflexivity]. unfold strict_result.
    destruct (apply empty cs); cbn [bind]; try reflexivity.
    assert ((CHUNK_DOCUMENT =? CHUNK_DOCUMENT) = true) as -> by reflexivity.
    rewrite andb_false_r. reflexivity.
  Qed.
End SaveLoad.
