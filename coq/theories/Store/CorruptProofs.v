(* Store/CorruptProofs.v — what the chunk checksum buys (C14).

   [accepted_is_canonical]: every byte string the chunk parser accepts is, byte for byte, the
   writer's encoding of the (type, data) pair it carries (magic, the checksum OF THAT PAIR, type,
   minimal LEB128 length, data).  So a corrupted chunk can only be accepted as a DIFFERENT
   (type, data) pair whose 4-byte checksum equals the stored checksum field: a collision of the
   truncated hash when the field is intact, impossible when only the field was hit.
   Compressed change chunks (type 2) are different: the checksum covers the INFLATED bytes, so any
   two deflate streams of one length that inflate to the same bytes are both accepted. *)
From AM Require Import Base.Prelude Base.Leb128 Gen.Consts Store.Chunk Store.ChunkProofs.
Local Open Scope N_scope.

Section Corrupt.
  Variable Hsh : bytes -> bytes.
  Hypothesis Hsh_len : forall x, (4 <= length (Hsh x))%nat.
  Variable C : Type.
  Variable body : N -> bytes -> option (list C).
  Variable inflate : bytes -> option bytes.
  Notation parse_chunk := (parse_chunk Hsh C body inflate).
  Notation encode_chunk := (encode_chunk Hsh).
  Notation encode_compressed := (encode_compressed Hsh).
  Notation checksum_of := (checksum_of Hsh).
  Let cklen := checksum_len Hsh Hsh_len C body inflate.

  (* a parsable header is the canonical header of its fields *)
  Lemma header_canonical bs h rest :
    wf_bytes bs -> parse_header bs = Ok (h, rest) ->
    bs = MAGIC_BYTES ++ h_checksum h ++ [h_type h] ++ uleb_enc (lenN (h_data h)) ++ h_data h ++ rest
    /\ length (h_checksum h) = 4%nat /\ valid_type (h_type h) = true /\ lenN (h_data h) < pow64.
  Proof.
    intros Hwf H. unfold parse_header in H.
    destruct (take_n 4 bs) as [[magic i]|] eqn:E1; [|discriminate].
    destruct (negb (bytes_eqb magic MAGIC_BYTES)) eqn:Em; [discriminate|].
    apply negb_false_iff, bytes_eqb_spec in Em. subst magic.
    destruct (take_n 4 i) as [[ck i2]|] eqn:E2; [|discriminate].
    destruct i2 as [|ty i3]; [discriminate|].
    destruct (negb (valid_type ty)) eqn:Ety; [discriminate|]. apply negb_false_iff in Ety.
    apply take_n_sound in E1. destruct E1 as [-> _].
    apply take_n_sound in E2. destruct E2 as [-> Hck].
    assert (Hwf3 : wf_bytes i3).
    { apply wf_bytes_app in Hwf. destruct Hwf as [_ Hwf]. apply wf_bytes_app in Hwf.
      destruct Hwf as [_ Hwf]. inversion Hwf; assumption. }
    destruct (uleb_dec i3) as [[len i4]| |] eqn:E3; cbn [bind] in H; try discriminate.
    apply (uleb_canonical _ _ _ Hwf3) in E3. destruct E3 as [-> Hlen].
    destruct (take_N len i4) as [[data r]|] eqn:E4; [|discriminate].
    apply take_N_spec in E4. destruct E4 as [-> Hl]. inversion H; subst.
    cbn [h_checksum h_type h_data]. repeat split; auto.
  Qed.

  (* every accepted uncompressed chunk is the writer's encoding of its (type, data) *)
  Theorem accepted_is_canonical bs ty cs rest :
    wf_bytes bs -> parse_chunk bs = Ok (ty, cs, rest) -> ty <> CHUNK_COMPRESSED ->
    exists data, bs = encode_chunk ty data ++ rest /\ body ty data = Some cs.
  Proof.
    intros Hwf H Hnc. unfold Chunk.parse_chunk in H.
    destruct (parse_header bs) as [[h r]| |] eqn:Eh; cbn [bind] in H; try discriminate.
    destruct (header_canonical _ _ _ Hwf Eh) as (Hbs & Hck & Hty & Hlen).
    destruct (h_type h =? CHUNK_COMPRESSED) eqn:Ec.
    - destruct (inflate (h_data h)); [|discriminate]. destruct (body CHUNK_CHANGE b); [|discriminate].
      destruct (bytes_eqb _ _); [|discriminate]. inversion H; subst. apply N.eqb_eq in Ec. congruence.
    - destruct (body (h_type h) (h_data h)) as [cs'|] eqn:Eb; [|discriminate].
      destruct (bytes_eqb (checksum_of (h_type h) (h_data h)) (h_checksum h)) eqn:Ek; [|discriminate].
      apply bytes_eqb_spec in Ek. injection H as Et Ecs Er. subst ty cs' rest. exists (h_data h). split; [|exact Eb].
      unfold Chunk.encode_chunk. rewrite Ek. repeat rewrite <- app_assoc. exact Hbs.
  Qed.

  Lemma app_same_length {A} (a b c d : list A) : a ++ b = c ++ d -> length a = length c -> a = c /\ b = d.
  Proof.
    revert c; induction a as [|x a IH]; intros [|y c] H Hl; cbn in *; try discriminate.
    - auto.
    - inversion H; subst. destruct (IH c H2) as [-> ->]; [lia|]. auto.
  Qed.

  (* C14: [x] stands where the writer put the chunk [encode_chunk ty data] (same length, followed
     by [tail]) but is not that chunk.  If the parser accepts it at all, it accepts it as a
     different (type, data) pair, and that pair's checksum is what the checksum field of [x] says *)
  Theorem corrupted_chunk x tail ty data ty' cs' rest' :
    wf_bytes (x ++ tail) ->
    length x = length (encode_chunk ty data) -> x <> encode_chunk ty data ->
    parse_chunk (x ++ tail) = Ok (ty', cs', rest') -> ty' <> CHUNK_COMPRESSED ->
    exists data', (ty', data') <> (ty, data) /\ x ++ tail = encode_chunk ty' data' ++ rest'
      /\ firstn 4 (skipn 4 (x ++ tail)) = checksum_of ty' data'.
  Proof.
    intros Hwf Hlen Hne Hp Hnc.
    destruct (accepted_is_canonical _ _ _ _ Hwf Hp Hnc) as (data' & Hx & _).
    exists data'. split; [|split; [exact Hx|]].
    - intros E. inversion E; subst. apply Hne.
      apply app_same_length in Hx; [tauto|exact Hlen].
    - rewrite Hx. unfold Chunk.encode_chunk. repeat rewrite <- app_assoc.
      change (skipn 4 (MAGIC_BYTES ++ ?r)) with r.
      rewrite <- (cklen ty' data') at 1. rewrite firstn_app, Nat.sub_diag, firstn_all. cbn [firstn]. apply app_nil_r.
  Qed.

  (* ... so when the checksum field was not hit, acceptance needs a collision of the 4-byte checksum *)
  Corollary corrupted_chunk_collision x tail ty data ty' cs' rest' :
    wf_bytes (x ++ tail) ->
    length x = length (encode_chunk ty data) -> x <> encode_chunk ty data ->
    firstn 4 (skipn 4 x) = checksum_of ty data ->
    parse_chunk (x ++ tail) = Ok (ty', cs', rest') -> ty' <> CHUNK_COMPRESSED ->
    exists data', (ty', data') <> (ty, data) /\ checksum_of ty' data' = checksum_of ty data.
  Proof.
    intros Hwf Hlen Hne Hck Hp Hnc.
    destruct (corrupted_chunk _ _ _ _ _ _ _ Hwf Hlen Hne Hp Hnc) as (data' & Hd & _ & Hf).
    exists data'. split; [exact Hd|]. rewrite <- Hf, <- Hck.
    assert (8 <= length x)%nat.
    { rewrite Hlen. unfold Chunk.encode_chunk. repeat rewrite app_length.
      rewrite cklen. cbn. lia. }
    rewrite skipn_app, firstn_app, skipn_length.
    assert (4 - (length x - 4) = 0)%nat as -> by lia.
    assert (4 - length x = 0)%nat as -> by lia. cbn [skipn firstn]. rewrite app_nil_r. reflexivity.
  Qed.

  (* ... and when ONLY the checksum field was hit, the chunk is rejected outright *)
  Theorem checksum_field_hit ck tail ty data :
    length ck = 4%nat -> ck <> checksum_of ty data ->
    valid_type ty = true -> ty <> CHUNK_COMPRESSED -> lenN data < pow64 ->
    parse_chunk (MAGIC_BYTES ++ ck ++ [ty] ++ uleb_enc (lenN data) ++ data ++ tail) = Err.
  Proof.
    intros Hck Hne Hty Hnc Hlen. unfold Chunk.parse_chunk.
    rewrite (parse_header_written ck ty data tail Hck Hty Hlen). cbn [bind h_type h_data h_checksum].
    assert ((ty =? CHUNK_COMPRESSED) = false) as -> by (apply N.eqb_neq; exact Hnc).
    destruct (body ty data); [|reflexivity].
    destruct (bytes_eqb (checksum_of ty data) ck) eqn:E; [|reflexivity].
    apply bytes_eqb_spec in E. congruence.
  Qed.

  (* compressed change chunks: the full statement of C14 is REFUTED in the model (and in the code:
     the DEFLATE padding bits of the last byte) — the checksum does not cover the deflate stream *)
  Theorem compressed_stream_not_covered d d' plain cs rest :
    lenN d < pow64 -> lenN d' < pow64 -> inflate d = Some plain -> inflate d' = Some plain ->
    body CHUNK_CHANGE plain = Some cs ->
    parse_chunk (encode_compressed d' plain ++ rest) = Ok (CHUNK_COMPRESSED, cs, rest)
    /\ (d <> d' -> encode_compressed d' plain <> encode_compressed d plain).
  Proof.
    intros Hld Hl Hi Hi' Hb. split.
    - apply (parse_written Hsh Hsh_len). apply w_compressed; assumption.
    - intros Hne E. unfold Chunk.encode_compressed in E.
      apply app_inv_head in E. apply app_same_length in E; [|rewrite !cklen; reflexivity].
      destruct E as [_ E]. cbn [app] in E. inversion E as [E'].
      assert (length (uleb_enc (lenN d') ++ d') = length (uleb_enc (lenN d) ++ d)) as HL by (rewrite E'; reflexivity).
      (* equal streams: decode the length prefix on both sides *)
      assert (Hd : uleb_dec (uleb_enc (lenN d') ++ d') = uleb_dec (uleb_enc (lenN d) ++ d)) by (rewrite E'; reflexivity).
      rewrite (uleb_roundtrip _ _ Hl), (uleb_roundtrip _ _ Hld) in Hd. inversion Hd. congruence.
  Qed.
End Corrupt.
