(* Store/DocBodyProofs.v — the document chunk body inside the chunk framing of Store/Chunk.v. *)
From AM Require Import Base.Prelude Base.Leb128 Gen.Consts Store.Chunk Store.ChunkProofs
  Store.DocChunk Store.DocChunkProofs Store.DocCols Exec.DocExec.
Local Open Scope N_scope.

Section Framed.
  Variable Hsh : bytes -> bytes.
  Hypothesis Hsh_len : forall x, (4 <= length (Hsh x))%nat.
  Variable C : Type.
  Variable inflate : bytes -> option bytes.
  Variable recon : doc_body -> list chmeta -> option (list C).
  Variable other : N -> bytes -> option (list C).
  Variable D : Type.
  Variable empty : D.
  Variable apply : D -> list C -> res D.
  Variable queue_empty : D -> bool.

  (* the file save writes for a well-formed body loads to the changes reconstructed from exactly
     that body and its decoded change metadata *)
  Theorem load_saved_doc_body d ms cs m :
    wf_doc d -> lenN (write_doc d) < pow64 -> doc_metas d = Ok ms -> recon d ms = Some cs ->
    load Hsh C (doc_chunk_body inflate recon other) inflate D empty apply queue_empty m
      (encode_chunk Hsh CHUNK_DOCUMENT (write_doc d)) = apply empty cs.
  Proof.
    intros Hwf Hlen Hm Hr. apply (load_saved_document Hsh Hsh_len); [exact Hlen|].
    unfold doc_chunk_body. change (CHUNK_DOCUMENT =? CHUNK_DOCUMENT) with true. cbn iota.
    rewrite doc_body_roundtrip by exact Hwf. rewrite Hm. exact Hr.
  Qed.
End Framed.

(* a concrete, non-trivial instance of the change-column codec (three actors, a merge, messages,
   negative / large times, extra bytes): decode inverts encode, and the decoded list is well-formed *)
Definition ex_metas : list chmeta :=
  [ mkMeta 2 1 3 (-62135596800000)%Z None [] [];
    mkMeta 0 1 5 1700000000000%Z (Some [104; 195; 169]) [0] [1; 2; 3];
    mkMeta 1 1 4 0%Z (Some []) [0] [];
    mkMeta 2 2 9 4611686018427387903%Z None [1; 2] [255];
    mkMeta 2 3 9 (-1)%Z (Some [102; 105; 120]) [3] [] ].

Example ex_metas_wf : wf_metasb 3 ex_metas = true.
Proof. vm_compute. reflexivity. Qed.

Example ex_metas_roundtrip : decode_change_cols 3 (encode_change_cols ex_metas) = Ok ex_metas.
Proof. vm_compute. reflexivity. Qed.

(* the streaming decoders of the change columns panic on untrusted bytes (known findings of C15:
   change_graph.rs [load] index out of bounds, hexane [get_null], [unpack]) *)
Theorem decode_change_cols_panics_refuted :
  exists cols, decode_change_cols 1 cols = Panic.
Proof. exists [(1, [0; 1])]. vm_compute. reflexivity. Qed.

Theorem decode_change_cols_dep_index_panics_refuted :
  exists cols ms, decode_change_cols 1 cols = Panic
    /\ decode_change_cols 1 (encode_change_cols ms) = Ok ms /\ length ms = 1%nat.
Proof.
  (* one change whose dependency index 5 points past the end: max_ops[5] *)
  exists [(1, [1; 0]); (3, [1; 1]); (19, [1; 1]); (35, [127; 0]); (64, [1; 1]); (67, [1; 5]); (86, [127; 7])].
  exists [mkMeta 0 1 1 0%Z None [] []].
  split; [vm_compute; reflexivity|]. split; [vm_compute; reflexivity|reflexivity].
Qed.
