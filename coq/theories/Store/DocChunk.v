(* Store/DocChunk.v — the BODY of a document chunk (chunk type 0) as
   rust/automerge/src/storage/document.rs reads and writes it (the change-metadata columns
   inside it are Store/DocCols.v).

   Reader  = [Document::parse] (storage/document.rs) + the [LeftoverData] test of [Chunk::parse]
             (storage/chunk.rs), built from the combinators of storage/parse.rs ([length_prefixed],
             [actor_id], [change_hash], [take_n], [apply_n], [range_only_unless_empty]),
             [RawColumns::parse] / [total_column_len] / [uncompressed] / [uncompress]
             (storage/columns/raw_column.rs; the first two are Store/ChangeChunk.v [p_columns] /
             [sum_checked]), [compression::decompress] (storage/document/compression.rs) and
             [OpSet::validate] / [ChangeGraph::validate] = [Columns::parse2]
             (Store/ChangeChunk.v [columns_parse2]).
   Writer  = [Document::new] with [CompressConfig::None] + [into_bytes] (the chunk DATA, i.e. the
             bytes after the chunk header).

   body = uleb(#actors) ‖ (uleb(|a|) ‖ a)* ‖ uleb(#heads) ‖ heads (32 bytes each)
          ‖ uleb(#change cols) ‖ (uleb(spec) ‖ uleb(len))* ‖ uleb(#op cols) ‖ (uleb(spec) ‖ uleb(len))*
          ‖ change column data ‖ op column data ‖ head indexes (uleb each, as many as heads, or nothing)

   Checks the reader performs, all mirrored: canonical (shortest) LEB128 everywhere, u32 column
   specs, both column-spec lists in non-strict normalised order ([are_normal_sorted]; duplicates
   accepted), both data blocks present in full, head indexes either ABSENT (the input ends after the
   op column data: "older JS implementation") or exactly one LEB128 per head, nothing after them
   ([LeftoverData]), the column layout state machine of [Columns::parse2] over both (uncompressed)
   spec lists.  Checks the reader does NOT perform (so they are absent here): the actor table is not
   required to be sorted or duplicate free; the VALUES of the head indexes are never looked at
   (any u64 is accepted, see DocChunkProofs [parse_doc_head_index_unchecked]); unknown column
   specs and empty columns are accepted (and later ignored).

   DEFLATE is the section variable [inflate].  When no column of either list carries the deflate
   bit the data is used as it is (no slicing at all).  Otherwise BOTH blocks are rebuilt column by
   column ([uncompress]): the slices [input[col.data]] are modelled as [Panic] when out of range
   (proved unreachable: the block holds exactly the sum of the column lengths).  The parsed value
   always carries the UNCOMPRESSED column metadata (deflate bit cleared, inflated lengths) and data.
   Quirk not visible in the parsed value: with compressed columns and ABSENT head indexes the
   reader's [suffix] offset is 0, so the rebuilt buffer ends with a copy of the whole original
   chunk; only the change / op ranges of that buffer are ever read.

   No proofs in this file. *)
From AM Require Import Base.Prelude Base.Leb128 Gen.Consts Store.Chunk Store.ChangeChunk.
Local Open Scope N_scope.

Record doc_body := mkDoc {
  d_actors : list bytes;
  d_heads : list bytes;
  d_ccols : list (N * N);     (* change-metadata columns: (spec, length), uncompressed *)
  d_ocols : list (N * N);     (* op columns: (spec, length), uncompressed *)
  d_cdata : bytes;            (* change column data *)
  d_odata : bytes;            (* op column data *)
  d_hidx : list N             (* head indexes; [] = absent *)
}.

(* [ColumnSpec::inflated] = [ColumnSpec::new(self.id(), self.col_type(), false)], whose
   [raw &= 0b11110111] on a u32 clears the deflate bit AND every bit above bit 7 (the quirk of
   [normalize]): the inflated spec of a compressed column with id >= 16 loses its high id bits *)
Definition spec_inflated (s : N) : N := spec_normalize s.

(* [Columns::parse2] as accept / reject ([check_contiguous] / [check_bounds] cannot fail: see the
   header of Store/ChangeChunk.v) *)
Definition parse2_ok (ss : list N) : bool :=
  match columns_parse2 ss with Ok _ => true | _ => false end.

Section Doc.
  Variable inflate : bytes -> option bytes.

  (* [RawColumns::uncompress]: copy or inflate column by column *)
  Fixpoint uncompress (cols : list (N * N)) (data : bytes) : res (list (N * N) * bytes) :=
    match cols with
    | [] => Ok ([], [])
    | (s, l) :: t =>
      match take_N l data with
      | None => Panic                                        (* &input[self.data.clone()] *)
      | Some (a, r) =>
        if spec_deflate s then
          match inflate a with
          | None => Err                                      (* ParseError::Deflate *)
          | Some p =>
            let* (t', d') := uncompress t r in Ok ((spec_inflated s, lenN p) :: t', p ++ d')
          end
        else
          let* (t', d') := uncompress t r in Ok ((s, l) :: t', a ++ d')
      end
    end.

  Definition any_deflate (cols : list (N * N)) : bool := existsb spec_deflate (map fst cols).

  (* [compression::decompress] *)
  Definition decompress (ccols ocols : list (N * N)) (cdata odata : bytes)
    : res (list (N * N) * bytes * (list (N * N) * bytes)) :=
    if negb (any_deflate ccols) && negb (any_deflate ocols) then Ok (ccols, cdata, (ocols, odata))
    else
      let* c := uncompress ccols cdata in
      let* o := uncompress ocols odata in
      Ok (c, o).

  (* the suffix: [range_only_unless_empty (apply_n heads.len() leb128_u64)] *)
  Definition p_suffix (nheads : nat) (i : bytes) : res (list N * bytes) :=
    match i with
    | [] => Ok ([], [])
    | _ => rep_nat uleb_dec nheads i
    end.

  (* [Document::parse] on the chunk data, then the [LeftoverData] test of [Chunk::parse] *)
  Definition parse_doc (b : bytes) : res doc_body :=
    let* (actors, i) := p_counted p_lpbytes b in
    let* (heads, i) := p_counted p_hash i in
    let* (ccols, i) := p_columns i in
    let* (ocols, i) := p_columns i in
    let* clen := sum_checked (map snd ccols) 0 in
    let* (cdata, i) := p_take clen i in
    let* olen := sum_checked (map snd ocols) 0 in
    let* (odata, i) := p_take olen i in
    let* (hidx, i) := p_suffix (length heads) i in
    let* (c, o) := decompress ccols ocols cdata odata in
    if negb (parse2_ok (map fst (fst o))) then Err else          (* BadColumnLayout "ops" *)
    if negb (parse2_ok (map fst (fst c))) then Err else          (* BadColumnLayout "changes" *)
    match i with
    | [] => Ok (mkDoc actors heads (fst c) (fst o) (snd c) (snd o) hidx)
    | _ => Err                                                   (* LeftoverData *)
    end.
End Doc.

(* ---------------------------------------------------------------- writer *)
(* [Document::new] (uncompressed): the chunk data *)
Definition write_doc (d : doc_body) : bytes :=
  uleb_enc (N.of_nat (length (d_actors d))) ++ concat (map e_lpbytes (d_actors d))
  ++ uleb_enc (N.of_nat (length (d_heads d))) ++ concat (d_heads d)
  ++ uleb_enc (N.of_nat (length (d_ccols d))) ++ concat (map e_colpair (d_ccols d))
  ++ uleb_enc (N.of_nat (length (d_ocols d))) ++ concat (map e_colpair (d_ocols d))
  ++ d_cdata d
  ++ d_odata d
  ++ concat (map uleb_enc (d_hidx d)).

(* ---------------------------------------------------------------- well-formed bodies *)
Definition wf_colsb (cols : list (N * N)) (data : bytes) : bool :=
  forallb (fun sl => (fst sl <=? u32_max) && (snd sl <? pow64)) cols
  && (N.of_nat (length cols) <? pow64)
  && normal_sorted (map fst cols)
  && negb (existsb spec_deflate (map fst cols))
  && parse2_ok (map fst cols)
  && (sumN (map snd cols) =? lenN data) && (lenN data <? pow64)
  && wf_bytesb data.

Definition wf_docb (d : doc_body) : bool :=
  forallb (fun a => wf_bytesb a && (lenN a <? pow64)) (d_actors d)
  && (N.of_nat (length (d_actors d)) <? pow64)
  && forallb (fun h => (lenN h =? HASH_SIZE) && wf_bytesb h) (d_heads d)
  && (N.of_nat (length (d_heads d)) <? pow64)
  && wf_colsb (d_ccols d) (d_cdata d)
  && wf_colsb (d_ocols d) (d_odata d)
  && forallb (fun x => x <? pow64) (d_hidx d)
  && (match d_hidx d with [] => true | _ => Nat.eqb (length (d_hidx d)) (length (d_heads d)) end).

Definition wf_doc (d : doc_body) : Prop := wf_docb d = true.
