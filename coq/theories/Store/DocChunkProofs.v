(* Store/DocChunkProofs.v — theorems about the document-chunk body model (Store/DocChunk.v).

   - [doc_body_roundtrip]: the reader inverts the writer on every well-formed body, whatever
     [inflate] is (the uncompressed path never calls it);
   - [doc_body_canonical]: with compressed columns ruled out ([inflate] = nowhere defined) the
     reader accepts ONLY the writer's output: a parsed body re-encodes to the very bytes it was
     parsed from and is well-formed.  The head-index VALUES are part of the parsed value, so this
     holds although the reader never checks them: [parse_doc_head_index_unchecked] exhibits two
     different accepted bodies that differ in a head index only (the loader ignores it);
     [parse_doc_compressed_not_canonical]: with DEFLATE, bodies that are not the writer's
     uncompressed output are accepted (expected: that is what compression is);
   - [parse_doc_no_panic]: no input and no [inflate] make the reader panic (the overflow-checked
     sums cannot overflow, the column slices of [uncompress] are in range);
   - [parse_doc_count_bound]: a declared actor / head / column count larger than the remaining
     input is rejected before any element is read. *)
From AM Require Import Base.Prelude Base.Leb128 Gen.Consts
  Store.Chunk Store.ChunkProofs Store.ChangeChunk Store.ChangeChunkProofs Store.DocChunk.
Local Open Scope N_scope.

Ltac Zify.zify_post_hook ::= Z.div_mod_to_equations.

(* ---------------------------------------------------------------- head indexes *)
Definition V_u64 (n : N) : Prop := n < pow64.

Lemma uleb_rt' x rest : V_u64 x -> uleb_dec (uleb_enc x ++ rest) = Ok (x, rest).
Proof. intros H. apply uleb_roundtrip. exact H. Qed.

Lemma uleb_can' l x rest : wf_bytes l -> uleb_dec l = Ok (x, rest) -> l = uleb_enc x ++ rest /\ V_u64 x.
Proof. intros Hwf H. apply uleb_canonical; assumption. Qed.

Definition idx_rt := rep_nat_rt uleb_dec uleb_enc V_u64 uleb_rt'.
Definition idx_can := rep_nat_can uleb_dec uleb_enc V_u64 uleb_rt' uleb_can' uleb_dec_no_panic (fun x _ => uleb_enc_nonempty x).
Definition idx_np := rep_nat_no_panic uleb_dec uleb_dec_no_panic.

Lemma concat_uleb_nonempty x t : concat (map uleb_enc (x :: t)) <> [].
Proof.
  cbn [map concat]. pose proof (uleb_enc_nonempty x) as H. destruct (uleb_enc x); cbn in *; [lia|discriminate].
Qed.

Lemma p_suffix_rt hidx n :
  Forall V_u64 hidx -> (hidx = [] \/ length hidx = n) ->
  p_suffix n (concat (map uleb_enc hidx)) = Ok (hidx, []).
Proof.
  intros Hv [->| <-]; [reflexivity|].
  destruct hidx as [|x t]; [reflexivity|].
  unfold p_suffix. destruct (concat (map uleb_enc (x :: t))) eqn:E.
  - exfalso. exact (concat_uleb_nonempty x t E).
  - rewrite <- E. rewrite <- (app_nil_r (concat (map uleb_enc (x :: t)))). apply idx_rt. exact Hv.
Qed.

Lemma p_suffix_can n l hidx rest :
  wf_bytes l -> p_suffix n l = Ok (hidx, rest) ->
  l = concat (map uleb_enc hidx) ++ rest /\ Forall V_u64 hidx /\ (hidx = [] \/ length hidx = n).
Proof.
  intros Hwf H. unfold p_suffix in H. destruct l as [|b l'].
  - inversion H; subst. cbn. auto.
  - apply idx_can in H; [|exact Hwf]. destruct H as (E & Hv & Hn). auto.
Qed.

Lemma p_suffix_no_panic n l : p_suffix n l <> Panic.
Proof. unfold p_suffix. destruct l; [discriminate|apply idx_np]. Qed.

(* ---------------------------------------------------------------- sums and slices *)
Lemma sum_checked_ok : forall l acc t, sum_checked l acc = Ok t -> t = acc + sumN l.
Proof.
  induction l as [|x l IH]; intros acc t H; cbn [sum_checked sumN fold_right] in *.
  - inversion H. lia.
  - destruct (u64_max <? acc + x); [discriminate|]. apply IH in H. fold (sumN l). lia.
Qed.

Lemma take_N_none n l : take_N n l = None -> lenN l < n.
Proof.
  unfold take_N. destruct (lenN l <? n) eqn:E; [lia|].
  intros H. apply take_n_short in H. unfold lenN in *. lia.
Qed.

Section WithInflate.
  Variable inflate : bytes -> option bytes.

  Lemma uncompress_no_panic : forall cols data,
    sumN (map snd cols) <= lenN data -> uncompress inflate cols data <> Panic.
  Proof.
    induction cols as [|[s l] t IH]; intros data H; cbn [uncompress]; [discriminate|].
    cbn [map snd sumN fold_right] in H. fold (sumN (map snd t)) in H.
    destruct (take_N l data) as [[a r]|] eqn:E.
    - apply take_N_spec in E. destruct E as [-> Hl]. rewrite lenN_app in H.
      assert (Hr : sumN (map snd t) <= lenN r) by lia.
      specialize (IH r Hr).
      destruct (spec_deflate s).
      + destruct (inflate a); [|discriminate].
        destruct (uncompress inflate t r) as [[t' d']| |]; cbn [bind]; congruence.
      + destruct (uncompress inflate t r) as [[t' d']| |]; cbn [bind]; congruence.
    - apply take_N_none in E. lia.
  Qed.

  Lemma decompress_no_panic ccols ocols cdata odata :
    sumN (map snd ccols) <= lenN cdata -> sumN (map snd ocols) <= lenN odata ->
    decompress inflate ccols ocols cdata odata <> Panic.
  Proof.
    intros Hc Ho. unfold decompress.
    destruct (negb (any_deflate ccols) && negb (any_deflate ocols)); [discriminate|].
    pose proof (uncompress_no_panic ccols cdata Hc) as P1.
    destruct (uncompress inflate ccols cdata) as [c| |]; cbn [bind]; try congruence.
    pose proof (uncompress_no_panic ocols odata Ho) as P2.
    destruct (uncompress inflate ocols odata) as [o| |]; cbn [bind]; congruence.
  Qed.

  (* ---------------------------------------------------------------- no panic *)
  Theorem parse_doc_no_panic b : parse_doc inflate b <> Panic.
  Proof.
    unfold parse_doc.
    pose proof (p_counted_no_panic p_lpbytes p_lpbytes_no_panic b) as P1.
    destruct (p_counted p_lpbytes b) as [[actors i1]| |]; cbn [bind]; try congruence.
    pose proof (p_counted_no_panic p_hash p_hash_no_panic i1) as P2.
    destruct (p_counted p_hash i1) as [[heads i2]| |]; cbn [bind]; try congruence.
    pose proof (p_columns_no_panic i2) as P3.
    destruct (p_columns i2) as [[ccols i3]| |] eqn:Ec; cbn [bind]; try congruence.
    pose proof (p_columns_no_panic i3) as P4.
    destruct (p_columns i3) as [[ocols i4]| |] eqn:Eo; cbn [bind]; try congruence.
    assert (Hsum : forall i cols j, p_columns i = Ok (cols, j) -> exists t, sum_checked (map snd cols) 0 = Ok t).
    { intros i cols j E. unfold p_columns in E.
      destruct (p_counted p_colpair i) as [[raw k]| |]; cbn [bind] in E; try discriminate.
      destruct (negb (normal_sorted (map fst (col_ranges 0 raw)))); [discriminate|].
      inversion E; subst. eexists. apply sum_checked_ranges. unfold u64_max. lia. }
    destruct (Hsum _ _ _ Ec) as [clen Hc]. rewrite Hc. cbn [bind].
    pose proof (p_take_no_panic clen i4) as P5.
    destruct (p_take clen i4) as [[cdata i5]| |] eqn:Et1; cbn [bind]; try congruence.
    destruct (Hsum _ _ _ Eo) as [olen Ho]. rewrite Ho. cbn [bind].
    pose proof (p_take_no_panic olen i5) as P6.
    destruct (p_take olen i5) as [[odata i6]| |] eqn:Et2; cbn [bind]; try congruence.
    pose proof (p_suffix_no_panic (length heads) i6) as P7.
    destruct (p_suffix (length heads) i6) as [[hidx i7]| |]; cbn [bind]; try congruence.
    apply p_take_spec in Et1. destruct Et1 as [_ L1]. apply p_take_spec in Et2. destruct Et2 as [_ L2].
    apply sum_checked_ok in Hc. apply sum_checked_ok in Ho.
    assert (D : decompress inflate ccols ocols cdata odata <> Panic) by (apply decompress_no_panic; lia).
    destruct (decompress inflate ccols ocols cdata odata) as [[c o]| |]; cbn [bind]; try congruence.
    destruct (negb (parse2_ok (map fst (fst o)))); [discriminate|].
    destruct (negb (parse2_ok (map fst (fst c)))); [discriminate|].
    destruct i7; discriminate.
  Qed.
End WithInflate.

(* ---------------------------------------------------------------- well-formedness, as propositions *)
Record WFC (cols : list (N * N)) (data : bytes) : Prop := mkWFC {
  wc_cols : Forall V_col cols;
  wc_n : N.of_nat (length cols) < pow64;
  wc_sorted : normal_sorted (map fst cols) = true;
  wc_nodeflate : existsb spec_deflate (map fst cols) = false;
  wc_layout : parse2_ok (map fst cols) = true;
  wc_total : sumN (map snd cols) = lenN data;
  wc_len : lenN data < pow64;
  wc_bytes : wf_bytes data
}.

Lemma wf_colsb_WFC cols data : wf_colsb cols data = true <-> WFC cols data.
Proof.
  unfold wf_colsb. repeat rewrite andb_true_iff.
  rewrite (forallb_Forall _ V_col).
  2:{ intros [s l]. unfold V_col. cbn [fst snd]. rewrite andb_true_iff, N.leb_le, N.ltb_lt. tauto. }
  rewrite wf_bytesb_spec, negb_true_iff, N.eqb_eq. repeat rewrite N.ltb_lt.
  split.
  - intros H. decompose [and] H. constructor; auto.
  - intros H. destruct H. tauto.
Qed.

Definition V_idx (hidx : list N) (heads : list bytes) : Prop := hidx = [] \/ length hidx = length heads.

Record WFD (d : doc_body) : Prop := mkWFD {
  wd_actors : Forall V_lp (d_actors d);
  wd_actors_b : Forall wf_bytes (d_actors d);
  wd_nactors : N.of_nat (length (d_actors d)) < pow64;
  wd_heads : Forall V_hash (d_heads d);
  wd_heads_b : Forall wf_bytes (d_heads d);
  wd_nheads : N.of_nat (length (d_heads d)) < pow64;
  wd_c : WFC (d_ccols d) (d_cdata d);
  wd_o : WFC (d_ocols d) (d_odata d);
  wd_idx : Forall V_u64 (d_hidx d);
  wd_nidx : V_idx (d_hidx d) (d_heads d)
}.

Lemma wf_doc_WFD d : wf_doc d <-> WFD d.
Proof.
  unfold wf_doc, wf_docb. repeat rewrite andb_true_iff.
  rewrite (forallb_Forall _ (fun a => wf_bytes a /\ V_lp a)).
  2:{ intros a. rewrite andb_true_iff, wf_bytesb_spec. unfold V_lp. rewrite N.ltb_lt. tauto. }
  rewrite (forallb_Forall _ (fun h => V_hash h /\ wf_bytes h)).
  2:{ intros h. rewrite andb_true_iff, wf_bytesb_spec. unfold V_hash. rewrite N.eqb_eq. tauto. }
  rewrite (forallb_Forall _ V_u64).
  2:{ intros x. unfold V_u64. apply N.ltb_lt. }
  repeat rewrite Forall_and_split. repeat rewrite wf_colsb_WFC. repeat rewrite N.ltb_lt.
  assert (Hi : (match d_hidx d with [] => true | _ => Nat.eqb (length (d_hidx d)) (length (d_heads d)) end) = true
               <-> V_idx (d_hidx d) (d_heads d)).
  { unfold V_idx. destruct (d_hidx d) as [|x t] eqn:E.
    - split; auto.
    - rewrite Nat.eqb_eq. split; [auto|]. intros [H|H]; [discriminate|exact H]. }
  rewrite Hi.
  split.
  - intros H. decompose [and] H. constructor; auto.
  - intros H. destruct H. tauto.
Qed.

(* ---------------------------------------------------------------- round trip *)
Theorem doc_body_roundtrip inflate d : wf_doc d -> parse_doc inflate (write_doc d) = Ok d.
Proof.
  intros Hwf. apply wf_doc_WFD in Hwf.
  destruct Hwf as [Ha Hab Hna Hh Hhb Hnh [Cc Cn Cs Cd Cl Ct Cle Cb] [Oc On Os Od Ol Ot Ole Ob] Hi Hni].
  destruct d as [actors heads ccols ocols cdata odata hidx].
  cbn [d_actors d_heads d_ccols d_ocols d_cdata d_odata d_hidx] in *.
  unfold parse_doc, write_doc. cbn [d_actors d_heads d_ccols d_ocols d_cdata d_odata d_hidx].
  rewrite lps_rt by assumption. cbn [bind].
  rewrite <- (map_id heads) at 2. rewrite hashes_rt by assumption. cbn [bind].
  rewrite p_columns_rt; [|assumption|assumption|unfold pow64, u64_max in *; lia|assumption]. cbn [bind].
  rewrite p_columns_rt; [|assumption|assumption|unfold pow64, u64_max in *; lia|assumption]. cbn [bind].
  rewrite <- (col_ranges_nosat ccols 0) at 1 by (unfold pow64, u64_max in *; lia).
  rewrite sum_checked_ranges by (unfold u64_max; lia).
  assert (N.min (0 + sumN (map snd ccols)) u64_max = lenN cdata) as -> by (unfold pow64, u64_max in *; lia).
  cbn [bind]. rewrite p_take_rt. cbn [bind].
  rewrite <- (col_ranges_nosat ocols 0) at 1 by (unfold pow64, u64_max in *; lia).
  rewrite sum_checked_ranges by (unfold u64_max; lia).
  assert (N.min (0 + sumN (map snd ocols)) u64_max = lenN odata) as -> by (unfold pow64, u64_max in *; lia).
  cbn [bind]. rewrite p_take_rt. cbn [bind].
  rewrite p_suffix_rt by assumption. cbn [bind].
  unfold decompress, any_deflate. rewrite Cd, Od. cbn [negb andb bind fst snd].
  rewrite Cl, Ol. reflexivity.
Qed.

(* ---------------------------------------------------------------- canonical form *)
Definition no_inflate (_ : bytes) : option bytes := None.

Lemma uncompress_none : forall cols data r,
  uncompress no_inflate cols data = Ok r -> existsb spec_deflate (map fst cols) = false.
Proof.
  induction cols as [|[s l] t IH]; intros data r H; cbn [uncompress map fst existsb] in *; [reflexivity|].
  destruct (take_N l data) as [[a q]|]; [|discriminate].
  destruct (spec_deflate s) eqn:Es; [discriminate|]. cbn [orb].
  apply res_bind_ok in H. destruct H as ([t' d'] & H & _). eapply IH. exact H.
Qed.

Lemma decompress_none ccols ocols cdata odata c o :
  decompress no_inflate ccols ocols cdata odata = Ok (c, o) ->
  any_deflate ccols = false /\ any_deflate ocols = false /\ c = (ccols, cdata) /\ o = (ocols, odata).
Proof.
  unfold decompress. destruct (any_deflate ccols) eqn:E1; destruct (any_deflate ocols) eqn:E2; cbn [negb andb].
  - intros H. apply res_bind_ok in H. destruct H as (x & H & _). apply uncompress_none in H. unfold any_deflate in E1. congruence.
  - intros H. apply res_bind_ok in H. destruct H as (x & H & _). apply uncompress_none in H. unfold any_deflate in E1. congruence.
  - intros H. apply res_bind_ok in H. destruct H as (x & _ & H). apply res_bind_ok in H. destruct H as (y & H & _).
    apply uncompress_none in H. unfold any_deflate in E2. congruence.
  - intros H. inversion H; subst. auto.
Qed.

Lemma Forall_wf_concat_hashes (hs : list bytes) : wf_bytes (concat hs) -> Forall wf_bytes hs.
Proof. apply wf_bytes_concat. Qed.

(* A body the reader accepts (no DEFLATE) is byte for byte the writer's encoding of what was read,
   and what was read is well-formed.  [lenN b < pow64]: a Rust slice is shorter than 2^64 bytes. *)
Theorem doc_body_canonical b d :
  wf_bytes b -> lenN b < pow64 -> parse_doc no_inflate b = Ok d -> write_doc d = b /\ wf_doc d.
Proof.
  intros Hwf Hlen H. unfold parse_doc in H.
  apply res_bind_ok in H. destruct H as ([actors i1] & H1 & H).
  apply lps_can in H1; [|exact Hwf]. destruct H1 as (Eb & Ha & Hna). subst b.
  apply wf_bytes_app in Hwf. destruct Hwf as [_ Hwf]. apply wf_bytes_app in Hwf. destruct Hwf as [Hw_actors Hwf].
  apply res_bind_ok in H. destruct H as ([heads i2] & H1 & H).
  apply hashes_can in H1; [|exact Hwf]. destruct H1 as (-> & Hh & Hnh).
  apply wf_bytes_app in Hwf. destruct Hwf as [_ Hwf]. apply wf_bytes_app in Hwf. destruct Hwf as [Hw_heads Hwf].
  apply res_bind_ok in H. destruct H as ([ccols i3] & H1 & H).
  apply p_columns_can in H1; [|exact Hwf]. destruct H1 as (craw & -> & Eccols & Hcraw & Hncraw & Hcsort).
  apply wf_bytes_app in Hwf. destruct Hwf as [_ Hwf]. apply wf_bytes_app in Hwf. destruct Hwf as [_ Hwf].
  apply res_bind_ok in H. destruct H as ([ocols i4] & H1 & H).
  apply p_columns_can in H1; [|exact Hwf]. destruct H1 as (oraw & -> & Eocols & Horaw & Hnoraw & Hosort).
  apply wf_bytes_app in Hwf. destruct Hwf as [_ Hwf]. apply wf_bytes_app in Hwf. destruct Hwf as [_ Hwf].
  apply res_bind_ok in H. destruct H as (clen & H1 & H).
  rewrite Eccols, sum_checked_ranges in H1 by (unfold u64_max; lia). inversion H1 as [Eclen]; clear H1.
  apply res_bind_ok in H. destruct H as ([cdata i5] & H1 & H).
  apply p_take_spec in H1. destruct H1 as (-> & Hcdata).
  apply wf_bytes_app in Hwf. destruct Hwf as [Hw_cdata Hwf].
  apply res_bind_ok in H. destruct H as (olen & H1 & H).
  rewrite Eocols, sum_checked_ranges in H1 by (unfold u64_max; lia). inversion H1 as [Eolen]; clear H1.
  apply res_bind_ok in H. destruct H as ([odata i6] & H1 & H).
  apply p_take_spec in H1. destruct H1 as (-> & Hodata).
  apply wf_bytes_app in Hwf. destruct Hwf as [Hw_odata Hwf].
  apply res_bind_ok in H. destruct H as ([hidx i7] & H1 & H).
  apply p_suffix_can in H1; [|exact Hwf]. destruct H1 as (-> & Hidx & Hnidx).
  apply res_bind_ok in H. destruct H as ([c o] & H1 & H).
  apply decompress_none in H1. destruct H1 as (Dc & Do & -> & ->). cbn [fst snd] in H.
  destruct (parse2_ok (map fst ocols)) eqn:Lo; cbn [negb] in H; [|discriminate].
  destruct (parse2_ok (map fst ccols)) eqn:Lc; cbn [negb] in H; [|discriminate].
  destruct i7 as [|x i7]; [|discriminate]. inversion H; subst d; clear H.
  rewrite app_nil_r in *.
  (* no saturation: otherwise a data block alone would be 2^64 - 1 bytes *)
  repeat rewrite lenN_app in Hlen.
  pose proof (lenN_uleb_pos (N.of_nat (length actors))) as Hpos.
  assert (Hcs : sumN (map snd craw) <= u64_max).
  { destruct (sumN (map snd craw) <=? u64_max) eqn:E; [lia|]. exfalso. unfold pow64, u64_max in *. lia. }
  assert (Hos : sumN (map snd oraw) <= u64_max).
  { destruct (sumN (map snd oraw) <=? u64_max) eqn:E; [lia|]. exfalso. unfold pow64, u64_max in *. lia. }
  assert (Ec' : col_ranges 0 craw = craw) by (apply col_ranges_nosat; lia). rewrite Ec' in Eccols. subst ccols.
  assert (Eo' : col_ranges 0 oraw = oraw) by (apply col_ranges_nosat; lia). rewrite Eo' in Eocols. subst ocols.
  split.
  - unfold write_doc. cbn [d_actors d_heads d_ccols d_ocols d_cdata d_odata d_hidx].
    rewrite map_id. reflexivity.
  - apply wf_doc_WFD. rewrite map_id in Hw_heads.
    constructor; cbn [d_actors d_heads d_ccols d_ocols d_cdata d_odata d_hidx]; try assumption.
    + apply Forall_wf_lp. apply wf_bytes_concat. exact Hw_actors.
    + apply wf_bytes_concat. exact Hw_heads.
    + constructor; try assumption; unfold any_deflate in *; try assumption; unfold pow64, u64_max in *; lia.
    + constructor; try assumption; unfold any_deflate in *; try assumption; unfold pow64, u64_max in *; lia.
Qed.

(* the checksum / hash of a document chunk is a function of what was parsed *)
Corollary doc_hash_stable (Hsh : bytes -> bytes) b d :
  wf_bytes b -> lenN b < pow64 -> parse_doc no_inflate b = Ok d ->
  chunk_hash Hsh CHUNK_DOCUMENT (write_doc d) = chunk_hash Hsh CHUNK_DOCUMENT b.
Proof. intros Hwf Hlen H. destruct (doc_body_canonical b d Hwf Hlen H) as [-> _]. reflexivity. Qed.

(* ---------------------------------------------------------------- what the reader does NOT check *)
Definition ex_doc : doc_body :=
  mkDoc [[1; 2; 3]; [0; 255]] [repeat 7%N 32; repeat 9%N 32]
        [(1, 2); (3, 1); (19, 2)] [(1, 1); (2, 3); (66, 0)] [5; 6; 7; 8; 9] [9; 10; 11; 12] [0; 1].

Example ex_doc_wf : wf_doc ex_doc.
Proof. vm_compute. reflexivity. Qed.

Example ex_doc_roundtrip : parse_doc no_inflate (write_doc ex_doc) = Ok ex_doc.
Proof. vm_compute. reflexivity. Qed.

(* the head indexes are parsed and dropped: any values are accepted, so two different chunk bodies
   (hence two different checksums) stand for the same document *)
Theorem parse_doc_head_index_unchecked :
  exists b1 b2 d1 d2, b1 <> b2
    /\ parse_doc no_inflate b1 = Ok d1 /\ parse_doc no_inflate b2 = Ok d2
    /\ d_actors d1 = d_actors d2 /\ d_heads d1 = d_heads d2 /\ d_ccols d1 = d_ccols d2
    /\ d_ocols d1 = d_ocols d2 /\ d_cdata d1 = d_cdata d2 /\ d_odata d1 = d_odata d2
    /\ d_hidx d1 = [0; 1] /\ d_hidx d2 = [77; 18446744073709551615].
Proof.
  exists (write_doc ex_doc),
         (write_doc (mkDoc (d_actors ex_doc) (d_heads ex_doc) (d_ccols ex_doc) (d_ocols ex_doc)
                           (d_cdata ex_doc) (d_odata ex_doc) [77; 18446744073709551615])).
  eexists. eexists.
  split; [vm_compute; discriminate|].
  split; [vm_compute; reflexivity|]. split; [vm_compute; reflexivity|].
  cbn. repeat split; reflexivity.
Qed.

(* absent head indexes (the legacy form) are accepted too: the same document in a shorter body *)
Theorem parse_doc_head_index_optional :
  exists b d, parse_doc no_inflate b = Ok d /\ d_heads d <> [] /\ d_hidx d = [].
Proof.
  exists (write_doc (mkDoc (d_actors ex_doc) (d_heads ex_doc) (d_ccols ex_doc) (d_ocols ex_doc)
                           (d_cdata ex_doc) (d_odata ex_doc) [])).
  eexists. split; [vm_compute; reflexivity|]. cbn. split; [discriminate|reflexivity].
Qed.

(* with DEFLATE the accepted bodies are not canonical: a compressed column re-encodes to other bytes *)
Theorem parse_doc_compressed_not_canonical :
  exists inflate b d, parse_doc inflate b = Ok d /\ write_doc d <> b.
Proof.
  exists (fun _ => Some [5; 6]).
  exists (write_doc (mkDoc [] [] [(9, 1)] [] [42] [] [])).
  eexists. split; [vm_compute; reflexivity|]. vm_compute. discriminate.
Qed.

(* ---------------------------------------------------------------- counts are checked against the input *)
(* C17 style: a declared element count above the number of remaining bytes is rejected by the count
   test itself ([p_rep]: no element parser runs, nothing is allocated) *)
Theorem p_counted_count_bound {A} (p : bytes -> res (A * bytes)) n rest :
  n < pow64 -> lenN rest < n -> p_counted p (uleb_enc n ++ rest) = Err.
Proof.
  intros Hn Hlt. unfold p_counted. rewrite uleb_roundtrip by exact Hn. cbn [bind].
  unfold p_rep. assert ((lenN rest <? n) = true) as -> by lia. reflexivity.
Qed.

Theorem parse_doc_count_bound inflate n rest :
  n < pow64 -> lenN rest < n -> parse_doc inflate (uleb_enc n ++ rest) = Err.
Proof.
  intros Hn Hlt. unfold parse_doc. rewrite p_counted_count_bound by assumption. reflexivity.
Qed.
