(* Store/DocCols.v — the CHANGE-METADATA columns of a document chunk.

   Writer  = [ChangeGraph::encode] (rust/automerge/src/change_graph.rs): hexane columns
               actor (spec 1: RLE uint)  seq (3: delta)  max_op (19: delta)  time (35: delta)
               message (53: RLE string, omitted when every message is None)
               deps count (64: RLE uint)  deps index (67: delta)
               extra meta (86: RLE uint, (len << 4) | 7)  extra raw (87: concatenated bytes)
             of which [RawColumns::from_iter] keeps the non-empty ones.
   Reader  = [ChangeGraphCols::load] + [ChangeIter::next] (change_graph.rs).  The reader uses TWO
             kinds of hexane decoders (verified by reading rust/hexane/src):
             - the validating loaders [Column::load_with] / [DeltaColumn::load_with] /
               [PrefixColumn::load_with] for time, message, extra meta: Hexane/Rle.v [rle_load],
               Hexane/Delta.v [delta_load] (already proved), plus the [with_length] / [with_fill]
               options ([load_len] below: empty data + fill = [len] copies of the fill; otherwise
               the item count must be [len]);
             - the STREAMING decoders [hexane::decoder::<T>] (rle/decoder.rs [RleDecoder] as an
               Iterator: [next] / [advance_run]) and [DeltaDecoder] (delta/decoder.rs) for actor,
               seq, max_op, deps count, deps index.  These do not validate: an unreadable run
               header silently ENDS the stream, a null run of count 0 ends it too, non-canonical
               runs are accepted, and an unreadable value / a null in a non-nullable column / a
               literal header of i64::MIN / a running sum outside i64 PANIC ([unpack] unwraps,
               [get_null] panics, [(-n) as usize] and [running += d] are overflow-checked in a
               debug build).  [stream] mirrors that, lazily: it returns the runs produced before
               the stream ended and whether it ended by panicking, because [ChangeGraphCols::load]
               consumes the deps-index stream on demand and may return an error before reaching
               the panic.
   Index discipline of [load], mirrored as [Panic]: [max_ops[i]] for a deps-count entry beyond the
   number of changes, [max_ops[dep]] for a dependency index beyond it, and the slice
   [extra_bytes_raw[prefix .. prefix + len]] of [ChangeIter::next].
   Not modelled: the allocation of the decoded vectors (a repeat run may declare 2^63 items in a
   dozen bytes; [expand] is then astronomically long — resource bounds are C17's subject) and the
   u32 overflow of the edge counter.  [meta.bytes(spec)] is a binary search: with duplicated known
   specs the column picked depends on the std version; [col] takes the first (the harness does not
   duplicate known specs).

   No proofs in this file. *)
From AM Require Import Base.Prelude Base.Leb128 Hexane.Hleb Hexane.Rle Hexane.Delta.
Local Open Scope N_scope.

Definition SPEC_ACTOR : N := 1.
Definition SPEC_SEQ : N := 3.
Definition SPEC_MAX_OP : N := 19.
Definition SPEC_TIME : N := 35.
Definition SPEC_MESSAGE : N := 53.
Definition SPEC_DEPS_COUNT : N := 64.
Definition SPEC_DEPS_VAL : N := 67.
Definition SPEC_EXTRA_META : N := 86.
Definition SPEC_EXTRA_VAL : N := 87.
Definition known_change_specs : list N := [1; 3; 19; 35; 53; 64; 67; 86; 87].

(* one change as [ChangeIter] reports it *)
Record chmeta := mkMeta {
  m_actor : N;                  (* index into the actor table *)
  m_seq : N;
  m_max_op : N;
  m_time : Z;
  m_message : option bytes;     (* UTF-8 *)
  m_deps : list N;              (* indexes of earlier changes *)
  m_extra : bytes
}.

(* ---------------------------------------------------------------- streaming RLE decoder *)
Section Stream.
  Variable V : Type.
  Variable dec : bytes -> option (V * bytes).     (* RleValue::try_unpack; [unpack] unwraps it *)
  Variable nullable : bool.

  (* runs yielded, true = the stream then panicked / false = it ended.  [lit] = values left in
     the open literal run.  One unit of fuel per run header or literal value (each consumes a byte). *)
  Fixpoint stream (fuel : nat) (lit : N) (b : bytes) : list (N * option V) * bool :=
    match fuel with
    | O => ([], false)
    | S f =>
      if 0 <? lit then
        match dec b with
        | None => ([], true)                                    (* T::unpack(..) unwrap *)
        | Some (v, r) => let (t, p) := stream f (lit - 1) r in ((1, Some v) :: t, p)
        end
      else
        match b with
        | [] => ([], false)
        | _ =>
          match hleb_s b with
          | None => ([], false)                                 (* advance_run: read_signed = None -> Idle *)
          | Some (n, r) =>
            if (0 <? n)%Z then
              match dec r with
              | None => ([], true)
              | Some (v, r') => let (t, p) := stream f 0 r' in ((Z.to_N n, Some v) :: t, p)
              end
            else if (n <? 0)%Z then
              if (n =? i64_min)%Z then ([], true)               (* (-n) as usize: negate overflow *)
              else stream f (Z.to_N (- n)) r
            else
              match hleb_u r with
              | None => ([], true)                              (* read_unsigned(..).unwrap() *)
              | Some (c, r') =>
                if c =? 0 then ([], false)                      (* remaining == 0 -> next() = None *)
                else if nullable then let (t, p) := stream f 0 r' in ((c, None) :: t, p)
                else ([], true)                                 (* get_null() *)
              end
          end
        end
    end.

  Definition stream_of (b : bytes) : list (N * option V) * bool := stream (S (length b)) 0 b.

  (* [decoder(bytes).collect()] *)
  Definition collect (b : bytes) : res (list (option V)) :=
    let (rs, p) := stream_of b in if p then Panic else Ok (expand V rs).
End Stream.

(* value codecs of the streamed columns *)
Definition u32_dec (l : bytes) : option (N * bytes) :=
  match hleb_u l with
  | Some (v, r) => if v <=? u32_max then Some (v, r) else None       (* u32::try_from *)
  | None => None
  end.

Definition somes {A} (d : A) (l : list (option A)) : list A :=
  map (fun x => match x with Some v => v | None => d end) l.

(* [DeltaDecoder::<u32>]: running i64 sum of the streamed deltas, each item [running as u32];
   items as results so that a consumer can stop before a panic *)
Fixpoint delta_items (running : Z) (ds : list (option Z)) (panics : bool) : list (res N) :=
  match ds with
  | [] => if panics then [Panic] else []
  | None :: _ => [Panic]                                              (* T::null_value() *)
  | Some d :: t =>
    let r := (running + d)%Z in
    if negb (in_i64b r) then [Panic]                                  (* running += d *)
    else Ok (Z.to_N (r mod 4294967296)) :: delta_items r t panics
  end.

Definition delta_stream (b : bytes) : list (res N) :=
  let (rs, p) := stream_of Z i64_dec false b in delta_items 0 (expand Z rs) p.

(* [.collect()] of a lazily decoded stream *)
Fixpoint collect_items (l : list (res N)) : res (list N) :=
  match l with
  | [] => Ok []
  | Ok v :: t => let* r := collect_items t in Ok (v :: r)
  | _ :: _ => Panic
  end.

(* ---------------------------------------------------------------- validating loaders with options *)
Definition total {V} (rs : list (N * option V)) : N := Rle.sumN (map fst rs).

(* [load_with(data, LoadOpts::new().with_length(len) [.with_fill(f)])] *)
Definition load_len {V} (load : bytes -> res (list (N * option V))) (fill : option (option V)) (len : N)
  (b : bytes) : res (list (option V)) :=
  match b, fill with
  | [], Some f => Ok (repeat f (N.to_nat len))
  | _, _ => let* rs := load b in if total rs =? len then Ok (expand V rs) else Err
  end.

(* ---------------------------------------------------------------- ChangeGraphCols::load *)
Fixpoint col (spec : N) (cols : list (N * bytes)) : bytes :=
  match cols with
  | [] => []
  | (s, b) :: t => if s =? spec then b else col spec t
  end.

Definition nth_res (l : list N) (i : N) : res N :=                            (* max_ops[i] *)
  if N.of_nat (length l) <=? i then Panic                                   (* (no unary numeral for a huge index) *)
  else match nth_error l (N.to_nat i) with Some v => Ok v | None => Panic end.

(* the inner loop [for e in 0..d]: dependency indexes and the largest max_op among them *)
Fixpoint take_deps (d : nat) (items : list (res N)) (max_ops : list N) (last : N)
  : res (list N * N * list (res N)) :=
  match d with
  | O => Ok ([], last, items)
  | S d' =>
    match items with
    | [] => Err                                                       (* InvalidColumnLength(DEPS_VAL) *)
    | Ok dep :: rest =>
      let* m := nth_res max_ops dep in                                (* max_ops[dep as usize] *)
      let* (ds, last', rest') := take_deps d' rest max_ops (N.max last m) in
      Ok (dep :: ds, last', rest')
    | _ :: _ => Panic
    end
  end.

(* the loop over deps_count: the dependency lists, one per entry *)
Fixpoint deps_loop (counts : list N) (i : N) (items : list (res N)) (max_ops : list N) : res (list (list N)) :=
  match counts with
  | [] => Ok []
  | d :: t =>
    if d =? 0 then
      let* _ := nth_res max_ops i in                                  (* num_ops_vec.push(max_ops[i]) *)
      let* r := deps_loop t (i + 1) items max_ops in Ok ([] :: r)
    else
      let* (ds, last, items') := take_deps (N.to_nat d) items max_ops 0 in
      let* m := nth_res max_ops i in
      if m <? last then Err                                           (* InvalidMaxOp *)
      else let* r := deps_loop t (i + 1) items' max_ops in Ok (ds :: r)
  end.

(* [ChangeIter::next]: extra bytes are the slice prefix .. prefix + (meta >> 4) of the raw column *)
Fixpoint extras (metas : list N) (raw : bytes) (pos : N) : res (list bytes) :=
  match metas with
  | [] => Ok []
  | m :: t =>
    let len := m / 16 in
    if N.of_nat (length raw) <? pos + len then Panic                  (* &extra_bytes_raw[meta_range] *)
    else
      let* r := extras t raw (pos + len) in
      Ok (firstn (N.to_nat len) (skipn (N.to_nat pos) raw) :: r)
  end.

Fixpoint zip_meta (actors seqs maxs : list N) (times : list Z) (msgs : list (option bytes))
  (deps : list (list N)) (ex : list bytes) : list chmeta :=
  match actors, seqs, maxs, times, msgs, deps, ex with
  | a :: actors', s :: seqs', m :: maxs', t :: times', g :: msgs', d :: deps', e :: ex' =>
    mkMeta a s m t g d e :: zip_meta actors' seqs' maxs' times' msgs' deps' ex'
  | _, _, _, _, _, _, _ => []
  end.

Definition lenof {A} (l : list A) : N := N.of_nat (length l).

(* [cols]: the (spec, bytes) pairs of the KNOWN change columns ([ChangeGraph::validate] drops the
   others); [num_actors]: the length of the document's actor table *)
Definition decode_change_cols (num_actors : N) (cols : list (N * bytes)) : res (list chmeta) :=
  let* actors0 := collect N u64_dec false (col SPEC_ACTOR cols) in
  let actors := map (fun v => v mod pow32) (somes 0 actors0) in       (* ActorIdx(val as u32) *)
  let* max_ops := collect_items (delta_stream (col SPEC_MAX_OP cols)) in
  let* seqs := collect_items (delta_stream (col SPEC_SEQ cols)) in
  if existsb (fun a => num_actors <=? a) actors then Err else         (* InvalidActorId *)
  let len := lenof actors in
  let* times := load_len (delta_load false i64_min i64_max) (Some (Some 0%Z)) len (col SPEC_TIME cols) in
  let* msgs := load_len (str_load true) (Some None) len (col SPEC_MESSAGE cols) in
  let* metas := load_len (u64_load false) None len (col SPEC_EXTRA_META cols) in
  if negb (lenof max_ops =? len) then Err else
  if negb (lenof seqs =? len) then Err else
  let* counts := collect N u32_dec false (col SPEC_DEPS_COUNT cols) in
  let* deps := deps_loop (somes 0 counts) 0 (delta_stream (col SPEC_DEPS_VAL cols)) max_ops in
  if negb (lenof deps =? len) then Err else                           (* parents.len() != len *)
  let* ex := extras (somes 0 metas) (col SPEC_EXTRA_VAL cols) 0 in
  Ok (zip_meta actors seqs max_ops (somes 0%Z (realize 0 times)) msgs deps ex).

(* ---------------------------------------------------------------- ChangeGraph::encode *)
Definition nonempty_cols (cols : list (N * bytes)) : list (N * bytes) :=
  filter (fun c => match snd c with [] => false | _ => true end) cols.

Definition zsome (l : list N) : list (option Z) := map (fun n => Some (Z.of_N n)) l.

Definition encode_change_cols (ms : list chmeta) : list (N * bytes) :=
  nonempty_cols
    [ (SPEC_ACTOR, u64_save (map (fun m => Some (m_actor m)) ms));
      (SPEC_SEQ, delta_save (zsome (map m_seq ms)));
      (SPEC_MAX_OP, delta_save (zsome (map m_max_op ms)));
      (SPEC_TIME, delta_save (map (fun m => Some (m_time m)) ms));
      (SPEC_MESSAGE, if forallb (fun m => match m_message m with None => true | _ => false end) ms
                     then [] else str_save (map m_message ms));         (* save_to_unless(out, None) *)
      (SPEC_DEPS_COUNT, u64_save (map (fun m => Some (lenof (m_deps m))) ms));
      (SPEC_DEPS_VAL, delta_save (zsome (flat_map m_deps ms)));
      (SPEC_EXTRA_META, u64_save (map (fun m => Some (16 * lenof (m_extra m) + 7)) ms));   (* ValueMeta: length << 4 | 7 (bytes) *)
      (SPEC_EXTRA_VAL, flat_map m_extra ms) ].

(* what the writer can hold: u32 actor / seq / max_op / dependency indexes, dependencies point to
   earlier changes whose max_op is not larger, i64 times, UTF-8 messages, byte strings *)
Fixpoint wf_metas_from (i : N) (done : list N) (num_actors : N) (ms : list chmeta) : bool :=
  match ms with
  | [] => true
  | m :: t =>
    (m_actor m <? num_actors) && (m_actor m <=? u32_max) && (m_seq m <=? u32_max) && (m_max_op m <=? u32_max)
    && in_i64b (m_time m)
    && match m_message m with Some s => wf_bytesb s && utf8_valid s | None => true end
    && forallb (fun d => (d <? i) && (nth (N.to_nat d) done 0 <=? m_max_op m)) (m_deps m)
    && wf_bytesb (m_extra m)
    && wf_metas_from (i + 1) (done ++ [m_max_op m]) num_actors t
  end.

Definition wf_metasb (num_actors : N) (ms : list chmeta) : bool :=
  wf_metas_from 0 [] num_actors ms && (lenof ms <? pow32).

(* the (spec, bytes) pairs of a parsed document's change columns: [meta.bytes(spec, data)] for the
   known specs.  [None] = a column range outside the data (cannot happen for a parsed body). *)
Fixpoint split_cols (cols : list (N * N)) (data : bytes) : list (N * bytes) :=
  match cols with
  | [] => []
  | (s, l) :: t => (s, firstn (N.to_nat l) data) :: split_cols t (skipn (N.to_nat l) data)
  end.

Definition known_cols (cols : list (N * N)) (data : bytes) : list (N * bytes) :=
  filter (fun c => existsb (N.eqb (fst c)) known_change_specs) (split_cols cols data).
