(* Store/Refeed.v — delivering changes a document already holds (applied or queued) has no effect.
   Used by C12: feeding the same incremental pieces again changes nothing. *)
From AM Require Import Base.Prelude Base.Order Crdt.Types Crdt.Doc Crdt.QueueProofs.
Local Open Scope N_scope.

Lemma filter_all_false {A} (f : A -> bool) l : (forall x, In x l -> f x = false) -> filter f l = [].
Proof.
  induction l as [|x l IH]; intros H; [reflexivity|]. cbn [filter].
  rewrite (H x (or_introl eq_refl)). apply IH. intros y Hy. apply H. right. exact Hy.
Qed.

Theorem receive_again d cs d' cs' :
  receive d cs = Ok d' -> incl cs' cs -> receive d' cs' = Ok d'.
Proof.
  intros H Hin.
  destruct (receive_keeps _ _ _ H) as (_ & _ & _ & Hheld).
  pose proof (receive_queue_not_ready _ _ _ H) as Hnr.
  unfold receive.
  rewrite (filter_all_false _ cs').
  2:{ intros c Hc. destruct (Hheld c (Hin c Hc)) as [E|E]; rewrite E; [reflexivity|rewrite orb_true_r; reflexivity]. }
  cbn [batch_push bind]. rewrite app_nil_r. cbn [release].
  rewrite (filter_all_false _ (queue d') Hnr). destruct d'; reflexivity.
Qed.

(* non-vacuity: the empty delivery to the empty document *)
Example receive_again_example : receive empty_doc [] = Ok empty_doc.
Proof. reflexivity. Qed.
