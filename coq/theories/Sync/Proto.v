(* Sync/Proto.v — the sync protocol state machine.

   Mirrors, decision by decision,
     rust/automerge/src/sync.rs        [generate_sync_message], [receive_sync_message_inner],
                                       [make_bloom_filter], [get_hashes_to_send], [advance_heads],
                                       [Message::reset], [MessageFlags]
     rust/automerge/src/sync/state.rs  [State] (all twelve fields), [State::new], [new_read_only],
                                       [encode]/[decode] (only shared_heads persists; the decoded
                                       state has their_have = Some []), [set_read_only], [their],
                                       [send_doc], [supports_v2_messages], [peer_supports_sync_reset]
     rust/automerge/src/sync/message_builder.rs  which hashes / chunks a builder carries
                                       ([is_empty] looks at the hashes, not at the chunks)
     rust/automerge/src/automerge.rs   [missing_deps_from], [filter_changes], [has_change],
                                       [load_incremental] (= Doc.receive of the carried changes, also
                                       on the empty-document path through load_with_options),
                                       [save] (document chunk + the queued orphans: retain_orphans).

   The Bloom filter is a parameter: a type [B] with [b_make] (BloomFilter::from_hashes) and [b_query]
   (contains_hash).  Theorems quantify over it (false positives are arbitrary); the correspondence
   checker instantiates it with the bit-exact model of Codec/Bloom.v.  The V1/V2 wire layout is a
   codec matter; what the protocol can see of it is kept: whether the chunk list is empty
   ([m_changes = None]) and which changes the chunks decode to.  [change_graph.get_hashes(heads)]
   (changes not covered by the per-actor sequence clock of the known heads) is modelled by
   [Doc.get_changes] (changes that are not ancestors of the known heads); the two agree when every
   actor's changes form a chain (ClockProofs.covered_iff_ancestor), which holds for histories made
   through the editing API.  No proofs in this file. *)
From AM Require Import Base.Prelude Base.Order Gen.Consts Crdt.Types Crdt.Doc.
Local Open Scope N_scope.

Inductive capability := CapV1 | CapV2 | CapSyncReset.
Definition cap_code (c : capability) : N := match c with CapV1 => 1 | CapV2 => 2 | CapSyncReset => 3 end.
Definition is_v2 (c : capability) : bool := match c with CapV2 => true | _ => false end.
Definition is_sync_reset (c : capability) : bool := match c with CapSyncReset => true | _ => false end.

Definition memN : N -> list N -> bool := memb N.eqb.
Definition nil_b {A} (l : list A) : bool := match l with [] => true | _ => false end.
Definition lenN {A} (l : list A) : N := N.of_nat (length l).
Definition opt_list {A} (o : option (list A)) : list A := match o with Some l => l | None => [] end.

(* MessageFlags::contains *)
Definition flag_has (f b : N) : bool := negb (N.land f b =? 0).

(* a BTreeSet<ChangeHash> is a sorted duplicate-free list *)
Definition set_of (l : list N) : list N := sortN (dedupN l).

Section Proto.
  Variable B : Type.
  Variable b_make : list N -> B.
  Variable b_query : B -> N -> bool.

  Record have := mkHave { hv_last_sync : list N; hv_bloom : B }.

  Record message := mkMsg {
    m_heads : list N;
    m_need : list N;
    m_have : list have;
    m_changes : option (list change);   (* None: the chunk list is empty; Some cs: what the chunks decode to *)
    m_flags : option N }.

  Record sync_state := mkSS {
    shared_heads : list N;
    last_sent_heads : list N;
    their_heads : option (list N);
    their_need : option (list N);
    their_have : option (list have);
    sent_hashes : list N;
    in_flight : bool;
    have_responded : bool;
    their_caps : option (list capability);
    read_only : bool;
    peer_read_only : bool;
    needs_reset : bool }.

  (* State::new, State::new_read_only, State::decode (State::encode s) *)
  Definition fresh_state : sync_state :=
    mkSS [] [] None None None [] false false None false false false.
  Definition fresh_read_only : sync_state :=
    mkSS [] [] None None None [] false false None true false false.
  Definition decoded_state (shared : list N) : sync_state :=
    mkSS shared [] None None (Some []) [] false false None false false false.
  Definition persist (s : sync_state) : sync_state := decoded_state (shared_heads s).

  (* State::set_read_only *)
  Definition set_read_only (s : sync_state) (ro : bool) : sync_state :=
    if Bool.eqb (read_only s) ro then s
    else if read_only s then
      mkSS [] [] None None None [] false false (their_caps s) false false true
    else
      mkSS (shared_heads s) (last_sent_heads s) (their_heads s) (their_need s) (their_have s)
           (sent_hashes s) false false (their_caps s) true (peer_read_only s) (needs_reset s).

  Definition supports_v2 (s : sync_state) : bool :=
    match their_caps s with Some l => existsb is_v2 l | None => false end.
  Definition peer_supports_sync_reset (s : sync_state) : bool :=
    match their_caps s with Some l => existsb is_sync_reset l | None => false end.
  Definition send_doc (s : sync_state) : bool :=
    match their_heads s with Some [] => supports_v2 s | _ => false end.

  (* Automerge::missing_deps_from: walk from [start] through the dependencies of QUEUED changes;
     report what is neither applied nor queued *)
  Fixpoint reach_queued (fuel : nat) (q : list change) (front : list N) (acc : list change) : list change :=
    match fuel with
    | O => acc
    | S f =>
      match filter (fun c => memN (ch_hash c) front && negb (has_hash acc (ch_hash c))) q with
      | [] => acc
      | new => reach_queued f q (flat_map ch_deps new) (acc ++ new)
      end
    end.

  Definition missing_deps_from (d : doc) (start : list N) : list N :=
    let r := reach_queued (S (length (queue d))) (queue d) start [] in
    set_of (filter (fun h => negb (has_hash (applied d) h || has_hash (queue d) h))
                   (start ++ flat_map ch_deps r)).

  (* make_bloom_filter *)
  Definition make_bloom (d : doc) (last_sync : list N) : have :=
    mkHave last_sync (b_make (hashes (get_changes (applied d) last_sync))).

  (* get_hashes_to_send.  The dependents closure is one forward pass: the graph order lists a
     change after its dependencies. *)
  Definition all_negative (bls : list B) (h : N) : bool := forallb (fun b => negb (b_query b h)) bls.

  Fixpoint close_dependents (init : N -> bool) (cs : list change) (sel : list N) : list N :=
    match cs with
    | [] => sel
    | c :: t =>
      if init (ch_hash c) || existsb (fun h => memN h sel) (ch_deps c)
      then close_dependents init t (sel ++ [ch_hash c])
      else close_dependents init t sel
    end.

  Definition get_hashes_to_send (d : doc) (hv : list have) (nd : list N) : list N :=
    let need := filter (has_hash (applied d)) nd in
    match hv with
    | [] => need
    | _ =>
      let cs := get_changes (applied d) (flat_map hv_last_sync hv) in
      let sel := close_dependents (all_negative (map hv_bloom hv)) cs [] in
      filter (fun h => negb (memN h sel)) need ++ sel
    end.

  (* what a MessageBuilder carries: the hashes it reports ([is_empty], [hashes()]) and its chunks *)
  Record builder := mkB { b_hashes : list N; b_changes : option (list change) }.
  Definition empty_builder : builder := mkB [] None.
  (* MessageBuilder::new_v2(self.save(), all hashes): save() is never empty and appends the queued orphans *)
  Definition whole_doc (d : doc) : builder := mkB (hashes (applied d)) (Some (applied d ++ queue d)).

  Fixpoint lookup_changes (appl : list change) (hs : list N) : option (list change) :=
    match hs with
    | [] => Some []
    | h :: t =>
      match find (fun c => ch_hash c =? h) appl, lookup_changes appl t with
      | Some c, Some r => Some (c :: r)
      | _, _ => None
      end
    end.

  (* None: [get_changes_by_hashes(..).ok()?] made generate_sync_message return None *)
  Definition build (d : doc) (s : sync_state) : option builder :=
    if peer_read_only s then Some empty_builder
    else match their_have s, their_need s with
    | Some hv, Some nd =>
      if send_doc s then Some (whole_doc d)
      else
        let hs := filter (fun h => negb (memN h (sent_hashes s))) (get_hashes_to_send d hv nd) in
        if (lenN (applied d) / 3 <? lenN hs) && supports_v2 s then Some (whole_doc d)
        else match lookup_changes (applied d) hs with
             | Some cs => Some (mkB hs (match cs with [] => None | _ => Some cs end))
             | None => None
             end
    | _, _ => Some empty_builder
    end.

  (* the first `have` of the peer names a last_sync hash we do not hold *)
  Definition reset_cond (d : doc) (s : sync_state) : bool :=
    match their_have s with
    | Some (h :: _) => negb (forallb (has_hash (applied d)) (hv_last_sync h))
    | _ => false
    end.

  Definition reset_message (our_heads : list N) : message :=
    mkMsg our_heads [] [mkHave [] (b_make [])] None (Some FLAG_SUPPORTS_SYNC_RESET).

  Definition heads_equal (s : sync_state) (our_heads : list N) : bool :=
    match their_heads s with Some h => nlist_eqb h our_heads | None => false end.

  (* the quiescence test *)
  Definition quiet (s : sync_state) (our_heads : list N) (bld : builder) : bool :=
    nlist_eqb (last_sent_heads s) our_heads && have_responded s
    && (((heads_equal s our_heads || read_only s) && nil_b (b_hashes bld)) || in_flight s).

  Definition generate_sync_message (d : doc) (s : sync_state) : sync_state * option message :=
    let our_heads := heads_of (applied d) in
    let our_need := if read_only s then [] else missing_deps_from d (opt_list (their_heads s)) in
    let our_have :=
      if forallb (fun h => memN h (opt_list (their_heads s))) our_need
      then [make_bloom d (shared_heads s)] else [] in
    if reset_cond d s then (s, Some (reset_message our_heads))
    else match build d s with
    | None => (s, None)
    | Some bld =>
      if quiet s our_heads bld then (s, None)
      else
        let flags0 := N.lor FLAG_SUPPORTS_SYNC_RESET (if read_only s then FLAG_READ_ONLY else 0) in
        let flags := if needs_reset s && peer_supports_sync_reset s then N.lor flags0 FLAG_SYNC_RESET else flags0 in
        let heads_to_send := if needs_reset s && negb (peer_supports_sync_reset s) then [] else our_heads in
        (mkSS (shared_heads s) our_heads (their_heads s) (their_need s) (their_have s)
              (set_of (sent_hashes s ++ b_hashes bld)) true true (their_caps s)
              (read_only s) (peer_read_only s) false,
         Some (mkMsg heads_to_send our_need our_have (b_changes bld) (Some flags)))
    end.

  (* advance_heads *)
  Definition advance_heads (old_heads new_heads old_shared : list N) : list N :=
    set_of (filter (fun h => negb (memN h old_heads)) new_heads
            ++ filter (fun h => memN h new_heads) old_shared).

  (* Automerge::filter_changes: drop from the set the ancestors of the heads we know *)
  Definition filter_changes (d : doc) (heads : list N) (sent : list N) : list N :=
    let anc := ancestors (applied d) (filter (has_hash (applied d)) heads) in
    filter (fun h => negb (has_hash anc h)) sent.

  Definition caps_of_flags (f : N) : list capability :=
    CapV2 :: (if flag_has f FLAG_SUPPORTS_SYNC_RESET then [CapSyncReset] else []).

  Definition receive_sync_message (d : doc) (s : sync_state) (m : message) : res (doc * sync_state) :=
    let before_heads := heads_of (applied d) in
    let caps := match m_flags m with Some f => Some (caps_of_flags f) | None => their_caps s end in
    let sent0 := match m_flags m with
                 | Some f => if flag_has f FLAG_SYNC_RESET then [] else sent_hashes s
                 | None => sent_hashes s end in
    let pro := match m_flags m with Some f => flag_has f FLAG_READ_ONLY | None => peer_read_only s end in
    let* (d', shared) :=
      match m_changes m with
      | Some cs =>
        if read_only s then Ok (d, shared_heads s)
        else let* d' := Doc.receive d cs in
             Ok (d', advance_heads before_heads (heads_of (applied d')) (shared_heads s))
      | None => Ok (d, shared_heads s)
      end in
    let sent1 := filter_changes d' (m_heads m) sent0 in
    let changes_is_empty := match m_changes m with None => true | Some _ => false end in
    let last1 := if changes_is_empty && nlist_eqb (m_heads m) before_heads
                 then m_heads m else last_sent_heads s in
    let known := filter (has_hash (applied d')) (m_heads m) in
    let all_known := (length known =? length (m_heads m))%nat in
    let shared' := if all_known then m_heads m else set_of (shared ++ known) in
    let lost := all_known && nil_b (m_heads m) in
    Ok (d', mkSS shared' (if lost then [] else last1)
                 (Some (m_heads m)) (Some (m_need m)) (Some (m_have m))
                 (if lost then [] else sent1) false (have_responded s) caps
                 (read_only s) pro (needs_reset s)).
End Proto.

Arguments mkHave {B}.
Arguments hv_last_sync {B}.
Arguments hv_bloom {B}.
Arguments mkMsg {B}.
Arguments m_heads {B}.
Arguments m_need {B}.
Arguments m_have {B}.
Arguments m_changes {B}.
Arguments m_flags {B}.
Arguments mkSS {B}.
Arguments shared_heads {B}.
Arguments last_sent_heads {B}.
Arguments their_heads {B}.
Arguments their_need {B}.
Arguments their_have {B}.
Arguments sent_hashes {B}.
Arguments in_flight {B}.
Arguments have_responded {B}.
Arguments their_caps {B}.
Arguments read_only {B}.
Arguments peer_read_only {B}.
Arguments needs_reset {B}.
Arguments fresh_state {B}.
Arguments fresh_read_only {B}.
Arguments decoded_state {B}.
Arguments persist {B}.
Arguments set_read_only {B}.
Arguments supports_v2 {B}.
Arguments peer_supports_sync_reset {B}.
Arguments send_doc {B}.
Arguments make_bloom {B}.
Arguments all_negative {B}.
Arguments get_hashes_to_send {B}.
Arguments build {B}.
Arguments reset_cond {B}.
Arguments reset_message {B}.
Arguments heads_equal {B}.
Arguments quiet {B}.
Arguments generate_sync_message {B}.
Arguments receive_sync_message {B}.

Definition msg_changes {B} (m : message B) : list change := opt_list (m_changes m).
