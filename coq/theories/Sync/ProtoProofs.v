(* Sync/ProtoProofs.v — facts about single steps of the sync protocol model (Sync/Proto.v):
   read-only never applies (C22), what a read-only peer still sends, what switching back to
   read-write does, safety of receive (C20), what fresh / persisted states do (C21). *)
From AM Require Import Base.Prelude Base.Order Gen.Consts Crdt.Types Crdt.Doc Crdt.DocProofs Crdt.QueueProofs Sync.Proto.
Local Open Scope N_scope.

Lemma memN_In x l : memN x l = true <-> In x l.
Proof. apply memb_N_In. Qed.

Lemma set_of_In x l : In x (set_of l) <-> In x l.
Proof. unfold set_of. rewrite sortN_In, dedupN_In. tauto. Qed.

Section P.
  Variable B : Type.
  Variable b_make : list N -> B.
  Variable b_query : B -> N -> bool.

  Notation state := (sync_state B).
  Notation msg := (message B).
  Notation gen := (@generate_sync_message B b_make b_query).
  Notation rcv := (@receive_sync_message B).
  Notation bld := (@build B b_query).

  (* ---------------------------------------------------------------- C22 *)

  (* a receive on a read-only state never touches the document: all messages, all states *)
  Theorem read_only_receive_doc_unchanged (d : doc) (s : state) (m : msg) d' s' :
    read_only s = true -> rcv d s m = Ok (d', s') -> d' = d.
  Proof.
    intros Hro H. unfold receive_sync_message in H. rewrite Hro in H.
    destruct (m_changes m) as [cs|]; cbn [bind] in H; inversion H; reflexivity.
  Qed.

  (* ... and it only ever reads the document through that state: the read-only flag itself survives *)
  Lemma receive_keeps_read_only (d : doc) (s : state) (m : msg) d' s' :
    rcv d s m = Ok (d', s') -> read_only s' = read_only s.
  Proof.
    intros H. unfold receive_sync_message in H.
    destruct (m_changes m) as [cs|].
    - destruct (read_only s) eqn:Hro; cbn [bind] in H.
      + inversion H; subst. reflexivity.
      + destruct (Doc.receive d cs) as [d1| |]; cbn [bind] in H; try discriminate.
        inversion H; subst. reflexivity.
    - cbn [bind] in H. inversion H; subst. reflexivity.
  Qed.

  (* the state with only the read-only flag changed *)
  Definition with_read_only (s : state) (ro : bool) : state :=
    mkSS (shared_heads s) (last_sent_heads s) (their_heads s) (their_need s) (their_have s)
         (sent_hashes s) (in_flight s) (have_responded s) (their_caps s) ro (peer_read_only s) (needs_reset s).

  (* which changes are put into a message does not depend on our own read-only flag *)
  Theorem build_ignores_read_only (d : doc) (s : state) (ro : bool) :
    bld d (with_read_only s ro) = bld d s.
  Proof. reflexivity. Qed.

  Lemma get_changes_nil appl : get_changes appl [] = appl.
  Proof.
    unfold get_changes, ancestors.
    assert (E : forall l, anc_rev l [] = []).
    { induction l as [|c t IH]; cbn; [reflexivity|exact IH]. }
    rewrite E. cbn. induction appl as [|c t IH]; cbn; [reflexivity|]. rewrite IH. reflexivity.
  Qed.

  Lemma close_dependents_mono init cs : forall sel h, In h sel -> In h (close_dependents init cs sel).
  Proof.
    induction cs as [|c t IH]; intros sel h Hh; cbn; [exact Hh|].
    destruct (init (ch_hash c) || existsb (fun h0 => memN h0 sel) (ch_deps c)); apply IH; auto.
    apply in_or_app. left. exact Hh.
  Qed.

  Lemma close_dependents_init init cs : forall sel c, In c cs -> init (ch_hash c) = true ->
    In (ch_hash c) (close_dependents init cs sel).
  Proof.
    induction cs as [|x t IH]; intros sel c Hc Hi; [destruct Hc|].
    cbn. destruct Hc as [->|Hc].
    - rewrite Hi. cbn. apply close_dependents_mono. apply in_or_app. right. left. reflexivity.
    - destruct (init (ch_hash x) || existsb (fun h0 => memN h0 sel) (ch_deps x)); apply IH; auto.
  Qed.

  Lemma close_dependents_sub init cs : forall sel h, In h (close_dependents init cs sel) ->
    In h sel \/ In h (hashes cs).
  Proof.
    induction cs as [|x t IH]; intros sel h Hh; cbn in *; [left; exact Hh|].
    destruct (init (ch_hash x) || existsb (fun h0 => memN h0 sel) (ch_deps x)).
    - apply IH in Hh. destruct Hh as [Hh|Hh]; [|right; right; exact Hh].
      apply in_app_or in Hh. destruct Hh as [Hh|[<-|[]]]; [left; exact Hh|right; left; reflexivity].
    - apply IH in Hh. destruct Hh as [Hh|Hh]; [left; exact Hh|right; right; exact Hh].
  Qed.

  (* every change outside the ancestors of the peer's last_sync that none of its filters reports
     is among the hashes to send *)
  Lemma hashes_to_send_complete (d : doc) (hv : list (have B)) (nd : list N) c :
    hv <> [] ->
    In c (get_changes (applied d) (flat_map hv_last_sync hv)) ->
    all_negative b_query (map hv_bloom hv) (ch_hash c) = true ->
    In (ch_hash c) (get_hashes_to_send b_query d hv nd).
  Proof.
    intros Hne Hc Hneg. unfold get_hashes_to_send. destruct hv as [|h0 hv']; [congruence|].
    apply in_or_app. right. apply close_dependents_init; assumption.
  Qed.

  Lemma get_changes_sub appl hs c : In c (get_changes appl hs) -> In c appl.
  Proof. unfold get_changes. intros H. apply filter_In in H. exact (proj1 H). Qed.

  Lemma hashes_in l c : In c l -> In (ch_hash c) (hashes l).
  Proof. intros H. unfold hashes. apply in_map. exact H. Qed.

  (* what a peer sends does not depend on whether it is read-only: whenever the peer has told us what it
     has, every change it lacks (not an ancestor of its last_sync, reported by none of its filters, not
     sent before in this session) is carried by the builder of the next message *)
  Theorem read_only_still_sends (d : doc) (s : state) (ro : bool) hv nd b c :
    their_have s = Some hv -> hv <> [] -> their_need s = Some nd -> peer_read_only s = false ->
    bld d (with_read_only s ro) = Some b ->
    In c (get_changes (applied d) (flat_map hv_last_sync hv)) ->
    all_negative b_query (map hv_bloom hv) (ch_hash c) = true ->
    ~ In (ch_hash c) (sent_hashes s) ->
    In (ch_hash c) (b_hashes b).
  Proof.
    intros Hh Hne Hn Hp Hb Hc Hneg Hs. rewrite build_ignores_read_only in Hb.
    unfold build in Hb. rewrite Hp, Hh, Hn in Hb.
    assert (Hall : In (ch_hash c) (hashes (applied d))) by (apply hashes_in, (get_changes_sub _ _ _ Hc)).
    destruct (send_doc s); [inversion Hb; subst; exact Hall|].
    match type of Hb with context [filter ?f ?l] => set (hs := filter f l) in * end.
    destruct ((lenN (applied d) / 3 <? lenN hs) && supports_v2 s); [inversion Hb; subst; exact Hall|].
    destruct (lookup_changes (applied d) hs) as [cs|]; [|discriminate]. inversion Hb; subst. cbn [b_hashes].
    unfold hs. apply filter_In. split.
    - apply hashes_to_send_complete; assumption.
    - apply negb_true_iff. rewrite <- not_true_iff_false, memN_In. exact Hs.
  Qed.

  Lemma lookup_changes_hashes appl : forall hs cs, lookup_changes appl hs = Some cs -> hashes cs = hs /\ incl cs appl.
  Proof.
    induction hs as [|h t IH]; intros cs H; cbn in H.
    - inversion H; subst. split; [reflexivity|intros x []].
    - destruct (find (fun c => ch_hash c =? h) appl) as [c|] eqn:Ef; [|discriminate].
      destruct (lookup_changes appl t) as [r|] eqn:El; [|discriminate].
      destruct (IH r eq_refl) as [E I]. inversion H as [Hcs].
      apply find_some in Ef. destruct Ef as [Hin Heq]. apply N.eqb_eq in Heq.
      split. { unfold hashes in *. cbn [map]. rewrite E, Heq. reflexivity. }
      intros x [<-|Hx]; auto.
  Qed.

  (* a read-only peer that has something to send and is not waiting for an answer sends it, flagged read-only *)
  Theorem read_only_generate_sends (d : doc) (s : state) b :
    read_only s = true -> reset_cond d s = false -> bld d s = Some b ->
    b_hashes b <> [] -> in_flight s = false ->
    exists s' m, gen d s = (s', Some m) /\ m_changes m = b_changes b /\
                 m_flags m <> None /\ (forall f, m_flags m = Some f -> flag_has f FLAG_READ_ONLY = true) /\
                 m_need m = [] /\ read_only s' = true /\ in_flight s' = true.
  Proof.
    intros Hro Hr Hb Hne Hif. unfold generate_sync_message. rewrite Hr, Hb.
    assert (E : nil_b (b_hashes b) = false) by (destruct (b_hashes b); [congruence|reflexivity]).
    assert (Q : quiet s (heads_of (applied d)) b = false).
    { unfold quiet. rewrite Hif, Hro, E. rewrite (andb_false_r (_ || true)). cbn [orb]. apply andb_false_r. }
    rewrite Q. rewrite Hro.
    eexists. eexists. split; [reflexivity|]. cbn [m_changes m_flags m_need read_only in_flight].
    split; [reflexivity|]. split; [discriminate|]. split; [|auto].
    intros f Hf. inversion Hf; subst.
    destruct (needs_reset s && peer_supports_sync_reset s); vm_compute; reflexivity.
  Qed.

  (* switching back to read-write forgets the session and asks the peer to forget what it sent *)
  Theorem set_read_only_false_resets (s : state) :
    read_only s = true ->
    set_read_only s false =
      mkSS [] [] None None None [] false false (their_caps s) false false true.
  Proof. intros H. unfold set_read_only. rewrite H. reflexivity. Qed.

  Lemma missing_deps_from_nil_start (d : doc) : missing_deps_from d [] = [].
  Proof.
    unfold missing_deps_from. destruct (queue d) as [|c q]; [reflexivity|].
    cbn [length reach_queued]. cbn [memN memb andb filter].
    assert (E : forall l, filter (fun c0 : change => memN (ch_hash c0) [] && negb (has_hash [] (ch_hash c0))) l = []).
    { induction l as [|x t IH]; cbn; [reflexivity|exact IH]. }
    cbn. rewrite E. reflexivity.
  Qed.

  Theorem set_read_only_false_requests_reset (d : doc) (s : state) :
    read_only s = true ->
    exists s2 m, gen d (set_read_only s false) = (s2, Some m) /\
      needs_reset s2 = false /\ read_only s2 = false /\ in_flight s2 = true /\
      m_need m = [] /\ m_have m = [make_bloom b_make d []] /\ m_changes m = None /\
      ((peer_supports_sync_reset s = true /\ m_heads m = heads_of (applied d) /\
        exists f, m_flags m = Some f /\ flag_has f FLAG_SYNC_RESET = true /\ flag_has f FLAG_READ_ONLY = false)
       \/ (peer_supports_sync_reset s = false /\ m_heads m = [] /\
           exists f, m_flags m = Some f /\ flag_has f FLAG_READ_ONLY = false)).
  Proof.
    intros Hro. rewrite (set_read_only_false_resets _ Hro).
    unfold generate_sync_message. cbn [read_only their_heads opt_list shared_heads their_have reset_cond].
    rewrite missing_deps_from_nil_start. cbn [forallb].
    unfold build. cbn [peer_read_only their_have their_need]. unfold quiet. cbn [have_responded].
    rewrite andb_false_r. cbn [andb].
    cbn [needs_reset]. unfold peer_supports_sync_reset at 1 2. cbn [their_caps].
    change (match their_caps s with Some l => existsb is_sync_reset l | None => false end)
      with (peer_supports_sync_reset s).
    eexists. eexists. split; [reflexivity|]. cbn.
    repeat (split; [reflexivity|]).
    destruct (peer_supports_sync_reset s); [left|right]; (split; [reflexivity|]); (split; [reflexivity|]);
      eexists; (split; [reflexivity|]); vm_compute; auto.
  Qed.

  (* a message carrying the reset flag, or announcing no heads at all, empties the receiver's
     record of what it already sent *)
  Theorem reset_clears_sent_hashes (d : doc) (s : state) (m : msg) d' s' :
    rcv d s m = Ok (d', s') ->
    (exists f, m_flags m = Some f /\ flag_has f FLAG_SYNC_RESET = true) \/ m_heads m = [] ->
    sent_hashes s' = [].
  Proof.
    intros H Hc. unfold receive_sync_message in H.
    match type of H with (let* _ := ?X in _) = _ => destruct X as [[d1 sh]| |] eqn:Ex end; cbn [bind] in H; try discriminate.
    inversion H; subst. cbn [sent_hashes].
    destruct Hc as [(f & Hf & Hr)|Hh].
    - rewrite Hf, Hr. unfold filter_changes. cbn [filter].
      destruct (_ && nil_b (m_heads m)); reflexivity.
    - rewrite Hh. cbn. reflexivity.
  Qed.

  (* catch-up, first half: the peer that switched back has sent its reset; once the writer has received
     it, the writer's next builder carries every change of the writer that the filter (built from ALL
     changes of the switched peer) does not report *)
  Theorem catch_up_after_reset_partial (dR dW : doc) (sR sW : state) :
    read_only sR = true ->
    exists sR2 m, gen dR (set_read_only sR false) = (sR2, Some m) /\
      forall dW' sW', rcv dW sW m = Ok (dW', sW') ->
        dW' = dW /\ sent_hashes sW' = [] /\ peer_read_only sW' = false /\
        forall b, bld dW sW' = Some b ->
          forall c, In c (applied dW) ->
            b_query (b_make (hashes (applied dR))) (ch_hash c) = false ->
            In (ch_hash c) (b_hashes b).
  Proof.
    intros Hro.
    destruct (set_read_only_false_requests_reset dR sR Hro) as (s2 & m & Hg & _ & _ & _ & Hneed & Hhave & Hch & Hfl).
    exists s2, m. split; [exact Hg|]. intros dW' sW' Hr.
    assert (Hd : dW' = dW).
    { unfold receive_sync_message in Hr. rewrite Hch in Hr. cbn [bind] in Hr. inversion Hr; reflexivity. }
    subst dW'. split; [reflexivity|].
    assert (Hsent : sent_hashes sW' = []).
    { apply (reset_clears_sent_hashes _ _ _ _ _ Hr).
      destruct Hfl as [(_ & _ & f & Hf & Hs & _)|(_ & Hh & _)]; [left; exists f; auto|right; exact Hh]. }
    split; [exact Hsent|].
    assert (Hpro : peer_read_only sW' = false).
    { unfold receive_sync_message in Hr. rewrite Hch in Hr. cbn [bind] in Hr. inversion Hr; subst. cbn [peer_read_only].
      destruct Hfl as [(_ & _ & f & Hf & _ & Hq)|(_ & _ & f & Hf & Hq)]; rewrite Hf; exact Hq. }
    split; [exact Hpro|].
    assert (Hth : their_have sW' = Some [make_bloom b_make dR []] /\ their_need sW' = Some []).
    { unfold receive_sync_message in Hr. rewrite Hch in Hr. cbn [bind] in Hr. inversion Hr; subst.
      cbn [their_have their_need]. rewrite Hhave, Hneed. auto. }
    destruct Hth as [Hth Htn].
    intros b Hb c Hc Hq.
    apply (read_only_still_sends dW sW' (read_only sW') [make_bloom b_make dR []] [] b c Hth).
    - discriminate.
    - exact Htn.
    - exact Hpro.
    - destruct sW'; exact Hb.
    - cbn. rewrite get_changes_nil. exact Hc.
    - cbn. rewrite get_changes_nil. rewrite Hq. reflexivity.
    - rewrite Hsent. intros [].
  Qed.

  (* ---------------------------------------------------------------- C20 safety *)

  (* receiving a message only ever adds changes the message carries *)
  Theorem sync_only_adds_peer_changes (d : doc) (s : state) (m : msg) d' s' :
    rcv d s m = Ok (d', s') ->
    incl (applied d ++ queue d) (applied d' ++ queue d') /\
    forall c, In c (applied d' ++ queue d') -> In c (applied d ++ queue d) \/ In c (msg_changes m).
  Proof.
    intros H. unfold receive_sync_message in H. unfold msg_changes.
    destruct (m_changes m) as [cs|].
    - destruct (read_only s).
      + cbn [bind] in H. inversion H; subst. split; [apply incl_refl|auto].
      + destruct (Doc.receive d cs) as [d1| |] eqn:Er; cbn [bind] in H; try discriminate.
        inversion H; subst. destruct (receive_keeps _ _ _ Er) as (_ & K2 & K3 & _).
        split; [exact K2|]. intros c Hc. apply K3 in Hc. rewrite app_assoc in Hc.
        apply in_app_or in Hc. cbn [opt_list]. tauto.
    - cbn [bind] in H. inversion H; subst. split; [apply incl_refl|auto].
  Qed.

  (* applied changes are never lost, and stay closed under dependencies *)
  Theorem sync_receive_monotone (d : doc) (s : state) (m : msg) d' s' :
    rcv d s m = Ok (d', s') -> incl (applied d) (applied d') /\ (dep_closed (applied d) -> dep_closed (applied d')).
  Proof.
    intros H. unfold receive_sync_message in H.
    destruct (m_changes m) as [cs|].
    - destruct (read_only s).
      + cbn [bind] in H. inversion H; subst. split; [apply incl_refl|auto].
      + destruct (Doc.receive d cs) as [d1| |] eqn:Er; cbn [bind] in H; try discriminate.
        inversion H; subst. destruct (receive_keeps _ _ _ Er) as (K1 & _).
        split; [exact K1|]. intros Hc. exact (receive_closed _ _ _ Hc Er).
    - cbn [bind] in H. inversion H; subst. split; [apply incl_refl|auto].
  Qed.

  (* what a message carries comes from the sender's document (applied or held) *)
  Theorem generated_changes_from_sender (d : doc) (s : state) s' m :
    gen d s = (s', Some m) -> incl (msg_changes m) (applied d ++ queue d).
  Proof.
    unfold generate_sync_message. intros H.
    destruct (reset_cond d s). { inversion H; subst. intros x []. }
    destruct (bld d s) as [b|] eqn:Eb; [|discriminate].
    destruct (quiet s (heads_of (applied d)) b); [discriminate|].
    inversion H; subst. unfold msg_changes. cbn [m_changes].
    unfold build in Eb.
    destruct (peer_read_only s). { inversion Eb; subst. intros x []. }
    destruct (their_have s) as [hv|]; [|inversion Eb; subst; intros x []].
    destruct (their_need s) as [nd|]; [|inversion Eb; subst; intros x []].
    destruct (send_doc s). { inversion Eb; subst. cbn. apply incl_refl. }
    match type of Eb with context [lookup_changes _ ?l] => set (hs := l) in * end.
    destruct ((lenN (applied d) / 3 <? lenN hs) && supports_v2 s). { inversion Eb; subst. cbn. apply incl_refl. }
    destruct (lookup_changes (applied d) hs) as [cs|] eqn:El; [|discriminate].
    inversion Eb; subst. cbn [b_changes]. apply lookup_changes_hashes in El. destruct El as [_ I].
    destruct cs as [|c0 cs']; [intros x []|]. cbn [opt_list]. apply incl_appl. exact I.
  Qed.

  (* ---------------------------------------------------------------- C21: fresh and persisted states *)

  (* a fresh state, and a state restored from State::encode, always speak first: whatever the document,
     generate returns a message announcing the current heads, so no reconnected peer waits silently *)
  Theorem fresh_state_speaks (d : doc) :
    exists s' m, gen d fresh_state = (s', Some m) /\ m_heads m = heads_of (applied d) /\
                 m_changes m = None /\ in_flight s' = true /\ have_responded s' = true.
  Proof.
    unfold generate_sync_message. cbn [fresh_state reset_cond their_have read_only their_heads opt_list].
    unfold build. cbn [peer_read_only their_have]. unfold quiet. cbn [have_responded].
    rewrite andb_false_r. cbn [andb needs_reset].
    eexists. eexists. split; [reflexivity|]. cbn. auto.
  Qed.

  Theorem persisted_state_speaks (d : doc) (s0 : state) :
    exists s' m, gen d (persist s0) = (s', Some m) /\ m_heads m = heads_of (applied d) /\
                 m_changes m = None /\ in_flight s' = true /\ have_responded s' = true /\
                 shared_heads s' = shared_heads s0 /\ sent_hashes s' = [].
  Proof.
    unfold generate_sync_message, persist, decoded_state.
    cbn [reset_cond their_have read_only their_heads opt_list].
    unfold build. cbn [peer_read_only their_have their_need]. unfold quiet. cbn [have_responded].
    rewrite andb_false_r. cbn [andb needs_reset].
    eexists. eexists. split; [reflexivity|]. cbn. auto 10.
  Qed.

  (* State::decode (State::encode s) keeps the shared heads and nothing else *)
  Theorem decode_encode_state_resets_session (s0 : state) :
    persist s0 = mkSS (shared_heads s0) [] None None (Some []) [] false false None false false false.
  Proof. reflexivity. Qed.

  (* when the peer's last_sync names a change we do not have (it synced with an incarnation of us that
     had more than we have now), we answer with a reset message and keep our state *)
  Theorem reset_when_last_sync_unknown (d : doc) (s : state) h rest x :
    their_have s = Some (h :: rest) -> In x (hv_last_sync h) -> has_hash (applied d) x = false ->
    gen d s = (s, Some (reset_message b_make (heads_of (applied d)))).
  Proof.
    intros Hh Hx Hn. unfold generate_sync_message.
    assert (E : reset_cond d s = true).
    { unfold reset_cond. rewrite Hh. apply negb_true_iff. rewrite <- not_true_iff_false. intros F.
      rewrite forallb_forall in F. rewrite (F x Hx) in Hn. discriminate. }
    rewrite E. reflexivity.
  Qed.

  (* a reset message makes the receiver forget last_sync: it will offer everything the (empty) filter
     does not report *)
  Theorem reset_message_received (d : doc) (s : state) hs d' s' :
    rcv d s (reset_message b_make hs) = Ok (d', s') ->
    d' = d /\ their_have s' = Some [mkHave [] (b_make [])] /\ their_need s' = Some [] /\
    their_heads s' = Some hs /\ in_flight s' = false.
  Proof.
    unfold receive_sync_message, reset_message. cbn [m_changes m_flags m_heads m_need m_have bind].
    intros H. inversion H; subst. cbn. auto.
  Qed.
End P.
