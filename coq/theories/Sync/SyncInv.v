(* Sync/SyncInv.v — two peers, a reliable in-order link in each direction, any interleaving of
   generate / receive / local edits: an invariant of all reachable states, and from it
   quiescence soundness (C20): when both peers return None from generate_sync_message and nothing
   is in flight, they hold the same changes and the same heads.

   The system state carries two history variables (gA, gB: the applied changes of a peer at the
   moment it last put a message on the wire); they do not influence any step.
   Scope: both sync states read-write and never switched, and no step takes the reset path of
   generate_sync_message (the peer's last_sync names a change we lack), which a two-peer session
   from fresh states never does on the implementation (counted by the harness). *)
From AM Require Import Base.Prelude Base.Order Gen.Consts Crdt.Types Crdt.Doc Crdt.DocProofs Crdt.QueueProofs
  Sync.Proto Sync.ProtoProofs.
Local Open Scope N_scope.

(* ------------------------------------------------------------------ *)
(* heads determine the set of changes (closed sets inside one acyclic, hash-addressed universe) *)

Section Heads.
  Variable U : list change.
  Variable rk : change -> nat.
  Hypothesis Uinj : hash_inj U.
  Hypothesis Uacyc : forall c c', In c U -> In c' U -> In (ch_hash c) (ch_deps c') -> (rk c < rk c')%nat.

  Lemma heads_determine_incl A A' :
    incl A U -> incl A' U -> dep_closed A' ->
    (forall h, In h (heads_of A) -> In h (heads_of A')) -> incl A A'.
  Proof.
    intros HA HA' Hcl Hh.
    set (M := list_max (map rk A)).
    assert (HM : forall c, In c A -> (rk c <= M)%nat).
    { intros c Hc. unfold M. assert (K := list_max_le (map rk A) (list_max (map rk A))).
      destruct K as [K _]. specialize (K (Nat.le_refl _)). rewrite Forall_forall in K.
      apply K. apply in_map. exact Hc. }
    assert (G : forall n c, In c A -> (M - rk c <= n)%nat -> In c A').
    { induction n as [|n IH]; intros c Hc Hn.
      - (* maximal rank: nothing in A depends on c, so it is a head *)
        assert (Hhd : In (ch_hash c) (heads_of A)).
        { apply heads_spec. split; [exists c; auto|]. intros c' Hc' Hd.
          assert (R := Uacyc c c' (HA _ Hc) (HA _ Hc') Hd). specialize (HM c' Hc'). lia. }
        apply Hh in Hhd. apply heads_spec in Hhd. destruct Hhd as [(c2 & Hc2 & E) _].
        rewrite (Uinj c c2 (HA _ Hc) (HA' _ Hc2) (eq_sym E)). exact Hc2.
      - destruct (existsb (fun c' => memb N.eqb (ch_hash c) (ch_deps c')) A) eqn:Ex.
        + apply existsb_exists in Ex. destruct Ex as (c' & Hc' & Hd). apply memb_N_In in Hd.
          assert (R := Uacyc c c' (HA _ Hc) (HA _ Hc') Hd).
          assert (Hin : In c' A') by (apply IH; [exact Hc'|specialize (HM c' Hc'); lia]).
          specialize (Hcl c' Hin _ Hd). apply QueueProofs.has_hash_spec in Hcl. destruct Hcl as (c2 & Hc2 & E).
          rewrite (Uinj c c2 (HA _ Hc) (HA' _ Hc2) (eq_sym E)). exact Hc2.
        + assert (Hhd : In (ch_hash c) (heads_of A)).
          { apply heads_spec. split; [exists c; auto|]. intros c' Hc' Hd.
            rewrite <- not_true_iff_false in Ex. apply Ex. apply existsb_exists. exists c'. split; [exact Hc'|].
            apply memb_N_In. exact Hd. }
          apply Hh in Hhd. apply heads_spec in Hhd. destruct Hhd as [(c2 & Hc2 & E) _].
          rewrite (Uinj c c2 (HA _ Hc) (HA' _ Hc2) (eq_sym E)). exact Hc2. }
    intros c Hc. apply (G (M - rk c)%nat c Hc). lia.
  Qed.

  Lemma heads_of_same_set A A' : (forall c, In c A <-> In c A') ->
    forall h, In h (heads_of A) <-> In h (heads_of A').
  Proof.
    intros E h. rewrite !heads_spec. split; intros [(c & Hc & Eh) Hn]; (split; [exists c; split; [apply E; exact Hc|exact Eh]|]);
      intros c' Hc'; apply Hn; apply E; exact Hc'.
  Qed.
End Heads.

(* ------------------------------------------------------------------ *)
(* facts about one generate / one receive                               *)

Section Steps.
  Variable B : Type.
  Variable b_make : list N -> B.
  Variable b_query : B -> N -> bool.
  Notation state := (sync_state B).
  Notation msg := (message B).
  Notation gen := (@generate_sync_message B b_make b_query).
  Notation rcv := (@receive_sync_message B).
  Notation bld := (@build B b_query).

  Lemma find_has_hash appl h : has_hash appl h = true -> exists c, find (fun c => ch_hash c =? h) appl = Some c.
  Proof.
    induction appl as [|x t IH]; cbn; [discriminate|].
    destruct (ch_hash x =? h); [intros _; exists x; reflexivity|]. cbn. exact IH.
  Qed.

  Lemma lookup_total appl : forall hs, (forall h, In h hs -> has_hash appl h = true) ->
    exists cs, lookup_changes appl hs = Some cs.
  Proof.
    induction hs as [|h t IH]; intros H; cbn; [exists []; reflexivity|].
    destruct (find_has_hash appl h (H h (or_introl eq_refl))) as [c ->].
    destruct IH as [r ->]; [intros x Hx; apply H; right; exact Hx|]. eexists; reflexivity.
  Qed.

  Lemma hashes_has_hash l h : In h (hashes l) -> has_hash l h = true.
  Proof.
    intros H. unfold hashes in H. apply in_map_iff in H. destruct H as (c & E & Hc).
    apply QueueProofs.has_hash_spec. exists c. auto.
  Qed.

  Lemma to_send_in_doc (d : doc) hv nd h :
    In h (get_hashes_to_send b_query d hv nd) -> has_hash (applied d) h = true.
  Proof.
    unfold get_hashes_to_send. intros H.
    assert (K : In h (filter (has_hash (applied d)) nd) -> has_hash (applied d) h = true).
    { intros X. apply filter_In in X. exact (proj2 X). }
    destruct hv as [|h0 hv']; [exact (K H)|].
    apply in_app_or in H. destruct H as [H|H].
    - apply filter_In in H. exact (K (proj1 H)).
    - apply close_dependents_sub in H. destruct H as [[]|H].
      apply hashes_has_hash. unfold hashes in *. apply in_map_iff in H. destruct H as (c & E & Hc).
      apply in_map_iff. exists c. split; [exact E|]. exact (get_changes_sub _ _ _ Hc).
  Qed.

  (* the `.ok()?` exit of generate_sync_message is never taken *)
  Lemma build_total (d : doc) (s : state) : exists b, bld d s = Some b.
  Proof.
    unfold build. destruct (peer_read_only s); [eexists; reflexivity|].
    destruct (their_have s) as [hv|]; [|eexists; reflexivity].
    destruct (their_need s) as [nd|]; [|eexists; reflexivity].
    destruct (send_doc s); [eexists; reflexivity|].
    match goal with |- context [lookup_changes _ ?l] => set (hs := l) end.
    destruct ((lenN (applied d) / 3 <? lenN hs) && supports_v2 s); [eexists; reflexivity|].
    destruct (lookup_total (applied d) hs) as [cs ->]; [|eexists; reflexivity].
    intros h Hh. unfold hs in Hh. apply filter_In in Hh. exact (to_send_in_doc _ _ _ _ (proj1 Hh)).
  Qed.

  (* generate, outside the reset path, on a state that is not about to reset *)
  Lemma gen_cases (d : doc) (s s' : state) om :
    reset_cond d s = false -> needs_reset s = false -> gen d s = (s', om) ->
    (om = None /\ s' = s /\ exists b, quiet s (heads_of (applied d)) b = true) \/
    (exists m, om = Some m /\ m_heads m = heads_of (applied d) /\
       last_sent_heads s' = heads_of (applied d) /\ in_flight s' = true /\ have_responded s' = true /\
       their_heads s' = their_heads s /\ read_only s' = read_only s /\ needs_reset s' = false /\
       incl (msg_changes m) (applied d ++ queue d)).
  Proof.
    intros Hr Hn H. assert (Hinc := fun m (E : om = Some m) =>
      generated_changes_from_sender B b_make b_query d s s' m (eq_trans H (f_equal (pair s') E))).
    unfold generate_sync_message in H. rewrite Hr in H.
    destruct (build_total d s) as [b Eb]. rewrite Eb in H.
    destruct (quiet s (heads_of (applied d)) b) eqn:Q.
    - inversion H; subst. left. split; [reflexivity|]. split; [reflexivity|]. exists b. exact Q.
    - right. inversion H; subst. rewrite Hn. cbn [andb].
      eexists. split; [reflexivity|]. cbn [m_heads last_sent_heads in_flight have_responded their_heads read_only needs_reset].
      repeat (split; [reflexivity|]). apply Hinc. rewrite Hn. reflexivity.
  Qed.

  Lemma rcv_facts (d : doc) (s : state) (m : msg) d' s' :
    rcv d s m = Ok (d', s') ->
    in_flight s' = false /\ their_heads s' = Some (m_heads m) /\ read_only s' = read_only s /\
    needs_reset s' = needs_reset s /\ have_responded s' = have_responded s.
  Proof.
    intros H. unfold receive_sync_message in H.
    match type of H with (let* _ := ?X in _) = _ => destruct X as [[d1 sh]| |] end; cbn [bind] in H; try discriminate.
    inversion H; subst. cbn. auto.
  Qed.

  Lemma quiet_facts (s : state) hs b : quiet s hs b = true -> read_only s = false ->
    last_sent_heads s = hs /\ have_responded s = true /\ (their_heads s = Some hs \/ in_flight s = true).
  Proof.
    unfold quiet. intros H Hro. rewrite Hro, orb_false_r in H.
    apply andb_true_iff in H. destruct H as [H H3]. apply andb_true_iff in H. destruct H as [H1 H2].
    apply (list_eqb_spec N.eqb N.eqb_eq) in H1. split; [exact H1|]. split; [exact H2|].
    apply orb_true_iff in H3. destruct H3 as [H3|H3]; [left|right; exact H3].
    apply andb_true_iff in H3. destruct H3 as [H3 _]. unfold heads_equal in H3.
    destruct (their_heads s) as [h|]; [|discriminate]. apply (list_eqb_spec N.eqb N.eqb_eq) in H3. subst. reflexivity.
  Qed.

  (* ------------------------------------------------------------------ *)
  (* the two-peer system                                                 *)

  Variable U : list change.
  Variable rk : change -> nat.
  Hypothesis Uinj : hash_inj U.
  Hypothesis Uacyc : forall c c', In c U -> In c' U -> In (ch_hash c) (ch_deps c') -> (rk c < rk c')%nat.

  Record sys := mkSys {
    dA : doc; dB : doc; sA : state; sB : state;
    cAB : list msg; cBA : list msg;                 (* in flight, oldest first *)
    gA : option (list change); gB : option (list change) }.   (* history: applied changes at the last send *)

  Definition swap (w : sys) : sys := mkSys (dB w) (dA w) (sB w) (sA w) (cBA w) (cAB w) (gB w) (gA w).

  Definition good_doc (d : doc) : Prop := dep_closed (applied d) /\ incl (applied d ++ queue d) U.

  Definition opt_msg (om : option msg) : list msg := match om with Some m => [m] | None => [] end.

  (* steps of peer A; peer B's are the mirror images *)
  Inductive stepA : sys -> sys -> Prop :=
  | GenA w s' om : reset_cond (dA w) (sA w) = false -> gen (dA w) (sA w) = (s', om) ->
      stepA w (mkSys (dA w) (dB w) s' (sB w) (cAB w ++ opt_msg om) (cBA w)
                     (match om with Some _ => Some (applied (dA w)) | None => gA w end) (gB w))
  | RecvA w m rest d' s' : cBA w = m :: rest -> rcv (dA w) (sA w) m = Ok (d', s') ->
      stepA w (mkSys d' (dB w) s' (sB w) (cAB w) rest (gA w) (gB w))
  | EditA w d' : incl (applied (dA w)) (applied d') -> good_doc d' ->
      stepA w (mkSys d' (dB w) (sA w) (sB w) (cAB w) (cBA w) (gA w) (gB w)).

  Inductive step : sys -> sys -> Prop :=
  | StepA w w' : stepA w w' -> step w w'
  | StepB w w' : stepA (swap w) (swap w') -> step w w'.

  Definition initial (w : sys) : Prop :=
    good_doc (dA w) /\ good_doc (dB w) /\ sA w = fresh_state /\ sB w = fresh_state /\
    cAB w = [] /\ cBA w = [] /\ gA w = None /\ gB w = None.

  Inductive reachable : sys -> Prop :=
  | R0 w : initial w -> reachable w
  | RS w w' : reachable w -> step w w' -> reachable w'.

  (* what the receiver believes (or will believe once the channel has drained) about the sender's heads *)
  Definition view (c : list msg) (sY : state) : option (list N) :=
    match rev c with m :: _ => Some (m_heads m) | [] => their_heads sY end.

  Lemma view_snoc c m sY : view (c ++ [m]) sY = Some (m_heads m).
  Proof. unfold view. rewrite rev_app_distr. reflexivity. Qed.

  Lemma view_pop m rest sY sY' : their_heads sY' = Some (m_heads m) -> view rest sY' = view (m :: rest) sY.
  Proof.
    intros H. unfold view. cbn [rev]. destruct (rev rest) as [|x l]; cbn; [exact H|reflexivity].
  Qed.

  Lemma view_state c sY sY' : their_heads sY' = their_heads sY -> view c sY' = view c sY.
  Proof. intros H. unfold view. destruct (rev c); [exact H|reflexivity]. Qed.

  (* the invariant, for the direction X -> Y *)
  Record dir_inv (dX : doc) (sX sY : state) (cXY : list msg) (gX : option (list change)) : Prop := mkDI {
    di_rw : read_only sX = false /\ needs_reset sX = false;
    di_flight : in_flight sX = true -> view cXY sY = Some (last_sent_heads sX);
    di_view : view cXY sY = option_map heads_of gX;
    di_resp : have_responded sX = true -> gX <> None;
    di_hist : forall g, gX = Some g -> incl g (applied dX) /\ dep_closed g;
    di_doc : good_doc dX;
    di_chan : forall m, In m cXY -> incl (msg_changes m) U }.

  Definition Inv (w : sys) : Prop :=
    dir_inv (dA w) (sA w) (sB w) (cAB w) (gA w) /\
    dir_inv (dB w) (sB w) (sA w) (cBA w) (gB w) /\
    (in_flight (sA w) = true -> in_flight (sB w) = true -> cAB w <> [] \/ cBA w <> []).

  Lemma Inv_swap w : Inv w -> Inv (swap w).
  Proof. intros (I1 & I2 & I3). split; [exact I2|]. split; [exact I1|]. cbn. intros a b. destruct (I3 b a); auto. Qed.

  Lemma Inv_initial w : initial w -> Inv w.
  Proof.
    intros (GA & GB & EA & EB & CA & CB & HA & HB).
    split; [|split].
    - rewrite EA, EB, CA, HA. constructor; cbn; try discriminate; auto. intros m [].
    - rewrite EA, EB, CB, HB. constructor; cbn; try discriminate; auto. intros m [].
    - rewrite EA. cbn. discriminate.
  Qed.

  Lemma Inv_stepA w w' : Inv w -> stepA w w' -> Inv w'.
  Proof.
    intros (I1 & I2 & I3) St. destruct I1 as [[Hro Hnr] Hfl Hvw Hrs Hhs Hdoc Hch].
    destruct I2 as [[Hro2 Hnr2] Hfl2 Hvw2 Hrs2 Hhs2 Hdoc2 Hch2].
    inversion St; subst; clear St.
    - (* generate at A *)
      match goal with Hr : reset_cond _ _ = false, Hg : generate_sync_message _ _ _ _ = _ |- _ => destruct (gen_cases _ _ _ _ Hr Hnr Hg) as [(-> & -> & _)|(m & -> & Hmh & Hls & Hif & Hhr & Hth & Hror & Hnr' & Hinc)] end.
      + cbn [opt_msg]. rewrite app_nil_r. split; [|split]; cbn; [constructor; auto|constructor; auto|exact I3].
      + cbn [opt_msg]. split; [|split]; cbn [dA dB sA sB cAB cBA gA gB].
        * constructor.
          -- rewrite Hror. auto.
          -- intros _. rewrite view_snoc, Hmh, Hls. reflexivity.
          -- rewrite view_snoc, Hmh. reflexivity.
          -- discriminate.
          -- intros g Hg. inversion Hg; subst. split; [apply incl_refl|exact (proj1 Hdoc)].
          -- exact Hdoc.
          -- intros x Hx. apply in_app_or in Hx. destruct Hx as [Hx|[<-|[]]]; [exact (Hch _ Hx)|].
             intros c Hc. apply (proj2 Hdoc). exact (Hinc _ Hc).
        * constructor; auto.
          -- intros Hf. rewrite (view_state _ _ _ Hth). exact (Hfl2 Hf).
          -- rewrite (view_state _ _ _ Hth). exact Hvw2.
        * intros _ _. left. destruct (cAB w); discriminate.
    - (* receive at A *)
      match goal with H : receive_sync_message _ _ _ = _ |- _ =>
        destruct (rcv_facts _ _ _ _ _ H) as (Rif & Rth & Rro & Rnr & Rhr);
        destruct (sync_receive_monotone B _ _ _ _ _ H) as (Rmono & Rcl);
        destruct (sync_only_adds_peer_changes B _ _ _ _ _ H) as (_ & Radd) end.
      match goal with H : cBA w = _ |- _ => rename H into Ec end.
      split; [|split]; cbn [dA dB sA sB cAB cBA gA gB].
      + constructor.
        * rewrite Rro, Rnr. auto.
        * rewrite Rif. discriminate.
        * exact Hvw.
        * rewrite Rhr. exact Hrs.
        * intros g Hg. destruct (Hhs g Hg) as [Hi Hc]. split; [|exact Hc]. intros c Hc'. apply Rmono, Hi, Hc'.
        * split; [exact (Rcl (proj1 Hdoc))|]. intros c Hc. destruct (Radd c Hc) as [K|K]; [exact (proj2 Hdoc c K)|].
          apply (Hch2 m); [rewrite Ec; left; reflexivity|exact K].
        * exact Hch.
      + constructor; auto.
        * intros Hf. rewrite (view_pop m rest (sA w) s' Rth). rewrite <- Ec. exact (Hfl2 Hf).
        * rewrite (view_pop m rest (sA w) s' Rth). rewrite <- Ec. exact Hvw2.
        * intros x Hx. apply Hch2. rewrite Ec. right. exact Hx.
      + rewrite Rif. discriminate.
    - (* local edit at A *)
      split; [|split]; cbn [dA dB sA sB cAB cBA gA gB]; [|constructor; auto|exact I3].
      constructor; auto.
      intros g Hg. destruct (Hhs g Hg) as [Hi Hc]. split; [|exact Hc]. intros c Hc'. auto.
  Qed.

  Lemma swap_swap w : swap (swap w) = w.
  Proof. destruct w; reflexivity. Qed.

  Theorem Inv_reachable w : reachable w -> Inv w.
  Proof.
    induction 1 as [w H|w w' _ IH St]; [exact (Inv_initial w H)|].
    destruct St as [w w' St|w w' St]; [exact (Inv_stepA _ _ IH St)|].
    rewrite <- (swap_swap w'). apply Inv_swap. exact (Inv_stepA _ _ (Inv_swap _ IH) St).
  Qed.

  (* ------------------------------------------------------------------ *)
  (* quiescence soundness                                                *)

  Definition same_changes (a b : list change) : Prop := forall c, In c a <-> In c b.

  Lemma gen_none (d : doc) (s s' : state) :
    gen d s = (s', None) -> needs_reset s = false -> read_only s = false ->
    last_sent_heads s = heads_of (applied d) /\ have_responded s = true /\
    (their_heads s = Some (heads_of (applied d)) \/ in_flight s = true).
  Proof.
    intros H Hn Hro.
    assert (Hr : reset_cond d s = false).
    { unfold generate_sync_message in H. destruct (reset_cond d s); [discriminate|reflexivity]. }
    destruct (gen_cases _ _ _ _ Hr Hn H) as [(_ & _ & b & Q)|(m & E & _)]; [|discriminate].
    exact (quiet_facts _ _ _ Q Hro).
  Qed.

  Lemma equal_heads_same_changes (a b : list change) :
    incl a U -> incl b U -> dep_closed a -> dep_closed b -> heads_of a = heads_of b -> same_changes a b.
  Proof.
    intros Ha Hb Ca Cb E c. split; intros Hc.
    - apply (heads_determine_incl U rk Uinj Uacyc a b Ha Hb Cb); [rewrite E; auto|exact Hc].
    - apply (heads_determine_incl U rk Uinj Uacyc b a Hb Ha Ca); [rewrite E; auto|exact Hc].
  Qed.

  Theorem quiescent_implies_equal_heads w sa sb :
    reachable w -> cAB w = [] -> cBA w = [] ->
    gen (dA w) (sA w) = (sa, None) -> gen (dB w) (sB w) = (sb, None) ->
    same_changes (applied (dA w)) (applied (dB w)) /\
    forall h, In h (heads_of (applied (dA w))) <-> In h (heads_of (applied (dB w))).
  Proof.
    intros R CA CB GA GB. destruct (Inv_reachable _ R) as (I1 & I2 & I3).
    destruct I1 as [[Hro Hnr] Hfl Hvw Hrs Hhs Hdoc Hch].
    destruct I2 as [[Hro2 Hnr2] Hfl2 Hvw2 Hrs2 Hhs2 Hdoc2 Hch2].
    destruct (gen_none _ _ _ GA Hnr Hro) as (LA & RA & QA).
    destruct (gen_none _ _ _ GB Hnr2 Hro2) as (LB & RB & QB).
    rewrite CA in *. rewrite CB in *. unfold view in *. cbn [rev] in *.
    assert (Hinc : forall d, good_doc d -> incl (applied d) U).
    { intros d [_ G] c Hc. apply G. apply in_or_app. left. exact Hc. }
    assert (Fin : same_changes (applied (dA w)) (applied (dB w)) ->
                  same_changes (applied (dA w)) (applied (dB w)) /\
                  forall h, In h (heads_of (applied (dA w))) <-> In h (heads_of (applied (dB w)))).
    { intros S. split; [exact S|]. apply heads_of_same_set. exact S. }
    apply Fin.
    destruct QA as [QA|QA]; destruct QB as [QB|QB].
    - (* neither waits: each believes the other has its own heads; sandwich through the history variables *)
      destruct (gA w) as [ga|] eqn:EgA; [|exfalso; exact (Hrs RA eq_refl)].
      destruct (gB w) as [gb|] eqn:EgB; [|exfalso; exact (Hrs2 RB eq_refl)].
      cbn [option_map] in Hvw, Hvw2. rewrite QB in Hvw. rewrite QA in Hvw2.
      inversion Hvw as [E1]. inversion Hvw2 as [E2].
      destruct (Hhs ga eq_refl) as [IA CAcl]. destruct (Hhs2 gb eq_refl) as [IB CBcl].
      assert (S1 : same_changes (applied (dB w)) ga).
      { apply equal_heads_same_changes; auto.
        - intros c Hc. apply (Hinc _ Hdoc). auto.
        - exact (proj1 Hdoc2). }
      assert (S2 : same_changes (applied (dA w)) gb).
      { apply equal_heads_same_changes; auto.
        - intros c Hc. apply (Hinc _ Hdoc2). auto.
        - exact (proj1 Hdoc). }
      intros c. split; intros Hc.
      + apply IB. apply S2. exact Hc.
      + apply IA. apply S1. exact Hc.
    - (* B waits: A has received B's last message, whose heads are B's current heads *)
      specialize (Hfl2 QB). rewrite QA, LB in Hfl2. inversion Hfl2 as [E].
      apply equal_heads_same_changes; auto; [exact (proj1 Hdoc)|exact (proj1 Hdoc2)].
    - specialize (Hfl QA). rewrite QB, LA in Hfl. inversion Hfl as [E].
      apply equal_heads_same_changes; auto; [exact (proj1 Hdoc)|exact (proj1 Hdoc2)].
    - exfalso. destruct (I3 QA QB) as [X|X]; apply X; reflexivity.
  Qed.

  (* ------------------------------------------------------------------ *)
  (* an executable driver, to exhibit reachable quiescent states (non-vacuity) *)

  Inductive cmd := CGen | CRecv.

  Definition execA (w : sys) (c : cmd) : option sys :=
    match c with
    | CGen =>
      if reset_cond (dA w) (sA w) then None
      else let (s', om) := gen (dA w) (sA w) in
           Some (mkSys (dA w) (dB w) s' (sB w) (cAB w ++ opt_msg om) (cBA w)
                       (match om with Some _ => Some (applied (dA w)) | None => gA w end) (gB w))
    | CRecv =>
      match cBA w with
      | m :: rest =>
        match rcv (dA w) (sA w) m with
        | Ok (d', s') => Some (mkSys d' (dB w) s' (sB w) (cAB w) rest (gA w) (gB w))
        | _ => None
        end
      | [] => None
      end
    end.

  Definition exec1 (w : sys) (c : bool * cmd) : option sys :=
    if fst c then execA w (snd c) else option_map swap (execA (swap w) (snd c)).

  Fixpoint exec (w : sys) (cs : list (bool * cmd)) : option sys :=
    match cs with
    | [] => Some w
    | c :: t => match exec1 w c with Some w' => exec w' t | None => None end
    end.

  Lemma execA_sound w c w' : execA w c = Some w' -> stepA w w'.
  Proof.
    destruct c; cbn [execA]; intros H.
    - destruct (reset_cond (dA w) (sA w)) eqn:Er; [discriminate|].
      destruct (gen (dA w) (sA w)) as [s' om] eqn:Eg. inversion H; subst. apply GenA; assumption.
    - destruct (cBA w) as [|m rest] eqn:Ec; [discriminate|].
      destruct (rcv (dA w) (sA w) m) as [[d' s']| |] eqn:Er; try discriminate.
      inversion H; subst. eapply RecvA; eassumption.
  Qed.

  Lemma exec_sound : forall cs w w', reachable w -> exec w cs = Some w' -> reachable w'.
  Proof.
    induction cs as [|c t IH]; intros w w' R H; cbn [exec] in H; [inversion H; subst; exact R|].
    destruct (exec1 w c) as [w1|] eqn:E1; [|discriminate]. apply (IH w1 w'); [|exact H].
    apply (RS w w1 R). unfold exec1 in E1. destruct (fst c).
    - apply StepA. exact (execA_sound _ _ _ E1).
    - destruct (execA (swap w) (snd c)) as [x|] eqn:Ex; [|discriminate]. inversion E1; subst.
      apply StepB. rewrite swap_swap. exact (execA_sound _ _ _ Ex).
  Qed.
End Steps.
