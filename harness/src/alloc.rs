// Counting allocator: total bytes requested and the largest single request since the last reset.
use std::alloc::{GlobalAlloc, Layout, System};
use std::sync::atomic::{AtomicU64, Ordering};

pub struct Counting;
static TOTAL: AtomicU64 = AtomicU64::new(0);
static LARGEST: AtomicU64 = AtomicU64::new(0);

unsafe impl GlobalAlloc for Counting {
    unsafe fn alloc(&self, l: Layout) -> *mut u8 {
        TOTAL.fetch_add(l.size() as u64, Ordering::Relaxed);
        LARGEST.fetch_max(l.size() as u64, Ordering::Relaxed);
        System.alloc(l)
    }
    unsafe fn dealloc(&self, p: *mut u8, l: Layout) {
        System.dealloc(p, l)
    }
    unsafe fn realloc(&self, p: *mut u8, l: Layout, n: usize) -> *mut u8 {
        TOTAL.fetch_add(n as u64, Ordering::Relaxed);
        LARGEST.fetch_max(n as u64, Ordering::Relaxed);
        System.realloc(p, l, n)
    }
    unsafe fn alloc_zeroed(&self, l: Layout) -> *mut u8 {
        TOTAL.fetch_add(l.size() as u64, Ordering::Relaxed);
        LARGEST.fetch_max(l.size() as u64, Ordering::Relaxed);
        System.alloc_zeroed(l)
    }
}

pub fn reset() {
    TOTAL.store(0, Ordering::Relaxed);
    LARGEST.store(0, Ordering::Relaxed);
}
/// (total bytes requested, largest single request)
pub fn stats() -> (u64, u64) {
    (TOTAL.load(Ordering::Relaxed), LARGEST.load(Ordering::Relaxed))
}
