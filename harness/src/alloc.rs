// Counting allocator: total bytes requested and the largest single request since the last reset.
use std::alloc::{GlobalAlloc, Layout, System};
use std::sync::atomic::{AtomicU64, Ordering};

pub struct Counting;
static TOTAL: AtomicU64 = AtomicU64::new(0);
static LARGEST: AtomicU64 = AtomicU64::new(0);
// live bytes and their high-water mark (used by the robust family: peak memory of one call)
static LIVE: AtomicU64 = AtomicU64::new(0);
static PEAK: AtomicU64 = AtomicU64::new(0);
fn grow(n: u64) {
    let l = LIVE.fetch_add(n, Ordering::Relaxed) + n;
    PEAK.fetch_max(l, Ordering::Relaxed);
}
fn shrink(n: u64) {
    let _ = LIVE.fetch_update(Ordering::Relaxed, Ordering::Relaxed, |l| Some(l.saturating_sub(n)));
}

unsafe impl GlobalAlloc for Counting {
    unsafe fn alloc(&self, l: Layout) -> *mut u8 {
        TOTAL.fetch_add(l.size() as u64, Ordering::Relaxed);
        LARGEST.fetch_max(l.size() as u64, Ordering::Relaxed);
        grow(l.size() as u64);
        System.alloc(l)
    }
    unsafe fn dealloc(&self, p: *mut u8, l: Layout) {
        shrink(l.size() as u64);
        System.dealloc(p, l)
    }
    unsafe fn realloc(&self, p: *mut u8, l: Layout, n: usize) -> *mut u8 {
        TOTAL.fetch_add(n as u64, Ordering::Relaxed);
        LARGEST.fetch_max(n as u64, Ordering::Relaxed);
        if n >= l.size() {
            grow((n - l.size()) as u64);
        } else {
            shrink((l.size() - n) as u64);
        }
        System.realloc(p, l, n)
    }
    unsafe fn alloc_zeroed(&self, l: Layout) -> *mut u8 {
        TOTAL.fetch_add(l.size() as u64, Ordering::Relaxed);
        LARGEST.fetch_max(l.size() as u64, Ordering::Relaxed);
        grow(l.size() as u64);
        System.alloc_zeroed(l)
    }
}

pub fn reset() {
    TOTAL.store(0, Ordering::Relaxed);
    LARGEST.store(0, Ordering::Relaxed);
}
/// (total bytes requested, largest single request)
pub fn stats() -> (u64, u64) {
    (TOTAL.load(Ordering::Relaxed), LARGEST.load(Ordering::Relaxed))
}

/// start a peak measurement: returns the live byte count now; `peak_since(base)` is the largest number of
/// bytes that were live at one time above that level since the call
pub fn peak_begin() -> u64 {
    let l = LIVE.load(Ordering::Relaxed);
    PEAK.store(l, Ordering::Relaxed);
    l
}
pub fn peak_since(base: u64) -> u64 {
    PEAK.load(Ordering::Relaxed).saturating_sub(base)
}
