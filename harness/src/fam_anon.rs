// Family "anon": anonymization preserves document shape (C31).
//
// Histories: fam_hist::build_universe (code points) plus own multi-replica programs in all four text
// encodings with text-heavy / mark-heavy / conflict-heavy / mixed profiles, commit messages and times.
// For every history: Automerge::anonymize (public API; it draws its own entropy — rand::make_rng — there
// is no seeded public entry point, so the anonymized side of a case differs from run to run; everything
// that is compared or printed is canonical).
// Direct checks on the implementation:
//   graph     same number of changes; the bijection by (actor rank, seq) maps seq, start_op, op count,
//             dependency SETS, message presence / shape, extra-bytes length; heads map to heads
//   op shape  op by op: object / element / predecessor ids as (counter, actor rank), key and mark-name
//             character classes and identity pattern, insert flag, action kind, value kind and encoded shape
//             (this is "the anonymized history is an order-preserving renaming of the original")
//   state     at EVERY recorded head set (mapped through the bijection): per object type, key count and
//             per key (character classes, register kinds) as a multiset, list length and per element the
//             register kinds in op-id order, text width (length_at, in the document's encoding), text
//             character classes, mark coverage per mark name
//   private   hashes, actors, times, messages, keys, strings, bytes, numbers are all replaced (whitespace /
//             ASCII control characters, booleans, null and empty values are documented exceptions)
//   storage   save -> load: same observation, same heads, identical re-save
//   twice     anonymize(anonymize(doc)) has the same graph / op shape / final state shape
// Model cases: chk_same_shape u1 u2 h1 h2 (the Coq interpretation of the ORIGINAL changes and of the
// ANONYMIZED changes have equal shapes at the corresponding heads) and chk_measures (the model's key counts /
// list lengths / text widths of the anonymized history equal the implementation's length_at).
use crate::fam_hist;
use crate::gen::{self, GenCfg};
use crate::model::*;
use crate::util::*;
use automerge::marks::{ExpandMark, Mark};
use automerge::transaction::{CommitOptions, Transactable};
use automerge::{
    legacy, AutoCommit, Automerge, Change, ChangeHash, LoadOptions, ObjId, ObjType, ReadDoc, ScalarValue, TextEncoding,
    Value, ROOT,
};
use serde_json::json;
use std::collections::{BTreeMap, BTreeSet, HashMap};

const HEADER: &str = "From AM Require Import Base.Prelude Base.Order Crdt.Types Crdt.Interp Crdt.Doc Crdt.Local Crdt.Anon Exec.HistExec Exec.AnonExec.\nLocal Open Scope N_scope.\n";

fn enc_name(e: TextEncoding) -> &'static str {
    match e {
        TextEncoding::UnicodeCodePoint => "codepoint",
        TextEncoding::Utf8CodeUnit => "utf8",
        TextEncoding::Utf16CodeUnit => "utf16",
        TextEncoding::GraphemeCluster => "grapheme",
    }
}
fn enc_coq(e: TextEncoding) -> Option<&'static str> {
    match e {
        TextEncoding::UnicodeCodePoint => Some("EncCP"),
        TextEncoding::Utf8CodeUnit => Some("EncU8"),
        TextEncoding::Utf16CodeUnit => Some("EncU16"),
        TextEncoding::GraphemeCluster => None,
    }
}

// ---------------------------------------------------------------- character classes (shape.rs, re-implemented)
fn retained(c: char) -> bool {
    c.is_whitespace() || c.is_ascii_control()
}
fn content_class(c: char) -> String {
    if retained(c) {
        format!("r{:x}", c as u32)
    } else if c.is_ascii() {
        "a".into()
    } else {
        format!("u{}", c.len_utf8())
    }
}
fn content_shape(s: &str) -> String {
    s.chars().map(content_class).collect::<Vec<_>>().join(".")
}
fn struct_class(c: char) -> String {
    if c.is_ascii_control() {
        "c".into()
    } else if c.is_ascii() {
        "a".into()
    } else {
        format!("u{}", c.len_utf8())
    }
}
fn struct_shape(s: &str) -> String {
    s.chars().map(struct_class).collect::<Vec<_>>().join(".")
}
/// what the property needs of a string: the UTF-8 length of each character (determines the width in
/// code points, UTF-8 and UTF-16 units)
fn width_shape(s: &str) -> String {
    s.chars().map(|c| char::from(b'0' + c.len_utf8() as u8)).collect()
}
fn scalar_shape(v: &ScalarValue) -> String {
    match v {
        ScalarValue::Bytes(b) => format!("bytes{}", b.len()),
        ScalarValue::Str(s) => format!("str[{}]", width_shape(s)),
        ScalarValue::Int(_) => "int".into(),
        ScalarValue::Uint(_) => "uint".into(),
        ScalarValue::F64(_) => "f64".into(),
        ScalarValue::Counter(_) => "counter".into(),
        ScalarValue::Timestamp(_) => "timestamp".into(),
        ScalarValue::Boolean(_) => "bool".into(),
        ScalarValue::Unknown { type_code, bytes } => format!("unknown{}:{}", type_code, bytes.len()),
        ScalarValue::Null => "null".into(),
    }
}

// ---------------------------------------------------------------- canonical view of a history
struct Canon {
    ranks: HashMap<Vec<u8>, usize>,
    chars: HashMap<char, usize>,
}
fn all_actors(changes: &[Change]) -> BTreeSet<Vec<u8>> {
    let mut s = BTreeSet::new();
    for c in changes {
        let e = c.decode();
        s.insert(e.actor_id.to_bytes().to_vec());
        for op in &e.operations {
            if let legacy::ObjectId::Id(id) = &op.obj {
                s.insert(id.actor().to_bytes().to_vec());
            }
            if let legacy::Key::Seq(legacy::ElementId::Id(id)) = &op.key {
                s.insert(id.actor().to_bytes().to_vec());
            }
            for p in op.pred.iter() {
                s.insert(p.actor().to_bytes().to_vec());
            }
        }
    }
    s
}
impl Canon {
    fn new(changes: &[Change]) -> Self {
        let ranks = all_actors(changes).into_iter().enumerate().map(|(i, a)| (a, i)).collect();
        Canon { ranks, chars: HashMap::new() }
    }
    fn id(&self, id: &legacy::OpId) -> String {
        format!("{}@{}", id.counter(), self.ranks.get(id.actor().to_bytes()).map(|r| r.to_string()).unwrap_or_else(|| "?".into()))
    }
    fn structural(&mut self, s: &str) -> String {
        s.chars()
            .map(|c| {
                let n = self.chars.len();
                let i = *self.chars.entry(c).or_insert(n);
                format!("{}#{}", struct_class(c), i)
            })
            .collect::<Vec<_>>()
            .join(".")
    }
    /// components of an op: (component name, canonical rendering)
    fn op(&mut self, op: &legacy::Op) -> Vec<(&'static str, String)> {
        let obj = match &op.obj {
            legacy::ObjectId::Root => "root".to_string(),
            legacy::ObjectId::Id(id) => self.id(id),
        };
        let key = match &op.key {
            legacy::Key::Map(k) => format!("map[{}]", self.structural(k)),
            legacy::Key::Seq(legacy::ElementId::Head) => "head".into(),
            legacy::Key::Seq(legacy::ElementId::Id(id)) => format!("elem {}", self.id(id)),
        };
        // predecessors in the order the change lists them: ascending (counter, actor), which an
        // order-preserving actor map keeps
        let preds: Vec<String> = op.pred.iter().map(|p| self.id(p)).collect();
        let (action, name) = match &op.action {
            legacy::OpType::Make(t) => (format!("make {:?}", t), String::new()),
            legacy::OpType::Delete => ("del".into(), String::new()),
            legacy::OpType::Increment(_) => ("inc".into(), String::new()),
            legacy::OpType::Put(v) => (format!("put {}", scalar_shape(v)), String::new()),
            legacy::OpType::MarkBegin(m) => (format!("mark {} expand={}", scalar_shape(&m.value), m.expand), self.structural(&m.name)),
            legacy::OpType::MarkEnd(e) => (format!("markend expand={}", e), String::new()),
        };
        let key_kind = if matches!(op.key, legacy::Key::Map(_)) { "map-key" } else { "element-id" };
        vec![("object-id", obj), (key_kind, key), ("predecessors", preds.join(",")), ("insert", op.insert.to_string()), ("action", action), ("mark-name", name)]
    }
}

fn exid_key(id: &ObjId) -> (u64, Vec<u8>) {
    match id {
        ObjId::Root => (0, vec![]),
        ObjId::Id(c, a, _) => (*c, a.to_bytes().to_vec()),
    }
}

// ---------------------------------------------------------------- shape of the state the implementation reads
#[derive(Debug, Clone, PartialEq)]
struct ObjShape {
    ty: String,
    measure: usize,        // length_at: keys / elements / text width in the document's encoding
    entries: Vec<String>,  // maps: sorted (key classes, register); sequences: registers in order
    text: Option<String>,  // UTF-8 lengths of the characters of text_at
    text_width: Option<usize>, // width of text_at in the document's encoding
    starts: Vec<usize>,    // text: start index of every addressable element (widths of the elements)
    marks: Vec<String>,    // per mark name (classes): merged coverage intervals, sorted
    marks_strict: Vec<String>, // marks_at as returned: (start, end, name classes, value shape), sorted
}

fn register_shape(vals: Vec<(Value<'_>, ObjId)>, index: &HashMap<(u64, Vec<u8>), usize>) -> String {
    let mut vals: Vec<((u64, Vec<u8>), String)> = vals
        .into_iter()
        .map(|(v, id)| {
            let k = exid_key(&id);
            let s = match &v {
                Value::Object(t) => format!("{:?}#{}", t, index.get(&k).map(|i| i.to_string()).unwrap_or_else(|| "?".into())),
                Value::Scalar(s) => scalar_shape(s.as_ref()),
            };
            (k, s)
        })
        .collect();
    vals.sort_by(|a, b| a.0.cmp(&b.0));
    vals.into_iter().map(|x| x.1).collect::<Vec<_>>().join("|")
}

fn merged_cover(mut iv: Vec<(usize, usize)>) -> String {
    iv.sort();
    let mut out: Vec<(usize, usize)> = vec![];
    for (s, e) in iv {
        if let Some(last) = out.last_mut() {
            if s <= last.1 {
                last.1 = last.1.max(e);
                continue;
            }
        }
        out.push((s, e));
    }
    out.iter().map(|(s, e)| format!("{}..{}", s, e)).collect::<Vec<_>>().join(",")
}

fn state_shape(doc: &Automerge, cands: &[(ObjId, ObjType)], heads: &[ChangeHash]) -> Result<Vec<ObjShape>, String> {
    let enc = doc.text_encoding();
    let index: HashMap<(u64, Vec<u8>), usize> = cands.iter().enumerate().map(|(i, (id, _))| (exid_key(id), i)).collect();
    let mut out = vec![];
    for (id, _) in cands {
        let ty = match doc.object_type(id) {
            Ok(t) => t,
            Err(e) => return Err(format!("object_type({}) failed: {}", id, e)),
        };
        let measure = doc.length_at(id, heads);
        let mut sh = ObjShape { ty: format!("{:?}", ty), measure, entries: vec![], text: None, text_width: None, starts: vec![], marks: vec![], marks_strict: vec![] };
        match ty {
            ObjType::Map | ObjType::Table => {
                let keys: Vec<String> = doc.keys_at(id, heads).collect();
                for k in keys {
                    let vals = doc.get_all_at(id, k.as_str(), heads).map_err(|e| format!("get_all_at({},{:?}): {}", id, k, e))?;
                    sh.entries.push(format!("{} => {}", width_shape(&k), register_shape(vals, &index)));
                }
                sh.entries.sort();
            }
            ObjType::List => {
                for i in 0..measure {
                    let vals = doc.get_all_at(id, i, heads).map_err(|e| format!("get_all_at({},{}): {}", id, i, e))?;
                    sh.entries.push(register_shape(vals, &index));
                }
            }
            ObjType::Text => {
                // one entry per addressable element: walk the width indexes; a new element begins where the
                // ids of the register change (zero-width elements cannot be addressed)
                let mut prev: Option<Vec<(u64, Vec<u8>)>> = None;
                for i in 0..measure {
                    let vals = doc.get_all_at(id, i, heads).map_err(|e| format!("get_all_at({},{}): {}", id, i, e))?;
                    let mut ids: Vec<(u64, Vec<u8>)> = vals.iter().map(|(_, x)| exid_key(x)).collect();
                    ids.sort();
                    if prev.as_ref() == Some(&ids) {
                        continue;
                    }
                    prev = Some(ids);
                    sh.starts.push(i);
                    sh.entries.push(register_shape(vals, &index));
                }
                let t = doc.text_at(id, heads).map_err(|e| format!("text_at({}): {}", id, e))?;
                sh.text = Some(width_shape(&t));
                sh.text_width = Some(crate::fam_edit::enc_width(enc, &t));
                let ms = doc.marks_at(id, heads).map_err(|e| format!("marks_at({}): {}", id, e))?;
                let mut by_name: BTreeMap<String, Vec<(usize, usize)>> = BTreeMap::new();
                for m in &ms {
                    by_name.entry(m.name.to_string()).or_default().push((m.start, m.end));
                    sh.marks_strict.push(format!("{}..{} {} {}", m.start, m.end, width_shape(&m.name), scalar_shape(&m.value)));
                }
                sh.marks_strict.sort();
                for (name, iv) in by_name {
                    sh.marks.push(format!("{}: {}", width_shape(&name), merged_cover(iv)));
                }
                sh.marks.sort();
            }
        }
        out.push(sh);
    }
    Ok(out)
}

/// which component of two object shapes differs first (None: equal up to the strict mark rendering)
fn diff_category(a: &ObjShape, b: &ObjShape) -> Option<&'static str> {
    if a.ty != b.ty {
        Some("object-type")
    } else if a.ty == "Text" && (a.measure != b.measure || a.text_width != b.text_width || a.starts != b.starts) {
        // (start positions: the width of every single element, not just the total)
        Some("text-width")
    } else if a.ty == "List" && a.measure != b.measure {
        Some("list-length")
    } else if a.measure != b.measure {
        Some("key-count")
    } else if a.entries != b.entries {
        Some(if a.ty == "Map" || a.ty == "Table" { "map-entries" } else { "registers" })
    } else if a.text != b.text {
        Some("text-classes")
    } else if a.marks != b.marks {
        Some("mark-coverage")
    } else {
        None
    }
}

fn describe_diff(a: &ObjShape, b: &ObjShape, cat: &str) -> String {
    let first = |x: &Vec<String>, y: &Vec<String>| {
        let i = x.iter().zip(y.iter()).position(|(p, q)| p != q).unwrap_or(x.len().min(y.len()));
        format!("first difference at entry {}: {:?} vs {:?}", i, x.get(i), y.get(i))
    };
    match cat {
        "object-type" => format!("{} vs {}", a.ty, b.ty),
        "text-width" => format!("length_at = {} and width of text_at = {:?} in the original, {} and {:?} in the anonymized document", a.measure, a.text_width, b.measure, b.text_width),
        "list-length" | "key-count" => format!("length_at = {} in the original, {} in the anonymized document", a.measure, b.measure),
        "map-entries" | "registers" => first(&a.entries, &b.entries),
        "text-classes" => format!("UTF-8 lengths of the characters of text_at: {:?} vs {:?}", a.text, b.text),
        _ => first(&a.marks, &b.marks),
    }
}

// ---------------------------------------------------------------- own histories
const TXT: [&str; 18] = [
    "a", "hello world", "x\ty", "line\nbreak", "\u{e9}", "\u{6f22}\u{5b57}", "\u{1F600}", "e\u{301}",
    "a\u{1F468}\u{200D}\u{1F469}b", "\u{a0}", "\u{7f}z", "\u{1F1E9}\u{1F1EA}", "\u{1100}\u{1161}", "\u{915}\u{94d}\u{937}\u{93f}",
    "", "Z\u{fc}rich 2024!", "\r\n", "~ {}",
];
const KEYS: [&str; 9] = ["title", "a", "b", "k\u{e9}y", "\u{1F600}", "tab\tkey", "zz", "k1", "\u{6f22}"];
const MARKS: [&str; 5] = ["bold", "italic", "link", "b\u{e9}", "\u{1F600}m"];
const MESSAGES: [&str; 5] = ["initial import", "fix typo in \u{a7}2", "Alice: merge\n\tnotes", "\u{1F600}", ""];

fn rich_scalar(rng: &mut Rng) -> ScalarValue {
    match rng.below(14) {
        0 => ScalarValue::Str(rng.pick(&TXT).to_string().into()),
        1 => ScalarValue::Str("a fairly long private sentence, with punctuation; and d1g1ts".into()),
        2 => {
            let n = rng.below(9) as usize;
            ScalarValue::Bytes(rng.bytes(n))
        }
        3 => ScalarValue::F64(f64::from_bits(*rng.pick(&[0u64, 0x3ff0000000000000, 0x7ff8000000000000, 0x400921fb54442d18, 0xfff0000000000000]))),
        4 => ScalarValue::Uint(*rng.pick(&[0u64, 42, u64::MAX])),
        5 => ScalarValue::Timestamp(*rng.pick(&[0i64, 1_700_000_000_000, -1])),
        6 => ScalarValue::counter(rng.below(20) as i64 - 5),
        7 => ScalarValue::Boolean(rng.chance(1, 2)),
        8 => ScalarValue::Null,
        9 => ScalarValue::Int(*rng.pick(&[0i64, 42, i64::MAX, i64::MIN, -7])),
        _ => gen::scalar(rng),
    }
}

fn find_obj(doc: &AutoCommit, key: &str, ty: ObjType) -> Option<ObjId> {
    match doc.get(ROOT, key) {
        Ok(Some((Value::Object(t), id))) if t == ty => Some(id),
        _ => None,
    }
}

fn has_counter(vs: Result<Vec<(Value<'_>, ObjId)>, automerge::AutomergeError>) -> bool {
    vs.map(|vs| vs.iter().any(|(v, _)| matches!(v, Value::Scalar(s) if matches!(s.as_ref(), ScalarValue::Counter(_))))).unwrap_or(false)
}

fn text_edit(doc: &mut AutoCommit, rng: &mut Rng) -> Option<String> {
    let t = match find_obj(doc, "t", ObjType::Text) {
        Some(t) => t,
        None => {
            doc.put_object(ROOT, "t", ObjType::Text).ok()?;
            return Some("make t".into());
        }
    };
    let len = doc.length(&t);
    let pos = rng.below(len as u64 + 1) as usize;
    match rng.below(12) {
        0 if len > 0 => {
            // a multi-character string as ONE element
            let i = rng.below(len as u64) as usize;
            let s = *rng.pick(&["ab", "\u{e9}\u{1F600}", "two words", ""]);
            doc.put(&t, i, s).ok()?;
            Some(format!("tput {} {:?}", i, s))
        }
        1 if len > 0 => {
            let i = rng.below(len as u64) as usize;
            let v = *rng.pick(&[5i64, -1]);
            doc.put(&t, i, v).ok()?;
            Some(format!("tput {} int", i))
        }
        2 | 3 if len > 0 => {
            let del = rng.below((len - pos.min(len - 1)).min(4) as u64 + 1) as isize;
            doc.splice_text(&t, pos.min(len - 1), del, "").ok()?;
            Some(format!("tdel {} {}", pos.min(len - 1), del))
        }
        _ => {
            let s = *rng.pick(&TXT);
            doc.splice_text(&t, pos, 0, s).ok()?;
            Some(format!("tsplice {} {:?}", pos, s))
        }
    }
}

fn mark_edit(doc: &mut AutoCommit, rng: &mut Rng) -> Option<String> {
    let t = find_obj(doc, "t", ObjType::Text)?;
    let len = doc.length(&t);
    if len < 2 {
        return text_edit(doc, rng);
    }
    let s = rng.below(len as u64 - 1) as usize;
    let e = s + 1 + rng.below((len - s - 1) as u64 + 1) as usize;
    let e = e.min(len);
    let name = *rng.pick(&MARKS);
    let expand = *rng.pick(&[ExpandMark::None, ExpandMark::Before, ExpandMark::After, ExpandMark::Both]);
    if rng.chance(1, 5) {
        doc.unmark(&t, name, s, e, expand).ok()?;
        return Some(format!("unmark {} {}..{}", name, s, e));
    }
    let v = match rng.below(6) {
        0 | 1 => ScalarValue::Boolean(true),
        2 => ScalarValue::Int(12),
        3 => ScalarValue::Str("https://example.org/private".into()),
        4 => ScalarValue::Boolean(false),
        _ => rich_scalar(rng),
    };
    doc.mark(&t, Mark::new(name.to_string(), v.clone(), s, e), expand).ok()?;
    Some(format!("mark {} {}..{} {:?}", name, s, e, v))
}

fn conflict_edit(doc: &mut AutoCommit, rng: &mut Rng) -> Option<String> {
    let key = *rng.pick(&["a", "b", "title"]);
    match rng.below(12) {
        0 | 1 | 2 => {
            let v = rich_scalar(rng);
            doc.put(ROOT, key, v.clone()).ok()?;
            Some(format!("put {} {:?}", key, v))
        }
        3 => {
            let t = *rng.pick(&[ObjType::Map, ObjType::List, ObjType::Text]);
            doc.put_object(ROOT, key, t).ok()?;
            Some(format!("put_object {} {:?}", key, t))
        }
        4 | 5 => {
            if has_counter(doc.get_all(ROOT, key)) {
                doc.increment(ROOT, key, rng.below(9) as i64 - 4).ok()?;
                Some(format!("inc {}", key))
            } else {
                doc.put(ROOT, key, ScalarValue::counter(rng.below(9) as i64)).ok()?;
                Some(format!("put {} counter", key))
            }
        }
        6 => {
            doc.delete(ROOT, key).ok()?;
            Some(format!("del {}", key))
        }
        _ => {
            let l = match find_obj(doc, "l", ObjType::List) {
                Some(l) => l,
                None => {
                    let l = doc.put_object(ROOT, "l", ObjType::List).ok()?;
                    doc.insert(&l, 0, "first").ok()?;
                    return Some("make l".into());
                }
            };
            let len = doc.length(&l);
            match rng.below(6) {
                0 | 1 if len > 0 => {
                    let i = rng.below(len.min(2) as u64) as usize;
                    let v = rich_scalar(rng);
                    doc.put(&l, i, v.clone()).ok()?;
                    Some(format!("lput {} {:?}", i, v))
                }
                2 if len > 0 => {
                    let i = rng.below(len.min(2) as u64) as usize;
                    if has_counter(doc.get_all(&l, i)) {
                        doc.increment(&l, i, 3).ok()?;
                        Some(format!("linc {}", i))
                    } else {
                        None
                    }
                }
                3 if len > 1 => {
                    doc.delete(&l, 0).ok()?;
                    Some("ldel 0".into())
                }
                4 => {
                    let t = *rng.pick(&[ObjType::Map, ObjType::Text]);
                    doc.insert_object(&l, 0, t).ok()?;
                    Some(format!("linsobj 0 {:?}", t))
                }
                _ => {
                    let i = rng.below(len as u64 + 1) as usize;
                    let v = rich_scalar(rng);
                    doc.insert(&l, i, v.clone()).ok()?;
                    Some(format!("lins {} {:?}", i, v))
                }
            }
        }
    }
}

fn keyed_edit(doc: &mut AutoCommit, rng: &mut Rng) -> Option<String> {
    // many different keys (multi-byte, control characters) in the root and in a nested map
    let m = match find_obj(doc, "m", ObjType::Map) {
        Some(m) => m,
        None => {
            doc.put_object(ROOT, "m", ObjType::Map).ok()?;
            return Some("make m".into());
        }
    };
    let key = *rng.pick(&KEYS);
    let target = if rng.chance(1, 2) { m } else { ROOT };
    if rng.chance(1, 6) {
        doc.delete(&target, key).ok()?;
        return Some(format!("del {:?}", key));
    }
    let v = rich_scalar(rng);
    doc.put(&target, key, v.clone()).ok()?;
    Some(format!("put {:?} {:?}", key, v))
}

fn own_edit(doc: &mut AutoCommit, rng: &mut Rng, profile: usize) -> Option<String> {
    let r = rng.below(10);
    match profile {
        0 => match r {
            0..=6 => text_edit(doc, rng),
            7 => keyed_edit(doc, rng),
            _ => gen::random_edit(doc, rng, &GenCfg::default()),
        },
        1 => match r {
            0..=3 => mark_edit(doc, rng),
            4..=7 => text_edit(doc, rng),
            _ => keyed_edit(doc, rng),
        },
        2 => match r {
            0..=6 => conflict_edit(doc, rng),
            7 => keyed_edit(doc, rng),
            _ => text_edit(doc, rng),
        },
        _ => match r {
            0..=4 => gen::random_edit(doc, rng, &GenCfg::default()),
            5 => mark_edit(doc, rng),
            6 => conflict_edit(doc, rng),
            7 => keyed_edit(doc, rng),
            _ => text_edit(doc, rng),
        },
    }
}

fn own_commit(doc: &mut AutoCommit, rng: &mut Rng) -> bool {
    let mut o = CommitOptions::default();
    if rng.chance(2, 3) {
        o = o.with_message(rng.pick(&MESSAGES).to_string());
    }
    if rng.chance(2, 3) {
        o = o.with_time(*rng.pick(&[0i64, 1_700_000_000, 1_700_000_000_123, -5]));
    }
    doc.commit_with(o).is_some()
}

/// two replicas with the same history each make ONE op: the two ops get the same counter, so their order
/// (conflict order in a register, order of concurrently inserted elements) is decided by the actors alone
fn tie_step(a: &mut AutoCommit, b: &mut AutoCommit, rng: &mut Rng) -> Option<String> {
    a.merge(b).ok()?;
    b.merge(a).ok()?;
    let d = match rng.below(5) {
        0 => {
            let k = *rng.pick(&["a", "b", "title"]);
            a.put(ROOT, k, 7i64).ok()?;
            b.put(ROOT, k, "ab").ok()?;
            format!("tie put {} int / str", k)
        }
        1 => {
            let t = find_obj(a, "t", ObjType::Text)?;
            let len = a.length(&t);
            let pos = rng.below(len as u64 + 1) as usize;
            a.splice_text(&t, pos, 0, "a").ok()?;
            b.splice_text(&t, pos, 0, "\u{1F600}").ok()?;
            format!("tie tsplice {} 'a' / emoji", pos)
        }
        2 => {
            let l = find_obj(a, "l", ObjType::List)?;
            a.insert(&l, 0, vec![1u8, 2, 3]).ok()?;
            b.insert(&l, 0, ScalarValue::counter(3)).ok()?;
            "tie lins 0 bytes / counter".into()
        }
        3 => {
            let k = *rng.pick(&["a", "b"]);
            a.put_object(ROOT, k, ObjType::Map).ok()?;
            b.put(ROOT, k, 1.5f64).ok()?;
            format!("tie put {} map / f64", k)
        }
        _ => {
            let l = find_obj(a, "l", ObjType::List)?;
            if a.length(&l) == 0 {
                return None;
            }
            a.put(&l, 0, "\u{e9}").ok()?;
            b.put(&l, 0, ScalarValue::Null).ok()?;
            "tie lput 0 str / null".into()
        }
    };
    a.commit();
    b.commit();
    Some(d)
}

struct Hist {
    changes: Vec<Change>,
    head_sets: Vec<Vec<ChangeHash>>,
    /// head sets at which two same-counter ops conflict: compared (and sent to the model) first
    priority: Vec<Vec<ChangeHash>>,
    log: Vec<String>,
}

fn build_own(rng: &mut Rng, enc: TextEncoding, profile: usize, n_replicas: usize, steps: usize, log: &mut Vec<String>) -> Hist {
    log.push(format!("encoding {} profile {}", enc_name(enc), ["text", "marks", "conflict", "mixed"][profile]));
    let mut base = AutoCommit::new_with_encoding(enc).with_actor(gen::actor(rng, 0));
    let t = base.put_object(ROOT, "t", ObjType::Text).unwrap();
    base.splice_text(&t, 0, 0, "Meeting with Alice \u{1F44B}\nTomorrow").unwrap();
    let l = base.put_object(ROOT, "l", ObjType::List).unwrap();
    base.insert(&l, 0, "first").unwrap();
    base.put_object(ROOT, "m", ObjType::Map).unwrap();
    base.put(ROOT, "a", ScalarValue::counter(1)).unwrap();
    own_commit(&mut base, rng);
    log.push(format!("r0 actor {} base", base.get_actor()));
    let mut reps: Vec<AutoCommit> = vec![base];
    for i in 1..n_replicas {
        let f = reps[0].fork().with_actor(gen::actor(rng, i));
        log.push(format!("r{} fork of r0, actor {}", i, f.get_actor()));
        reps.push(f);
    }
    let mut head_sets: Vec<Vec<ChangeHash>> = vec![reps[0].get_heads()];
    let mut priority: Vec<Vec<ChangeHash>> = vec![];
    let mut next_actor = n_replicas;
    for _ in 0..steps {
        let r = rng.below(n_replicas as u64) as usize;
        match rng.below(100) {
            0..=71 => {
                if let Some(d) = own_edit(&mut reps[r], rng, profile) {
                    log.push(format!("r{} {}", r, d));
                }
            }
            72..=82 => {
                if own_commit(&mut reps[r], rng) {
                    log.push(format!("r{} commit", r));
                    head_sets.push(reps[r].get_heads());
                }
            }
            83..=88 if profile >= 2 || rng.chance(1, 2) => {
                let o = rng.below(n_replicas as u64) as usize;
                if o != r {
                    let (a, b) = if r < o {
                        let (x, y) = reps.split_at_mut(o);
                        (&mut x[r], &mut y[0])
                    } else {
                        let (x, y) = reps.split_at_mut(r);
                        (&mut y[0], &mut x[o])
                    };
                    if let Some(d) = tie_step(a, b, rng) {
                        log.push(format!("r{} r{} {}", r, o, d));
                        head_sets.push(a.get_heads());
                        head_sets.push(b.get_heads());
                        let mut both = a.get_heads();
                        both.extend(b.get_heads());
                        both.sort();
                        both.dedup();
                        priority.push(both);
                    }
                }
            }
            83..=96 => {
                let o = rng.below(n_replicas as u64) as usize;
                if o != r {
                    let (a, b) = if r < o {
                        let (x, y) = reps.split_at_mut(o);
                        (&mut x[r], &mut y[0])
                    } else {
                        let (x, y) = reps.split_at_mut(r);
                        (&mut y[0], &mut x[o])
                    };
                    if a.merge(b).is_ok() {
                        log.push(format!("r{} merge r{}", r, o));
                        head_sets.push(a.get_heads());
                    }
                }
            }
            _ => {
                reps[r].commit();
                let a = gen::actor(rng, next_actor);
                next_actor += 1;
                log.push(format!("r{} set_actor {}", r, a));
                reps[r].set_actor(a);
            }
        }
    }
    for r in reps.iter_mut() {
        r.commit();
    }
    let mut all = Automerge::new_with_encoding(enc);
    for r in reps.iter_mut() {
        let cs = r.get_changes(&[]);
        all.apply_changes(cs).expect("union of replicas applies");
    }
    head_sets.push(all.get_heads());
    head_sets.sort();
    head_sets.dedup();
    Hist { changes: all.get_changes(&[]), head_sets, priority, log: log.clone() }
}

/// (fixed probe: before bd9e88bf3 a control character could become a space and two keys merged)
/// a map whose keys are all 32 ASCII control characters and all 95 printable ASCII characters, one
/// character each, and a text marked with control-character mark names: the structural substitution
/// must keep all of them apart
fn build_ctlkeys(rng: &mut Rng, enc: TextEncoding, log: &mut Vec<String>) -> Hist {
    log.push(format!("encoding {} profile control-character keys", enc_name(enc)));
    let mut d = AutoCommit::new_with_encoding(enc).with_actor(gen::actor(rng, 0));
    let m = d.put_object(ROOT, "m", ObjType::Map).unwrap();
    for c in (0u8..32).chain(32..127) {
        let k = (c as char).to_string();
        d.put(&m, k.as_str(), c as i64).unwrap();
    }
    log.push("put m[c] = c for every ASCII character c in 0..=126".into());
    let t = d.put_object(ROOT, "t", ObjType::Text).unwrap();
    d.splice_text(&t, 0, 0, "0123456789abcdefghijklmnopqrstuvwxyz0123456789").unwrap();
    for c in 0u8..12 {
        let s = 3 * c as usize;
        d.mark(&t, Mark::new(format!("n{}", c as char), true, s, s + 2), ExpandMark::None).unwrap();
        d.mark(&t, Mark::new(format!("n{}", (b'a' + c) as char), true, s + 1, s + 3), ExpandMark::None).unwrap();
    }
    log.push("marks n<control c> on 3c..3c+2 and n<letter> on 3c+1..3c+3 for c in 0..12".into());
    d.commit();
    let mut head_sets = vec![d.get_heads()];
    let k = ((rng.below(127)) as u8 as char).to_string();
    d.put(&m, k.as_str(), "again").unwrap();
    d.commit();
    head_sets.push(d.get_heads());
    Hist { changes: d.get_changes(&[]), head_sets, priority: vec![], log: log.clone() }
}

/// the history on which apply_changes, delivering one change at a time (as anonymize does), used to panic
/// (repaired in 452d3e88a): a delete that removes the LOSING value of a conflicted text element
fn build_delivery_probe(rng: &mut Rng, enc: TextEncoding, log: &mut Vec<String>) -> Hist {
    log.push(format!("encoding {} profile one-at-a-time delivery probe", enc_name(enc)));
    let lo = rng.below(100) as u8;
    let mut a = AutoCommit::new_with_encoding(enc).with_actor(automerge::ActorId::from(vec![lo]));
    let t = a.put_object(ROOT, "t", ObjType::Text).unwrap();
    a.splice_text(&t, 0, 0, "xyz").unwrap();
    a.commit();
    let mut head_sets = vec![a.get_heads()];
    let mut b = a.fork().with_actor(automerge::ActorId::from(vec![lo + 1 + rng.below(100) as u8]));
    let (va, vb) = (*rng.pick(&["ab", "a", "\u{e9}\u{1F600}"]), *rng.pick(&["q", "", "zz"]));
    a.put(&t, 1, va).unwrap();
    a.commit();
    b.put(&t, 1, vb).unwrap();
    b.commit();
    head_sets.push(a.get_heads());
    head_sets.push(b.get_heads());
    a.splice_text(&t, 1, 1, "").unwrap();
    a.commit();
    log.push(format!("A put(t,1,{:?}); B put(t,1,{:?}); A splice_text(t,1,1,\"\") knowing only its own value; merge", va, vb));
    let mut priority = vec![];
    let mut both = a.get_heads();
    both.extend(b.get_heads());
    both.sort();
    priority.push(both);
    a.merge(&mut b).unwrap();
    a.put(ROOT, "later", 1).unwrap();
    a.commit();
    head_sets.push(a.get_heads());
    Hist { changes: a.get_changes(&[]), head_sets, priority, log: log.clone() }
}

// ---------------------------------------------------------------- checks
fn hexes(hs: &[ChangeHash]) -> Vec<String> {
    hs.iter().map(|h| hex(&h.0)).collect()
}

struct Corr {
    /// original change index -> anonymized change index
    perm: Vec<usize>,
    hmap: HashMap<ChangeHash, ChangeHash>,
}

/// graph + op-shape + private-data checks between a document's changes and its anonymized changes
fn compare_histories(rep: &mut Report, tag: &str, replay: &serde_json::Value, oc: &[Change], ac: &[Change], check_private: bool) -> Option<Corr> {
    let mut ok = true;
    let fail = |rep: &mut Report, sig: &str, what: String| {
        fail_capped(rep, &format!("anon|{}{}", tag, sig), &what, replay.clone());
    };
    if oc.len() != ac.len() {
        fail(rep, "graph|change-count", format!("{} changes became {}", oc.len(), ac.len()));
        return None;
    }
    let mut c1 = Canon::new(oc);
    let mut c2 = Canon::new(ac);
    if c1.ranks.len() != c2.ranks.len() {
        fail(rep, "graph|actor-count", format!("{} actors became {}", c1.ranks.len(), c2.ranks.len()));
        return None;
    }
    let key_of = |c: &Change, cn: &Canon| (cn.ranks[c.actor_id().to_bytes()], c.seq());
    let idx2: HashMap<(usize, u64), usize> = ac.iter().enumerate().map(|(i, c)| (key_of(c, &c2), i)).collect();
    if idx2.len() != ac.len() {
        fail(rep, "graph|actor-seq-not-unique", "two anonymized changes share (actor, seq)".into());
        return None;
    }
    let mut perm = vec![];
    let mut hmap: HashMap<ChangeHash, ChangeHash> = HashMap::new();
    for c in oc.iter() {
        match idx2.get(&key_of(c, &c1)) {
            Some(j) => {
                perm.push(*j);
                hmap.insert(c.hash(), ac[*j].hash());
            }
            None => {
                fail(rep, "graph|no-counterpart", format!("change (actor rank, seq) = {:?} has no anonymized counterpart", key_of(c, &c1)));
                return None;
            }
        }
    }
    if perm.iter().enumerate().all(|(i, j)| i == *j) {
        rep.count("bijection_is_positional");
    }
    let images: BTreeSet<ChangeHash> = hmap.values().cloned().collect();
    if images.len() != oc.len() {
        fail(rep, "graph|hash-map-not-injective", "two changes have the same anonymized hash".into());
        ok = false;
    }
    // the changes are walked in (actor rank, seq) order on both sides so that the character identity
    // patterns of keys and mark names are built in the same order
    let mut order: Vec<usize> = (0..oc.len()).collect();
    order.sort_by_key(|i| key_of(&oc[*i], &c1));
    for i in order {
        let (a, b) = (&oc[i], &ac[perm[i]]);
        let (ea, eb) = (a.decode(), b.decode());
        let id = format!("change (actor rank {}, seq {})", c1.ranks[a.actor_id().to_bytes()], a.seq());
        if a.start_op() != b.start_op() {
            fail(rep, "graph|start-op", format!("{}: start_op {} became {}", id, a.start_op(), b.start_op()));
            ok = false;
        }
        if a.len() != b.len() || ea.operations.len() != eb.operations.len() {
            fail(rep, "graph|op-count", format!("{}: {} ops became {}", id, a.len(), b.len()));
            ok = false;
            continue;
        }
        let da: BTreeSet<Option<ChangeHash>> = a.deps().iter().map(|d| hmap.get(d).cloned()).collect();
        let db: BTreeSet<Option<ChangeHash>> = b.deps().iter().map(|d| Some(*d)).collect();
        if da != db || a.deps().len() != b.deps().len() {
            fail(rep, "graph|deps", format!("{}: dependencies are not the images of the original dependencies", id));
            ok = false;
        }
        if a.message().map(width_shape) != b.message().map(width_shape) {
            fail(rep, "graph|message-shape", format!("{}: message {:?} became {:?}", id, a.message(), b.message()));
            ok = false;
        }
        if a.extra_bytes().len() != b.extra_bytes().len() {
            fail(rep, "graph|extra-bytes", format!("{}: extra bytes length changed", id));
            ok = false;
        }
        for (k, (x, y)) in ea.operations.iter().zip(eb.operations.iter()).enumerate() {
            let (sx, sy) = (c1.op(x), c2.op(y));
            if let Some(((what, a), (_, b))) = sx.iter().zip(sy.iter()).find(|(p, q)| p != q) {
                // map keys and mark names go through the structural substitution: one signature
                let what = if *what == "map-key" || *what == "mark-name" { "structural-string" } else { *what };
                fail(rep, &format!("op-shape|{}", what), format!("{} op {}: {} {} became {} (characters as class#identity)", id, k, what, a, b));
                ok = false;
                break;
            }
            // finer than the property: shape.rs also keeps whitespace / control characters verbatim
            if let (legacy::OpType::Put(ScalarValue::Str(p)), legacy::OpType::Put(ScalarValue::Str(q))) = (&x.action, &y.action) {
                if content_shape(p) != content_shape(q) {
                    rep.count("fine_content_class_changed");
                    if !rep.extra.contains_key("fine_content_class_example") {
                        rep.extra.insert("fine_content_class_example".into(), json!({"original": p.as_str(), "original_classes": content_shape(p), "anonymized_classes": content_shape(q),
                            "anonymized_codepoints": q.chars().map(|c| format!("U+{:04X}", c as u32)).collect::<Vec<_>>()}));
                    }
                }
            }
            if check_private {
                if let Some(w) = survives(x, y) {
                    fail(rep, &format!("survives|{}", w), format!("{} op {}: {:?} / {:?} kept in {:?} / {:?}", id, k, x.key, x.action, y.key, y.action));
                    ok = false;
                }
            }
        }
        if check_private {
            let mut s: Vec<&str> = vec![];
            if a.hash() == b.hash() {
                s.push("hash");
            }
            if a.actor_id() == b.actor_id() {
                s.push("actor");
            }
            if a.timestamp() == b.timestamp() {
                s.push("timestamp");
            }
            if let (Some(x), Some(y)) = (a.message(), b.message()) {
                if !content_changed(x, y) {
                    s.push("message");
                }
            }
            if a.extra_bytes().iter().zip(b.extra_bytes()).any(|(x, y)| x == y) {
                s.push("extra-bytes");
            }
            for w in s {
                fail(rep, &format!("survives|{}", w), format!("{}: {} unchanged", id, w));
                ok = false;
            }
        }
    }
    // the state comparison goes on after an op-level difference (its consequences are what the property is
    // about); it needs the bijection only
    let _ = ok;
    Some(Corr { perm, hmap })
}

fn content_changed(a: &str, b: &str) -> bool {
    a.chars().count() == b.chars().count() && a.chars().zip(b.chars()).all(|(x, y)| if retained(x) { x == y } else { x != y })
}
fn structural_changed(a: &str, b: &str) -> bool {
    a.chars().count() == b.chars().count() && a.chars().zip(b.chars()).all(|(x, y)| x != y)
}
fn scalar_survives(a: &ScalarValue, b: &ScalarValue) -> bool {
    match (a, b) {
        (ScalarValue::Bytes(x), ScalarValue::Bytes(y)) => x.iter().zip(y).any(|(p, q)| p == q),
        (ScalarValue::Str(x), ScalarValue::Str(y)) => !content_changed(x, y),
        (ScalarValue::Int(x), ScalarValue::Int(y)) => x == y,
        (ScalarValue::Uint(x), ScalarValue::Uint(y)) => x == y,
        (ScalarValue::F64(x), ScalarValue::F64(y)) => x.to_bits() == y.to_bits(),
        (ScalarValue::Counter(x), ScalarValue::Counter(y)) => i64::from(x) == i64::from(y),
        (ScalarValue::Timestamp(x), ScalarValue::Timestamp(y)) => x == y,
        (ScalarValue::Unknown { bytes: x, .. }, ScalarValue::Unknown { bytes: y, .. }) => x.iter().zip(y).any(|(p, q)| p == q),
        _ => false, // booleans may coincide, null has no alternative
    }
}
fn survives(x: &legacy::Op, y: &legacy::Op) -> Option<&'static str> {
    if let (legacy::Key::Map(a), legacy::Key::Map(b)) = (&x.key, &y.key) {
        if !structural_changed(a, b) {
            return Some("map-key");
        }
    }
    match (&x.action, &y.action) {
        (legacy::OpType::Put(a), legacy::OpType::Put(b)) if scalar_survives(a, b) => Some("value"),
        (legacy::OpType::Increment(a), legacy::OpType::Increment(b)) if a == b => Some("increment"),
        (legacy::OpType::MarkBegin(a), legacy::OpType::MarkBegin(b)) => {
            if !structural_changed(&a.name, &b.name) {
                Some("mark-name")
            } else if scalar_survives(&a.value, &b.value) {
                Some("mark-value")
            } else {
                None
            }
        }
        _ => None,
    }
}

fn ancestors_of(changes: &[Change], idx_of: &HashMap<ChangeHash, usize>, hs: &[ChangeHash]) -> Vec<Change> {
    let mut anc: BTreeSet<usize> = BTreeSet::new();
    let mut stack: Vec<usize> = hs.iter().filter_map(|h| idx_of.get(h).cloned()).collect();
    while let Some(i) = stack.pop() {
        if anc.insert(i) {
            for d in changes[i].deps() {
                if let Some(j) = idx_of.get(d) {
                    stack.push(*j);
                }
            }
        }
    }
    anc.iter().map(|i| changes[*i].clone()).collect()
}

/// at most four failures per signature are kept (the report holds 200 in all); every one is counted
fn fail_capped(rep: &mut Report, sig: &str, what: &str, replay: serde_json::Value) {
    let key = format!("failures:{}", sig);
    rep.count(&key);
    if rep.dist[&key] <= 4 {
        rep.fail(&["C31"], sig, what, replay);
    }
}

fn sorted(mut h: Vec<ChangeHash>) -> Vec<ChangeHash> {
    h.sort();
    h
}

fn coq_universe(u: &[Change]) -> String {
    coq_list(&u.iter().map(coq_change).collect::<Vec<_>>())
}

#[allow(clippy::too_many_arguments)]
fn check_history(rng: &mut Rng, rep: &mut Report, cw: &mut CaseWriter, ui: usize, source: &str, enc: TextEncoding, h: &Hist, model: bool, max_heads: usize) {
    let replay = json!({"universe": ui, "source": source, "encoding": enc_name(enc), "log": h.log});
    // the targeted control-character program has signatures of its own
    let tag = if source == "ctlkeys" { "ctlkeys|" } else { "" };
    let mut all = Automerge::new_with_encoding(enc);
    if all.apply_changes(h.changes.clone()).is_err() {
        return;
    }
    let anon = match guard(|| all.anonymize()) {
        Ok(Ok(d)) => d,
        Ok(Err(e)) => {
            rep.fail(&["C31"], "anon|anonymize-error", &format!("anonymize failed: {}", e), replay.clone());
            return;
        }
        Err(p) => {
            // anonymize applies the rebuilt changes one at a time to a fresh document: does the same delivery
            // of the ORIGINAL changes panic too (then apply_changes is at fault, not the rewriting)?
            let oc = all.get_changes(&[]);
            let same = guard(|| {
                let mut d = Automerge::new_with_encoding(enc);
                for c in oc.iter() {
                    let _ = d.apply_changes([c.clone()]);
                }
            });
            let (class, props): (&str, &[&str]) = match &same {
                Err(q) if q.signature() == p.signature() => ("original-delivery-panics-too", &["C31", "C37", "C05"]),
                _ => ("only-the-anonymized-changes", &["C31", "C37"]),
            };
            rep.count(&format!("failures:panic|anonymize|{}", class));
            rep.fail(props, &format!("panic|anonymize|{}|{}", p.signature(), class),
                &format!("anonymize panicked: {} at {} ({}: apply_changes of the original changes, one at a time in get_changes order, to a fresh document {})",
                    p.message, p.location, class, if same.is_err() { "panics as well" } else { "does not panic" }),
                json!({"universe": ui, "source": source, "encoding": enc_name(enc), "log": h.log, "changes": oc.iter().map(|c| hex(c.raw_bytes())).collect::<Vec<_>>()}));
            return;
        }
    };
    rep.count(&format!("histories_{}", enc_name(enc)));
    if anon.text_encoding() != enc {
        rep.fail(&["C31"], "anon|text-encoding", "the anonymized document has another text encoding", replay.clone());
    }
    let oc = all.get_changes(&[]);
    let ac = anon.get_changes(&[]);
    rep.add("changes", oc.len() as u64);
    rep.add("ops", oc.iter().map(|c| c.len() as u64).sum());
    let corr = match compare_histories(rep, tag, &replay, &oc, &ac, true) {
        Some(c) => c,
        None => return,
    };
    // heads map to heads
    let mapped: Vec<ChangeHash> = sorted(all.get_heads().iter().map(|x| corr.hmap[x]).collect());
    if mapped != sorted(anon.get_heads()) {
        rep.fail(&["C31"], "anon|graph|heads", "the heads of the anonymized document are not the images of the original heads", replay.clone());
    }
    let idx1: HashMap<ChangeHash, usize> = oc.iter().enumerate().map(|(i, c)| (c.hash(), i)).collect();
    let idx2: HashMap<ChangeHash, usize> = ac.iter().enumerate().map(|(i, c)| (c.hash(), i)).collect();

    // ---------- state shape at every recorded head set
    let mut hsets: Vec<Vec<ChangeHash>> = h.head_sets.iter().filter(|hs| hs.iter().all(|x| idx1.contains_key(x))).cloned().collect();
    let final_heads = sorted(all.get_heads());
    hsets.retain(|x| sorted(x.clone()) != final_heads);
    rng.shuffle(&mut hsets);
    hsets.truncate(max_heads.saturating_sub(1));
    // tie head sets first (at most two), then the final heads
    let mut pri: Vec<Vec<ChangeHash>> = h.priority.iter().filter(|hs| hs.iter().all(|x| idx1.contains_key(x))).cloned().collect();
    rng.shuffle(&mut pri);
    pri.truncate(2);
    rep.add("tie_head_sets", pri.len() as u64);
    hsets.insert(0, final_heads.clone());
    for p in pri {
        hsets.insert(0, p);
    }
    let mut cases: Vec<(String, serde_json::Value)> = vec![];
    let mut strict_mark_diffs = 0u64;
    for (hi, hs1) in hsets.iter().enumerate() {
        let hs1 = sorted(hs1.clone());
        let hs2: Vec<ChangeHash> = sorted(hs1.iter().map(|x| corr.hmap[x]).collect());
        let cands1 = object_ids(&ancestors_of(&oc, &idx1, &hs1));
        let cands2 = object_ids(&ancestors_of(&ac, &idx2, &hs2));
        let rp = json!({"universe": ui, "source": source, "encoding": enc_name(enc), "log": h.log, "heads": hexes(&hs1), "final_heads": hs1 == final_heads});
        if cands1.len() != cands2.len() {
            rep.fail(&["C31"], "anon|state-shape|object-count", &format!("{} objects at these heads, {} in the anonymized document", cands1.len(), cands2.len()), rp.clone());
            continue;
        }
        let (s1, s2) = match (guard(|| state_shape(&all, &cands1, &hs1)), guard(|| state_shape(&anon, &cands2, &hs2))) {
            (Ok(Ok(a)), Ok(Ok(b))) => (a, b),
            (Ok(Err(e)), _) => {
                rep.count("original_read_failed");
                let _ = e;
                continue;
            }
            (Err(p), _) => {
                // a read of the ORIGINAL document panicked: not about anonymization
                rep.count("original_read_panicked");
                let _ = p;
                continue;
            }
            (_, Ok(Err(e))) => {
                rep.fail(&["C31"], "anon|state-shape|read-failed", &format!("a read of the anonymized document failed: {}", e), rp.clone());
                continue;
            }
            (_, Err(p)) => {
                rep.fail(&["C31", "C37"], &format!("panic|anon-read|{}", p.signature()), &format!("a read of the anonymized document panicked: {}", p.message), rp.clone());
                continue;
            }
        };
        rep.count("head_sets_compared");
        rep.add("objects_compared", s1.len() as u64);
        // not about anonymization (reported for C07 / C24): length_at of a text versus the width of text_at
        // and the length of fork_at(heads)
        if enc != TextEncoding::GraphemeCluster {
            if let Some(oi) = s1.iter().position(|o| o.ty == "Text" && o.text_width != Some(o.measure)) {
                let id = &cands1[oi].0;
                let forked = guard(|| all.fork_at(&hs1).map(|f| f.length(id))).ok().and_then(|r| r.ok());
                rep.count("failures:length_at-vs-text_at");
                if rep.dist["failures:length_at-vs-text_at"] <= 3 {
                    rep.fail(&["C07", "C24"], &format!("anon|length_at-vs-text_at|{}", enc_name(enc)),
                        &format!("length_at(text {}, heads) = {} but text_at has width {:?} and fork_at(heads).length = {:?}: every conflicting value of a text element is counted at historical heads (OpSet::seq_length sums action_value_iter, not the top ops)",
                            id, s1[oi].measure, s1[oi].text_width, forked), rp.clone());
                }
            }
        }
        for (oi, (a, b)) in s1.iter().zip(s2.iter()).enumerate() {
            if a.entries.iter().any(|e| e.contains('|')) {
                rep.count("conflicted_objects");
            }
            if !a.marks.is_empty() {
                rep.count("marked_texts");
            }
            if let Some(cat) = diff_category(a, b) {
                // grapheme clusters: mark positions are reported in widths, so changed cluster widths move them
                let cat = if enc == TextEncoding::GraphemeCluster && cat == "mark-coverage" { "text-width" } else { cat };
                fail_capped(rep, &format!("anon|{}state-shape|{}|{}", tag, cat, enc_name(enc)),
                    &format!("at heads {:?} object #{} ({}, id {}) differs in {}: {}", hexes(&hs1), oi, a.ty, cands1[oi].0, cat, describe_diff(a, b, cat)),
                    json!({"universe": ui, "source": source, "encoding": enc_name(enc), "log": h.log, "heads": hexes(&hs1), "object": format!("{}", cands1[oi].0), "object_index": oi,
                           "original_text": if a.ty == "Text" { all.text_at(&cands1[oi].0, &hs1).ok() } else { None },
                           "anonymized_text": if a.ty == "Text" { anon.text_at(&cands2[oi].0, &hs2).ok() } else { None },
                           "original": format!("{:?}", a).chars().take(1500).collect::<String>(), "anonymized": format!("{:?}", b).chars().take(1500).collect::<String>()}));
                break;
            }
            if a.marks_strict != b.marks_strict {
                strict_mark_diffs += 1;
                if !rep.extra.contains_key("mark_span_example") {
                    rep.extra.insert("mark_span_example".into(), json!({"universe": ui, "source": source, "encoding": enc_name(enc), "heads": hexes(&hs1),
                        "object": format!("{}", cands1[oi].0), "original_marks": a.marks_strict, "anonymized_marks": b.marks_strict, "log": h.log}));
                }
            }
        }
        // the model evaluates the final heads and two (thorough: three) historical head sets
        if model && hi < if max_heads > 5 { 4 } else { 3 } {
            cases.push((
                format!("chk_same_shape u1 u2 {} {}", coq_hashes(&hs1), coq_hashes(&hs2)),
                json!({"kind": "same_shape", "props": ["C31"], "universe": ui, "source": source, "encoding": enc_name(enc), "log": h.log, "heads": hexes(&hs1)}),
            ));
            if let Some(e) = enc_coq(enc) {
                // text: the width of text_at (length_at counts every conflicting value of an element at
                // historical heads — reported below for C07, not a matter of anonymization)
                let ms: Vec<u128> = s2.iter().map(|o| o.text_width.unwrap_or(o.measure) as u128).collect();
                cases.push((
                    format!("chk_measures {} u2 {} {}", e, coq_hashes(&hs2), coq_nlist(ms)),
                    json!({"kind": "measures", "props": ["C31"], "universe": ui, "source": source, "encoding": enc_name(enc), "log": h.log, "heads": hexes(&hs1)}),
                ));
            }
        }
    }
    if strict_mark_diffs > 0 {
        rep.add("mark_spans_coalesced_differently", strict_mark_diffs);
    }

    // ---------- save / load
    {
        let cands2 = object_ids(&ac);
        let bytes = anon.save();
        match guard(|| Automerge::load_with_options(&bytes, LoadOptions::new().text_encoding(enc))) {
            Ok(Ok(l)) => {
                if render_plain(&l, &cands2) != render_plain(&anon, &cands2) || sorted(l.get_heads()) != sorted(anon.get_heads()) {
                    rep.fail(&["C31", "C11"], "anon|save-load|differs", "load(save(anonymized)) reads differently from the anonymized document", replay.clone());
                }
                if l.save() != bytes {
                    rep.fail(&["C31", "C11"], "anon|save-load|resave", "save(load(save(anonymized))) differs from save(anonymized)", replay.clone());
                }
                let fs = final_heads.iter().map(|x| corr.hmap[x]).collect::<Vec<_>>();
                match (guard(|| state_shape(&l, &cands2, &fs)), guard(|| state_shape(&anon, &cands2, &fs))) {
                    (Ok(Ok(a)), Ok(Ok(b))) if a == b => {}
                    _ => rep.fail(&["C31", "C11"], "anon|save-load|shape", "the reloaded anonymized document has another shape", replay.clone()),
                }
                rep.count("save_load_checked");
            }
            Ok(Err(e)) => rep.fail(&["C31", "C11"], "anon|save-load|load-failed", &format!("save() of the anonymized document does not load: {}", e), replay.clone()),
            Err(p) => rep.fail(&["C31", "C15"], &format!("panic|anon-load|{}", p.signature()), &format!("loading the anonymized document panicked: {}", p.message), replay.clone()),
        }
    }

    // ---------- anonymize twice
    match guard(|| anon.anonymize()) {
        Ok(Ok(anon2)) => {
            let ac2 = anon2.get_changes(&[]);
            if let Some(c2) = compare_histories(rep, &format!("{}twice|", tag), &replay, &ac, &ac2, true) {
                let hs2 = sorted(anon.get_heads());
                let hs3: Vec<ChangeHash> = sorted(hs2.iter().map(|x| c2.hmap[x]).collect());
                let (k2, k3) = (object_ids(&ac), object_ids(&ac2));
                match (guard(|| state_shape(&anon, &k2, &hs2)), guard(|| state_shape(&anon2, &k3, &hs3))) {
                    (Ok(Ok(a)), Ok(Ok(b))) => {
                        if let Some((oi, cat)) = a.iter().zip(b.iter()).enumerate().find_map(|(i, (x, y))| diff_category(x, y).map(|c| (i, c))) {
                            let cat = if enc == TextEncoding::GraphemeCluster && cat == "mark-coverage" { "text-width" } else { cat };
                            if std::env::var("VERIF_ANON_DEBUG").is_ok() && cat == "registers" {
                                eprintln!("DEBUG twice registers universe {}\n A starts {:?}\n B starts {:?}\n A entries {:?}\n B entries {:?}\n A text {:?}\n B text {:?}", ui, a[oi].starts, b[oi].starts, a[oi].entries, b[oi].entries,
                                    anon.text_at(&k2[oi].0, &hs2), anon2.text_at(&k3[oi].0, &hs3));
                            }
                            fail_capped(rep, &format!("anon|{}twice|state-shape|{}|{}", tag, cat, enc_name(enc)),
                                &format!("anonymize(anonymize(doc)): object #{} differs in {}: {}", oi, cat, describe_diff(&a[oi], &b[oi], cat)), replay.clone());
                        } else if a.len() != b.len() {
                            rep.fail(&["C31"], "anon|twice|state-shape|object-count", "anonymize(anonymize(doc)) has another number of objects", replay.clone());
                        }
                    }
                    _ => rep.fail(&["C31"], "anon|twice|read-failed", "reading anonymize(anonymize(doc)) failed", replay.clone()),
                }
                rep.count("anonymized_twice");
            }
        }
        Ok(Err(e)) => rep.fail(&["C31"], "anon|twice|anonymize-error", &format!("anonymize(anonymize(doc)) failed: {}", e), replay.clone()),
        Err(p) => rep.fail(&["C31", "C37"], &format!("panic|anonymize|{}", p.signature()), &format!("anonymize(anonymize(doc)) panicked: {}", p.message), replay.clone()),
    }

    let key = fnv(format!("{:?}", oc.iter().map(|c| c.hash()).collect::<Vec<_>>()).as_bytes());
    let total_ops: usize = oc.iter().map(|c| c.len()).sum();
    rep.case(if oc.len() >= 3 && total_ops >= 8 { Some(key) } else { None });
    if ui < 2 {
        rep.sample(json!({"source": source, "encoding": enc_name(enc), "changes": oc.len(), "ops": total_ops, "head_sets": hsets.len(), "log": h.log.iter().take(20).collect::<Vec<_>>()}));
    }
    if model && !cases.is_empty() {
        let defs = vec![
            format!("Definition u1 : list change := {}.", coq_universe(&oc)),
            format!("Definition u2 : list change := {}.", coq_universe(&ac)),
        ];
        cw.push_group(&defs, cases);
    }
}

pub fn run(rng: &mut Rng, tier: &str, out: &str) -> Report {
    let mut rep = Report::new("anon");
    let mut cw = CaseWriter::new(out, "anon", HEADER, 1);
    let thorough = tier == "thorough";
    let n_hist = if thorough { 240 } else { 40 };
    let n_own = if thorough { 720 } else { 120 };
    let n_model_hist = if thorough { 30 } else { 6 };
    let n_model_own = if thorough { 88 } else { 16 };
    let max_heads = if thorough { 8 } else { 5 };
    let mut ui = 0usize;
    // ---------- histories of the family "hist" (code points)
    for k in 0..n_hist {
        let cfg = GenCfg { focus: k % 3 == 2, ..GenCfg::default() };
        let nrep = rng.range(2, 4) as usize;
        let steps = if thorough { rng.range(20, 120) } else { rng.range(15, 60) } as usize;
        let mut log: Vec<String> = vec![];
        match guard(|| fam_hist::build_universe(rng, nrep, steps, &cfg, &mut log)) {
            Ok(u) => {
                let h = Hist { changes: u.changes, head_sets: u.head_sets, priority: vec![], log: u.log };
                check_history(rng, &mut rep, &mut cw, ui, "hist", TextEncoding::UnicodeCodePoint, &h, k < n_model_hist, max_heads);
            }
            Err(_) => rep.count("generator_panics"),
        }
        ui += 1;
    }
    // ---------- own programs, four encodings x four profiles
    let encs = [TextEncoding::UnicodeCodePoint, TextEncoding::Utf8CodeUnit, TextEncoding::Utf16CodeUnit, TextEncoding::GraphemeCluster];
    for k in 0..n_own {
        let enc = encs[k % 4];
        let profile = (k / 4) % 4;
        let nrep = rng.range(2, 4) as usize;
        let steps = if thorough { rng.range(20, 110) } else { rng.range(15, 60) } as usize;
        let mut log: Vec<String> = vec![];
        match guard(|| build_own(rng, enc, profile, nrep, steps, &mut log)) {
            Ok(h) => check_history(rng, &mut rep, &mut cw, ui, "own", enc, &h, k < n_model_own, max_heads),
            Err(_) => rep.count("generator_panics"),
        }
        ui += 1;
    }
    // ---------- control-character keys and mark names (direct only)
    for k in 0..(if thorough { 60 } else { 12 }) {
        let enc = encs[k % 3];
        let mut log: Vec<String> = vec![];
        match guard(|| build_ctlkeys(rng, enc, &mut log)) {
            Ok(h) => check_history(rng, &mut rep, &mut cw, ui, "ctlkeys", enc, &h, false, max_heads),
            Err(_) => rep.count("generator_panics"),
        }
        ui += 1;
    }
    // ---------- the one-at-a-time delivery probe (anonymize used to panic on it)
    for k in 0..(if thorough { 24 } else { 8 }) {
        let enc = encs[k % 4];
        let mut log: Vec<String> = vec![];
        match guard(|| build_delivery_probe(rng, enc, &mut log)) {
            Ok(h) => check_history(rng, &mut rep, &mut cw, ui, "delivery", enc, &h, k < 3, max_heads),
            Err(_) => rep.count("generator_panics"),
        }
        ui += 1;
    }
    rep.model_cases = cw.total as u64;
    cw.finish();
    rep
}
