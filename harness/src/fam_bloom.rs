// Family "bloom": C23 (and the Bloom parts of C15 / C17).
use crate::alloc;
use crate::util::*;
use automerge::sync::BloomFilter;
use automerge::ChangeHash;
use serde_json::json;
use std::time::Instant;

const HEADER: &str = "From AM Require Import Base.Prelude Exec.BloomExec.\nLocal Open Scope N_scope.\n";

fn mk_hash(rng: &mut Rng) -> [u8; 32] {
    let mut h = [0u8; 32];
    let b = rng.bytes(32);
    h.copy_from_slice(&b);
    match rng.below(10) {
        0 => {
            for x in h.iter_mut().take(12) {
                *x = 0
            }
        }
        1 => {
            for x in h.iter_mut().take(12) {
                *x = 0xff
            }
        }
        2 => {
            // y = z = 0 : all probes equal x
            for x in h.iter_mut().take(12).skip(4) {
                *x = 0
            }
        }
        _ => {}
    }
    h
}

fn code(r: Result<bool, PanicInfo>) -> u128 {
    match r {
        Ok(false) => 0,
        Ok(true) => 1,
        Err(_) => 3,
    }
}

pub fn run(rng: &mut Rng, tier: &str, out: &str) -> Report {
    let mut rep = Report::new("bloom");
    let mut cw = CaseWriter::new(out, "bloom", HEADER, 40);
    let thorough = tier == "thorough";

    // ---- A: build from hashes ----
    let mut sizes: Vec<usize> = vec![0, 1, 2, 3, 4, 5, 7, 8, 13, 21, 50, 120];
    let n_random = if thorough { 200 } else { 40 };
    for _ in 0..n_random {
        sizes.push(rng.below(40) as usize);
    }
    if thorough {
        sizes.extend([500, 1000, 5000]);
    } else {
        sizes.push(400);
    }
    for n in sizes {
        let hs: Vec<[u8; 32]> = (0..n).map(|_| mk_hash(rng)).collect();
        let filter = match guard(|| BloomFilter::from_hashes(hs.iter().map(|h| ChangeHash(*h)))) {
            Ok(f) => f,
            Err(p) => {
                rep.fail(&["C23", "C15"], &format!("panic|from_hashes|{}", p.signature()),
                    &format!("from_hashes panicked: {}", p.message), json!({"hashes": hs.iter().map(|h| hex(h)).collect::<Vec<_>>()}));
                continue;
            }
        };
        let wire = filter.to_bytes();
        // direct: members are present, also after a wire round trip
        let decoded = BloomFilter::try_from(&wire[..]);
        match &decoded {
            Ok(d) => {
                if *d != filter {
                    rep.fail(&["C23", "C19"], "bloom|roundtrip-differs", "decoded filter differs from the encoded one",
                        json!({"hashes": hs.iter().map(|h| hex(h)).collect::<Vec<_>>()}));
                }
            }
            Err(e) => rep.fail(&["C23"], "bloom|roundtrip-rejected", &format!("own encoding rejected: {}", e),
                json!({"hashes": hs.iter().map(|h| hex(h)).collect::<Vec<_>>()})),
        }
        for h in &hs {
            let a = guard(|| filter.contains_hash(&ChangeHash(*h)));
            let b = decoded.as_ref().ok().map(|d| guard(|| d.contains_hash(&ChangeHash(*h))));
            let ok = matches!(a, Ok(true)) && b.map(|b| matches!(b, Ok(true))).unwrap_or(true);
            if !ok {
                rep.fail(&["C23"], "bloom|false-negative", "a member of the filter is reported absent",
                    json!({"hashes": hs.iter().map(|h| hex(h)).collect::<Vec<_>>(), "query": hex(h)}));
                break;
            }
        }
        // queries for the model comparison: up to 12 members and 8 non-members
        let mut qs: Vec<[u8; 32]> = vec![];
        for i in 0..hs.len().min(12) {
            qs.push(hs[(i * 7) % hs.len()]);
        }
        for _ in 0..8 {
            qs.push(mk_hash(rng));
        }
        let ans: Vec<u128> = qs.iter().map(|q| code(guard(|| filter.contains_hash(&ChangeHash(*q))))).collect();
        let term = format!(
            "chk_bloom_build {} {} {} {}",
            coq_list(&hs.iter().map(|h| coq_bytes(h)).collect::<Vec<_>>()),
            coq_bytes(&wire),
            coq_list(&qs.iter().map(|h| coq_bytes(h)).collect::<Vec<_>>()),
            coq_nlist(ans.iter().copied())
        );
        let key = fnv(&wire);
        rep.case(if n >= 1 { Some(key) } else { None });
        rep.count("build");
        rep.add("build_hashes", n as u64);
        rep.sample(json!({"kind": "build", "n_hashes": n, "wire_len": wire.len()}));
        cw.push(term, json!({"kind": "build", "hashes": hs.iter().map(|h| hex(h)).collect::<Vec<_>>()}));
    }

    // ---- B: decode arbitrary bytes, then query ----
    let n_parse = if thorough { 4000 } else { 400 };
    let es: [u64; 8] = [0, 1, 2, 3, 9, 300, 0xffff_ffff, 0x1_0000_0000];
    let bs_: [u64; 8] = [0, 1, 7, 8, 10, 255, 0xffff_ffff, 1 << 40];
    let ps: [u64; 9] = [0, 1, 2, 7, 16, 17, 100, 0xffff_ffff, 1 << 33];
    for i in 0..n_parse {
        let mut bytes: Vec<u8> = vec![];
        let kind = rng.below(10);
        if kind < 2 {
            let n = rng.below(12) as usize;
            bytes = rng.bytes(n);
        } else {
            let e = *rng.pick(&es);
            let b = *rng.pick(&bs_);
            let p = if rng.chance(1, 3) { rng.below(40) } else { *rng.pick(&ps) };
            leb128_u(&mut bytes, e);
            leb128_u(&mut bytes, b);
            leb128_u(&mut bytes, p);
            let cap = ((e as u128 * b as u128) + 7) / 8;
            let len = if cap > 600 { rng.below(40) as usize } else {
                match rng.below(6) { 0 => cap.saturating_sub(1) as usize, 1 => cap as usize + 1 + rng.below(3) as usize, _ => cap as usize }
            };
            let fill = match rng.below(3) { 0 => 0u8, 1 => 0xff, _ => 0xAA };
            for _ in 0..len { bytes.push(if fill == 0xAA { rng.next() as u8 } else { fill }); }
            if kind == 9 && !bytes.is_empty() {
                let k = rng.below(bytes.len() as u64) as usize;
                bytes[k] = rng.next() as u8;
            }
        }
        alloc::reset();
        let t0 = Instant::now();
        let parsed = guard(|| BloomFilter::try_from(&bytes[..]));
        let qs: Vec<[u8; 32]> = (0..3).map(|_| mk_hash(rng)).collect();
        let (st, fields, ans): (u128, Vec<u128>, Vec<u128>) = match parsed {
            Err(p) => {
                rep.fail(&["C15", "C23"], &format!("panic|BloomFilter::try_from|{}", p.signature()),
                    &format!("BloomFilter::try_from panicked: {} at {}", p.message, p.location), json!({"bytes": hex(&bytes)}));
                (3, vec![], vec![])
            }
            Ok(Err(_)) => (2, vec![], vec![]),
            Ok(Ok(f)) => {
                let v = serde_json::to_value(&f).unwrap();
                let mut fields: Vec<u128> = vec![
                    v["num_entries"].as_u64().unwrap() as u128,
                    v["num_bits_per_entry"].as_u64().unwrap() as u128,
                    v["num_probes"].as_u64().unwrap() as u128,
                ];
                for b in v["bits"].as_array().unwrap() {
                    fields.push(b.as_u64().unwrap() as u128);
                }
                let mut ans = vec![];
                for q in &qs {
                    let r = guard(|| f.contains_hash(&ChangeHash(*q)));
                    if let Err(p) = &r {
                        rep.fail(&["C23", "C15"], &format!("panic|contains_hash|{}", p.signature()),
                            &format!("contains_hash on a decoded filter panicked: {} at {}", p.message, p.location),
                            json!({"bytes": hex(&bytes), "query": hex(q)}));
                    }
                    ans.push(code(r));
                }
                (0, fields, ans)
            }
        };
        let dt = t0.elapsed().as_secs_f64();
        let (total, largest) = alloc::stats();
        // C17: work bounded by a fixed polynomial in the input size (here: linear, generous constants)
        let budget_bytes = 1_000_000 + 4096 * bytes.len() as u64;
        if largest > budget_bytes || total > 16 * budget_bytes || dt > 1.0 {
            rep.fail(&["C17"], "cost|bloom-decode-query",
                &format!("{} input bytes: allocated {} bytes (largest {}), {:.2}s", bytes.len(), total, largest, dt),
                json!({"bytes": hex(&bytes)}));
        }
        let term = format!(
            "chk_bloom_parse {} {} {} {} {}",
            coq_bytes(&bytes), st, coq_nlist(fields.iter().copied()),
            coq_list(&qs.iter().map(|h| coq_bytes(h)).collect::<Vec<_>>()),
            coq_nlist(ans.iter().copied())
        );
        rep.case(if st == 0 && fields.len() > 3 { Some(fnv(&bytes)) } else { None });
        rep.count(match st { 0 => "parse_ok", 2 => "parse_err", _ => "parse_panic" });
        if i < 2 {
            rep.sample(json!({"kind": "parse", "bytes": hex(&bytes), "status": st as u64}));
        }
        cw.push(term, json!({"kind": "parse", "bytes": hex(&bytes)}));
    }
    rep.model_cases = cw.total as u64;
    cw.finish();
    rep
}

pub fn leb128_u(out: &mut Vec<u8>, mut v: u64) {
    loop {
        let b = (v & 0x7f) as u8;
        v >>= 7;
        if v == 0 {
            out.push(b);
            break;
        }
        out.push(b | 0x80);
    }
}
