// Family "chg": C18 — change and bundle encodings round-trip (and the change-container part of C15).
//
//  (a) model: for every change (generated histories + hand-built ExpandedChanges) the Coq model's
//      parse_body of the chunk data returns exactly the implementation's fields and re-encodes to
//      the same bytes;
//  (b) direct: from_bytes(raw_bytes) / from_bytes(bytes()) give the same change and hash,
//      decode -> Change::from gives the same hash;
//  (c) bundles of random subsets (incl. subsets with missing dependencies): extracted changes are
//      byte-identical, loading the bundle == applying the subset;
//  (d) malformed stream: the chunk data of a change is mutated in its header region (checksum
//      recomputed), accept / reject of Change::from_bytes is compared with the model.
use crate::fam_hist::build_universe;
use crate::gen::GenCfg;
use crate::model::{object_ids, render_plain};
use crate::util::*;
use automerge::legacy;
use automerge::ReadDoc;
use automerge::{ActorId, Automerge, Bundle, Change, ChangeHash, ExpandedChange, ObjType, ScalarValue, TextEncoding};
use serde_json::json;
use sha2::Digest;
use std::collections::{BTreeSet, HashMap};
use std::num::NonZeroU64;

const HEADER: &str = "From AM Require Import Base.Prelude Store.ChangeChunk Store.ChangeOps Exec.ChgExec.\nLocal Open Scope N_scope.\n";
const MAGIC: [u8; 4] = [0x85, 0x6f, 0x4a, 0x83];

pub fn uleb(out: &mut Vec<u8>, mut v: u64) {
    loop {
        let b = (v & 0x7f) as u8;
        v >>= 7;
        if v == 0 {
            out.push(b);
            break;
        }
        out.push(b | 0x80);
    }
}

fn read_uleb(b: &[u8], pos: &mut usize) -> Option<u64> {
    let mut res: u64 = 0;
    let mut shift = 0;
    loop {
        let byte = *b.get(*pos)?;
        *pos += 1;
        if shift >= 64 {
            return None;
        }
        res |= ((byte & 0x7f) as u64) << shift;
        shift += 7;
        if byte & 0x80 == 0 {
            return Some(res);
        }
    }
}

/// (chunk type, data) of a single well-formed chunk
pub fn split_chunk(raw: &[u8]) -> Option<(u8, Vec<u8>)> {
    if raw.len() < 10 || raw[..4] != MAGIC {
        return None;
    }
    let ty = raw[8];
    let mut pos = 9;
    let len = read_uleb(raw, &mut pos)? as usize;
    if pos + len != raw.len() {
        return None;
    }
    Some((ty, raw[pos..].to_vec()))
}

/// MAGIC ‖ first 4 bytes of SHA-256(type ‖ uleb(len) ‖ data) ‖ type ‖ uleb(len) ‖ data
pub fn build_chunk(ty: u8, data: &[u8]) -> Vec<u8> {
    let mut body = vec![ty];
    uleb(&mut body, data.len() as u64);
    body.extend_from_slice(data);
    let digest = sha2::Sha256::digest(&body);
    let mut out = MAGIC.to_vec();
    out.extend_from_slice(&digest[..4]);
    out.extend_from_slice(&body);
    out
}

/// offsets of the fields of a change body written by the implementation (generator side only:
/// used to aim mutations, never as an oracle)
#[derive(Debug, Clone, Default)]
struct Layout {
    deps: (usize, usize),    // count LEB start, end of hashes
    actor: (usize, usize),   // length LEB start, end of bytes
    seq: (usize, usize),
    start_op: (usize, usize),
    time: (usize, usize),
    msg_len: (usize, usize),
    msg: (usize, usize),
    others: (usize, usize),
    ncols: (usize, usize),
    cols: Vec<(usize, usize, usize)>, // spec start, len start, end
    data: (usize, usize),
}

fn skip_leb(b: &[u8], pos: &mut usize) -> Option<()> {
    loop {
        let byte = *b.get(*pos)?;
        *pos += 1;
        if byte & 0x80 == 0 {
            return Some(());
        }
    }
}

fn layout_of(b: &[u8]) -> Option<Layout> {
    let mut l = Layout::default();
    let mut p = 0usize;
    let s = p;
    let n = read_uleb(b, &mut p)? as usize;
    p = p.checked_add(n.checked_mul(32)?)?;
    l.deps = (s, p);
    let s = p;
    let n = read_uleb(b, &mut p)? as usize;
    p = p.checked_add(n)?;
    l.actor = (s, p);
    let s = p;
    skip_leb(b, &mut p)?;
    l.seq = (s, p);
    let s = p;
    skip_leb(b, &mut p)?;
    l.start_op = (s, p);
    let s = p;
    skip_leb(b, &mut p)?;
    l.time = (s, p);
    let s = p;
    let n = read_uleb(b, &mut p)? as usize;
    l.msg_len = (s, p);
    l.msg = (p, p.checked_add(n)?);
    p = p.checked_add(n)?;
    let s = p;
    let n = read_uleb(b, &mut p)? as usize;
    for _ in 0..n {
        let k = read_uleb(b, &mut p)? as usize;
        p = p.checked_add(k)?;
    }
    l.others = (s, p);
    let s = p;
    let n = read_uleb(b, &mut p)? as usize;
    l.ncols = (s, p);
    let mut total = 0usize;
    for _ in 0..n {
        let a = p;
        skip_leb(b, &mut p)?;
        let m = p;
        total = total.checked_add(read_uleb(b, &mut p)? as usize)?;
        l.cols.push((a, m, p));
    }
    l.data = (p, p.checked_add(total)?);
    if p + total > b.len() || l.msg.1 > b.len() || l.deps.1 > b.len() || l.actor.1 > b.len() {
        return None;
    }
    Some(l)
}

#[derive(Clone, Debug, PartialEq)]
struct Fields {
    deps: Vec<Vec<u8>>,
    actor: Vec<u8>,
    seq: u64,
    start_op: u64,
    time: i64,
    msg: Vec<u8>,
    others: Vec<Vec<u8>>,
    extra: Vec<u8>,
}

fn fields_of(c: &Change) -> Fields {
    Fields {
        deps: c.deps().iter().map(|h| h.0.to_vec()).collect(),
        actor: c.actor_id().to_bytes().to_vec(),
        seq: c.seq(),
        start_op: c.start_op().get(),
        time: c.timestamp(),
        msg: c.message().map(|m| m.as_bytes().to_vec()).unwrap_or_default(),
        others: c.other_actor_ids().iter().map(|a| a.to_bytes().to_vec()).collect(),
        extra: c.extra_bytes().to_vec(),
    }
}

fn coq_fields(f: &Fields) -> String {
    format!(
        "{} {} {} {} {} {} {} {}",
        coq_list(&f.deps.iter().map(|d| coq_bytes(d)).collect::<Vec<_>>()),
        coq_bytes(&f.actor),
        f.seq,
        f.start_op,
        coq_z(f.time as i128),
        coq_bytes(&f.msg),
        coq_list(&f.others.iter().map(|d| coq_bytes(d)).collect::<Vec<_>>()),
        coq_bytes(&f.extra)
    )
}

const EMPTY_FIELDS: &str = "[] [] 0 0 0%Z [] [] []";

// ---------------------------------------------------------------- hand-built changes
fn put(key: &str, v: ScalarValue, pred: Vec<legacy::OpId>) -> legacy::Op {
    legacy::Op {
        action: legacy::OpType::Put(v),
        obj: legacy::ObjectId::Root,
        key: legacy::Key::Map(key.into()),
        pred: pred.into(),
        insert: false,
    }
}

const MESSAGES: [&str; 9] = [
    "",
    "m",
    "plain ascii message",
    "caf\u{e9}",
    "\u{6f22}\u{5b57}",
    "\u{1F600} emoji \u{1F468}\u{200D}\u{1F469}\u{200D}\u{1F467}",
    "e\u{301}\u{0}\u{7f}\u{80}\u{7ff}\u{800}\u{ffff}\u{10000}\u{10ffff}",
    "\u{d7ff}\u{e000}",
    "a message long enough to push the change over the compression threshold ................................................................................................................................................................................................................................................",
];

fn hand_built(rng: &mut Rng, i: usize) -> ExpandedChange {
    let actor = ActorId::from(match i % 5 {
        0 => vec![],
        1 => vec![0],
        2 => rng.bytes(16),
        3 => { let n = 1 + rng.below(40) as usize; rng.bytes(n) }
        _ => { let n = 130 + rng.below(200) as usize; rng.bytes(n) } // length LEB of two bytes
    });
    let others: Vec<ActorId> = (0..rng.below(4)).map(|k| ActorId::from(rng.bytes(1 + ((i + k as usize) % 20)))).collect();
    let times: [i64; 14] = [0, 1, -1, 63, 64, -64, -65, 127, 128, -128, i64::MAX, i64::MIN, i64::MIN + 1, 1 << 62];
    let time = if rng.chance(1, 3) { rng.next() as i64 } else { times[i % times.len()] };
    // a dependency count whose LEB takes two bytes only a few times: long literals are slow to elaborate in coqc
    let n_deps = match i % 7 {
        0 => 0,
        1 => 1,
        2 => 2,
        3 if i < 21 => 127,
        4 if i < 21 => 128,
        5 if i < 21 => 130,
        _ => rng.below(12) as usize,
    };
    let deps: Vec<ChangeHash> = (0..n_deps)
        .map(|_| {
            let mut h = [0u8; 32];
            h.copy_from_slice(&rng.bytes(32));
            ChangeHash(h)
        })
        .collect();
    let extra = match i % 4 {
        0 => vec![],
        1 => vec![0],
        2 => { let n = 1 + rng.below(10) as usize; rng.bytes(n) }
        _ => { let n = 200 + rng.below(200) as usize; rng.bytes(n) }
    };
    let seqs: [u64; 6] = [1, 2, 127, 128, u32::MAX as u64, u64::MAX];
    let starts: [u64; 6] = [1, 2, 127, 128, 16384, (u32::MAX as u64) - 100];
    let start_op = starts[(i / 2) % starts.len()];
    let mut operations = vec![];
    let n_ops = match i % 6 {
        0 => 0,
        1 => 1,
        _ => rng.below(8) as usize,
    };
    for k in 0..n_ops {
        let key = *rng.pick(&["a", "b", "k\u{e9}", "", "long-key-name"]);
        let op = match rng.below(7) {
            0 => legacy::Op {
                action: legacy::OpType::Make(*rng.pick(&[ObjType::Map, ObjType::List, ObjType::Text, ObjType::Table])),
                obj: legacy::ObjectId::Root,
                key: legacy::Key::Map(key.into()),
                pred: vec![].into(),
                insert: false,
            },
            1 if !others.is_empty() => {
                // predecessors from other actors: they land in the "other actors" table
                let preds: Vec<legacy::OpId> =
                    others.iter().take(1 + rng.below(others.len() as u64) as usize).map(|a| legacy::OpId::new(1 + rng.below(5), a)).collect();
                put(key, crate::gen::scalar(rng), preds)
            }
            2 => legacy::Op {
                action: legacy::OpType::Delete,
                obj: legacy::ObjectId::Root,
                key: legacy::Key::Map(key.into()),
                pred: vec![legacy::OpId::new(1, &actor)].into(),
                insert: false,
            },
            3 if !others.is_empty() => legacy::Op {
                // an insert into a list made by another actor
                action: legacy::OpType::Put(crate::gen::scalar(rng)),
                obj: legacy::ObjectId::Id(legacy::OpId::new(1, &others[0])),
                key: legacy::Key::Seq(if rng.chance(1, 2) { legacy::ElementId::Head } else { legacy::ElementId::Id(legacy::OpId::new(2 + k as u64, &others[0])) }),
                pred: vec![].into(),
                insert: true,
            },
            4 => legacy::Op {
                action: legacy::OpType::Increment(rng.next() as i64 >> (rng.below(60) as u32)),
                obj: legacy::ObjectId::Root,
                key: legacy::Key::Map(key.into()),
                pred: vec![legacy::OpId::new(1, &actor)].into(),
                insert: false,
            },
            _ => put(key, crate::gen::scalar(rng), vec![]),
        };
        operations.push(op);
    }
    ExpandedChange {
        operations,
        actor_id: actor,
        hash: None,
        seq: seqs[i % seqs.len()],
        start_op: NonZeroU64::new(start_op).unwrap(),
        time,
        message: match i % (MESSAGES.len() + 1) {
            k if k == MESSAGES.len() => None,
            k => Some(MESSAGES[k].to_string()),
        },
        deps,
        extra_bytes: extra,
    }
}

// ---------------------------------------------------------------- (a) + (b) on one change
fn check_change(rep: &mut Report, cw: &mut CaseWriter, c: &Change, origin: &str, model: bool) {
    let raw = c.raw_bytes().to_vec();
    let replay = json!({"origin": origin, "raw": hex(&raw)});
    let (ty, data) = match split_chunk(&raw) {
        Some(x) => x,
        None => {
            rep.fail(&["C18"], "chg|raw-not-a-chunk", "raw_bytes() is not one well-formed chunk", replay);
            return;
        }
    };
    if ty != 1 {
        rep.fail(&["C18"], "chg|raw-type", "raw_bytes() is not a chunk of type 1", replay.clone());
    }
    let f = fields_of(c);
    let h = c.hash();
    // hash = SHA-256 over type ‖ len ‖ data, checksum = its first four bytes
    let digest = sha2::Sha256::digest(&raw[8..]);
    if digest.as_slice() != h.0 || raw[4..8] != digest[..4] {
        rep.fail(&["C18", "C10"], "chg|hash-not-sha256", "hash / checksum of a change is not the SHA-256 of its chunk", replay.clone());
    }
    // (b1) from_bytes(raw)
    match guard(|| Change::from_bytes(raw.clone())) {
        Ok(Ok(mut c2)) => {
            let mut c1 = c.clone();
            let same = c2.raw_bytes() == &raw[..] && c2.hash() == h && fields_of(&c2) == f && c2.len() == c.len() && c2.max_op() == c.max_op();
            // compare as Change values with the compression cache forced on both sides
            let _ = c1.bytes();
            let _ = c2.bytes();
            if !same || c1 != c2 {
                rep.fail(&["C18"], "chg|from_bytes-raw-differs", "Change::from_bytes(raw_bytes()) is not the same change", replay.clone());
            }
        }
        Ok(Err(e)) => rep.fail(&["C18"], "chg|from_bytes-raw-rejected", &format!("Change::from_bytes(raw_bytes()) failed: {}", e), replay.clone()),
        Err(p) => rep.fail(&["C18", "C15"], &format!("panic|from_bytes|{}", p.signature()), &format!("from_bytes(raw_bytes()) panicked: {} at {}", p.message, p.location), replay.clone()),
    }
    // (b2) from_bytes(bytes()) — the DEFLATE-compressed chunk for changes above the threshold
    let mut cc = c.clone();
    let comp = cc.bytes().to_vec();
    if comp.len() > 8 && comp[8] == 2 {
        rep.count("compressed_changes");
    } else if comp != raw {
        rep.fail(&["C18"], "chg|bytes-not-raw", "bytes() of a small change differs from raw_bytes()", replay.clone());
    }
    match guard(|| Change::from_bytes(comp.clone())) {
        Ok(Ok(mut c3)) => {
            let _ = c3.bytes();
            if c3.raw_bytes() != &raw[..] || c3.hash() != h || fields_of(&c3) != f || c3 != cc || c3.bytes().as_ref() != &comp[..] {
                rep.fail(&["C18"], "chg|from_bytes-compressed-differs", "Change::from_bytes(bytes()) is not the same change", json!({"origin": origin, "raw": hex(&raw), "bytes": hex(&comp)}));
            }
        }
        Ok(Err(e)) => rep.fail(&["C18"], "chg|from_bytes-compressed-rejected", &format!("Change::from_bytes(bytes()) failed: {}", e), json!({"origin": origin, "bytes": hex(&comp)})),
        Err(p) => rep.fail(&["C18", "C15"], &format!("panic|from_bytes|{}", p.signature()), &format!("from_bytes(bytes()) panicked: {} at {}", p.message, p.location), replay.clone()),
    }
    // (b3) decode -> re-encode
    match guard(|| {
        let e = c.decode();
        let again = Change::from(e.clone());
        (e, again)
    }) {
        Ok((e, again)) => {
            if e.hash != Some(h) {
                rep.fail(&["C18"], "chg|decode-hash-field", "decode().hash is not the hash of the change", replay.clone());
            }
            if again.hash() != h {
                rep.fail(&["C18"], "chg|reencode-hash-differs", "decode() followed by Change::from gives a different hash", json!({"origin": origin, "raw": hex(&raw), "reencoded": hex(again.raw_bytes())}));
            } else if again.raw_bytes() != &raw[..] {
                rep.fail(&["C18"], "chg|reencode-bytes-differ", "same hash but different bytes after re-encoding", replay.clone());
            }
        }
        Err(p) => rep.fail(&["C18", "C15"], &format!("panic|decode|{}", p.signature()), &format!("decode / re-encode panicked: {} at {}", p.message, p.location), replay.clone()),
    }
    let nontrivial = !f.deps.is_empty() || c.len() > 0;
    rep.case(if nontrivial { Some(fnv(&raw)) } else { None });
    rep.count(&format!("changes_{}", origin));
    if !f.others.is_empty() {
        rep.count("changes_with_other_actors");
    }
    if !f.msg.is_empty() {
        rep.count("changes_with_message");
    }
    if !f.extra.is_empty() {
        rep.count("changes_with_extra_bytes");
    }
    if f.time < 0 {
        rep.count("changes_with_negative_time");
    }
    // (a) model
    if model {
        cw.push(
            format!("chk_chg_written {} {}", coq_bytes(&data), coq_fields(&f)),
            json!({"kind": "body", "props": ["C18"], "origin": origin, "raw": hex(&raw)}),
        );
        // (a') the op columns: the model decodes them to the operations decode() reports and re-encodes them to the same bytes
        if let Ok(e) = guard(|| c.decode()) {
            rep.add("ops_through_model", e.operations.len() as u64);
            cw.push(
                format!("chk_chg_ops {} {}", coq_bytes(&data), coq_lops(&e)),
                json!({"kind": "ops", "props": ["C18"], "origin": origin, "raw": hex(&raw)}),
            );
        }
    }
}

// ---------------------------------------------------------------- op columns: Coq terms of decoded operations
fn coq_sval(v: &ScalarValue) -> String {
    match v {
        ScalarValue::Null => "SV_Null".into(),
        ScalarValue::Boolean(b) => format!("(SV_Bool {})", coq_bool(*b)),
        ScalarValue::Uint(n) => format!("(SV_Uint {})", n),
        ScalarValue::Int(i) => format!("(SV_Int {})", coq_z(*i as i128)),
        ScalarValue::F64(f) => format!("(SV_F64 {})", coq_bytes(&f.to_le_bytes())),
        ScalarValue::Str(s) => format!("(SV_Str {})", coq_bytes(s.as_bytes())),
        ScalarValue::Bytes(b) => format!("(SV_Bytes {})", coq_bytes(b)),
        ScalarValue::Counter(c) => format!("(SV_Counter {})", coq_z(i64::from(c) as i128)),
        ScalarValue::Timestamp(t) => format!("(SV_Timestamp {})", coq_z(*t as i128)),
        ScalarValue::Unknown { type_code, bytes } => format!("(SV_Unknown {} {})", type_code, coq_bytes(bytes)),
    }
}

fn coq_bopid(o: &legacy::OpId) -> String {
    format!("({}, {})", o.0, coq_bytes(o.1.to_bytes()))
}

fn coq_lop(op: &legacy::Op) -> String {
    let obj = match &op.obj {
        legacy::ObjectId::Root => "BO_Root".to_string(),
        legacy::ObjectId::Id(o) => format!("(BO_Id {})", coq_bopid(o)),
    };
    let key = match &op.key {
        legacy::Key::Map(s) => format!("(BK_Prop {})", coq_bytes(s.as_bytes())),
        legacy::Key::Seq(legacy::ElementId::Head) => "BK_Head".to_string(),
        legacy::Key::Seq(legacy::ElementId::Id(o)) => format!("(BK_Elem {})", coq_bopid(o)),
    };
    let act = match &op.action {
        legacy::OpType::Make(t) => format!("(LA_Make {})", match t { ObjType::Map => 0, ObjType::List => 2, ObjType::Text => 4, ObjType::Table => 6 }),
        legacy::OpType::Put(v) => format!("(LA_Put {})", coq_sval(v)),
        legacy::OpType::Delete => "LA_Del".to_string(),
        legacy::OpType::Increment(i) => format!("(LA_Inc {})", coq_z(*i as i128)),
        legacy::OpType::MarkBegin(m) => format!("(LA_MarkBegin {} {} {})", coq_bytes(m.name.as_bytes()), coq_sval(&m.value), coq_bool(m.expand)),
        legacy::OpType::MarkEnd(e) => format!("(LA_MarkEnd {})", coq_bool(*e)),
    };
    let preds: Vec<String> = op.pred.iter().map(coq_bopid).collect();
    format!("(mkLop {} {} {} {} {})", obj, key, coq_bool(op.insert), act, coq_list(&preds))
}

fn coq_lops(e: &ExpandedChange) -> String {
    coq_list(&e.operations.iter().map(coq_lop).collect::<Vec<_>>())
}

// ---------------------------------------------------------------- hand-built changes that stress the op columns
const KEYS: [&str; 8] = ["a", "b", "a", "k\u{e9}", "", "\u{6f22}\u{5b57}", "\u{1F600}", "long-key-name-to-make-literal-runs"];

fn rich_scalar(rng: &mut Rng) -> ScalarValue {
    match rng.below(16) {
        0 => ScalarValue::Unknown { type_code: 10 + rng.below(6) as u8, bytes: { let n = rng.below(4) as usize; rng.bytes(n) } },
        1 => ScalarValue::Uint(*rng.pick(&[0u64, 1, 127, 128, 16383, 16384, u32::MAX as u64, (1 << 56) - 1, 1 << 56, (1 << 63) - 1, 1 << 63, u64::MAX])),
        2 => ScalarValue::Int(*rng.pick(&[0i64, 63, 64, -64, -65, 8191, 8192, -8192, -8193, (1 << 55) - 1, 1 << 55, -(1 << 55), -(1 << 55) - 1, (1 << 62) - 1, 1 << 62, -(1 << 62), -(1 << 62) - 1, i64::MAX, i64::MIN])),
        3 => ScalarValue::Timestamp(rng.next() as i64 >> (rng.below(64) as u32)),
        4 => ScalarValue::counter(rng.next() as i64 >> (rng.below(64) as u32)),
        5 => ScalarValue::F64(f64::from_bits(rng.next())),
        6 => ScalarValue::Bytes({ let n = *rng.pick(&[0usize, 1, 7, 8, 15, 16, 17, 200]); rng.bytes(n) }),
        7 => ScalarValue::Str("x".repeat(*rng.pick(&[0usize, 1, 7, 8, 127, 128, 300])).into()),
        _ => crate::gen::scalar(rng),
    }
}

fn hand_built_ops(rng: &mut Rng, i: usize) -> ExpandedChange {
    let actor = ActorId::from({ let n = 1 + rng.below(20) as usize; rng.bytes(n) });
    let n_others = (i % 5) as u64;
    let others: Vec<ActorId> = (0..n_others).map(|_| ActorId::from({ let n = 1 + rng.below(20) as usize; rng.bytes(n) })).collect();
    let any_actor = |rng: &mut Rng| -> ActorId {
        if others.is_empty() || rng.chance(1, 3) { actor.clone() } else { rng.pick(&others).clone() }
    };
    let n_ops = match i % 8 {
        0 => 0,
        1 => 1,
        2 => 65 + rng.below(10) as usize,
        3 => 130 + rng.below(40) as usize,
        _ => 2 + rng.below(24) as usize,
    };
    let mut operations: Vec<legacy::Op> = vec![];
    let mut k = 0usize;
    while k < n_ops {
        let key = *rng.pick(&KEYS);
        let ctrs: [u64; 8] = [1, 2, 3, 63, 64, 128, 70000, u32::MAX as u64];
        let n_pred = *rng.pick(&[0usize, 0, 1, 1, 2, 3, 5]);
        let preds: Vec<legacy::OpId> = (0..n_pred).map(|_| legacy::OpId::new(*rng.pick(&ctrs), &any_actor(rng))).collect();
        let obj = match rng.below(4) {
            0 => legacy::ObjectId::Root,
            1 => legacy::ObjectId::Id(legacy::OpId::new(*rng.pick(&ctrs), &actor)),
            _ => legacy::ObjectId::Id(legacy::OpId::new(*rng.pick(&ctrs), &any_actor(rng))),
        };
        let seq_key = |rng: &mut Rng| match rng.below(3) {
            0 => legacy::Key::Seq(legacy::ElementId::Head),
            _ => legacy::Key::Seq(legacy::ElementId::Id(legacy::OpId::new(*rng.pick(&ctrs), &any_actor(rng)))),
        };
        let op = match rng.below(12) {
            0 => legacy::Op { action: legacy::OpType::Make(*rng.pick(&[ObjType::Map, ObjType::List, ObjType::Text, ObjType::Table])), obj, key: legacy::Key::Map(key.into()), pred: preds.into(), insert: false },
            1 => legacy::Op { action: legacy::OpType::Delete, obj, key: if rng.chance(1, 2) { legacy::Key::Map(key.into()) } else { seq_key(rng) }, pred: preds.into(), insert: false },
            2 => legacy::Op { action: legacy::OpType::Increment(rng.next() as i64 >> (rng.below(64) as u32)), obj, key: legacy::Key::Map(key.into()), pred: preds.into(), insert: false },
            3 | 4 => legacy::Op { action: legacy::OpType::Put(rich_scalar(rng)), obj, key: seq_key(rng), pred: vec![].into(), insert: true },
            5 => legacy::Op {
                action: legacy::OpType::MarkBegin(legacy::MarkData { name: (*rng.pick(&["bold", "link", "", "\u{e9}m", "bold"])).into(), value: rich_scalar(rng), expand: rng.chance(1, 2) }),
                obj, key: seq_key(rng), pred: vec![].into(), insert: true,
            },
            6 => legacy::Op { action: legacy::OpType::MarkEnd(rng.chance(1, 2)), obj, key: seq_key(rng), pred: vec![].into(), insert: true },
            7 => legacy::Op { action: legacy::OpType::Put(rich_scalar(rng)), obj, key: seq_key(rng), pred: preds.into(), insert: false },
            _ => legacy::Op { action: legacy::OpType::Put(rich_scalar(rng)), obj, key: legacy::Key::Map(key.into()), pred: preds.into(), insert: false },
        };
        // repeat the same op to make repeat runs (of every column at once), or go on with literal runs
        let reps = if rng.chance(1, 4) { 1 + rng.below(if n_ops > 60 { 70 } else { 5 }) as usize } else { 1 };
        for _ in 0..reps.min(n_ops - k) {
            operations.push(op.clone());
            k += 1;
        }
    }
    ExpandedChange {
        operations,
        actor_id: actor,
        hash: None,
        seq: 1 + (i as u64 % 3),
        start_op: NonZeroU64::new(1 + (i as u64 % 200)).unwrap(),
        time: i as i64,
        message: None,
        deps: vec![],
        extra_bytes: if i % 3 == 0 { vec![1, 2, 3] } else { vec![] },
    }
}

// ---------------------------------------------------------------- (d) mutations
fn sleb(out: &mut Vec<u8>, mut v: i64) {
    loop {
        let byte = (v & 0x7f) as u8;
        v >>= 6;
        let done = v == 0 || v == -1;
        if done {
            out.push(byte);
            break;
        }
        v >>= 1;
        out.push(byte | 0x80);
    }
}

fn splice(data: &[u8], from: usize, to: usize, with: &[u8]) -> Vec<u8> {
    let mut v = data[..from].to_vec();
    v.extend_from_slice(with);
    v.extend_from_slice(&data[to..]);
    v
}

/// one mutation of the chunk data; every change lies in the header region [0, l.data.0) or appends
fn mutate(rng: &mut Rng, data: &[u8], l: &Layout) -> (Vec<u8>, String) {
    let hdr = l.data.0.max(1);
    let bad_lebs: [&[u8]; 10] = [
        &[0x80, 0x00],                                                       // over-long zero
        &[0x81, 0x80, 0x00],                                                 // over-long
        &[0xff, 0xff, 0xff, 0xff, 0xff, 0xff, 0xff, 0xff, 0xff, 0x01],       // u64::MAX
        &[0xff, 0xff, 0xff, 0xff, 0xff, 0xff, 0xff, 0xff, 0xff, 0x02],       // too large
        &[0xff, 0xff, 0xff, 0xff, 0xff, 0xff, 0xff, 0xff, 0xff, 0x7f],       // -1 over-long (signed) / too large (unsigned)
        &[0x80, 0x80, 0x80, 0x80, 0x80, 0x80, 0x80, 0x80, 0x80, 0x7f],       // i64::MIN
        &[0x80, 0x80, 0x80, 0x80, 0x80, 0x80, 0x80, 0x80, 0x80, 0x80, 0x00], // eleven bytes
        &[0x7f],                                                             // -1 / 127
        &[0xff, 0x00],                                                       // 127 (signed needs 2 bytes)
        &[0xc0, 0x7f],                                                       // over-long -64
    ];
    let bad_utf8: [&[u8]; 8] = [&[0xff], &[0xc0, 0x80], &[0xed, 0xa0, 0x80], &[0xf4, 0x90, 0x80, 0x80], &[0xe0, 0x80, 0x80], &[0xc3], &[0x80], &[0xf0, 0x80, 0x80, 0x80]];
    match rng.below(20) {
        0 | 1 => {
            let k = rng.below(hdr as u64) as usize;
            let mut v = data.to_vec();
            if k < v.len() {
                v[k] ^= 1 << rng.below(8);
            }
            (v, "bitflip".into())
        }
        2 => {
            let k = rng.below(hdr as u64) as usize;
            let mut v = data.to_vec();
            if k < v.len() {
                v[k] = *rng.pick(&[0u8, 1, 0x7f, 0x80, 0xff, 0x40]);
            }
            (v, "set-byte".into())
        }
        3 => {
            let k = rng.below(hdr as u64) as usize;
            (splice(data, k, k, &[rng.next() as u8]), "insert-byte".into())
        }
        4 => {
            let k = rng.below(hdr as u64) as usize;
            (splice(data, k, (k + 1).min(data.len()), &[]), "delete-byte".into())
        }
        5 => {
            let mut w = vec![];
            if rng.chance(1, 2) {
                w.extend_from_slice(*rng.pick(&bad_lebs));
            } else {
                sleb(&mut w, *rng.pick(&[0i64, -1, 63, 64, -64, -65, i64::MAX, i64::MIN, 1 << 56, -(1 << 56), (1 << 62) - 1, -(1 << 62)]));
            }
            (splice(data, l.time.0, l.time.1, &w), "time".into())
        }
        6 => {
            let mut w = vec![];
            if rng.chance(1, 2) {
                w.extend_from_slice(*rng.pick(&bad_lebs));
            } else {
                uleb(&mut w, *rng.pick(&[0u64, 1, 127, 128, u32::MAX as u64, u64::MAX]));
            }
            let (a, b) = if rng.chance(1, 2) { l.seq } else { l.start_op };
            (splice(data, a, b, &w), "seq/start_op".into())
        }
        7 => {
            // message bytes: invalid UTF-8 spliced in (length prefix adjusted) or a wrong length prefix
            if rng.chance(3, 4) {
                let mut m = data[l.msg.0..l.msg.1].to_vec();
                let k = rng.below(m.len() as u64 + 1) as usize;
                let ins = *rng.pick(&bad_utf8);
                m.splice(k..k, ins.iter().copied());
                let mut w = vec![];
                uleb(&mut w, m.len() as u64);
                w.extend_from_slice(&m);
                (splice(data, l.msg_len.0, l.msg.1, &w), "message-bytes".into())
            } else {
                let mut w = vec![];
                let n = (l.msg.1 - l.msg.0) as u64;
                uleb(&mut w, *rng.pick(&[n + 1, n.saturating_sub(1), n + 1000, u64::MAX]));
                (splice(data, l.msg_len.0, l.msg_len.1, &w), "message-length".into())
            }
        }
        8 => {
            // dependency count
            let mut p = l.deps.0;
            let n = read_uleb(data, &mut p).unwrap_or(0);
            let mut w = vec![];
            uleb(&mut w, *rng.pick(&[n + 1, n.saturating_sub(1), u64::MAX, 1 << 40]));
            (splice(data, l.deps.0, p, &w), "deps-count".into())
        }
        9 => {
            // one more well-formed dependency (stays valid)
            let mut p = l.deps.0;
            let n = read_uleb(data, &mut p).unwrap_or(0);
            let mut w = vec![];
            uleb(&mut w, n + 1);
            w.extend_from_slice(&data[p..l.deps.1]);
            w.extend_from_slice(&rng.bytes(32));
            (splice(data, l.deps.0, l.deps.1, &w), "deps-add".into())
        }
        10 => {
            // extra bytes appended (stays valid)
            let mut v = data.to_vec();
            let n = 1 + rng.below(5) as usize;
            v.extend_from_slice(&rng.bytes(n));
            (v, "extra-append".into())
        }
        11 if !l.cols.is_empty() => {
            // a column specification: deflate bit, another type, another id, swapped order
            let (a, m, _) = *rng.pick(&l.cols);
            let mut p = a;
            let spec = read_uleb(data, &mut p).unwrap_or(0);
            let new = match rng.below(6) {
                0 => spec | 8,
                1 => (spec & !7) | rng.below(8),
                2 => spec + 16,
                3 => spec.wrapping_sub(16) & 0xffff_ffff,
                4 => spec | (1 << 32),
                _ => (spec & 0xf) | (rng.below(12) << 4),
            };
            let mut w = vec![];
            uleb(&mut w, new);
            (splice(data, a, m, &w), "column-spec".into())
        }
        12 if !l.cols.is_empty() => {
            let (_, m, e) = *rng.pick(&l.cols);
            let mut p = m;
            let n = read_uleb(data, &mut p).unwrap_or(0);
            let mut w = vec![];
            uleb(&mut w, *rng.pick(&[n + 1, n.saturating_sub(1), 0, u64::MAX, (1 << 63), u64::MAX - 1]));
            (splice(data, m, e, &w), "column-length".into())
        }
        13 | 17 | 18 | 19 => {
            // column count; an extra (spec, len = 0) pair inserted where the normalised order puts it (or anywhere);
            // a pair removed
            let mut p = l.ncols.0;
            let n = read_uleb(data, &mut p).unwrap_or(0);
            match rng.below(6) {
                0 => {
                    let mut w = vec![];
                    uleb(&mut w, *rng.pick(&[n + 1, n.saturating_sub(1), u64::MAX]));
                    (splice(data, l.ncols.0, l.ncols.1, &w), "column-count".into())
                }
                1 if !l.cols.is_empty() => {
                    let i = rng.below(l.cols.len() as u64) as usize;
                    let (a, _, e) = l.cols[i];
                    let mut w = vec![];
                    uleb(&mut w, n - 1);
                    w.extend_from_slice(&data[l.ncols.1..a]);
                    w.extend_from_slice(&data[e..l.data.0]);
                    (splice(data, l.ncols.0, l.data.0, &w), "column-remove".into())
                }
                _ => {
                    // specs with ids >= 16 probe ColumnSpec::normalize, which keeps only the low byte;
                    // ids 5 (value) and 7 (pred group) probe the layout rules of the op columns
                    let spec = *rng.pick(&[0x07u64, 0x17, 0x57, 0x56, 0x50, 0x51, 0x53, 0x70, 0x71, 0x72, 0x73, 0x74, 0x75, 0x76, 0x77, 0x67, 0x66, 0x86,
                        0x87, 0xf5, 0x34, 0xa5, 0xa0, 0xa6, 0x100, 0x101, 0x107, 0x170, 0x171, 0x173, 0x174, 0x176, 0x177, 0x157, 0x1f3,
                        0x1000_0005, 0xffff_fff5, 0x102]);
                    let specs: Vec<u64> = l.cols.iter().map(|(a, _, _)| { let mut q = *a; read_uleb(data, &mut q).unwrap_or(0) }).collect();
                    let norm = |x: u64| x & 0xf7;
                    let idx = if rng.chance(1, 5) {
                        rng.below(specs.len() as u64 + 1) as usize
                    } else if rng.chance(1, 2) {
                        specs.iter().position(|x| norm(*x) > norm(spec)).unwrap_or(specs.len())
                    } else {
                        specs.iter().position(|x| norm(*x) >= norm(spec)).unwrap_or(specs.len())
                    };
                    let at = if idx < l.cols.len() { l.cols[idx].0 } else { l.data.0 };
                    // one pair, or a scenario of several pairs for the layout state machine: nested group, value
                    // metadata / value inside a group, value of another id, lone value, a second pred-like group
                    let scenarios: [&[u64]; 12] = [&[0xa0, 0xa0], &[0xa0, 0xa6], &[0xa0, 0xa6, 0xa7], &[0xa6, 0xb7], &[0xa6, 0xa7], &[0xa0, 0xa7],
                        &[0xa0, 0xa1, 0xa3], &[0xa0, 0xa6, 0xa1], &[0x170, 0x170], &[0x1a0, 0x2a1], &[0xa6, 0xa6], &[0xa0, 0xa6, 0xa6, 0xa7]];
                    let (specs_in, at): (Vec<u64>, usize) = if rng.chance(1, 4) {
                        let sc = *rng.pick(&scenarios);
                        let i2 = specs.iter().position(|x| norm(*x) > norm(sc[0])).unwrap_or(specs.len());
                        (sc.to_vec(), if i2 < l.cols.len() { l.cols[i2].0 } else { l.data.0 })
                    } else {
                        (vec![spec], at)
                    };
                    let mut w = vec![];
                    uleb(&mut w, n + specs_in.len() as u64);
                    w.extend_from_slice(&data[l.ncols.1..at]);
                    for sp in &specs_in {
                        uleb(&mut w, *sp);
                        w.push(0);
                    }
                    w.extend_from_slice(&data[at..l.data.0]);
                    (splice(data, l.ncols.0, l.data.0, &w), "column-add".into())
                }
            }
        }
        14 => {
            // truncation inside the header region, or an actor length off by one
            if rng.chance(1, 2) {
                let k = rng.below(hdr as u64) as usize;
                (data[..k].to_vec(), "truncate".into())
            } else {
                let mut p = l.actor.0;
                let n = read_uleb(data, &mut p).unwrap_or(0);
                let mut w = vec![];
                uleb(&mut w, *rng.pick(&[n + 1, n.saturating_sub(1), u64::MAX]));
                (splice(data, l.actor.0, p, &w), "actor-length".into())
            }
        }
        15 if !l.cols.is_empty() => {
            // an existing column specification repeated with an empty range (equal normalised specs)
            let i = rng.below(l.cols.len() as u64) as usize;
            let (a, m, e) = l.cols[i];
            let mut p = l.ncols.0;
            let n = read_uleb(data, &mut p).unwrap_or(0);
            let mut w = vec![];
            uleb(&mut w, n + 1);
            w.extend_from_slice(&data[l.ncols.1..e]);
            w.extend_from_slice(&data[a..m]);
            w.push(0);
            w.extend_from_slice(&data[e..l.data.0]);
            (splice(data, l.ncols.0, l.data.0, &w), "column-dup".into())
        }
        16 if l.cols.len() >= 2 => {
            // two neighbouring (spec, len) pairs swapped: the total length is unchanged, the order is not normal
            let i = rng.below(l.cols.len() as u64 - 1) as usize;
            let (a, _, e) = l.cols[i];
            let (a2, _, e2) = l.cols[i + 1];
            let mut w = data[a2..e2].to_vec();
            w.extend_from_slice(&data[a..e]);
            (splice(data, a, e2, &w), "column-swap".into())
        }
        _ => {
            let k = rng.below(hdr as u64) as usize;
            let mut v = data.to_vec();
            if k < v.len() {
                v[k] = rng.next() as u8;
            }
            (v, "random-byte".into())
        }
    }
}

/// a minimal change body with chosen raw field encodings and no columns
fn synthetic_body(rng: &mut Rng) -> (Vec<u8>, String) {
    let mut d = vec![0u8]; // no deps
    let n_actor = rng.below(4) as usize;
    let actor = rng.bytes(n_actor);
    uleb(&mut d, actor.len() as u64);
    d.extend_from_slice(&actor);
    uleb(&mut d, rng.below(300));
    uleb(&mut d, 1 + rng.below(300));
    // time: a random byte string of 1..11 bytes shaped like a LEB (continuation bits set except on the last)
    let n = 1 + rng.below(11) as usize;
    let mut t = rng.bytes(n);
    for (i, b) in t.iter_mut().enumerate() {
        if i + 1 < n {
            *b |= 0x80;
        } else {
            *b &= 0x7f;
        }
        if rng.chance(1, 3) {
            *b = (*b & 0x80) | *rng.pick(&[0u8, 0x7f, 0x40, 0x3f, 1]);
        }
    }
    d.extend_from_slice(&t);
    d.push(0); // no message
    d.push(0); // no other actors
    d.push(0); // no columns
    let n_extra = rng.below(3) as usize;
    d.extend_from_slice(&rng.bytes(n_extra));
    (d, "synthetic-time".into())
}

/// UTF-8 boundary sequences (Unicode Table 3-7): the neighbours of every range limit, valid and not
const UTF8_EDGES: [&[u8]; 30] = [
    &[0x7f], &[0x80], &[0xbf], &[0xc0, 0x80], &[0xc1, 0xbf], &[0xc2, 0x80], &[0xc2, 0x7f], &[0xc2, 0xc0], &[0xdf, 0xbf], &[0xc2],
    &[0xe0, 0x9f, 0xbf], &[0xe0, 0xa0, 0x80], &[0xe1, 0x80, 0x80], &[0xec, 0xbf, 0xbf], &[0xed, 0x9f, 0xbf], &[0xed, 0xa0, 0x80],
    &[0xed, 0xbf, 0xbf], &[0xee, 0x80, 0x80], &[0xef, 0xbf, 0xbf], &[0xe1, 0x80], &[0xe1, 0x80, 0x7f],
    &[0xf0, 0x8f, 0xbf, 0xbf], &[0xf0, 0x90, 0x80, 0x80], &[0xf1, 0x80, 0x80, 0x80], &[0xf3, 0xbf, 0xbf, 0xbf], &[0xf4, 0x8f, 0xbf, 0xbf],
    &[0xf4, 0x90, 0x80, 0x80], &[0xf5, 0x80, 0x80, 0x80], &[0xf1, 0x80, 0x80], &[0xff],
];

/// a minimal change body whose message is a UTF-8 boundary sequence between two ASCII letters
fn synthetic_message(rng: &mut Rng, k: usize) -> (Vec<u8>, String) {
    let mut d = vec![0u8, 0]; // no deps, empty actor
    uleb(&mut d, 1 + rng.below(200));
    uleb(&mut d, 1 + rng.below(200));
    sleb(&mut d, rng.next() as i64 >> rng.below(64));
    let mut m = vec![];
    if rng.chance(1, 2) {
        m.push(b'a');
    }
    m.extend_from_slice(UTF8_EDGES[k % UTF8_EDGES.len()]);
    if rng.chance(1, 2) {
        m.push(b'z');
    }
    uleb(&mut d, m.len() as u64);
    d.extend_from_slice(&m);
    d.push(0);
    d.push(0);
    (d, "synthetic-message".into())
}

fn classify_error(msg: &str) -> u128 {
    // container-level rejections of Change::parse_following_header (storage/change.rs ParseError via
    // chunk::error::Chunk::Change, or the parser running out of input)
    // (LoadError::Parse displays as "unable to parse change: <inner>"; the op-column layer has messages
    // that merely CONTAIN "not enough data", so the match is on the whole string / its prefix)
    if msg.starts_with("unable to parse change: bad change chunk") || msg == "unable to parse change: not enough data" {
        2
    } else {
        4
    }
}

fn check_mutant(rep: &mut Report, cw: &mut CaseWriter, data: &[u8], kind: &str, origin: &str) {
    let chunk = build_chunk(1, data);
    let replay = json!({"origin": origin, "mutation": kind, "chunk": hex(&chunk)});
    let r = guard(|| Change::from_bytes(chunk.clone()));
    let (st, fields): (u128, String) = match r {
        Err(p) => {
            rep.fail(&["C15", "C18"], &format!("panic|from_bytes|{}", p.signature()),
                &format!("Change::from_bytes of a mutated change chunk panicked: {} at {}", p.message, p.location), replay.clone());
            (3, EMPTY_FIELDS.to_string())
        }
        Ok(Err(e)) => {
            let m = e.to_string();
            let cls = classify_error(&m);
            // histogram of rejection reasons (numerals erased) for the evidence file
            let short: String = m.chars().map(|c| if c.is_ascii_digit() { '#' } else { c }).take(90).collect();
            rep.count(&format!("reject{}|{}", cls, short));
            (cls, EMPTY_FIELDS.to_string())
        }
        Ok(Ok(c)) => {
            // an accepted change must behave: same bytes back, hash of its bytes, expandable
            if c.raw_bytes() != &chunk[..] {
                rep.fail(&["C18"], "chg|accepted-bytes-differ", "from_bytes accepted a chunk but raw_bytes() differs from it", replay.clone());
            }
            let digest = sha2::Sha256::digest(&chunk[8..]);
            if digest.as_slice() != c.hash().0 {
                rep.fail(&["C18"], "chg|accepted-hash", "hash of an accepted chunk is not the SHA-256 of its bytes", replay.clone());
            }
            match guard(|| Change::from(c.decode())) {
                Ok(again) => {
                    // re-encoding is canonical (sorted deps, own column layout); only a change that is
                    // already in the writer's form must keep its hash — counted, not asserted
                    if again.hash() == c.hash() {
                        rep.count("mutants_reencode_same_hash");
                    } else {
                        rep.count("mutants_reencode_other_hash");
                    }
                }
                Err(p) => rep.fail(&["C15", "C18"], &format!("panic|decode-mutant|{}", p.signature()),
                    &format!("decode / re-encode of a change accepted by from_bytes panicked: {} at {}", p.message, p.location), replay.clone()),
            }
            (0, coq_fields(&fields_of(&c)))
        }
    };
    rep.count(&format!("mutants_{}", match st { 0 => "accepted", 2 => "rejected_container", 4 => "rejected_other", _ => "panicked" }));
    rep.count(&format!("mutation_{}", kind));
    rep.case(if st != 2 || data.len() > 8 { Some(fnv(&chunk)) } else { None });
    cw.push(
        format!("chk_chg_mut {} {} {}", coq_bytes(data), st, fields),
        json!({"kind": "mutant", "props": ["C18", "C15"], "origin": origin, "mutation": kind, "chunk": hex(&chunk)}),
    );
}

// ---------------------------------------------------------------- (c) bundles
fn sorted(mut h: Vec<ChangeHash>) -> Vec<ChangeHash> {
    h.sort();
    h
}

fn check_bundles(rep: &mut Report, rng: &mut Rng, changes: &[Change], n_subsets: usize, ui: usize, log: &[String]) {
    let n = changes.len();
    if n == 0 {
        return;
    }
    let mut all = Automerge::new_with_encoding(TextEncoding::UnicodeCodePoint);
    if all.apply_changes(changes.to_vec()).is_err() {
        return;
    }
    let cands = object_ids(changes);
    let by_hash: HashMap<ChangeHash, &Change> = changes.iter().map(|c| (c.hash(), c)).collect();
    for si in 0..n_subsets {
        // subset shapes: everything, a causal prefix, a suffix (deps missing), a random subset, one change
        let idx: Vec<usize> = match si % 5 {
            0 => (0..n).collect(),
            1 => (0..1 + rng.below(n as u64) as usize).collect(),
            2 => (rng.below(n as u64) as usize..n).collect(),
            3 => (0..n).filter(|_| rng.chance(1, 2)).collect(),
            _ => vec![rng.below(n as u64) as usize],
        };
        if idx.is_empty() {
            continue;
        }
        let subset: Vec<Change> = idx.iter().map(|i| changes[*i].clone()).collect();
        let hashes: Vec<ChangeHash> = subset.iter().map(|c| c.hash()).collect();
        let set: BTreeSet<ChangeHash> = hashes.iter().copied().collect();
        let closed = subset.iter().all(|c| c.deps().iter().all(|d| set.contains(d)));
        let replay = json!({"universe": ui, "log": log, "subset": idx, "n_changes": n});
        let mut order = hashes.clone();
        rng.shuffle(&mut order);
        let bundle = match guard(|| all.bundle(order.iter().copied())) {
            Ok(Ok(b)) => b,
            Ok(Err(e)) => {
                rep.fail(&["C18"], "chg|bundle-failed", &format!("bundle() of changes the document holds failed: {}", e), replay);
                continue;
            }
            Err(p) => {
                rep.fail(&["C18", "C37"], &format!("panic|bundle|{}", p.signature()), &format!("bundle() panicked: {} at {}", p.message, p.location), replay);
                continue;
            }
        };
        rep.case(if idx.len() >= 2 { Some(fnv(bundle.bytes())) } else { None });
        rep.count("bundles");
        rep.count(if closed { "bundles_closed" } else { "bundles_missing_deps" });
        rep.add("bundle_changes", idx.len() as u64);
        let bytes = bundle.bytes().to_vec();
        // byte-identical changes, from the bundle object and from its serialised form
        let mut sources: Vec<(&str, Result<Result<Vec<Change>, String>, PanicInfo>)> = vec![];
        sources.push(("to_changes", guard(|| bundle.to_changes().map_err(|e| e.to_string()))));
        sources.push(("parsed", guard(|| match Bundle::try_from(&bytes[..]) {
            Ok(b) => b.to_changes().map_err(|e| e.to_string()),
            Err(e) => Err(e.to_string()),
        })));
        for (name, r) in sources {
            match r {
                Ok(Ok(cs)) => {
                    let got: BTreeSet<ChangeHash> = cs.iter().map(|c| c.hash()).collect();
                    let same_set = got == set && cs.len() == subset.len();
                    let same_bytes = cs.iter().all(|c| by_hash.get(&c.hash()).map(|o| o.raw_bytes() == c.raw_bytes()).unwrap_or(false));
                    if !same_set || !same_bytes {
                        rep.fail(&["C18"], &format!("chg|bundle-changes-differ|{}", name),
                            "changes extracted from a bundle are not byte-identical to the bundled changes", replay.clone());
                    }
                }
                Ok(Err(e)) => rep.fail(&["C18"], &format!("chg|bundle-unbundle-failed|{}", name), &format!("cannot get the changes back from a bundle: {}", e), replay.clone()),
                Err(p) => rep.fail(&["C18", "C15"], &format!("panic|unbundle|{}", p.signature()), &format!("unbundling panicked: {} at {}", p.message, p.location), replay.clone()),
            }
        }
        // loading the bundle == applying the subset: into an empty document and into one that already holds a prefix
        for base_len in [0usize, rng.below(n as u64 + 1) as usize] {
            let mut d1 = Automerge::new_with_encoding(TextEncoding::UnicodeCodePoint);
            let mut d2 = Automerge::new_with_encoding(TextEncoding::UnicodeCodePoint);
            if base_len > 0 {
                let base: Vec<Change> = changes[..base_len].to_vec();
                if d1.apply_changes(base.clone()).is_err() || d2.apply_changes(base).is_err() {
                    continue;
                }
            }
            let r1 = guard(|| d1.load_incremental(&bytes).map(|_| ()).map_err(|e| e.to_string()));
            let r2 = guard(|| d2.apply_changes(subset.clone()).map_err(|e| e.to_string()));
            match (r1, r2) {
                (Ok(Ok(())), Ok(Ok(()))) => {
                    let same = sorted(d1.get_heads()) == sorted(d2.get_heads())
                        && sorted(d1.get_missing_deps(&[])) == sorted(d2.get_missing_deps(&[]))
                        && d1.get_changes(&[]).len() == d2.get_changes(&[]).len()
                        && render_plain(&d1, &cands) == render_plain(&d2, &cands);
                    if !same {
                        rep.fail(&["C18"], "chg|bundle-load-differs", "loading a bundle differs from applying its changes", json!({"universe": ui, "log": log, "subset": idx, "base": base_len}));
                    }
                    rep.count("bundle_loads");
                }
                (Ok(Err(e)), Ok(Ok(()))) => rep.fail(&["C18"], "chg|bundle-load-failed", &format!("load_incremental of a bundle failed where apply_changes succeeds: {}", e), json!({"universe": ui, "log": log, "subset": idx, "base": base_len})),
                (Err(p), _) => rep.fail(&["C18", "C15"], &format!("panic|load-bundle|{}", p.signature()), &format!("loading a bundle panicked: {} at {}", p.message, p.location), json!({"universe": ui, "log": log, "subset": idx, "base": base_len})),
                _ => rep.count("bundle_apply_rejected"),
            }
        }
        // a closed bundle is also a loadable file
        if closed {
            match guard(|| Automerge::load(&bytes)) {
                Ok(Ok(d)) => {
                    let mut d2 = Automerge::new_with_encoding(TextEncoding::UnicodeCodePoint);
                    let _ = d2.apply_changes(subset.clone());
                    if sorted(d.get_heads()) != sorted(d2.get_heads()) || d.get_changes(&[]).len() != d2.get_changes(&[]).len() {
                        rep.fail(&["C18"], "chg|bundle-load-file-differs", "Automerge::load of a bundle differs from applying its changes", replay.clone());
                    }
                }
                Ok(Err(e)) => rep.fail(&["C18"], "chg|bundle-load-file-failed", &format!("Automerge::load of a dependency-closed bundle failed: {}", e), replay.clone()),
                Err(p) => rep.fail(&["C18", "C15"], &format!("panic|load-bundle|{}", p.signature()), &format!("Automerge::load of a bundle panicked: {}", p.message), replay.clone()),
            }
        }
    }
}

// ---------------------------------------------------------------- (e) mutations INSIDE the op-column region
// the columns of a change as (spec, bytes), and the chunk data rebuilt from edited columns (the column metadata is
// rewritten to match, so the container stays well-formed and the op-column layer is what gets exercised)
fn columns_of(data: &[u8], l: &Layout) -> Vec<(u64, Vec<u8>)> {
    let mut out = vec![];
    let mut off = l.data.0;
    for (a, m, _e) in &l.cols {
        let mut p = *a;
        let spec = read_uleb(data, &mut p).unwrap_or(0);
        let mut q = *m;
        let len = read_uleb(data, &mut q).unwrap_or(0) as usize;
        out.push((spec, data[off..off + len].to_vec()));
        off += len;
    }
    out
}

fn rebuild(data: &[u8], l: &Layout, cols: &[(u64, Vec<u8>)]) -> Vec<u8> {
    let mut v = data[..l.ncols.0].to_vec();
    uleb(&mut v, cols.len() as u64);
    for (s, d) in cols {
        uleb(&mut v, *s);
        uleb(&mut v, d.len() as u64);
    }
    for (_, d) in cols {
        v.extend_from_slice(d);
    }
    v.extend_from_slice(&data[l.data.1..]);
    v
}

fn crafted_column(rng: &mut Rng) -> Vec<u8> {
    let mut v = vec![];
    match rng.below(16) {
        0 => { v.push(0); uleb(&mut v, 1u64 << 63); }                                   // null run of 2^63: count as isize = MIN
        1 => { v.push(0); uleb(&mut v, (1u64 << 63) + 1 + rng.below(3)); }              // negative count: endless nulls, then overflow
        2 => { v.push(0); uleb(&mut v, u64::MAX); }
        3 => v.extend_from_slice(&[0x80, 0x80, 0x80, 0x80, 0x80, 0x80, 0x80, 0x80, 0x80, 0x7f, 1]), // literal run of i64::MIN
        4 => { sleb(&mut v, i64::MAX); v.push(rng.below(8) as u8); }                    // a run of 2^63 - 1
        5 => { sleb(&mut v, 1 + rng.below(5) as i64); uleb(&mut v, *rng.pick(&[u32::MAX as u64, u32::MAX as u64 + 1, u64::MAX, 1 << 32])); } // values around u32::MAX
        6 => { sleb(&mut v, -(1 + rng.below(3) as i64)); v.extend_from_slice(&[0x80, 0x00, 0x81, 0x00, 0x82, 0x00]); } // over-long LEBs inside a literal run
        7 => { v.push(0); v.push(0); sleb(&mut v, 2); v.push(1); }                     // zero-length null run, then a run
        8 => { sleb(&mut v, 3); v.extend_from_slice(&[2, 0xc3, 0x28]); }                // a run of an invalid UTF-8 string
        9 => { sleb(&mut v, 2); uleb(&mut v, 1_000_000_001); v.push(b'a'); }            // a string longer than MAX_ALLOCATION
        10 => { sleb(&mut v, -2); v.extend_from_slice(&[1, b'a']); }                    // literal run cut short
        11 => { v.extend_from_slice(&[0xff, 0xff, 0xff, 0xff, 0xff, 0xff, 0xff, 0xff, 0xff, 0x02]); } // LEB overflow
        12 => { uleb(&mut v, 0); uleb(&mut v, 0); uleb(&mut v, 3); uleb(&mut v, u64::MAX); }          // boolean runs: zero counts, huge count
        13 => { sleb(&mut v, 2 + rng.below(3) as i64); uleb(&mut v, *rng.pick(&[0x10u64, 0x13, 0x24, 0x85, 0x75, 0x86, 0x1a, 0x0f, 0x23, 0x14])); } // value metadata of odd lengths
        14 => { sleb(&mut v, 1); sleb(&mut v, *rng.pick(&[i64::MAX, i64::MIN, -1, -5])); sleb(&mut v, 1); sleb(&mut v, i64::MAX); } // deltas that saturate / go negative
        _ => { let n = 1 + rng.below(6) as usize; v = rng.bytes(n); }
    }
    v
}

fn mutate_ops(rng: &mut Rng, data: &[u8], l: &Layout) -> (Vec<u8>, String) {
    let mut cols = columns_of(data, l);
    let (d0, d1) = l.data;
    if cols.is_empty() || d1 == d0 || rng.chance(1, 12) {
        // give a change without ops some columns
        let specs: [u64; 14] = [1, 2, 17, 19, 21, 52, 66, 86, 87, 112, 113, 115, 148, 165];
        let k = rng.below(specs.len() as u64) as usize;
        let c = crafted_column(rng);
        let pos = cols.iter().position(|(s, _)| (*s & !8) >= specs[k]).unwrap_or(cols.len());
        cols.insert(pos, (specs[k], c));
        return (rebuild(data, l, &cols), "ops-add-column".into());
    }
    let ci = rng.below(cols.len() as u64) as usize;
    match rng.below(14) {
        0 | 1 | 2 => {
            let k = d0 + rng.below((d1 - d0) as u64) as usize;
            let mut v = data.to_vec();
            v[k] ^= 1 << rng.below(8);
            (v, "ops-bitflip".into())
        }
        3 | 4 => {
            let k = d0 + rng.below((d1 - d0) as u64) as usize;
            let mut v = data.to_vec();
            v[k] = *rng.pick(&[0u8, 1, 0x7f, 0x80, 0xff, 0x7e, 0x40, 0x3f, 2]);
            (v, "ops-set-byte".into())
        }
        5 => {
            cols[ci].1 = crafted_column(rng);
            (rebuild(data, l, &cols), "ops-crafted-column".into())
        }
        6 => {
            let c = crafted_column(rng);
            cols[ci].1.extend_from_slice(&c);
            (rebuild(data, l, &cols), "ops-append-to-column".into())
        }
        7 => {
            let n = cols[ci].1.len();
            let cut = if n == 0 { 0 } else { 1 + rng.below(n.min(3) as u64) as usize };
            cols[ci].1.truncate(n - cut);
            (rebuild(data, l, &cols), "ops-truncate-column".into())
        }
        8 => {
            cols.remove(ci);
            (rebuild(data, l, &cols), "ops-drop-column".into())
        }
        9 => {
            let c = cols[ci].clone();
            cols.insert(ci, c);
            if rng.chance(1, 2) { cols[ci].1 = crafted_column(rng); }
            (rebuild(data, l, &cols), "ops-duplicate-column".into())
        }
        10 => {
            let cj = rng.below(cols.len() as u64) as usize;
            let t = cols[ci].1.clone();
            cols[ci].1 = cols[cj].1.clone();
            cols[cj].1 = t;
            (rebuild(data, l, &cols), "ops-swap-columns".into())
        }
        11 => {
            let n = cols[ci].1.len();
            let k = rng.below(n as u64 + 1) as usize;
            let b = *rng.pick(&[0u8, 1, 2, 0x7f, 0x80, 0xff, 0x7e]);
            cols[ci].1.insert(k, b);
            (rebuild(data, l, &cols), "ops-insert-byte".into())
        }
        12 => {
            // change the type or the id of a column specification (unknown columns, groups swallowing their followers)
            let s = cols[ci].0;
            cols[ci].0 = match rng.below(4) { 0 => s ^ (1 << rng.below(3)), 1 => (s & 0xf) | ((s >> 4) << 4) & !7, 2 => s & !7, _ => s + 16 };
            (rebuild(data, l, &cols), "ops-change-spec".into())
        }
        _ => {
            // a value column pair / pred group made inconsistent: shift bytes from one column into its neighbour
            if ci + 1 < cols.len() && !cols[ci + 1].1.is_empty() {
                let b = cols[ci + 1].1.remove(0);
                cols[ci].1.push(b);
            }
            (rebuild(data, l, &cols), "ops-shift-boundary".into())
        }
    }
}

// panic signature without the toolchain hash in paths below /rustc/<hash>/
fn psig(p: &PanicInfo) -> String {
    let s = p.signature();
    match (s.find("/rustc/"), s.find("/library/")) {
        (Some(a), Some(b)) if a < b => format!("{}rustc{}", &s[..a], &s[b..]),
        _ => s,
    }
}

fn check_ops_mutant(rep: &mut Report, cw: &mut CaseWriter, data: &[u8], kind: &str, origin: &str) {
    let chunk = build_chunk(1, data);
    let replay = json!({"origin": origin, "mutation": kind, "chunk": hex(&chunk)});
    let (st, lops): (u128, String) = match guard(|| Change::from_bytes(chunk.clone())) {
        Err(p) => {
            rep.fail(&["C15", "C18"], &format!("panic|from_bytes|{}", psig(&p)),
                &format!("Change::from_bytes of a change chunk with mutated op columns panicked: {} at {}", p.message, p.location), replay.clone());
            (3, "[]".into())
        }
        Ok(Err(e)) => {
            let m = e.to_string();
            let short: String = m.chars().map(|c| if c.is_ascii_digit() { '#' } else { c }).take(90).collect();
            rep.count(&format!("ops_reject|{}", short));
            (classify_error(&m), "[]".into())
        }
        Ok(Ok(c)) => {
            if c.raw_bytes() != &chunk[..] {
                rep.fail(&["C18"], "chg|accepted-bytes-differ", "from_bytes accepted a chunk but raw_bytes() differs from it", replay.clone());
            }
            match guard(|| c.decode()) {
                Ok(e) => {
                    if e.operations.len() != c.len() {
                        rep.fail(&["C18"], "chg|decode-op-count", "decode() gives a different number of operations than len()", replay.clone());
                    }
                    (0, coq_lops(&e))
                }
                Err(p) => {
                    rep.fail(&["C15", "C18"], &format!("panic|decode-mutant|{}", psig(&p)),
                        &format!("decode of a change accepted by from_bytes panicked: {} at {}", p.message, p.location), replay.clone());
                    (1, "[]".into())
                }
            }
        }
    };
    rep.count(&format!("ops_mutants_{}", match st { 0 => "accepted", 1 => "accepted_decode_panics", 2 => "rejected_container", 4 => "rejected_other", _ => "panicked" }));
    rep.count(&format!("mutation_{}", kind));
    rep.case(if st != 2 { Some(fnv(&chunk)) } else { None });
    cw.push(
        format!("chk_chg_ops_mut {} {} {}", coq_bytes(data), st, lops),
        json!({"kind": "ops-mutant", "props": ["C18", "C15"], "origin": origin, "mutation": kind, "chunk": hex(&chunk)}),
    );
}

pub fn run(rng: &mut Rng, tier: &str, out: &str) -> Report {
    let mut rep = Report::new("chg");
    // replay aid: CHG_REPLAY_CHUNK=<hex of a chunk> prints what Change::from_bytes does with it
    if let Ok(h) = std::env::var("CHG_REPLAY_CHUNK") {
        let chunk = unhex(h.trim());
        match guard(|| Change::from_bytes(chunk.clone())) {
            Ok(Ok(c)) => println!("accepted: {:?} decode: {:?}", fields_of(&c), guard(|| format!("{:?}", c.decode())).map_err(|p| p.message)),
            Ok(Err(e)) => println!("rejected: {} (class {})", e, classify_error(&e.to_string())),
            Err(p) => println!("panicked: {} at {}", p.message, p.location),
        }
        return rep;
    }
    let mut cw = CaseWriter::new(out, "chg", HEADER, 40);
    let thorough = tier == "thorough";
    let n_univ = if thorough { 400 } else { 60 };
    let n_model_univ = if thorough { 60 } else { 12 };
    let n_hand = if thorough { 600 } else { 90 };
    let n_mut = if thorough { 3000 } else { 420 };
    let n_hand_ops = if thorough { 400 } else { 64 };
    let n_ops_mut = if thorough { 2500 } else { 260 };
    let mut ops_pool: Vec<(Vec<u8>, String)> = vec![]; // chunk data of changes with ops, for the op-column mutations
    let mut pool: Vec<(Vec<u8>, String)> = vec![]; // chunk data of changes to mutate

    // ---- generated histories ----
    for ui in 0..n_univ {
        let cfg = GenCfg { focus: ui % 3 == 2, ..GenCfg::default() };
        let nrep = rng.range(2, 4) as usize;
        let steps = if thorough { rng.range(20, 120) } else { rng.range(15, 60) } as usize;
        let mut gen_log: Vec<String> = vec![];
        let u = match guard(|| build_universe(rng, nrep, steps, &cfg, &mut gen_log)) {
            Ok(u) => u,
            Err(_) => {
                rep.count("generator_panics"); // reported by the hist family (C03 / C37)
                continue;
            }
        };
        rep.add("universe_changes", u.changes.len() as u64);
        for (k, c) in u.changes.iter().enumerate() {
            // every change is checked directly; the first universes also go through the model
            let model = ui < n_model_univ && (k < 8 || rng.chance(1, 4));
            check_change(&mut rep, &mut cw, c, "history", model);
            if pool.len() < 4000 && rng.chance(1, 3) {
                if let Some((_, d)) = split_chunk(c.raw_bytes()) {
                    pool.push((d, format!("history {} change {}", ui, k)));
                }
            }
        }
        let n_subsets = if thorough { 8 } else { 5 };
        check_bundles(&mut rep, rng, &u.changes, n_subsets, ui, &u.log);
    }

    // ---- bulky changes: payloads that deflate extremely well, and change metadata (commit messages) large
    // enough that the metadata columns of a bundle are themselves deflated ----
    {
        use automerge::transaction::{CommitOptions, Transactable};
        let n_bulky = if thorough { 24 } else { 6 };
        for bi in 0..n_bulky {
            let mut doc = automerge::AutoCommit::new().with_actor(crate::gen::actor(rng, bi % 16));
            let mut log: Vec<String> = vec![];
            let n_changes = rng.range(6, 14) as usize;
            for k in 0..n_changes {
                match rng.below(4) {
                    0 => {
                        let n = *rng.pick(&[300usize, 12_000, 40_000, 70_000]);
                        let _ = doc.put(automerge::ROOT, "zeros", ScalarValue::Bytes(vec![0u8; n]));
                        log.push(format!("put zeros x{}", n));
                    }
                    1 => {
                        let n = *rng.pick(&[200usize, 6_000, 20_000]);
                        let _ = doc.put(automerge::ROOT, "pattern", "ab".repeat(n));
                        log.push(format!("put pattern ab x{}", n));
                    }
                    _ => {
                        let _ = doc.put(automerge::ROOT, "k", k as i64);
                        log.push("put k".into());
                    }
                }
                let msg: String = format!("commit {} of the bulky stream: {}", k, "lorem ipsum dolor sit amet ".repeat(rng.range(3, 10) as usize));
                doc.commit_with(CommitOptions::default().with_message(msg).with_time(k as i64));
            }
            let changes = doc.get_changes(&[]);
            for c in &changes {
                check_change(&mut rep, &mut cw, c, "bulky", false);
            }
            check_bundles(&mut rep, rng, &changes, 4, 100_000 + bi, &log);
            rep.count("bulky_documents");
        }
    }

    // ---- hand-built expanded changes ----
    for i in 0..n_hand {
        let e = hand_built(rng, i);
        let c = match guard(|| Change::from(e.clone())) {
            Ok(c) => c,
            Err(p) => {
                rep.fail(&["C18", "C37"], &format!("panic|encode|{}", p.signature()), &format!("Change::from(ExpandedChange) panicked: {} at {}", p.message, p.location), json!({"hand_built": i}));
                continue;
            }
        };
        // the encoder keeps every field (deps sorted)
        let mut want_deps: Vec<Vec<u8>> = e.deps.iter().map(|h| h.0.to_vec()).collect();
        want_deps.sort();
        let f = fields_of(&c);
        if f.deps != want_deps || f.actor != e.actor_id.to_bytes() || f.seq != e.seq || f.start_op != e.start_op.get() || f.time != e.time
            || f.msg != e.message.clone().unwrap_or_default().into_bytes() || f.extra != e.extra_bytes || c.len() != e.operations.len()
        {
            rep.fail(&["C18"], "chg|encode-fields", "a field of an ExpandedChange is not what the encoded change reports", json!({"hand_built": i, "raw": hex(c.raw_bytes())}));
        }
        // expanding the encoded change gives the operations back (compared through their Debug form: NaN payloads
        // and the like are not distinguished there, so no float is compared by value)
        if let Ok(d) = guard(|| c.decode()) {
            if format!("{:?}", d.operations) != format!("{:?}", e.operations) {
                rep.fail(&["C18"], "chg|decode-ops-differ", "decode(Change::from(e)).operations differs from e.operations",
                    json!({"hand_built": i, "raw": hex(c.raw_bytes()), "want": format!("{:?}", e.operations), "got": format!("{:?}", d.operations)}));
            }
        }
        check_change(&mut rep, &mut cw, &c, "hand_built", true);
        if let Some((_, d)) = split_chunk(c.raw_bytes()) {
            pool.push((d, format!("hand-built {}", i)));
        }
    }

    // ---- hand-built expanded changes that stress the op columns ----
    for i in 0..n_hand_ops {
        let e = hand_built_ops(rng, i);
        let c = match guard(|| Change::from(e.clone())) {
            Ok(c) => c,
            Err(p) => {
                rep.fail(&["C18", "C37"], &format!("panic|encode|{}", p.signature()), &format!("Change::from(ExpandedChange) panicked: {} at {}", p.message, p.location), json!({"hand_built_ops": i}));
                continue;
            }
        };
        if let Ok(d) = guard(|| c.decode()) {
            if format!("{:?}", d.operations) != format!("{:?}", e.operations) {
                rep.fail(&["C18"], "chg|decode-ops-differ", "decode(Change::from(e)).operations differs from e.operations",
                    json!({"hand_built_ops": i, "raw": hex(c.raw_bytes()), "want": format!("{:?}", e.operations), "got": format!("{:?}", d.operations)}));
            }
        }
        rep.add("hand_built_ops_total", e.operations.len() as u64);
        if e.operations.len() > 64 {
            rep.count("hand_built_changes_over_64_ops");
        }
        check_change(&mut rep, &mut cw, &c, "hand_built_ops", true);
        if let Some((_, d)) = split_chunk(c.raw_bytes()) {
            if e.operations.len() <= 40 {
                ops_pool.push((d, format!("hand-built-ops {}", i)));
            }
        }
    }
    for (d, o) in pool.iter() {
        if ops_pool.len() < 3000 && d.len() < 600 {
            ops_pool.push((d.clone(), o.clone()));
        }
    }

    // ---- malformed stream: the op-column region ----
    for _k in 0..n_ops_mut {
        // mostly changes that have ops
        let mut picked = rng.pick(&ops_pool).clone();
        for _ in 0..3 {
            if layout_of(&picked.0).map(|l| l.data.1 > l.data.0).unwrap_or(false) {
                break;
            }
            picked = rng.pick(&ops_pool).clone();
        }
        let (data, origin) = picked;
        let l = match layout_of(&data) {
            Some(l) => l,
            None => continue,
        };
        let (mut d, mut kind) = mutate_ops(rng, &data, &l);
        if rng.chance(1, 8) {
            if let Some(l2) = layout_of(&d) {
                let (d2, _k2) = mutate_ops(rng, &d, &l2);
                d = d2;
                kind = "ops-double".into();
            }
        }
        check_ops_mutant(&mut rep, &mut cw, &d, &kind, &origin);
    }

    // ---- malformed stream ----
    for k in 0..n_mut {
        if k % 6 == 5 {
            let (d, kind) = if k % 12 == 5 { synthetic_body(rng) } else { synthetic_message(rng, k / 12) };
            check_mutant(&mut rep, &mut cw, &d, &kind, "synthetic");
            continue;
        }
        let (data, origin) = rng.pick(&pool).clone();
        let l = match layout_of(&data) {
            Some(l) => l,
            None => continue,
        };
        let (mut d, mut kind) = mutate(rng, &data, &l);
        if rng.chance(1, 8) {
            if let Some(l2) = layout_of(&d) {
                let (d2, k2) = mutate(rng, &d, &l2);
                d = d2;
                let _ = k2;
                kind = "double".into();
            }
        }
        check_mutant(&mut rep, &mut cw, &d, &kind, &origin);
    }
    rep.model_cases = cw.total as u64;
    cw.finish();
    rep
}
