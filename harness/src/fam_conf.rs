// Family "conf": histories in which one actor id is used on two diverged replicas, so that
// different changes claim the same (actor, seq).  Serves C38 (actor/seq uniqueness), C06 (failed
// calls) and C05 (queue) on the error paths of apply_changes.
use crate::gen::{self, GenCfg};
use crate::model::*;
use crate::util::*;
use automerge::{AutoCommit, Automerge, Change, ChangeHash, ReadDoc, TextEncoding};
use serde_json::json;
use std::collections::{BTreeSet, HashSet};

const HEADER: &str = "From AM Require Import Base.Prelude Base.Order Crdt.Types Crdt.Interp Crdt.Doc Crdt.Commit Exec.HistExec.\nLocal Open Scope N_scope.\n";

fn edits(doc: &mut AutoCommit, rng: &mut Rng, n: u64, cfg: &GenCfg, log: &mut Vec<String>, who: &str) {
    for _ in 0..n {
        if let Some(d) = gen::random_edit(doc, rng, cfg) {
            log.push(format!("{} {}", who, d));
        }
    }
}

fn sorted(mut h: Vec<ChangeHash>) -> Vec<ChangeHash> {
    h.sort();
    h
}

pub fn run(rng: &mut Rng, tier: &str, out: &str) -> Report {
    let mut rep = Report::new("conf");
    let mut cw = CaseWriter::new(out, "conf", HEADER, 1);
    let thorough = tier == "thorough";
    let n_univ = if thorough { 300 } else { 40 };
    let cfg = GenCfg { focus: true, ..GenCfg::default() };
    for ui in 0..n_univ {
        let mut log = vec![];
        let a = gen::actor(rng, 0);
        let b = gen::actor(rng, 1);
        let mut base = AutoCommit::new_with_encoding(TextEncoding::UnicodeCodePoint).with_actor(a.clone());
        for _ in 0..rng.range(1, 2) {
            edits(&mut base, rng, 2, &cfg, &mut log, "base");
            base.commit();
        }
        // two diverged replicas with the SAME actor
        let mut left = base.fork().with_actor(a.clone());
        let mut right = base.fork().with_actor(a.clone());
        for _ in 0..rng.range(1, 3) {
            edits(&mut left, rng, 2, &cfg, &mut log, "left");
            left.commit();
        }
        for _ in 0..rng.range(1, 3) {
            edits(&mut right, rng, 2, &cfg, &mut log, "right");
            right.commit();
        }
        // a third replica with its own actor builds on one branch (dependents of that branch)
        let mut third = if rng.chance(1, 2) { right.fork() } else { left.fork() }.with_actor(b.clone());
        for _ in 0..rng.range(1, 2) {
            edits(&mut third, rng, 2, &cfg, &mut log, "third");
            third.commit();
        }
        let mut seen = HashSet::new();
        let mut u: Vec<Change> = vec![];
        for d in [&mut base, &mut left, &mut right, &mut third] {
            for c in d.get_changes(&[]) {
                if seen.insert(c.hash()) {
                    u.push(c);
                }
            }
        }
        let n = u.len();
        let cands = object_ids(&u);
        let defs = vec![format!("Definition u : list change := {}.", coq_list(&u.iter().map(coq_change).collect::<Vec<_>>()))];
        let mut cases = vec![];
        let n_sched = if thorough { 6 } else { 4 };
        let mut saw_error = false;
        for si in 0..n_sched {
            let mut order: Vec<usize> = (0..n).collect();
            rng.shuffle(&mut order);
            let mut batches: Vec<Vec<usize>> = vec![];
            let mut i = 0;
            while i < order.len() {
                let k = if si == 0 { 1 } else { rng.range(1, 3) as usize };
                batches.push(order[i..(i + k).min(order.len())].to_vec());
                i += k;
            }
            // re-deliver everything once more at the end, one by one (late arrivals after errors)
            if si >= 2 {
                let mut again: Vec<usize> = (0..n).collect();
                rng.shuffle(&mut again);
                batches.extend(again.into_iter().map(|i| vec![i]));
            }
            let mut doc = Automerge::new_with_encoding(TextEncoding::UnicodeCodePoint);
            let nb = batches.len();
            let obs_points: BTreeSet<usize> = [nb - 1, rng.below(nb as u64) as usize].into_iter().collect();
            let mut steps = vec![];
            let mut broke = false;
            for (bi, bt) in batches.iter().enumerate() {
                let cs: Vec<Change> = bt.iter().map(|i| u[*i].clone()).collect();
                let before = (sorted(doc.get_heads()), render_plain(&doc, &cands));
                let missing_before = sorted(doc.get_missing_deps(&[]));
                let st = match guard(|| doc.apply_changes(cs)) {
                    Ok(Ok(())) => 0,
                    Ok(Err(_)) => 2,
                    Err(p) => {
                        rep.fail(&["C38", "C06", "C37", "C15"], &format!("panic|apply_changes|{}", p.signature()),
                            &format!("apply_changes panicked: {} at {}", p.message, p.location), json!({"universe": ui, "log": log, "batches": batches}));
                        broke = true;
                        break;
                    }
                };
                if st == 2 {
                    saw_error = true;
                    rep.count("rejected_calls");
                    // C06 direct: heads and visible state unchanged by a failed call
                    let after = (sorted(doc.get_heads()), render_plain(&doc, &cands));
                    if before != after {
                        rep.fail(&["C06"], "conf|error-changed-state", "a call that returned an error changed heads or visible state",
                            json!({"universe": ui, "log": log, "batches": batches, "step": bi}));
                    }
                    // ... and so is the pending queue (observed through get_missing_deps)
                    if sorted(doc.get_missing_deps(&[])) != missing_before {
                        rep.fail(&["C06"], "conf|error-pruned-queue",
                            "apply_changes returned DuplicateSeqNumber and dropped held changes (get_missing_deps changed)",
                            json!({"universe": ui, "log": log, "batches": batches, "step": bi}));
                    }
                }
                // C38 direct: no two applied changes share (actor, seq)
                let mut pairs = HashSet::new();
                for c in doc.get_changes(&[]) {
                    if !pairs.insert((c.actor_id().clone(), c.seq())) {
                        rep.fail(&["C38"], "conf|duplicate-actor-seq", "the document holds two changes with the same actor and sequence number",
                            json!({"universe": ui, "log": log, "batches": batches, "step": bi}));
                    }
                }
                // C06 direct: whatever happened, the document saves and reloads to the same state
                let bytes = doc.save();
                match guard(|| Automerge::load(&bytes)) {
                    Ok(Ok(l)) => {
                        if render_plain(&l, &cands) != render_plain(&doc, &cands) || sorted(l.get_heads()) != sorted(doc.get_heads()) {
                            rep.fail(&["C06", "C11"], "conf|reload-differs", "save+load after a sequence of calls gives a different document",
                                json!({"universe": ui, "log": log, "batches": batches, "step": bi}));
                        }
                    }
                    Ok(Err(e)) => rep.fail(&["C06", "C11"], "conf|reload-failed", &format!("a document cannot be reloaded: {}", e),
                        json!({"universe": ui, "log": log, "batches": batches, "step": bi})),
                    Err(p) => rep.fail(&["C06", "C11", "C15"], &format!("panic|load|{}", p.signature()), &format!("load(save) panicked: {}", p.message),
                        json!({"universe": ui, "log": log, "batches": batches, "step": bi})),
                }
                let obs = if obs_points.contains(&bi) {
                    match observe(&doc, &cands, None) {
                        Ok((o, _)) => format!("(Some {})", o),
                        Err(_) => "None".into(),
                    }
                } else {
                    "None".into()
                };
                steps.push(format!("({},{},{},{},{})", coq_nlist(bt.iter().map(|x| *x as u128)), st,
                    coq_hashes(&sorted(doc.get_heads())), coq_hashes(&sorted(doc.get_missing_deps(&[]))), obs));
            }
            if !broke {
                cases.push((format!("chk_run u {}", coq_list(&steps)),
                    json!({"kind": "conflict-deliveries", "props": ["C38", "C05", "C06"], "universe": ui, "schedule": si, "log": log, "batches": batches})));
            }
            rep.count("schedules");
        }
        // ---------- a local commit against a HELD conflicting branch of its own actor (C38) ----------
        // a stale replica reusing actor `a` made (a, k) on top of another actor's change t; the document gets
        // (a, k) before t, so it is held; then the document commits its own (a, k): the held branch must go
        {
            use automerge::transaction::Transactable;
            let mut stale = base.fork().with_actor(a.clone());
            let mut other = base.fork().with_actor(gen::actor(rng, 5));
            let _ = other.put(automerge::ROOT, "o", ui as i64);
            other.commit();
            let base_heads = base.get_heads();
            let t: Vec<Change> = other.get_changes(&base_heads);
            if stale.merge(&mut other).is_ok() {
                for k in 0..rng.range(1, 2) {
                    let _ = stale.put(automerge::ROOT, "s", k as i64);
                    edits(&mut stale, rng, 1, &cfg, &mut log, "stale");
                    stale.commit();
                }
                let held: Vec<Change> = stale.get_changes(&base_heads).into_iter().filter(|c| c.actor_id() == &a).collect();
                let mut d = base.fork().with_actor(a.clone());
                let appl: Vec<Change> = d.get_changes(&[]);
                let r = guard(|| d.apply_changes(held.clone()));
                let held_ok = matches!(r, Ok(Ok(()))) && !d.get_missing_deps(&[]).is_empty();
                if held_ok {
                    let _ = d.put(automerge::ROOT, "local", 1i64);
                    match guard(|| d.commit()) {
                        Ok(Some(h)) => {
                            let c = d.get_change_by_hash(&h).unwrap();
                            let missing_after = sorted(d.get_missing_deps(&[]));
                            if !missing_after.is_empty() {
                                rep.fail(&["C38"], "conf|commit-kept-conflicting-branch",
                                    "a local commit claimed (actor, seq) but held changes of the same actor with that or a later seq stayed in the queue",
                                    json!({"universe": ui, "log": log, "held": held.iter().map(|c| (c.seq(), hex(&c.hash().0))).collect::<Vec<_>>(), "local_seq": c.seq()}));
                            }
                            cases.push((
                                format!("chk_commit_prune {} {} {} {} {} {}", coq_list(&appl.iter().map(coq_change).collect::<Vec<_>>()),
                                    coq_list(&held.iter().map(coq_change).collect::<Vec<_>>()), coq_actor(&a), coq_hash(&h), c.seq(), coq_hashes(&missing_after)),
                                json!({"kind": "commit-prune", "props": ["C38"], "universe": ui, "log": log}),
                            ));
                            // the missing dependency arrives, then the discarded branch is delivered again
                            let mut ok = matches!(guard(|| d.apply_changes(t.clone())), Ok(Ok(())));
                            let again = guard(|| d.apply_changes(held.clone()));
                            if again.is_err() {
                                ok = false;
                            }
                            let consistent = guard(|| {
                                let mut pairs = HashSet::new();
                                let mut good = true;
                                for c in d.get_changes(&[]) {
                                    if !pairs.insert((c.actor_id().clone(), c.seq())) {
                                        good = false;
                                    }
                                }
                                let bytes = d.save();
                                good && Automerge::load(&bytes).is_ok()
                            });
                            if !matches!(consistent, Ok(true)) {
                                ok = false;
                            }
                            if !ok {
                                rep.fail(&["C38", "C06"], "conf|commit-vs-held-branch-inconsistent",
                                    "after a local commit against a held conflicting branch the document panicked, holds a duplicate (actor, seq) or cannot be reloaded",
                                    json!({"universe": ui, "log": log}));
                            }
                            rep.count("commit_vs_held_branch");
                        }
                        Ok(None) => {}
                        Err(p) => rep.fail(&["C38", "C37"], &format!("panic|commit|{}", p.signature()), &format!("commit panicked: {}", p.message), json!({"universe": ui, "log": log})),
                    }
                }
            }
        }
        if saw_error {
            rep.count("universes_with_rejections");
        }
        rep.case(if saw_error { Some(fnv(format!("{:?}", u.iter().map(|c| c.hash()).collect::<Vec<_>>()).as_bytes())) } else { None });
        if ui < 2 {
            rep.sample(json!({"changes": n, "log": log.iter().take(20).collect::<Vec<_>>()}));
        }
        cw.push_group(&defs, cases);
    }
    rep.model_cases = cw.total as u64;
    cw.finish();
    rep
}
