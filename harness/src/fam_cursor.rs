// Family "cursor": C26 (cursors track their element through edits).
// Replicas edit one list and one text (four text encodings), concurrently overwrite / delete /
// insert, merge; cursors (both move modes) are taken at random indexes and times and resolved
// later — in the replica that made them, in the other replicas, at the current state and at
// historical heads.  Every resolution is compared with the model (Crdt/Cursor.v) evaluated over
// the operations decoded from the replica's changes; direct checks on the implementation:
// get_cursor_position(get_cursor(i)) = i, no panics, both modes agree while the op is visible.
use crate::gen;
use crate::model::*;
use crate::util::*;
use automerge::transaction::Transactable;
use automerge::{AutoCommit, ChangeHash, Cursor, MoveCursor, ObjId, ObjType, ReadDoc, ScalarValue, TextEncoding, ROOT};
use serde_json::json;

const HEADER: &str = "From AM Require Import Base.Prelude Base.Order Crdt.Types Crdt.Interp Crdt.Doc Crdt.Cursor Exec.CursorExec.\nLocal Open Scope N_scope.\n";

const ENCODINGS: [TextEncoding; 3] = [TextEncoding::UnicodeCodePoint, TextEncoding::Utf8CodeUnit, TextEncoding::Utf16CodeUnit];
fn enc_code(e: TextEncoding) -> u128 {
    match e {
        TextEncoding::UnicodeCodePoint => 1,
        TextEncoding::Utf8CodeUnit => 2,
        TextEncoding::Utf16CodeUnit => 3,
        TextEncoding::GraphemeCluster => 4,
    }
}
const CHARS: [&str; 6] = ["a", "b", "\u{e9}", "\u{6f22}", "\u{1F600}", "z"];

struct Taken {
    cursor: Cursor,
    obj: ObjId,
    is_text: bool,
    mode: MoveCursor,
    by: usize,
    at_index: usize,
}

/// "[-]ctr@actorhex" -> (ctr, actor bytes)
fn cursor_opid(c: &Cursor) -> Option<(u64, Vec<u8>)> {
    let s = c.to_string();
    let s = s.strip_prefix('-').unwrap_or(&s);
    let (ctr, actor) = s.split_once('@')?;
    Some((ctr.parse().ok()?, unhex(actor)))
}

fn coq_cursor_id(c: &Cursor) -> Option<String> {
    cursor_opid(c).map(|(ctr, a)| format!("({},{})", ctr, coq_bytes(&a)))
}

fn mode_code(m: &MoveCursor) -> u128 {
    match m {
        MoveCursor::After => 0,
        MoveCursor::Before => 1,
    }
}

fn edit(doc: &mut AutoCommit, rng: &mut Rng, list: &ObjId, text: &ObjId, log: &mut Vec<String>, who: usize) {
    let ll = doc.length(list);
    let tl = doc.length(text);
    match rng.below(14) {
        0..=2 => {
            let i = rng.below(ll as u64 + 1) as usize;
            let v = rng.below(100) as i64;
            if doc.insert(list, i, v).is_ok() {
                log.push(format!("r{} lins {} {}", who, i, v));
            }
        }
        3 | 4 if ll > 0 => {
            let i = rng.below(ll as u64) as usize;
            if doc.delete(list, i).is_ok() {
                log.push(format!("r{} ldel {}", who, i));
            }
        }
        5 | 6 if ll > 0 => {
            // overwrite: the element stays, its winning op changes (low indexes are favoured so that replicas
            // overwrite the same element concurrently: conflicted elements, losers before winners)
            let i = if rng.chance(1, 2) { rng.below(ll.min(2) as u64) as usize } else { rng.below(ll as u64) as usize };
            let v: ScalarValue = if rng.chance(1, 4) { ScalarValue::counter(rng.below(9) as i64) } else { ScalarValue::Str(rng.pick(&CHARS).to_string().into()) };
            if doc.put(list, i, v.clone()).is_ok() {
                log.push(format!("r{} lput {} {:?}", who, i, v));
            }
        }
        7 if ll > 0 => {
            let i = rng.below(ll as u64) as usize;
            let n = rng.below((ll - i).min(3) as u64 + 1) as isize;
            let vals: Vec<ScalarValue> = (0..rng.below(3)).map(|k| ScalarValue::Int(k as i64)).collect();
            let nv = vals.len();
            if doc.splice(list, i, n, vals).is_ok() {
                log.push(format!("r{} lsplice {} {} +{}", who, i, n, nv));
            }
        }
        8..=10 => {
            // text positions must be element starts: walk the text to find them
            let starts = text_starts(doc, text);
            let pos = *rng.pick(&starts);
            let s: String = (0..rng.range(1, 3)).map(|_| *rng.pick(&CHARS)).collect();
            if doc.splice_text(text, pos, 0, &s).is_ok() {
                log.push(format!("r{} tins {} {:?}", who, pos, s));
            }
        }
        11 | 12 if tl > 0 => {
            let starts = text_starts(doc, text);
            let k = rng.below(starts.len() as u64 - 1) as usize; // element k
            let n = rng.range(1, 2).min((starts.len() - 1 - k) as u64) as usize;
            let del = starts[k + n] - starts[k];
            if doc.splice_text(text, starts[k], del as isize, "").is_ok() {
                log.push(format!("r{} tdel {} {}", who, starts[k], del));
            }
        }
        _ => {
            if doc.commit().is_some() {
                log.push(format!("r{} commit", who));
            }
        }
    }
}

/// start offsets of the text's elements in the document's encoding, plus the total length
fn text_starts(doc: &AutoCommit, text: &ObjId) -> Vec<usize> {
    let s = doc.text(text).unwrap_or_default();
    let enc = doc.text_encoding();
    let mut out = vec![0usize];
    let mut acc = 0usize;
    for ch in s.chars() {
        acc += match enc {
            TextEncoding::UnicodeCodePoint => 1,
            TextEncoding::Utf8CodeUnit => ch.len_utf8(),
            TextEncoding::Utf16CodeUnit => ch.len_utf16(),
            TextEncoding::GraphemeCluster => 1,
        };
        out.push(acc);
    }
    out
}

pub fn run(rng: &mut Rng, tier: &str, out: &str) -> Report {
    let mut rep = Report::new("cursor");
    let mut cw = CaseWriter::new(out, "cursor", HEADER, 1);
    let thorough = tier == "thorough";
    let n_hist = if thorough { 150 } else { 14 };
    for hi in 0..n_hist {
        let enc = ENCODINGS[hi % 3];
        let nrep = rng.range(2, 3) as usize;
        let mut log: Vec<String> = vec![format!("encoding {:?}", enc)];
        let mut base = AutoCommit::new_with_encoding(enc).with_actor(gen::actor(rng, 0));
        let list = base.put_object(ROOT, "l", ObjType::List).unwrap();
        let text = base.put_object(ROOT, "t", ObjType::Text).unwrap();
        for k in 0..rng.range(2, 5) {
            base.insert(&list, k as usize, k as i64).unwrap();
        }
        base.splice_text(&text, 0, 0, "h\u{e9}\u{1F600}lo").unwrap();
        base.commit();
        let mut reps: Vec<AutoCommit> = vec![base];
        for i in 1..nrep {
            let f = reps[0].fork().with_actor(gen::actor(rng, i));
            reps.push(f);
        }
        let mut taken: Vec<Taken> = vec![];
        let mut cursor_heads: Vec<Vec<ChangeHash>> = vec![];
        let mut head_sets: Vec<Vec<ChangeHash>> = vec![reps[0].get_heads()];
        let steps = if thorough { rng.range(20, 70) } else { rng.range(15, 45) } as usize;
        let mut panicked = false;
        for _ in 0..steps {
            let r = rng.below(nrep as u64) as usize;
            let roll = rng.below(100);
            if roll < 55 {
                let res = guard(|| edit(&mut reps[r], rng, &list, &text, &mut log, r));
                if let Err(p) = res {
                    rep.fail(&["C03", "C37"], &format!("panic|edit|{}", p.signature()), &format!("an editing call panicked: {} at {}", p.message, p.location), json!({"log": log}));
                    panicked = true;
                    break;
                }
            } else if roll < 75 {
                // take a cursor
                let is_text = rng.chance(1, 2);
                let obj = if is_text { text.clone() } else { list.clone() };
                let positions: Vec<usize> = if is_text { let mut s = text_starts(&reps[r], &text); s.pop(); s } else { (0..reps[r].length(&list)).collect() };
                if positions.is_empty() {
                    continue;
                }
                let i = *rng.pick(&positions);
                let after = rng.chance(1, 2);
                let mk = || if after { MoveCursor::After } else { MoveCursor::Before };
                match guard(|| reps[r].get_cursor_moving(&obj, i, None, mk())) {
                    Ok(Ok(c)) => {
                        // direct: it resolves to i right away
                        match guard(|| reps[r].get_cursor_position(&obj, &c, None)) {
                            Ok(Ok(p)) if p == i => {}
                            Ok(other) => rep.fail(&["C26"], "cursor|fresh-cursor-position", &format!("get_cursor_position(get_cursor({})) = {:?}", i, other), json!({"log": log, "index": i, "text": is_text})),
                            Err(p) => rep.fail(&["C26", "C37"], &format!("panic|get_cursor_position|{}", p.signature()), &format!("get_cursor_position panicked: {}", p.message), json!({"log": log})),
                        }
                        log.push(format!("r{} cursor {} at {} of {} -> {}", r, if after { "after" } else { "before" }, i, if is_text { "t" } else { "l" }, c));
                        taken.push(Taken { cursor: c, obj, is_text, mode: mk(), by: r, at_index: i });
                        // the heads at which the cursor was taken become a view for the historical resolutions
                        // (the state in which the cursor's op is the winner of a possibly conflicted element)
                        cursor_heads.push(reps[r].get_heads());
                        rep.count("cursors_taken");
                    }
                    Ok(Err(e)) => rep.fail(&["C26"], "cursor|get_cursor-failed", &format!("get_cursor at a valid index {} failed: {}", i, e), json!({"log": log})),
                    Err(p) => rep.fail(&["C26", "C37"], &format!("panic|get_cursor|{}", p.signature()), &format!("get_cursor panicked: {}", p.message), json!({"log": log})),
                }
            } else if roll < 92 {
                let o = rng.below(nrep as u64) as usize;
                if o != r {
                    let (a, b) = if r < o {
                        let (x, y) = reps.split_at_mut(o);
                        (&mut x[r], &mut y[0])
                    } else {
                        let (x, y) = reps.split_at_mut(r);
                        (&mut y[0], &mut x[o])
                    };
                    match guard(|| a.merge(b)) {
                        Ok(Ok(_)) => {
                            log.push(format!("r{} merge r{}", r, o));
                            head_sets.push(a.get_heads());
                        }
                        Ok(Err(e)) => rep.fail(&["C01"], "cursor|merge-failed", &format!("merge failed: {}", e), json!({"log": log})),
                        Err(p) => {
                            rep.fail(&["C01", "C37"], &format!("panic|merge|{}", p.signature()), &format!("merge panicked: {}", p.message), json!({"log": log}));
                            panicked = true;
                            break;
                        }
                    }
                }
            } else {
                reps[r].commit();
                head_sets.push(reps[r].get_heads());
            }
        }
        if panicked {
            continue;
        }
        // ---- resolve every cursor in every replica, now and at some historical heads ----
        let mut nontrivial = false;
        for (ri, rp) in reps.iter_mut().enumerate() {
            rp.commit();
            let changes = rp.get_changes(&[]);
            let mut defs = vec![format!("Definition u : list change := {}.", coq_list(&changes.iter().map(coq_change).collect::<Vec<_>>()))];
            let mut cases: Vec<(String, serde_json::Value)> = vec![];
            let known: std::collections::HashSet<ChangeHash> = changes.iter().map(|c| c.hash()).collect();
            let mut hsets: Vec<Vec<ChangeHash>> = head_sets.iter().filter(|h| h.iter().all(|x| known.contains(x))).cloned().collect();
            rng.shuffle(&mut hsets);
            hsets.truncate(2);
            // plus one of the head sets at which a cursor was taken (if this replica knows it)
            let mut chs: Vec<Vec<ChangeHash>> = cursor_heads.iter().filter(|h| h.iter().all(|x| known.contains(x)) && !hsets.contains(h)).cloned().collect();
            rng.shuffle(&mut chs);
            hsets.extend(chs.into_iter().take(1));
            let mut views: Vec<Option<Vec<ChangeHash>>> = vec![None];
            views.extend(hsets.into_iter().map(Some));
            // the operations of each object in each view are computed once per case file
            for (vi, hs) in views.iter().enumerate() {
                let mut hsorted: Vec<ChangeHash> = hs.clone().unwrap_or_default();
                hsorted.sort();
                for (name, obj) in [("l", &list), ("t", &text)] {
                    defs.push(format!("Definition o{}_{} : list op := Eval vm_compute in obj_ops (ops_at u {}) {}.", name, vi, coq_hashes(&hsorted), coq_objid(obj)));
                }
            }
            for t in &taken {
                let Some(cid) = coq_cursor_id(&t.cursor) else { continue };
                for (vi, hs) in views.iter().enumerate() {
                    let r = guard(|| rp.get_cursor_position(&t.obj, &t.cursor, hs.as_deref()));
                    let (st, v) = match &r {
                        Ok(Ok(p)) => (0u128, *p as u128),
                        Ok(Err(_)) => (2, 0),
                        Err(p) => {
                            rep.fail(&["C26", "C37"], &format!("panic|get_cursor_position|{}", p.signature()),
                                &format!("get_cursor_position panicked: {} at {}", p.message, p.location),
                                json!({"log": log, "replica": ri, "cursor": t.cursor.to_string(), "heads": hs.as_ref().map(|h| h.iter().map(|x| hex(&x.0)).collect::<Vec<_>>())}));
                            continue;
                        }
                    };
                    let moved = st == 0 && v as usize != t.at_index;
                    if moved {
                        nontrivial = true;
                    }
                    rep.case(if moved { Some(fnv(format!("{:?}{}{}{:?}", log, t.cursor, ri, hs).as_bytes())) } else { None });
                    if st == 0 {
                        rep.count(if hs.is_some() { "resolved_at_heads" } else { "resolved_current" });
                    } else {
                        rep.count("invalid_cursor");
                    }
                    cases.push((
                        format!("chk_resolve o{}_{} {} {} {} {} {}", if t.is_text { "t" } else { "l" }, vi,
                            if t.is_text { enc_code(enc) } else { 0 }, mode_code(&t.mode), cid, st, v),
                        json!({"kind": "resolve", "props": ["C26"], "log": log, "replica": ri, "cursor": t.cursor.to_string(), "taken_by": t.by,
                               "heads": hs.as_ref().map(|h| h.iter().map(|x| hex(&x.0)).collect::<Vec<_>>()), "impl": format!("{:?}", r.as_ref().map(|x| x.as_ref().ok()))}),
                    ));
                }
            }
            // a cursor used with the wrong object id is rejected (never a panic, never a position)
            for t in &taken {
                let Some(cid) = coq_cursor_id(&t.cursor) else { continue };
                let other = if t.is_text { &list } else { &text };
                match guard(|| rp.get_cursor_position(other, &t.cursor, None)) {
                    Ok(r) => {
                        let (st, v) = match &r { Ok(p) => (0u128, *p as u128), Err(_) => (2, 0) };
                        cases.push((
                            format!("chk_resolve o{}_0 {} {} {} {} {}", if t.is_text { "l" } else { "t" }, if t.is_text { 0 } else { enc_code(enc) }, mode_code(&t.mode), cid, st, v),
                            json!({"kind": "resolve-foreign", "props": ["C26", "C37"], "log": log, "replica": ri, "cursor": t.cursor.to_string()}),
                        ));
                        rep.count("foreign_object_resolutions");
                    }
                    Err(p) => rep.fail(&["C26", "C37"], &format!("panic|get_cursor_position|{}", p.signature()),
                        &format!("get_cursor_position with a cursor of another object panicked: {} at {}", p.message, p.location),
                        json!({"log": log, "replica": ri, "cursor": t.cursor.to_string()})),
                }
            }
            // get_cursor at every index of the current state names the model's winner op
            for (obj, is_text) in [(&list, false), (&text, true)] {
                let len = rp.length(obj);
                for i in 0..=len {
                    if let Ok(r) = guard(|| rp.get_cursor(obj, i, None)) {
                        let (st, cid) = match &r {
                            Ok(c) => match coq_cursor_id(c) { Some(x) => (0, x), None => continue },
                            Err(_) => (2, "(0,[])".to_string()),
                        };
                        cases.push((
                            format!("chk_cursor_at o{}_0 {} {} {} {}", if is_text { "t" } else { "l" }, if is_text { enc_code(enc) } else { 0 }, i, st, cid),
                            json!({"kind": "cursor_at", "props": ["C26"], "log": log, "replica": ri, "index": i, "text": is_text}),
                        ));
                        // direct: a cursor at an element start resolves to that index
                        if let Ok(c) = &r {
                            if let Ok(Ok(p)) = guard(|| rp.get_cursor_position(obj, c, None)) {
                                if p > i || (!is_text && p != i) {
                                    rep.fail(&["C26"], "cursor|fresh-cursor-position", &format!("get_cursor_position(get_cursor({})) = {}", i, p), json!({"log": log, "replica": ri}));
                                }
                            }
                        }
                    }
                }
            }
            rep.add("model_cases", cases.len() as u64);
            cw.push_group(&defs, cases);
        }
        if nontrivial {
            rep.count("histories_with_moved_cursor");
        }
        rep.count("histories");
        if hi < 2 {
            rep.sample(json!({"replicas": nrep, "cursors": taken.len(), "log": log.iter().take(30).collect::<Vec<_>>()}));
        }
    }
    rep.model_cases = cw.total as u64;
    cw.finish();
    rep
}
