// Family "doc": the document chunk body (C11; reused by C16) against the model of
// Store/DocChunk.v (Document::parse / Document::new) and Store/DocCols.v (ChangeGraph::encode /
// ChangeGraphCols::load).
//
// Stream 1 (saved documents): multi-replica histories (3-5 actors whose byte order differs from their
// creation order, empty changes, messages none / empty / ASCII / multi-byte, timestamps negative / large,
// changes carrying extra bytes, merges with several dependencies, optionally > 70 changes) saved with
// save_nocompress() and save(); `chk_doc` = the model parses the chunk body to exactly the
// implementation's actor table, heads, head indexes and per-change metadata (stored order), re-encodes the
// change columns to the same bytes, and (uncompressed) write_doc reproduces the body byte for byte.  For
// save() the inflated bytes of the compressed columns are handed to the model (its DEFLATE parameter).
// Stream 2 (mutants): byte edits in the header region and the change-metadata columns of an uncompressed
// body, checksum recomputed, given to Automerge::load under the panic guard; `chk_doc_mut` compares
// accept / reject (+ fields when accepted) with the model.  Implementation panics are recorded for C15
// (they are C15's subject and listed there), never for C11.
use crate::fam_robust::{frame, uleb};
use crate::util::*;
use automerge::transaction::{CommitOptions, Transactable};
use automerge::{ActorId, AutoCommit, Automerge, Change, ChangeHash, ObjType, ReadDoc, ROOT};
use serde_json::json;
use std::collections::HashMap;

const HEADER: &str = "From AM Require Import Base.Prelude Store.DocCols Exec.DocExec.\nLocal Open Scope N_scope.\n";

fn read_uleb(b: &[u8], pos: usize) -> Option<(u64, usize)> {
    let mut v: u64 = 0;
    let mut shift = 0;
    let mut i = pos;
    loop {
        let x = *b.get(i)?;
        if shift < 64 {
            v |= ((x & 0x7f) as u64) << shift;
        }
        shift += 7;
        i += 1;
        if x & 0x80 == 0 {
            return Some((v, i - pos));
        }
        if i - pos > 10 {
            return None;
        }
    }
}

/// chunk data of a one-chunk file
fn body_of(file: &[u8]) -> Option<Vec<u8>> {
    if file.len() < 10 || file[8] != 0 {
        return None;
    }
    let (len, n) = read_uleb(file, 9)?;
    let start = 9 + n;
    if start + len as usize != file.len() {
        return None;
    }
    Some(file[start..].to_vec())
}

/// layout of a VALID body read by the harness: (offset of the column metadata, offset of the change data,
/// offset of the op data, change columns (spec, offset, len))
struct Layout {
    meta_start: usize,
    cdata: usize,
    odata: usize,
    ccols: Vec<(u32, usize, usize)>,
    ocols: Vec<(u32, usize, usize)>,
}
fn layout(b: &[u8]) -> Option<Layout> {
    let mut p = 0;
    let (na, n) = read_uleb(b, p)?;
    p += n;
    for _ in 0..na {
        let (l, n) = read_uleb(b, p)?;
        p += n + l as usize;
    }
    let (nh, n) = read_uleb(b, p)?;
    p += n + 32 * nh as usize;
    let meta_start = p;
    let mut read_cols = |p: &mut usize| -> Option<Vec<(u32, usize)>> {
        let (nc, n) = read_uleb(b, *p)?;
        *p += n;
        let mut v = vec![];
        for _ in 0..nc {
            let (s, n) = read_uleb(b, *p)?;
            *p += n;
            let (l, n) = read_uleb(b, *p)?;
            *p += n;
            v.push((s as u32, l as usize));
        }
        Some(v)
    };
    let cc = read_cols(&mut p)?;
    let oc = read_cols(&mut p)?;
    let cdata = p;
    let mut ccols = vec![];
    for (s, l) in cc {
        ccols.push((s, p, l));
        p += l;
    }
    let odata = p;
    let mut ocols = vec![];
    for (s, l) in oc {
        ocols.push((s, p, l));
        p += l;
    }
    if p > b.len() {
        return None;
    }
    Some(Layout { meta_start, cdata, odata, ccols, ocols })
}

fn inflate(b: &[u8]) -> Option<Vec<u8>> {
    use std::io::Read;
    let mut d = flate2::bufread::DeflateDecoder::new(b);
    let mut out = vec![];
    d.read_to_end(&mut out).ok()?;
    Some(out)
}

fn coq_pairs(ps: &[(Vec<u8>, Vec<u8>)]) -> String {
    coq_list(&ps.iter().map(|(a, b)| format!("({},{})", coq_bytes(a), coq_bytes(b))).collect::<Vec<_>>())
}

/// what the implementation reports about a document: sorted actor table, heads, head indexes and the
/// changes in stored order as Coq records
struct Observed {
    actors: Vec<Vec<u8>>,
    heads: Vec<Vec<u8>>,
    hidx: Vec<u64>,
    metas: Vec<String>,
    n_changes: usize,
    max_deps: usize,
}
fn observe(doc: &Automerge) -> Observed {
    let changes: Vec<Change> = doc.get_changes(&[]);
    let mut actors: Vec<Vec<u8>> = changes.iter().map(|c| c.actor_id().to_bytes().to_vec()).collect();
    actors.sort();
    actors.dedup();
    let pos: HashMap<ChangeHash, usize> = changes.iter().enumerate().map(|(i, c)| (c.hash(), i)).collect();
    let heads = doc.get_heads();
    let hidx = heads.iter().map(|h| *pos.get(h).unwrap_or(&usize::MAX) as u64).collect();
    let mut max_deps = 0;
    let metas = changes
        .iter()
        .map(|c| {
            let a = actors.iter().position(|x| x.as_slice() == c.actor_id().to_bytes()).unwrap();
            let deps: Vec<u128> = c.deps().iter().map(|d| *pos.get(d).unwrap_or(&usize::MAX) as u128).collect();
            max_deps = max_deps.max(deps.len());
            format!(
                "(mkMeta {} {} {} {} {} {} {})",
                a,
                c.seq(),
                c.max_op(),
                coq_z(c.timestamp() as i128),
                coq_opt(c.message().map(|m| coq_bytes(m.as_bytes()))),
                coq_nlist(deps),
                coq_bytes(c.extra_bytes())
            )
        })
        .collect();
    Observed {
        actors,
        heads: heads.iter().map(|h| h.0.to_vec()).collect(),
        hidx,
        metas,
        n_changes: changes.len(),
        max_deps,
    }
}

fn coq_bl(l: &[Vec<u8>]) -> String {
    coq_list(&l.iter().map(|b| coq_bytes(b)).collect::<Vec<_>>())
}

const MESSAGES: [Option<&str>; 6] = [None, Some(""), Some("fix"), Some("h\u{e9}llo \u{6f22}"), Some("\u{1f600}\u{301}"), None];
// i64::MAX followed by i64::MIN makes the implementation's own timestamp delta column overflow (panic in
// hexane/src/delta/mod.rs while committing): outside this family's subject, so the extremes are +-2^62
const TIMES: [i64; 7] = [0, 1, -1, 1_700_000_000_000, -62_135_596_800_000, (1 << 62) - 1, -(1 << 62)];

fn commit_opts(rng: &mut Rng) -> CommitOptions {
    let mut o = CommitOptions::default();
    if let Some(m) = MESSAGES[rng.below(MESSAGES.len() as u64) as usize] {
        o = o.with_message(m.to_string());
    }
    o.with_time(TIMES[rng.below(TIMES.len() as u64) as usize])
}

/// actor ids whose byte order is unrelated to their creation order, of varying length
fn actor(rng: &mut Rng, i: usize) -> ActorId {
    let mut b = vec![rng.next() as u8, i as u8];
    let extra = rng.below(4) as usize;
    b.extend(rng.bytes(extra));
    ActorId::from(b)
}

/// a change made on a throw-away fork of `r` by a fresh actor, re-framed with extra bytes after its columns
fn change_with_extra(r: &mut AutoCommit, rng: &mut Rng, actor: ActorId) -> Option<Change> {
    let mut f = r.fork().with_actor(actor);
    f.put(ROOT, "x", rng.below(1000) as i64).ok()?;
    f.commit_with(commit_opts(rng));
    let c = f.get_last_local_change()?.clone();
    let raw = c.raw_bytes().to_vec();
    if raw.len() < 10 || raw[8] != 1 {
        return None;
    }
    let (len, n) = read_uleb(&raw, 9)?;
    let mut data = raw[9 + n..9 + n + len as usize].to_vec();
    let nextra = rng.range(1, 40) as usize;
    data.extend(rng.bytes(nextra));
    Change::from_bytes(frame(1, &data)).ok()
}

/// a multi-replica history merged into replica 0
fn history(rng: &mut Rng, long: bool) -> Option<AutoCommit> {
    let n = rng.range(3, 5) as usize;
    let mut reps: Vec<AutoCommit> = vec![];
    let mut base = AutoCommit::new().with_actor(actor(rng, 0));
    base.put(ROOT, "k0", 1i64).ok()?;
    base.commit_with(commit_opts(rng));
    for i in 0..n {
        let r = if i == 0 { base.fork().with_actor(actor(rng, 16)) } else { base.fork().with_actor(actor(rng, i)) };
        reps.push(r);
    }
    let steps = if long { rng.range(80, 130) } else { rng.range(6, 30) };
    let mut extra_actor = 40usize;
    for _ in 0..steps {
        let i = rng.below(n as u64) as usize;
        match rng.below(12) {
            0 => {
                reps[i].empty_change(commit_opts(rng));
            }
            1 | 2 => {
                let j = rng.below(n as u64) as usize;
                if i != j {
                    let mut other = reps[j].fork();
                    reps[i].merge(&mut other).ok()?;
                }
            }
            3 => {
                extra_actor += 1;
                let xa = actor(rng, extra_actor);
                if let Some(c) = change_with_extra(&mut reps[i], rng, xa) {
                    reps[i].apply_changes(vec![c]).ok()?;
                }
            }
            4 => {
                let t = reps[i].put_object(ROOT, "t", ObjType::Text).ok()?;
                reps[i].splice_text(&t, 0, 0, "ab\u{e9}").ok()?;
                reps[i].commit_with(commit_opts(rng));
            }
            _ => {
                let k = format!("k{}", rng.below(4));
                for _ in 0..rng.range(1, 3) {
                    reps[i].put(ROOT, k.as_str(), rng.below(100) as i64).ok()?;
                }
                reps[i].commit_with(commit_opts(rng));
            }
        }
    }
    let mut out = reps.remove(0);
    for mut r in reps {
        out.merge(&mut r).ok()?;
    }
    if rng.chance(1, 2) {
        out.put(ROOT, "last", 0i64).ok()?;
        out.commit_with(commit_opts(rng));
    }
    Some(out)
}

/// `gentle` (positions inside the column metadata): only +-1 and low-bit flips, so that a column cannot swallow
/// its neighbours (a 9-byte timestamp read as a run count declares 2^62 items: resource exhaustion is C17's
/// subject).  Inside the column data a single edit stays inside one column (the ranges come from the header).
fn mutate(rng: &mut Rng, body: &[u8], lo: usize, hi: usize, gentle_from: usize, gentle_to: usize) -> (Vec<u8>, String) {
    let mut b = body.to_vec();
    let p = rng.range(lo as u64, hi as u64 - 1) as usize;
    let gentle = p >= gentle_from && p < gentle_to;
    let kind = match if gentle { 5 + rng.below(3) } else { rng.below(8) } {
        0 => {
            b[p] ^= 1 << rng.below(8);
            "bitflip"
        }
        1 => {
            b[p] = rng.below(128) as u8;
            "set-small"
        }
        2 => {
            b[p] = rng.next() as u8;
            "set-any"
        }
        3 => {
            b.insert(p, rng.below(128) as u8);
            "insert"
        }
        4 => {
            b.remove(p);
            "delete"
        }
        5 => {
            b[p] = b[p].wrapping_add(1);
            "inc"
        }
        6 => {
            b[p] = b[p].wrapping_sub(1);
            "dec"
        }
        7 if gentle => {
            b[p] ^= 1;
            "flip-low"
        }
        _ => {
            b[p] = 0;
            "zero"
        }
    };
    (b, kind.to_string())
}

pub fn run(rng: &mut Rng, tier: &str, out: &str) -> Report {
    let mut rep = Report::new("doc");
    let thorough = tier == "thorough";
    let n_docs = if thorough { 60 } else { 10 };
    let n_mut = if thorough { 60 } else { 14 };
    let mut cw = CaseWriter::new(out, "doc", HEADER, 8);
    for di in 0..n_docs {
        let long = di % 4 == 0;
        let mut r = rng.fork();
        let built = guard(|| history(&mut r, long));
        let mut doc = match built {
            Ok(Some(d)) => d,
            other => {
                rep.count(&format!("history-abandoned:{}", match other { Err(p) => p.signature(), _ => "none".to_string() }));
                continue;
            }
        };
        let plain = doc.save_nocompress();
        let packed = doc.save();
        let obs = observe(doc.document());
        rep.add("changes", obs.n_changes as u64);
        rep.add("actors", obs.actors.len() as u64);
        if obs.max_deps >= 2 {
            rep.count("docs-with-merge-deps");
        }
        if obs.n_changes > 70 {
            rep.count("docs-over-70-changes");
        }
        let sorted_as_created = obs.metas.first().map(|m| m.starts_with("(mkMeta 0 ")).unwrap_or(true);
        if !sorted_as_created {
            rep.count("docs-first-actor-not-first-in-table");
        }
        // direct: both saves load back to the same heads
        for (name, file) in [("nocompress", &plain), ("deflate", &packed)] {
            match guard(|| Automerge::load(file).map(|d| d.get_heads())) {
                Ok(Ok(h)) if h == doc.get_heads() => {}
                other => rep.fail(&["C11"], &format!("doc|reload|{}", name), &format!("load(save) of a generated document failed or changed the heads: {:?}", other.map(|r| r.map(|_| ()).map_err(|e| e.to_string())).map_err(|p| p.signature())), json!({"file": hex(file)})),
            }
        }
        for (name, file, exact) in [("nocompress", &plain, true), ("deflate", &packed, false)] {
            let body = match body_of(file) {
                Some(b) => b,
                None => {
                    rep.fail(&["C11"], "doc|save-not-one-document-chunk", "save() did not produce exactly one document chunk", json!({"file": hex(file)}));
                    continue;
                }
            };
            let mut infl: Vec<(Vec<u8>, Vec<u8>)> = vec![];
            if let Some(l) = layout(&body) {
                for (s, off, len) in l.ccols.iter().chain(l.ocols.iter()) {
                    if s & 8 != 0 {
                        if let Some(p) = inflate(&body[*off..*off + *len]) {
                            infl.push((body[*off..*off + *len].to_vec(), p));
                            rep.count("compressed-columns");
                        }
                    }
                }
            }
            let term = format!(
                "chk_doc {} {} {} {} {} {} {}",
                coq_pairs(&infl),
                coq_bool(exact),
                coq_bytes(&body),
                coq_bl(&obs.actors),
                coq_bl(&obs.heads),
                coq_nlist(obs.hidx.iter().map(|x| *x as u128)),
                coq_list(&obs.metas)
            );
            cw.push(term, json!({"kind": format!("chk_doc|{}", name), "props": ["C11", "C16"], "file": hex(file)}));
            rep.model_cases += 1;
            rep.case(if obs.actors.len() >= 2 && obs.n_changes >= 5 { Some(fnv(&body)) } else { None });
            rep.count(&format!("saved:{}", name));
        }
        // mutants of the uncompressed body: header region and change-metadata columns
        let body = match body_of(&plain) {
            Some(b) => b,
            None => continue,
        };
        let l = match layout(&body) {
            Some(l) => l,
            None => continue,
        };
        if long {
            continue; // keep the mutant cases small
        }
        for _ in 0..n_mut {
            let (lo, hi) = if rng.chance(1, 2) { (0, l.cdata) } else { (l.cdata, l.odata.max(l.cdata + 1)) };
            if hi <= lo {
                continue;
            }
            let (m, kind) = mutate(rng, &body, lo, hi.min(body.len()), l.meta_start, l.cdata);
            let file = frame(0, &m);
            let res = guard(|| Automerge::load(&file).map_err(|e| e.to_string()));
            let (k, fields) = match &res {
                Ok(Ok(d)) => match guard(|| observe(d)) {
                    Ok(o) => (0, Some(o)),
                    Err(p) => {
                        rep.fail(&["C16"], &format!("doc|panic|loaded|{}", p.signature()), &format!("get_changes / get_heads of an accepted mutated document panicked: {}", p.message), json!({"file": hex(&file)}));
                        rep.count("mutant-observe-panic");
                        continue;
                    }
                },
                Ok(Err(_)) => (1, None),
                Err(p) => {
                    rep.fail(&["C15"], &format!("doc|panic|load|{}", p.signature()), &format!("Automerge::load of a mutated document chunk panicked: {} at {}", p.message, p.location), json!({"file": hex(&file)}));
                    rep.count(&format!("mutant-panic:{}", p.signature()));
                    (2, None)
                }
            };
            rep.count(&format!("mutant:{}:{}", if lo == 0 { "header" } else { "change-cols" }, ["accepted", "error", "panic"][k]));
            let (a, h, ms) = match &fields {
                Some(o) => (coq_bl(&o.actors), coq_bl(&o.heads), coq_list(&o.metas)),
                None => ("[]".to_string(), "[]".to_string(), "[]".to_string()),
            };
            let term = format!("chk_doc_mut [] {} {} {} {} {}", coq_bytes(&m), k, a, h, ms);
            cw.push(term, json!({"kind": format!("chk_doc_mut|{}", kind), "props": ["C11", "C16"], "file": hex(&file), "impl": k}));
            rep.model_cases += 1;
            rep.case(None);
        }
    }
    let _ = uleb(0);
    cw.finish();
    rep
}
